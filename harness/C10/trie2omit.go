//vx:pkg core/trie2
//vx:include trie2proof.go
package trie2

import (
	"github.com/NethermindEth/juno/core/crypto"
	"github.com/NethermindEth/juno/core/felt"
	"github.com/NethermindEth/juno/core/trie2/trieutils"
	"github.com/NethermindEth/juno/zzverif/vx"
)

// C10-H5 (trie2 range proofs, dishonest responder): a range response that leaves out keys which the
// trie holds inside the claimed range does not verify. Trie at height 251, hashed (proof nodes carry
// cached hashes, as in every caller), with three keys in one of several shapes (keys given by their
// low byte; values arbitrary non-zero); the responder builds the honest proof for [first, last] and
// then omits a non-empty subset of the in-range keys other than the last one. first is the smallest
// key or the (absent) key right after it. The honest response for the same range is the positive control.
var vxOmitLayouts = [][3]uint64{{16, 20, 200}, {16, 144, 200}, {100, 101, 102}, {3, 128, 130}}

func VxC10Trie2RangeOmission() {
	vx.Bound("height 251; 3 keys with low bytes from 4 fixed shapes (interior edge on the left boundary path, on the right, none), arbitrary non-zero values; range [first, k3] with first = k1 or k1+1; honest proof from GetRangeProof; responder omits any non-empty subset of the in-range keys other than k3 (or nothing: positive control)")
	trieutils.VxCaseSplitFirstSetBit()
	lay := vxOmitLayouts[vx.Choice("layout", len(vxOmitLayouts))]
	var ks, vs [3]felt.Felt
	t := NewEmpty(251, crypto.Pedersen)
	for i := range ks {
		ks[i] = felt.FromUint64[felt.Felt](lay[i])
		b := vx.FeltBytes("v")
		vs[i].SetBytes(b[:])
		vx.Assume(!vs[i].IsZero())
		vx.Assert(t.Update(&ks[i], &vs[i]) == nil, "update-ok")
	}
	root, herr := t.Hash()
	vx.Assert(herr == nil, "hash-ok")
	vx.NodeHashesSeparated()
	vx.CollisionFree()

	firstIsKey := vx.Choice("first-is-key", 2) == 1
	first := ks[0]
	lo := 0 // index of the first in-range key
	if !firstIsKey {
		first = felt.FromUint64[felt.Felt](lay[0] + 1)
		lo = 1
	}
	proof := NewProofNodeSet()
	vx.Assert(t.GetRangeProof(&first, &ks[2], proof) == nil, "prove-ok")
	// omission mask over the in-range keys except the last
	var keys, vals []*felt.Felt
	omitted := 0
	for i := lo; i < 2; i++ {
		if vx.Bool("omit") {
			omitted++
			continue
		}
		keys = append(keys, &ks[i])
		vals = append(vals, &vs[i])
	}
	keys = append(keys, &ks[2])
	vals = append(vals, &vs[2])
	_, err := VerifyRangeProof(&root, &first, keys, vals, proof)
	if omitted == 0 {
		vx.Cover("honest-response")
		vx.Assert(err == nil, "honest-range-response-verifies")
	} else {
		vx.Cover("keys-omitted")
		vx.Assert(err != nil, "range-response-with-omitted-keys-is-rejected")
	}
}
