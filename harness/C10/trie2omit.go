//vx:pkg core/trie2
//vx:include trie2proof.go
package trie2

import (
	"github.com/NethermindEth/juno/core/crypto"
	"github.com/NethermindEth/juno/core/felt"
	"github.com/NethermindEth/juno/core/trie2/trieutils"
	"github.com/NethermindEth/juno/zzverif/vx"
)

// C10-H5 (trie2 range proofs, dishonest responder): a range response that leaves out keys which the
// trie holds inside the claimed range does not verify. Trie at height 251, hashed (proof nodes carry
// cached hashes, as in every caller), with three keys in every shape a small universe of low bytes produces; the responder builds the honest proof for [first, last] and
// then omits a non-empty subset of the in-range keys other than the last one. first is the smallest
// key or the key right after it (absent, or - shape {100,101,102} - the second key itself, whose leaf
// hangs directly off a binary node: defect KF-C10-3, fixed). The honest response for the same range is
// the positive control.
var vxOmitUniverse = []uint64{16, 17, 20, 100, 101, 102, 144, 200}

func VxC10Trie2RangeOmission() {
	vx.Bound("height 251; every 3-subset of the low bytes {16,17,20,100,101,102,144,200} as keys (interior edges on either boundary path, sibling leaves below one binary node, none), fixed distinct non-zero values (the verdict does not depend on them; hashes stay uninterpreted and are compared under the ideal-hash assumptions); range [first, k3] with first = k1, k1+1 (absent, or the existing k2) or k1 rounded down to a multiple of 64 (absent, leaving k1's path inside an edge); honest proof from GetRangeProof over the hashed trie; responder omits any non-empty subset of the in-range keys other than k3 (or nothing: positive control)")
	trieutils.VxCaseSplitFirstSetBit()
	u := vxOmitUniverse
	i0 := vx.Choice("k1", len(u)-2)
	i1 := i0 + 1 + vx.Choice("k2", len(u)-2-i0)
	i2 := i1 + 1 + vx.Choice("k3", len(u)-1-i1)
	lay := [3]uint64{u[i0], u[i1], u[i2]}
	var ks, vs [3]felt.Felt
	t := NewEmpty(251, crypto.Pedersen)
	for i := range ks {
		ks[i] = felt.FromUint64[felt.Felt](lay[i])
		vs[i] = felt.FromUint64[felt.Felt](1000 + lay[i])
		vx.Assert(t.Update(&ks[i], &vs[i]) == nil, "update-ok")
	}
	root, herr := t.Hash()
	vx.Assert(herr == nil, "hash-ok")
	vx.NodeHashesSeparated()
	vx.CollisionFree()

	first := ks[0]
	lo := 0 // index of the first in-range key
	switch vx.Choice("first-is-key", 3) {
	case 0:
		first = felt.FromUint64[felt.Felt](lay[0] + 1)
		lo = 1
		if lay[1] == lay[0]+1 {
			vx.Cover("first-is-an-existing-leaf-below-a-binary-node")
		}
	case 2:
		// an ABSENT first key below k1 that leaves k1's path inside an edge, to the lower side (k1 rounded
		// down to a multiple of 64): the fork of the two boundary paths is an interior edge
		vx.Assume(lay[0]&0x3f != 0)
		first = felt.FromUint64[felt.Felt](lay[0] &^ 0x3f)
		vx.Cover("first-is-absent-and-forks-off-inside-an-edge-below-k1")
	}
	proof := NewProofNodeSet()
	vx.Assert(t.GetRangeProof(&first, &ks[2], proof) == nil, "prove-ok")
	// omission mask over the in-range keys except the last
	var keys, vals []*felt.Felt
	omitted := 0
	for i := lo; i < 2; i++ {
		if vx.Bool("omit") {
			omitted++
			continue
		}
		keys = append(keys, &ks[i])
		vals = append(vals, &vs[i])
	}
	keys = append(keys, &ks[2])
	vals = append(vals, &vs[2])
	_, err := VerifyRangeProof(&root, &first, keys, vals, proof)
	if omitted == 0 {
		vx.Cover("honest-response")
		vx.Assert(err == nil, "honest-range-response-verifies")
	} else {
		vx.Cover("keys-omitted")
		vx.Assert(err != nil, "range-response-with-omitted-keys-is-rejected")
	}
}
