//vx:pkg core/trie2
//vx:include ../C01/trie2ops.go
//vx:include ../C01/bitarray.go core/trie2/trieutils trieutils
//vx:include ../C01/bitarray_specs.go core/trie2/trieutils trieutils
//vx:include support_pathraw.go core/trie2/trieutils trieutils
package trie2

import (
	"github.com/NethermindEth/juno/core/crypto"
	"github.com/NethermindEth/juno/core/felt"
	"github.com/NethermindEth/juno/core/trie2/trienode"
	"github.com/NethermindEth/juno/core/trie2/trieutils"
	"github.com/NethermindEth/juno/zzverif/vx"
)

// C10-H2 (trie2 verifier, soundness): against the honest root of a trie at height 251 holding one
// or two arbitrary keys, an ARBITRARY proof set of 1..3 nodes - each a binary node with arbitrary
// child hashes or an edge with an arbitrary path and an arbitrary child that is either a hash
// reference or a value - filed under the hashes a verifier can ask for, can only make VerifyProof
// return the probe key's actual value: (v, nil) implies v == model[probe], for an arbitrary probe.
// This subsumes every single-node / single-field alteration of the honest proof (node kind, child
// kind, child hash, path bits, path length, claimed value, key). Proof nodes carry no cached
// hashes (that is what a proof received from a peer looks like). Ideal-hash assumptions
// (collision freedom, node-hash separation, free values independent of hash outputs) over the ground terms.

func vxArbFeltT2(name string) felt.Felt {
	b := vx.FeltBytes(name)
	var f felt.Felt
	f.SetBytes(b[:])
	return f
}

// vxAdvFelt: a value the adversary writes into a proof node - either free, or one of the hashes and
// values of the honest trie (computed, so that a counterexample replays natively with the real hash).
func vxAdvFelt(name string, known []felt.Felt) felt.Felt {
	c := vx.Choice(name+".src", 1+len(known))
	if c == 0 {
		f := vxArbFeltT2(name)
		vx.Unhashed(&f) // "free" means chosen independently of every hash output; hash-derived values are the other choices
		return f
	}
	return known[c-1]
}

func vxArbProofNode(tag string, known []felt.Felt) trienode.Node {
	if vx.Choice(tag+".kind", 2) == 0 {
		l, r := vxAdvFelt(tag+".left", known), vxAdvFelt(tag+".right", known)
		return &trienode.BinaryNode{Children: [2]trienode.Node{(*trienode.HashNode)(&l), (*trienode.HashNode)(&r)}}
	}
	c := vxAdvFelt(tag+".child", known)
	var child trienode.Node
	if vx.Choice(tag+".childkind", 2) == 0 {
		child = (*trienode.HashNode)(&c)
	} else {
		child = (*trienode.ValueNode)(&c)
	}
	return &trienode.EdgeNode{Child: child, Path: trieutils.VxArbPath(tag)}
}

// child pointer of a node that the verifier may follow next
func vxChildRef(n trienode.Node, tag string) felt.Felt {
	switch n := n.(type) {
	case *trienode.BinaryNode:
		return n.Children[vx.Choice(tag+".side", 2)].Hash(crypto.Pedersen)
	case *trienode.EdgeNode:
		return n.Child.Hash(crypto.Pedersen)
	}
	return felt.Zero
}

func VxC10Trie2ProofSoundness() {
	ds := []uint{1, 250}
	maxNodes := 1
	if vx.Thorough() {
		ds = []uint{0, 1, 64, 250}
		maxNodes = 2
		vx.Bound("honest root of a trie at height 251 with 1..2 arbitrary keys (two keys: divergence position from {0, 1, 64, 250}, all other bits arbitrary), non-zero values; arbitrary proof chain of 1..2 arbitrary nodes (binary / edge-to-hash / edge-to-value, path length 1..251, hashes free or taken from the honest trie), the first filed under the root, each further one under its own hash or under a child pointer of its predecessor; arbitrary probe key")
	} else {
		vx.Bound("honest root of a trie at height 251 with 1..2 arbitrary keys (two keys: divergence position 1 or 250, all other bits arbitrary), non-zero values; one arbitrary proof node (binary / edge-to-hash / edge-to-value, path length 1..251, hashes free or taken from the honest trie) filed under the root; arbitrary probe key")
	}
	nk := 1 + vx.Choice("nkeys", 2)
	_, k0W := vxKey251("key")
	v0 := vxArbFeltT2("val")
	vx.Assume(!v0.IsZero())
	vx.Unhashed(&v0)
	model := []vxLeaf{{k0W, v0}}
	var known []felt.Felt
	if nk == 2 {
		_, k1W := vxKey251("key")
		v1 := vxArbFeltT2("val")
		vx.Assume(!v1.IsZero())
		vx.Unhashed(&v1)
		d := ds[vx.Choice("divergence", len(ds))]
		x := k0W.Xor(k1W)
		// the keys agree on their top d bits, k0 has 0 and k1 has 1 in bit d (counted from the most significant of 251)
		vx.Assume(x.Shr(251-d).IsZero() && k0W.Bit(250-d) == 0 && k1W.Bit(250-d) == 1)
		model = append(model, vxLeaf{k1W, v1})
		// the honest inner hashes: the two subtrees below the fork and the fork itself
		left := vxSpecNode([]vxLeaf{model[0]}, 250-d)
		right := vxSpecNode([]vxLeaf{model[1]}, 250-d)
		known = []felt.Felt{left, right, vxH(&left, &right)}
	}
	root := vxSpecNode(model, 251)

	proof := NewProofNodeSet()
	n := 1 + vx.Choice("nodes", maxNodes)
	var prev trienode.Node
	for i := 0; i < n; i++ {
		tag := [3]string{"n0", "n1", "n2"}[i]
		node := vxArbProofNode(tag, known)
		var key felt.Felt
		switch {
		case i == 0:
			key = root
		case vx.Choice(tag+".filedUnder", 2) == 0:
			key = node.Hash(crypto.Pedersen)
		default:
			key = vxChildRef(prev, tag)
		}
		proof.Put(key, node)
		prev = node
	}
	pF, pW := vxKey251("probe")
	vx.NodeHashesSeparated()
	got, err := VerifyProof(&root, &pF, proof, crypto.Pedersen)
	if err != nil {
		vx.Cover("rejected")
		return
	}
	vx.Cover("accepted")
	want := felt.Zero
	for _, l := range model {
		if pW.Eq(l.k) {
			want = l.v
			vx.Cover("probe-is-a-key")
		}
	}
	vx.Assert(got.Equal(&want), "accepted-proof-establishes-actual-value")
}

// C10-H2b (trie2, range verifier, single-element responses): the same adversary against VerifyRangeProof with
// a one-key response (first = the key, keys = [key], values = [claimed value]) - the shape a state-sync peer
// answers with. Under the ideal-hash model an accepted response establishes that the key holds the claimed
// value in the honest trie; in particular an inner node's hash cannot be passed off as a leaf (an edge whose
// child is a value node above the leaf level hashes like the edge to the subtree).
// (The heaviest harness of the property: 1300 paths with proof-sized hash terms; on a loaded machine it needs
// more than the default 900 s budget.)
//vx:max-seconds 2400
func VxC10Trie2SingleElementRangeSoundness() {
	ds := []uint{250}
	if vx.Thorough() {
		ds = []uint{1, 250}
	}
	vx.Bound("honest root of a trie at height 251 with two arbitrary keys (divergence position 250, i.e. sibling leaves; thorough also 1), non-zero values; response = one arbitrary key with a claimed value (free, or a value / inner hash of the honest trie) and a proof set holding the honest membership proof of the first key plus one arbitrary node (binary / edge-to-hash / edge-to-value), every node filed under its own hash (the receiver builds the set; a forged node replaces an honest one of the same hash)")
	_, k0W := vxKey251("key")
	v0 := vxArbFeltT2("val")
	vx.Assume(!v0.IsZero())
	vx.Unhashed(&v0)
	_, k1W := vxKey251("key")
	v1 := vxArbFeltT2("val")
	vx.Assume(!v1.IsZero())
	vx.Unhashed(&v1)
	d := ds[vx.Choice("divergence", len(ds))]
	x := k0W.Xor(k1W)
	vx.Assume(x.Shr(251-d).IsZero() && k0W.Bit(250-d) == 0 && k1W.Bit(250-d) == 1)
	model := []vxLeaf{{k0W, v0}, {k1W, v1}}
	left := vxSpecNode([]vxLeaf{model[0]}, 250-d)
	right := vxSpecNode([]vxLeaf{model[1]}, 250-d)
	known := []felt.Felt{left, right, vxH(&left, &right)}
	root := vxSpecNode(model, 251)

	// The receiver of a range response files each node under the hash it computes for it (the range verifier,
	// unlike VerifyProof, does not re-hash the nodes it takes from the set), so the set is hash-consistent.
	// It holds the honest membership proof of the first key - root edge, fork, leaf edge, as Prove emits them -
	// plus one arbitrary node, which replaces an honest node when it hashes to the same key.
	proof := NewProofNodeSet()
	put := func(n trienode.Node) { proof.Put(n.Hash(crypto.Pedersen), n) }
	forkHash := vxH(&left, &right)
	var lchild, rchild trienode.Node = (*trienode.HashNode)(&left), (*trienode.HashNode)(&right)
	if d == 250 {
		lchild, rchild = (*trienode.ValueNode)(&v0), (*trienode.ValueNode)(&v1)
	} else {
		lp := trieutils.VxPathFromW(uint8(250-d), k0W.And(vx.W256Mask(250-d)))
		put(&trienode.EdgeNode{Child: (*trienode.ValueNode)(&v0), Path: lp})
	}
	put(&trienode.BinaryNode{Children: [2]trienode.Node{lchild, rchild}})
	if d > 0 {
		rp := trieutils.VxPathFromW(uint8(d), k0W.Shr(251-d))
		put(&trienode.EdgeNode{Child: (*trienode.HashNode)(&forkHash), Path: rp})
	}
	put(vxArbProofNode("n0", known))
	pF, pW := vxKey251("probe")
	claimed := vxAdvFelt("claimed", append([]felt.Felt{v0, v1}, known...))
	vx.NodeHashesSeparated()
	_, err := VerifyRangeProof(&root, &pF, []*felt.Felt{&pF}, []*felt.Felt{&claimed}, proof)
	if err != nil {
		vx.Cover("rejected")
		return
	}
	vx.Cover("accepted")
	want := felt.Zero
	for _, l := range model {
		if pW.Eq(l.k) {
			want = l.v
		}
	}
	vx.Assert(!want.IsZero() && claimed.Equal(&want), "accepted-single-element-response-establishes-the-actual-value")
}
