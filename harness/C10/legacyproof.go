//vx:pkg core/trie
//vx:include ../C01/bitarray.go
//vx:include ../C01/bitarray_specs.go
package trie

import (
	"github.com/NethermindEth/juno/core/crypto"
	"github.com/NethermindEth/juno/core/felt"
	"github.com/NethermindEth/juno/zzverif/vx"
)

// C10-H2 (legacy verifier, soundness): against the honest root of a one-key trie at height 251,
// an ARBITRARY proof set (up to 2 nodes, each a Binary with arbitrary child hashes or an Edge with
// arbitrary child hash, path value and path length, stored under arbitrary set keys) can only make
// VerifyProof return the key's actual value: (v, nil) implies v == model[probe], for an arbitrary
// probe key. This subsumes every single-field tampering of the honest proof. Ideal-hash
// assumptions (collision freedom, node-hash separation) over the ground terms.

func vxLegacyKey251(name string) (felt.Felt, vx.W256) {
	b := vx.FeltBytes(name)
	w := vx.W256FromBytes(b)
	vx.Assume(w.Shr(251).IsZero())
	var f felt.Felt
	f.SetBytes(b[:])
	return f, w
}

func vxArbFelt(name string) *felt.Felt {
	b := vx.FeltBytes(name)
	return new(felt.Felt).SetBytes(b[:])
}

func vxArbNode(tag string) ProofNode {
	if vx.Choice(tag+".kind", 2) == 0 {
		return &Binary{LeftHash: vxArbFelt(tag + ".left"), RightHash: vxArbFelt(tag + ".right")}
	}
	var p BitArray
	p.len = vx.U8(tag + ".plen")
	w := vx.W256Input(tag + ".pval")
	vx.Assume(w.Shr(uint(p.len)).IsZero() && p.len >= 1 && p.len <= 251)
	p.words = [4]uint64(w)
	return &Edge{Child: vxArbFelt(tag + ".child"), Path: &p}
}

func VxC10LegacyProofSoundness() {
	vx.Bound("honest root of a one-key trie at height 251 (arbitrary key and non-zero value); arbitrary proof set of 1..2 arbitrary nodes under arbitrary set keys; arbitrary probe key")
	kF, kW := vxLegacyKey251("key")
	v := vxArbFelt("value")
	vx.Assume(!v.IsZero())
	// honest root: a single edge of length 251 from the root to the leaf
	var path BitArray
	path.SetFelt251(&kF)
	honest := &Edge{Child: v, Path: &path}
	root := honest.Hash(crypto.Pedersen)

	// The set key under which a node is filed is itself adversarial, but to be looked up it has to be a
	// hash the verifier asks for: the root, the node's own hash (honest filing), or a child pointer of
	// the other node. (Computed values, so that counterexamples replay natively with the real hash.)
	proof := NewProofNodeSet()
	n := 1 + vx.Choice("nodes", 2)
	var first ProofNode
	for i := 0; i < n; i++ {
		tag := "n0"
		if i == 1 {
			tag = "n1"
		}
		node := vxArbNode(tag)
		var key felt.Felt
		switch vx.Choice(tag+".filedUnder", 3) {
		case 0:
			key = root
		case 1:
			key = node.Hash(crypto.Pedersen)
		default:
			if first == nil {
				key = root
			} else if b, ok := first.(*Binary); ok {
				if vx.Choice(tag+".side", 2) == 0 {
					key = *b.LeftHash
				} else {
					key = *b.RightHash
				}
			} else {
				key = *first.(*Edge).Child
			}
		}
		proof.Put(key, node)
		if first == nil {
			first = node
		}
	}
	pF, pW := vxLegacyKey251("probe")
	vx.NodeHashesSeparated()
	got, err := VerifyProof(&root, &pF, proof, crypto.Pedersen)
	if err != nil {
		vx.Cover("rejected")
		return
	}
	vx.Cover("accepted")
	want := felt.Zero
	if pW.Eq(kW) {
		want = *v
		vx.Cover("probe-is-the-key")
	}
	vx.Assert(got.Equal(&want), "accepted-proof-establishes-actual-value")
}

// C10-H1 (legacy verifier, completeness on the honest single-edge proof).
func VxC10LegacyHonestProof() {
	vx.Bound("one-key trie at height 251, honest proof, probe = the key or an arbitrary other key")
	kF, kW := vxLegacyKey251("key")
	v := vxArbFelt("value")
	vx.Assume(!v.IsZero())
	var path BitArray
	path.SetFelt251(&kF)
	honest := &Edge{Child: v, Path: &path}
	root := honest.Hash(crypto.Pedersen)
	proof := NewProofNodeSet()
	proof.Put(root, honest)
	pF, pW := vxLegacyKey251("probe")
	got, err := VerifyProof(&root, &pF, proof, crypto.Pedersen)
	vx.Assert(err == nil, "honest-proof-verifies")
	if pW.Eq(kW) {
		vx.Assert(got.Equal(v), "membership-value")
	} else {
		vx.Assert(got.IsZero(), "non-membership")
	}
}
