package trieutils

import "github.com/NethermindEth/juno/zzverif/vx"

// VxArbPath: an arbitrary well-formed path (length 1..251, value below 2^length), all bits symbolic.
func VxArbPath(tag string) *Path {
	var p Path
	p.len = vx.U8(tag + ".plen")
	w := vx.W256Input(tag + ".pval")
	vx.Assume(p.len >= 1 && p.len <= 251 && w.Shr(uint(p.len)).IsZero())
	p.words = [4]uint64(w)
	return &p
}

// VxPathFromW: the path of the given length whose bits are the low `length` bits of w.
func VxPathFromW(length uint8, w vx.W256) *Path {
	var p Path
	p.len = length
	p.words = [4]uint64(w)
	return &p
}
