//vx:pkg core/trie
//vx:include legacyproof.go
package trie

import (
	"github.com/NethermindEth/juno/core/crypto"
	"github.com/NethermindEth/juno/core/felt"
	"github.com/NethermindEth/juno/db/memory"
	"github.com/NethermindEth/juno/zzverif/vx"
)

// C10-H6 (legacy trie, proof completeness): "for every key - present or absent - the proof the node
// produces verifies against the root and yields the actual value (or non-membership)". The legacy trie at
// height 251 holds two or three keys whose common prefix has length L in {0, 1, 2, 3, 63, 64, 65, 128, 249,
// 250} - the root node's own edge is then L bits long (no edge, a ONE-bit edge, short and word-boundary
// edges, nearly the whole key) -; values symbolic non-zero; Trie.Prove for each present key and for absent
// keys (diverging below the fork, at the fork, and inside the root edge); the repository's own VerifyProof
// must accept the proof against Trie.Hash and return the stored value / zero.
func vxKeyWithBit(bits ...int) felt.Felt {
	var b [32]byte
	for _, bit := range bits { // bit 0 = least significant of the 251-bit key
		b[31-bit/8] |= 1 << (uint(bit) % 8)
	}
	return *new(felt.Felt).SetBytes(b[:])
}

func VxC10LegacyProofCompleteness() {
	vx.Bound("legacy trie, height 251; keys {0..01, 0..0 1 0..0 (bit 250-L set), optionally a third below the fork} for a common prefix of L in {0,1,2,64,250} bits (thorough: {0,1,2,3,63,64,65,128,249,250}); symbolic non-zero values; Prove + VerifyProof for every present key and three absent keys")
	Ls := []int{0, 1, 2, 64, 250}
	if vx.Thorough() {
		Ls = []int{0, 1, 2, 3, 63, 64, 65, 128, 249, 250}
	}
	L := Ls[vx.Choice("common-prefix-bits", len(Ls))]
	fork := 250 - L // index (from the least significant bit) of the first bit in which the keys differ
	var keys []felt.Felt
	if fork == 0 {
		keys = []felt.Felt{vxKeyWithBit(), vxKeyWithBit(0)}
	} else {
		keys = []felt.Felt{vxKeyWithBit(0), vxKeyWithBit(fork)}
		if fork >= 2 && vx.Choice("third-key", 2) == 1 {
			keys = append(keys, vxKeyWithBit(fork, 1))
		}
	}
	if L == 1 {
		vx.Cover("root-edge-of-one-bit")
	}
	vals := make([]*felt.Felt, len(keys))
	txn := memory.New().NewIndexedBatch()
	t, err := NewTriePedersen(txn, []byte{0x11}, 251)
	vx.Assert(err == nil, "trie-opens")
	for i := range keys {
		vals[i] = vxArbFelt("value")
		vx.Assume(!vals[i].IsZero())
		_, e := t.Put(&keys[i], vals[i])
		vx.Assert(e == nil, "put-ok")
	}
	root, herr := t.Hash()
	vx.Assert(herr == nil, "hash-ok")
	vx.CollisionFree()
	vx.NodeHashesSeparated()
	for i := range keys {
		proof := NewProofNodeSet()
		vx.Assert(t.Prove(&keys[i], proof) == nil, "prove-ok")
		got, verr := VerifyProof(&root, &keys[i], proof, crypto.Pedersen)
		vx.Assert(verr == nil, "proof-of-a-present-key-verifies-against-the-root")
		if verr == nil {
			vx.Assert(got.Equal(vals[i]), "proof-of-a-present-key-yields-its-value")
		}
	}
	var absent []felt.Felt
	if fork >= 3 {
		absent = append(absent, vxKeyWithBit(2)) // leaves the first key's edge below the fork
	}
	if L >= 1 {
		absent = append(absent, vxKeyWithBit(250)) // leaves inside the root edge
	}
	if fork >= 2 {
		absent = append(absent, vxKeyWithBit(fork, fork-1)) // below the fork on the second key's side
	}
	for i := range absent {
		skip := false
		for j := range keys {
			if absent[i].Equal(&keys[j]) {
				skip = true
			}
		}
		if skip {
			continue
		}
		vx.Cover("absent-key-probed")
		proof := NewProofNodeSet()
		vx.Assert(t.Prove(&absent[i], proof) == nil, "prove-ok")
		got, verr := VerifyProof(&root, &absent[i], proof, crypto.Pedersen)
		vx.Assert(verr == nil, "proof-of-an-absent-key-verifies-against-the-root")
		if verr == nil {
			vx.Assert(got.IsZero(), "proof-of-an-absent-key-yields-non-membership")
		}
	}
}

// C10-H7 (legacy trie, proofs across updates of ONE trie object): "for every state and every key the proof
// the node produces verifies against the root" - also when the same trie object has produced proofs before
// and was updated since (whatever it memoises about proof nodes must follow the trie). Keys {4,5} form an
// inner node below a long root edge; proofs are produced; a key is inserted that splits the edge ABOVE that
// node (16, or a key diverging at the top bit) or the third key is deleted again so the node is re-linked
// to a new parent; the trie is re-hashed; proofs for present and absent keys must verify against the new
// root and yield the stored values.
func VxC10LegacyProofsFollowTheTrieThroughUpdates() {
	vx.Bound("legacy trie, height 251; keys 4,5 (+ 16 or 2^250 inserted or deleted afterwards); symbolic non-zero values; Prove for 4, 5 and the absent 6 before and after the update; VerifyProof against Trie.Hash each time")
	k := func(v uint64) felt.Felt { return felt.FromUint64[felt.Felt](v) }
	k4, k5, k6 := k(4), k(5), k(6)
	other := k(16)
	if vx.Choice("other-key-diverges-at-the-top-bit", 2) == 1 {
		other = vxKeyWithBit(250)
	}
	v4, v5, vo := vxArbFelt("v4"), vxArbFelt("v5"), vxArbFelt("vo")
	vx.Assume(!v4.IsZero() && !v5.IsZero() && !vo.IsZero())
	txn := memory.New().NewIndexedBatch()
	t, err := NewTriePedersen(txn, []byte{0x11}, 251)
	vx.Assert(err == nil, "trie-opens")
	put := func(key *felt.Felt, v *felt.Felt) {
		_, e := t.Put(key, v)
		vx.Assert(e == nil, "put-ok")
	}
	vx.CollisionFree()
	vx.NodeHashesSeparated()
	proveAll := func(stage string, withOther bool) {
		root, herr := t.Hash()
		vx.Assert(herr == nil, "hash-ok")
		check := func(key *felt.Felt, want *felt.Felt) {
			proof := NewProofNodeSet()
			vx.Assert(t.Prove(key, proof) == nil, "prove-ok")
			got, verr := VerifyProof(&root, key, proof, crypto.Pedersen)
			vx.Assert(verr == nil, "proof-verifies-against-the-current-root-"+stage)
			if verr == nil {
				if want == nil {
					vx.Assert(got.IsZero(), "absent-key-yields-non-membership-"+stage)
				} else {
					vx.Assert(got.Equal(want), "present-key-yields-its-value-"+stage)
				}
			}
		}
		check(&k4, v4)
		check(&k5, v5)
		check(&k6, nil)
		if withOther {
			check(&other, vo)
		}
	}
	put(&k4, v4)
	put(&k5, v5)
	startsWithThree := vx.Choice("history", 2) == 1
	if startsWithThree {
		put(&other, vo)
	}
	proveAll("before-the-update", startsWithThree)
	if startsWithThree {
		put(&other, new(felt.Felt)) // delete: the inner node over {4,5} is re-linked to the root
		vx.Cover("key-deleted-after-proofs-were-produced")
		proveAll("after-the-update", false)
	} else {
		put(&other, vo) // splits the root edge above the inner node over {4,5}
		vx.Cover("edge-above-a-proven-node-split-after-proofs-were-produced")
		proveAll("after-the-update", true)
	}
}
