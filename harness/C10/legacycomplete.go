//vx:pkg core/trie
//vx:include legacyproof.go
package trie

import (
	"github.com/NethermindEth/juno/core/crypto"
	"github.com/NethermindEth/juno/core/felt"
	"github.com/NethermindEth/juno/db/memory"
	"github.com/NethermindEth/juno/zzverif/vx"
)

// C10-H6 (legacy trie, proof completeness): "for every key - present or absent - the proof the node
// produces verifies against the root and yields the actual value (or non-membership)". The legacy trie at
// height 251 holds two or three keys whose common prefix has length L in {0, 1, 2, 3, 63, 64, 65, 128, 249,
// 250} - the root node's own edge is then L bits long (no edge, a ONE-bit edge, short and word-boundary
// edges, nearly the whole key) -; values symbolic non-zero; Trie.Prove for each present key and for absent
// keys (diverging below the fork, at the fork, and inside the root edge); the repository's own VerifyProof
// must accept the proof against Trie.Hash and return the stored value / zero.
func vxKeyWithBit(bits ...int) felt.Felt {
	var b [32]byte
	for _, bit := range bits { // bit 0 = least significant of the 251-bit key
		b[31-bit/8] |= 1 << (uint(bit) % 8)
	}
	return *new(felt.Felt).SetBytes(b[:])
}

func VxC10LegacyProofCompleteness() {
	vx.Bound("legacy trie, height 251; keys {0..01, 0..0 1 0..0 (bit 250-L set), optionally a third below the fork} for a common prefix of L in {0,1,2,64,250} bits (thorough: {0,1,2,3,63,64,65,128,249,250}); symbolic non-zero values; Prove + VerifyProof for every present key and three absent keys")
	Ls := []int{0, 1, 2, 64, 250}
	if vx.Thorough() {
		Ls = []int{0, 1, 2, 3, 63, 64, 65, 128, 249, 250}
	}
	L := Ls[vx.Choice("common-prefix-bits", len(Ls))]
	fork := 250 - L // index (from the least significant bit) of the first bit in which the keys differ
	var keys []felt.Felt
	if fork == 0 {
		keys = []felt.Felt{vxKeyWithBit(), vxKeyWithBit(0)}
	} else {
		keys = []felt.Felt{vxKeyWithBit(0), vxKeyWithBit(fork)}
		if fork >= 2 && vx.Choice("third-key", 2) == 1 {
			keys = append(keys, vxKeyWithBit(fork, 1))
		}
	}
	if L == 1 {
		vx.Cover("root-edge-of-one-bit")
	}
	vals := make([]*felt.Felt, len(keys))
	txn := memory.New().NewIndexedBatch()
	t, err := NewTriePedersen(txn, []byte{0x11}, 251)
	vx.Assert(err == nil, "trie-opens")
	for i := range keys {
		vals[i] = vxArbFelt("value")
		vx.Assume(!vals[i].IsZero())
		_, e := t.Put(&keys[i], vals[i])
		vx.Assert(e == nil, "put-ok")
	}
	root, herr := t.Hash()
	vx.Assert(herr == nil, "hash-ok")
	vx.CollisionFree()
	vx.NodeHashesSeparated()
	for i := range keys {
		proof := NewProofNodeSet()
		vx.Assert(t.Prove(&keys[i], proof) == nil, "prove-ok")
		got, verr := VerifyProof(&root, &keys[i], proof, crypto.Pedersen)
		vx.Assert(verr == nil, "proof-of-a-present-key-verifies-against-the-root")
		if verr == nil {
			vx.Assert(got.Equal(vals[i]), "proof-of-a-present-key-yields-its-value")
		}
	}
	var absent []felt.Felt
	if fork >= 3 {
		absent = append(absent, vxKeyWithBit(2)) // leaves the first key's edge below the fork
	}
	if L >= 1 {
		absent = append(absent, vxKeyWithBit(250)) // leaves inside the root edge
	}
	if fork >= 2 {
		absent = append(absent, vxKeyWithBit(fork, fork-1)) // below the fork on the second key's side
	}
	for i := range absent {
		skip := false
		for j := range keys {
			if absent[i].Equal(&keys[j]) {
				skip = true
			}
		}
		if skip {
			continue
		}
		vx.Cover("absent-key-probed")
		proof := NewProofNodeSet()
		vx.Assert(t.Prove(&absent[i], proof) == nil, "prove-ok")
		got, verr := VerifyProof(&root, &absent[i], proof, crypto.Pedersen)
		vx.Assert(verr == nil, "proof-of-an-absent-key-verifies-against-the-root")
		if verr == nil {
			vx.Assert(got.IsZero(), "proof-of-an-absent-key-yields-non-membership")
		}
	}
}
