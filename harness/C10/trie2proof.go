//vx:pkg core/trie2
//vx:include ../C01/trie2ops.go
//vx:include ../C01/bitarray.go core/trie2/trieutils trieutils
//vx:include ../C01/bitarray_specs.go core/trie2/trieutils trieutils
package trie2

import (
	"github.com/NethermindEth/juno/core/crypto"
	"github.com/NethermindEth/juno/core/felt"
	"github.com/NethermindEth/juno/core/trie2/trieutils"
	"github.com/NethermindEth/juno/zzverif/vx"
)

// C10-H1 (trie2, completeness): for a trie at height 251 holding 1..2 arbitrary 251-bit keys, the
// proof produced for a probe key verifies against the trie's root and establishes the key's actual
// value (zero when absent). Hashes are uninterpreted; because the proof node set is keyed by node
// hash, the ideal-hash assumptions (collision freedom + node-hash separation) are assumed over the
// ground terms. Divergence positions are case-split (every position 0..250 is covered).

func vxKey251(name string) (felt.Felt, vx.W256) {
	b := vx.FeltBytes(name)
	w := vx.W256FromBytes(b)
	vx.Assume(w.Shr(251).IsZero())
	var f felt.Felt
	f.SetBytes(b[:])
	return f, w
}

func VxC10Trie2ProofCompleteness() {
	trieutils.VxCaseSplitFirstSetBit()
	n := 1
	if vx.Thorough() {
		n = 1 + vx.Choice("nkeys", 2)
		vx.Bound("height 251; 1..2 arbitrary distinct keys; probe = a present key or (one-key trie) an arbitrary other key; every divergence position 0..250")
	} else {
		vx.Bound("height 251; 1 arbitrary key; probe = the present key or an arbitrary other key")
	}
	keysF := make([]felt.Felt, n)
	keysW := make([]vx.W256, n)
	vals := make([]felt.Felt, n)
	t := NewEmpty(251, crypto.Pedersen)
	for i := 0; i < n; i++ {
		keysF[i], keysW[i] = vxKey251("key")
		for j := 0; j < i; j++ {
			vx.Assume(!keysW[i].Eq(keysW[j]))
		}
		vb := vx.FeltBytes("val")
		vals[i].SetBytes(vb[:])
		vx.Assume(!vals[i].IsZero())
		vx.Assert(t.Update(&keysF[i], &vals[i]) == nil, "update-ok")
	}
	root, herr := t.Hash()
	vx.Assert(herr == nil, "hash-ok")
	var probe felt.Felt
	want := felt.Zero
	pi := vx.Choice("probe", n+1)
	if pi < n {
		probe, want = keysF[pi], vals[pi]
		vx.Cover("probe-present")
	} else {
		vx.Assume(n == 1) // arbitrary absent probe only against a one-key trie (path budget)
		var pw vx.W256
		probe, pw = vxKey251("probe")
		vx.Assume(!pw.Eq(keysW[0]))
		vx.Cover("probe-absent")
	}
	proof := NewProofNodeSet()
	vx.Assert(t.Prove(&probe, proof) == nil, "prove-ok")
	vx.NodeHashesSeparated()
	got, verr := VerifyProof(&root, &probe, proof, crypto.Pedersen)
	vx.Assert(verr == nil, "own-proof-verifies")
	vx.Assert(got.Equal(&want), "proof-establishes-actual-value")
}
