//vx:pkg core/trie
package trie

import (
	"github.com/NethermindEth/juno/core/felt"
	"github.com/NethermindEth/juno/db/memory"
	"github.com/NethermindEth/juno/zzverif/vx"
)

// C10-H4 (legacy trie, range proofs from an honest prover, single-element and empty ranges): for a
// legacy trie at height 251 with two keys the proofs produced by GetRangeProof verify against the
// root and cannot be used to claim what is not there:
//   - single element [k] for a present key with its value: accepted;
//   - single element for a present key with another (non-zero) value: refused;
//   - single element for an ABSENT key with any non-zero value: refused;
//   - empty range from a key with nothing at or to the right of it: accepted, otherwise refused.
// (vxLegacyKey251 / vxArbFelt come from legacyproof.go; bit-array specs from the C01 includes.)
func VxC10LegacyRangeProofs() {
	vx.Bound("legacy trie, height 251; 2 distinct keys k1 < k2 and the probe sharing an arbitrary 245-bit prefix (divergence in the low 6 bits), non-zero arbitrary values; honest proofs from GetRangeProof; single-element claims (right value / wrong value / absent key) and the empty range")
	const low = 6
	VxCaseSplitFirstSetBit()
	k1, w1 := vxLegacyKey251("k1")
	k2, w2 := vxLegacyKey251("k2")
	vx.Assume(w1.Lt(w2) && w1.Shr(low).Eq(w2.Shr(low)))
	v1, v2 := vxArbFelt("v1"), vxArbFelt("v2")
	vx.Assume(!v1.IsZero() && !v2.IsZero())
	txn := memory.New().NewIndexedBatch()
	t, err := NewTriePedersen(txn, []byte{0x11}, 251)
	vx.Assert(err == nil, "trie-opens")
	_, e1 := t.Put(&k1, v1)
	_, e2 := t.Put(&k2, v2)
	vx.Assert(e1 == nil && e2 == nil, "put-ok")
	root, herr := t.Hash()
	vx.Assert(herr == nil, "hash-ok")
	vx.NodeHashesSeparated()
	p, wp := vxLegacyKey251("probe")
	vx.Assume(wp.Shr(low).Eq(w1.Shr(low)))
	proof := NewProofNodeSet()
	vx.Assert(t.GetRangeProof(&p, &p, proof) == nil, "prove-ok")
	present := wp.Eq(w1) || wp.Eq(w2)
	actual := v1
	if wp.Eq(w2) {
		actual = v2
	}
	switch vx.Choice("claim", 2) {
	case 0:
		claimed := vxArbFelt("claimed")
		vx.Assume(!claimed.IsZero())
		more, verr := VerifyRangeProof(&root, &p, []*felt.Felt{&p}, []*felt.Felt{claimed}, proof)
		switch {
		case present && claimed.Equal(actual):
			vx.Cover("single-element-true-claim")
			vx.Assert(verr == nil, "true-single-element-claim-accepted")
			vx.Assert(more == wp.Eq(w1), "has-more-iff-a-larger-key-exists")
		case present:
			vx.Cover("single-element-wrong-value")
			vx.Assert(verr != nil, "wrong-value-refused")
		default:
			vx.Cover("single-element-absent-key")
			vx.Assert(verr != nil, "membership-claim-for-an-absent-key-refused")
		}
	case 1:
		more, verr := VerifyRangeProof(&root, &p, nil, nil, proof)
		if w2.Lt(wp) {
			vx.Cover("nothing-to-the-right")
			vx.Assert(verr == nil && !more, "empty-range-accepted-when-nothing-lies-to-the-right#KF-C10-2")
		} else {
			vx.Cover("keys-to-the-right")
			vx.Assert(verr != nil, "empty-range-refused-while-keys-lie-at-or-right-of-the-start#KF-C10-2")
		}
	}
}
