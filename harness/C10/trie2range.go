//vx:pkg core/trie2
package trie2

import (
	"github.com/NethermindEth/juno/core/crypto"
	"github.com/NethermindEth/juno/core/felt"
	"github.com/NethermindEth/juno/core/trie2/trieutils"
	"github.com/NethermindEth/juno/zzverif/vx"
)

// C10-H3 (trie2 range proofs, honest prover): for a trie at height 251 with two arbitrary keys the
// range proofs produced by GetRangeProof verify against the root and say the truth about what lies
// to the right:
//   - empty range from `first`: accepted (no more entries) iff no key >= first exists; otherwise
//     the verifier must answer "more entries available";
//   - single element [k]: accepted, hasMore iff a key > k exists;
//   - the whole range [k1, k2]: accepted, nothing more.
// Helpers vxKey251 / vxCaseSplit come from trie2proof.go (same package).
func VxC10Trie2RangeProofs() {
	low := uint(6)
	if vx.Thorough() {
		low = 12
		vx.Bound("height 251; 2 distinct keys k1 < k2 and the range start sharing an arbitrary 239-bit prefix and differing in their low 12 bits (divergence positions 239..250), non-zero arbitrary values (equal values included); (a) empty range from an arbitrary first key, (b) single element k1 or k2, (c) whole range; honest proofs from GetRangeProof")
	} else {
		vx.Bound("height 251; 2 distinct keys k1 < k2 and the range start sharing an arbitrary 245-bit prefix and differing in their low 6 bits (divergence positions 245..250), non-zero arbitrary values (equal values included); (a) empty range from an arbitrary first key, (b) single element k1 or k2, (c) whole range; honest proofs from GetRangeProof")
	}
	trieutils.VxCaseSplitFirstSetBit()
	k1, w1 := vxKey251("k1")
	k2, w2 := vxKey251("k2")
	vx.Assume(w1.Lt(w2))
	vx.Assume(w1.Shr(low).Eq(w2.Shr(low)))
	var v1, v2 felt.Felt
	b1, b2 := vx.FeltBytes("v1"), vx.FeltBytes("v2")
	v1.SetBytes(b1[:])
	v2.SetBytes(b2[:])
	vx.Assume(!v1.IsZero() && !v2.IsZero())
	t := NewEmpty(251, crypto.Pedersen)
	vx.Assert(t.Update(&k1, &v1) == nil && t.Update(&k2, &v2) == nil, "update-ok")
	root, herr := t.Hash()
	vx.Assert(herr == nil, "hash-ok")
	vx.NodeHashesSeparated()
	switch vx.Choice("case", 3) {
	case 0:
		first, wf := vxKey251("first")
		vx.Assume(wf.Shr(low).Eq(w1.Shr(low)))
		proof := NewProofNodeSet()
		vx.Assert(t.GetRangeProof(&first, &first, proof) == nil, "prove-ok")
		more, err := VerifyRangeProof(&root, &first, nil, nil, proof)
		nothingRight := w2.Lt(wf) // k1 < k2 < first
		if nothingRight {
			vx.Cover("nothing-to-the-right")
			vx.Assert(err == nil && !more, "empty-range-accepted-when-nothing-lies-to-the-right")
		} else {
			vx.Cover("keys-to-the-right")
			vx.Assert(err != nil, "empty-range-refused-while-keys-lie-to-the-right")
		}
	case 1:
		which := vx.Choice("which", 2)
		k, v := &k1, &v1
		if which == 1 {
			k, v = &k2, &v2
		}
		proof := NewProofNodeSet()
		vx.Assert(t.GetRangeProof(k, k, proof) == nil, "prove-ok")
		more, err := VerifyRangeProof(&root, k, []*felt.Felt{k}, []*felt.Felt{v}, proof)
		vx.Assert(err == nil, "single-element-proof-verifies")
		vx.Assert(more == (which == 0), "has-more-iff-a-larger-key-exists")
	case 2:
		proof := NewProofNodeSet()
		vx.Assert(t.GetRangeProof(&k1, &k2, proof) == nil, "prove-ok")
		more, err := VerifyRangeProof(&root, &k1, []*felt.Felt{&k1, &k2}, []*felt.Felt{&v1, &v2}, proof)
		vx.Assert(err == nil && !more, "whole-range-proof-verifies")
	}
}
