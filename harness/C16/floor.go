//vx:pkg pruner
package pruner

import (
	"context"
	"time"

	"github.com/NethermindEth/juno/core"
	"github.com/NethermindEth/juno/db"
	"github.com/NethermindEth/juno/db/memory"
	"github.com/NethermindEth/juno/utils/log"
	"github.com/NethermindEth/juno/zzverif/vx"
)

// ---- engine-only redirections (natively the real accessors run on a memory DB) ----

var (
	vxL1Set, vxHeightSet bool
	vxL1, vxHeight       uint64
	vxPruneEnds          []uint64
	vxFloorAtPrune       []uint64
	vxFloorSeededAtPrune []bool
	vxEnvFloor           *RetentionFloor
	vxWithin             bool
)

func vxGetL1Head(db.KeyValueReader) (core.L1Head, error) {
	if !vxL1Set {
		return core.L1Head{}, db.ErrKeyNotFound
	}
	return core.L1Head{BlockNumber: vxL1}, nil
}

func vxGetChainHeight(db.KeyValueReader) (uint64, error) {
	if !vxHeightSet {
		return 0, db.ErrKeyNotFound
	}
	return vxHeight, nil
}

func vxPruneUptoStub(_ context.Context, _ db.KeyValueStore, end uint64, _ int) (uint64, uint64, error) {
	f, seeded := vxEnvFloor.floor()
	vxPruneEnds = append(vxPruneEnds, end)
	vxFloorAtPrune = append(vxFloorAtPrune, f)
	vxFloorSeededAtPrune = append(vxFloorSeededAtPrune, seeded)
	return 0, end, nil
}

func vxWithinTimeWindow(uint64, time.Duration) bool { return vxWithin }

func vxNewPruner(retained uint64, l1Set bool, l1 uint64, hSet bool, h uint64) *Pruner {
	d := memory.New()
	vxL1Set, vxL1, vxHeightSet, vxHeight = l1Set, l1, hSet, h
	vxPruneEnds, vxFloorAtPrune, vxFloorSeededAtPrune = nil, nil, nil
	floor := &RetentionFloor{}
	vxEnvFloor = floor
	if vx.InEngine() {
		vx.Stub("github.com/NethermindEth/juno/core.GetL1Head", vxGetL1Head)
		vx.Stub("github.com/NethermindEth/juno/core.GetChainHeight", vxGetChainHeight)
		vx.Stub("github.com/NethermindEth/juno/pruner.PruneUpto", vxPruneUptoStub)
		vx.Stub("github.com/NethermindEth/juno/pruner.withinTimeWindow", vxWithinTimeWindow)
	} else {
		if l1Set {
			_ = core.WriteL1Head(d, &core.L1Head{BlockNumber: l1})
		}
		if hSet {
			_ = core.WriteChainHeight(d, h)
		}
	}
	return New(d, floor, retained, nil, nil, log.NewNopZapLogger(), WithL2HeadsPerPrune(1))
}

// C16-H1a: the L1-head trigger. Whenever a prune is issued the oldest block kept is at most
// min(l1, l2) - retained (no underflow), at most the min-age sample when that floor is enabled,
// and the shared retention floor is raised to exactly keep-1 before the delete is issued.
func VxC16OnNewL1Head() {
	vx.Bound("all quantities 64-bit symbolic: L1 head, chain height, retained blocks, min-age sample")
	retained := vx.U64("retained")
	l1 := vx.U64("l1")
	hSet := vx.Bool("heightSet")
	h := vx.U64("height")
	p := vxNewPruner(retained, true, l1, hSet, h)
	if vx.Bool("minAge") {
		p.minAge = time.Hour
		p.latestSampledHeight = vx.U64("sample")
		vx.Cover("min-age-enabled")
	}
	sample := p.latestSampledHeight
	err := p.onNewL1Head(context.Background(), &core.L1Head{BlockNumber: l1})
	vx.Assert(err == nil, "no-error")
	f, seeded := p.retentionFloor.floor()
	if !seeded {
		vx.Cover("no-prune")
		if vx.InEngine() {
			// nothing may be deleted without publishing a floor, except keep == 0 (deletes nothing)
			for _, e := range vxPruneEnds {
				vx.Assert(e == 0, "engine:prune-without-floor-only-for-zero")
			}
		}
		return
	}
	vx.Cover("pruned")
	keep := f + 1
	vx.Assert(hSet, "prunes-only-with-a-local-head")
	vx.Assert(l1 >= retained && keep <= l1-retained, "keep-at-most-l1-minus-retained")
	vx.Assert(h >= retained && keep <= h-retained, "keep-at-most-l2-minus-retained")
	if p.minAge > 0 {
		vx.Assert(keep <= sample, "keep-at-most-min-age-sample")
	}
	if vx.InEngine() {
		vx.Assert(len(vxPruneEnds) == 1 && vxPruneEnds[0] == keep, "engine:deletes-exactly-below-keep")
		vx.Assert(vxFloorSeededAtPrune[0] && vxFloorAtPrune[0] == f, "engine:floor-raised-before-delete")
	}
}

// C16-H1b: the L2-head trigger (catch-up: L2 below L1).
func VxC16OnNewBlock() {
	vx.Bound("all quantities 64-bit symbolic: block number, L1 head, retained blocks, min-age sample; coalescing threshold 1 and 2")
	retained := vx.U64("retained")
	l1Set := vx.Bool("l1Set")
	l1 := vx.U64("l1")
	n := vx.U64("number")
	p := vxNewPruner(retained, l1Set, l1, false, 0)
	if vx.Bool("minAge") {
		p.minAge = time.Hour
		p.latestSampledHeight = vx.U64("sample")
	}
	vxWithin = vx.Bool("within")
	sample := p.latestSampledHeight
	if vx.Bool("coalesce") {
		p.l2HeadsPerPrune = 2
		vx.Cover("coalescing")
	}
	blk := &core.Block{Header: &core.Header{Number: n}}
	err := p.onNewBlock(context.Background(), blk)
	vx.Assert(err == nil, "no-error")
	f, seeded := p.retentionFloor.floor()
	if !seeded {
		vx.Cover("no-prune")
		if vx.InEngine() {
			for _, e := range vxPruneEnds {
				vx.Assert(e == 0, "engine:prune-without-floor-only-for-zero")
			}
		}
		return
	}
	vx.Cover("pruned")
	keep := f + 1
	vx.Assert(l1Set, "prunes-only-with-an-l1-head")
	vx.Assert(n >= retained && keep <= n-retained, "keep-at-most-l2-minus-retained")
	vx.Assert(l1 >= retained && keep <= l1-retained, "keep-at-most-l1-minus-retained")
	if vx.InEngine() {
		if p.minAge > 0 && vxWithin {
			vx.Assert(keep <= sample, "keep-at-most-min-age-sample")
		}
		vx.Assert(len(vxPruneEnds) == 1 && vxPruneEnds[0] == keep, "engine:deletes-exactly-below-keep")
		vx.Assert(vxFloorSeededAtPrune[0] && vxFloorAtPrune[0] == f, "engine:floor-raised-before-delete")
	}
}

// C16-H4: RetentionFloor is monotone, its +1 encoding never wraps for reachable values.
func VxC16RetentionFloor() {
	vx.Bound("two raiseTo calls with 64-bit symbolic floors below 2^64-1")
	var rf RetentionFloor
	_, seeded := rf.floor()
	vx.Assert(!seeded, "zero-value-unseeded")
	a, b := vx.U64("a"), vx.U64("b")
	vx.Assume(a != ^uint64(0) && b != ^uint64(0))
	rf.raiseTo(a)
	f1, s1 := rf.floor()
	vx.Assert(s1 && f1 == a, "first-raise-sets")
	rf.raiseTo(b)
	f2, s2 := rf.floor()
	want := a
	if b > a {
		want = b
	}
	vx.Assert(s2 && f2 == want, "floor-is-max-never-lowers")
}
