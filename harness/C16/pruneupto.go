//vx:pkg pruner
package pruner

import (
	"context"
	"time"

	"github.com/NethermindEth/juno/core"
	"github.com/NethermindEth/juno/core/felt"
	"github.com/NethermindEth/juno/db"
	"github.com/NethermindEth/juno/db/memory"
	"github.com/NethermindEth/juno/zzverif/vx"
)

// C16-H5: what PruneUpto deletes. A chain of 3..4 stored blocks (header, hash->number mapping, state
// update with a storage-history entry, commitments, one transaction with its hash index) is pruned
// up to a symbolic bound with a symbolic cancellation point and a batch size that rotates the batch
// after every block or never. Afterwards:
//   - every record of every block at or above the returned oldest-kept number is still there and
//     unchanged ("pruning never damages retained blocks");
//   - below it the number-keyed block data, the transaction-hash index and the state history are
//     gone, the headers are kept (they lie inside the block-hash-lag window), and the hash->number
//     mapping is gone except the one of the last pruned block (kept for StateAtBlockHash of the
//     oldest kept block's parent);
//   - the oldest retained block the database reports is the returned number, so a later call resumes
//     there; the count returned is the number of blocks removed.

type vxCancelCtx struct {
	calls, cancelAt int
}

func (c *vxCancelCtx) Deadline() (time.Time, bool) { return time.Time{}, false }
func (c *vxCancelCtx) Done() <-chan struct{}        { return nil }
func (c *vxCancelCtx) Value(any) any                { return nil }
func (c *vxCancelCtx) Err() error {
	c.calls++
	if c.cancelAt > 0 && c.calls >= c.cancelAt {
		return context.Canceled
	}
	return nil
}

func VxC16PruneUptoDeletes() {
	vx.Bound("3..4 stored blocks (fixed distinct hashes), one transaction and one storage-history entry each; prune bound symbolic in [0, blocks]; cancellation before the k-th block (k symbolic) or never; batch rotated after every block or never")
	n := 3 + vx.Choice("blocks", 2)
	d := memory.New()
	addr := felt.NewFromUint64[felt.Felt](0xA)
	slot := felt.NewFromUint64[felt.Felt](0x5)
	hashes := make([]*felt.Felt, n)
	txs := make([]*felt.Felt, n)
	for b := 0; b < n; b++ {
		hashes[b] = felt.NewFromUint64[felt.Felt](0x4000 + uint64(b))
		txs[b] = felt.NewFromUint64[felt.Felt](9000 + uint64(b))
		num := uint64(b)
		vx.Assert(core.WriteBlockHeader(d, &core.Header{Number: num, Hash: hashes[b], ProtocolVersion: "0.13.2"}) == nil, "setup")
		diff := core.EmptyStateDiff()
		diff.StorageDiffs[*addr] = map[felt.Felt]*felt.Felt{*slot: felt.NewFromUint64[felt.Felt](100 + num)}
		vx.Assert(core.WriteStateUpdateByBlockNum(d, num, &core.StateUpdate{BlockHash: hashes[b], StateDiff: &diff}) == nil, "setup")
		vx.Assert(core.WriteDeprecatedContractStorageHistory(d, addr, slot, felt.NewFromUint64[felt.Felt](99+num), num) == nil, "setup")
		vx.Assert(core.WriteBlockCommitment(d, num, &core.BlockCommitments{}) == nil, "setup")
		vx.Assert(core.WriteTransactionsAndReceipts(d, num,
			[]core.Transaction{&core.InvokeTransaction{TransactionHash: txs[b], Version: new(core.TransactionVersion).SetUint64(1)}},
			[]*core.TransactionReceipt{{TransactionHash: txs[b], Fee: &felt.Zero}}) == nil, "setup")
	}
	end := vx.U64("end")
	vx.Assume(end <= uint64(n))
	ctx := &vxCancelCtx{cancelAt: vx.Choice("cancelBeforeBlock", n+2)} // 0 = never; k = cancelled from the k-th check on
	batchSize := 1
	if vx.Bool("neverRotate") {
		batchSize = 1 << 30
	}
	pruned, kept, err := PruneUpto(ctx, d, end, batchSize)
	vx.Assert(err == nil, "prune-ok")
	// expected stopping point: the loop checks ctx before each block
	reached := end
	if ctx.cancelAt > 0 && uint64(ctx.cancelAt-1) < end {
		reached = uint64(ctx.cancelAt - 1)
		vx.Cover("cancelled-midway")
	}
	vx.Assert(kept == reached && pruned == reached, "returns-oldest-kept-and-count")
	has := func(k []byte) bool { ok, _ := d.Has(k); return ok }
	for b := 0; b < n; b++ {
		num := uint64(b)
		_, cerr := core.GetBlockCommitmentByBlockNum(d, num)
		_, serr := core.GetStateUpdateByBlockNum(d, num)
		_, terr := core.GetTransactionsByBlockNumber(d, num)
		_, herr := core.GetBlockHeaderByNumber(d, num)
		_, nerr := core.GetBlockHeaderNumberByHash(d, hashes[b])
		_, xerr := core.GetTransactionByHash(d, (*felt.TransactionHash)(txs[b]))
		hist := has(db.DeprecatedContractStorageHistoryAtBlockKey(addr, slot, num))
		if num >= reached {
			vx.Assert(cerr == nil && serr == nil && terr == nil && herr == nil && nerr == nil && xerr == nil && hist,
				"retained-block-untouched")
		} else {
			vx.Cover("pruned-block")
			vx.Assert(cerr != nil && serr != nil && terr != nil, "number-keyed-block-data-removed")
			vx.Assert(herr == nil, "header-inside-the-block-hash-lag-window-kept")
			vx.Assert(xerr != nil, "transaction-hash-index-removed")
			vx.Assert(!hist, "state-history-of-the-pruned-block-removed")
			if num == end-1 {
				vx.Assert(nerr == nil, "hash-mapping-of-the-last-pruned-block-kept")
			} else {
				vx.Assert(nerr != nil, "hash-mapping-removed")
			}
		}
	}
	if reached < uint64(n) {
		oldest, oerr := OldestRetainedBlock(d)
		vx.Assert(oerr == nil && oldest == reached, "database-reports-the-returned-oldest-kept-block")
	}
}
