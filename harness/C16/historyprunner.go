//vx:pkg migration/historyprunner
//vx:noreplay
package historyprunner

import (
	"context"
	"encoding/binary"
	"errors"
	"time"

	"github.com/NethermindEth/juno/blockchain/networks"
	"github.com/NethermindEth/juno/core"
	"github.com/NethermindEth/juno/db"
	"github.com/NethermindEth/juno/utils/log"
	"github.com/NethermindEth/juno/zzverif/vx"
)

// C16 (history-pruner migration, resume token): once a cutoff was committed to the resume token, a
// resumed run prunes against exactly that cutoff, whatever the retained-blocks / min-age
// configuration and the chain look like now (otherwise blocks between the two cutoffs lose their
// lookups while being reported as retained). Migrate runs from source up to the first stage, whose
// cutoff argument is recorded (setupBeforeStager / chain accessors redirected: engine only).

var (
	vxCutoffs []uint64
	vxL1, vxH uint64
)

var errVxStop = errors.New("stop after recording the cutoff")

func vxSetupBeforeStager(_ *Migrator, _ db.KeyValueStore, oldestBlockKept uint64) error {
	vxCutoffs = append(vxCutoffs, oldestBlockKept)
	return errVxStop
}
func vxChainHeight(db.KeyValueReader) (uint64, error) { return vxH, nil }
func vxL1Head(db.KeyValueReader) (core.L1Head, error) { return core.L1Head{BlockNumber: vxL1}, nil }

func VxC16ResumeKeepsPinnedCutoff() {
	vx.Bound("arbitrary 64-bit resume token (stager/restorer progress, pinned cutoff), arbitrary new configuration, L1 head and chain height")
	vx.Stub("(*github.com/NethermindEth/juno/migration/historyprunner.Migrator).setupBeforeStager", vxSetupBeforeStager)
	vx.Stub("github.com/NethermindEth/juno/core.GetChainHeight", vxChainHeight)
	vx.Stub("github.com/NethermindEth/juno/core.GetL1Head", vxL1Head)
	vxCutoffs = nil
	vxL1, vxH = vx.U64("l1"), vx.U64("height")
	var token [intermediateStateSize]byte
	sp, rp, k := vx.U64("stagerProgress"), vx.U64("restorerProgress"), vx.U64("pinnedCutoff")
	binary.BigEndian.PutUint64(token[0:8], sp)
	binary.BigEndian.PutUint64(token[8:16], rp)
	binary.BigEndian.PutUint64(token[16:24], k)
	m := New(vx.U64("retainedNow"), 0)
	if vx.Bool("minAgeNow") {
		m.minAge = time.Hour
	}
	vx.Assert(m.Before(token[:]) == nil, "token-accepted")
	vx.Assert(m.stagerProgress == sp && m.restorerProgress == rp && m.oldestBlockKept == k, "token-restores-progress-and-cutoff")
	_, err := m.Migrate(context.Background(), nil, &networks.Sepolia, log.NewNopZapLogger())
	vx.Assert(errors.Is(err, errVxStop) && len(vxCutoffs) == 1, "resumed-run-reaches-the-first-stage")
	if len(vxCutoffs) == 1 {
		vx.Assert(vxCutoffs[0] == k, "resumed-run-uses-the-pinned-cutoff")
	}
}

// A wrong-sized token is rejected; an empty one means a fresh run.
func VxC16ResumeTokenShape() {
	vx.Bound("token lengths 0..40")
	n := vx.Choice("n", 41)
	m := New(1, 0)
	err := m.Before(make([]byte, n))
	vx.Assert((err == nil) == (n == 0 || n == intermediateStateSize), "only-empty-or-exact-size-accepted")
	if n == 0 {
		vx.Assert(!m.floorPinned, "empty-token-is-a-fresh-run")
	}
}
