//vx:pkg blockchain/statebackend
//vx:include ../C08/stateat.go
package statebackend

import (
	"context"

	"github.com/NethermindEth/juno/blockchain/networks"
	"github.com/NethermindEth/juno/core"
	"github.com/NethermindEth/juno/core/felt"
	"github.com/NethermindEth/juno/db/memory"
	"github.com/NethermindEth/juno/pruner"
	"github.com/NethermindEth/juno/zzverif/vx"
)

// C16-H8: "anything below the floor is reported as pruned rather than answered with partial data" - by
// every identifier, also when the same block was read before it was pruned (whatever the backend memoises
// about block identifiers must not outlive the block). Both state backends on a chain of 4 blocks over one
// contract; state views by number and by hash are optionally opened for every block (reads before the
// prune); the real PruneUpto removes the blocks below a bound of 1..3; afterwards a view of a pruned block
// is refused by number AND by hash, views of retained blocks open by both and answer the value as of their
// block.
func VxC16PrunedBlockIsReportedPrunedByEveryIdentifier() {
	vx.Bound("both state backends; chain of 4 blocks writing one slot of contract A (symbolic non-zero values); optional state views by number and by hash of every block before the prune; PruneUpto with bound 1..3; views by number and by hash of every block afterwards")
	vx.CollisionFree()
	newState := vx.Choice("backend", 2) == 1
	mem := memory.New()
	inner := core.NewAggregatedFilter(0)
	rf := core.NewRunningEventFilterHot(mem, &inner, 0)
	b := New(mem, rf, &networks.Sepolia, &pruner.RetentionFloor{}, newState)
	shadow := vxNewShadow(newState)
	a := felt.NewFromUint64[felt.Felt](0x1000)
	slot := felt.NewFromUint64[felt.Felt](0x20)
	const n = 4
	var vals, hashes []*felt.Felt
	for i := 0; i < n; i++ {
		v := vxSlotValue("v")
		vx.Assume(!v.IsZero())
		vals = append(vals, v)
		hashes = append(hashes, felt.NewFromUint64[felt.Felt](uint64(0x100+i)))
		diff := core.EmptyStateDiff()
		diff.StorageDiffs[*a] = map[felt.Felt]*felt.Felt{*slot: v}
		if i == 0 {
			diff.DeployedContracts[*a] = felt.NewFromUint64[felt.Felt](0xAA)
		}
		oldR, newR := shadow.apply(uint64(i), &diff)
		parent := &felt.Zero
		if i > 0 {
			parent = hashes[i-1]
		}
		blk := &core.Block{Header: &core.Header{Number: uint64(i), Hash: hashes[i], ParentHash: parent, GlobalStateRoot: &newR, ProtocolVersion: "0.13.2"}}
		su := &core.StateUpdate{BlockHash: hashes[i], OldRoot: &oldR, NewRoot: &newR, StateDiff: &diff}
		vx.Assert(b.Store(blk, &core.BlockCommitments{}, su, nil) == nil, "block-stores")
	}
	readAll := func(after bool, floor int) {
		for i := 0; i < n; i++ {
			rn, _, en := b.StateAtBlockNumber(uint64(i))
			rh, _, eh := b.StateAtBlockHash(hashes[i])
			if !after {
				vx.Assert(en == nil && eh == nil, "views-open-before-the-prune")
				continue
			}
			if i < floor {
				// one block below the floor may still be answered (its state is the base of the history);
				// anything further down must be refused - and never answered with another block's values
				if en == nil {
					v, err := rn.ContractStorage(a, slot)
					vx.Assert(i == floor-1 && err == nil && v.Equal(vals[i]), "view-by-number-below-the-floor-is-refused-or-exact")
				}
				if eh == nil {
					v, err := rh.ContractStorage(a, slot)
					vx.Assert(i == floor-1 && err == nil && v.Equal(vals[i]), "view-by-hash-below-the-floor-is-refused-or-exact")
				}
				vx.Assert((en == nil) == (eh == nil), "pruned-block-is-reported-the-same-by-number-and-by-hash")
				continue
			}
			vx.Assert(en == nil && eh == nil, "retained-block-opens-by-number-and-by-hash")
			if en == nil && eh == nil {
				v1, e1 := rn.ContractStorage(a, slot)
				v2, e2 := rh.ContractStorage(a, slot)
				vx.Assert(e1 == nil && e2 == nil && v1.Equal(vals[i]) && v2.Equal(vals[i]), "retained-block-answers-the-value-as-of-that-block")
			}
		}
	}
	if vx.Choice("views-opened-before-the-prune", 2) == 1 {
		readAll(false, 0)
		vx.Cover("every-view-opened-before-the-prune")
	}
	floor := 1 + vx.Choice("prune-below", 3)
	_, kept, err := pruner.PruneUpto(context.Background(), mem, uint64(floor), 1<<20)
	vx.Assert(err == nil && kept == uint64(floor), "prune-ok")
	readAll(true, floor)
}
