//vx:pkg pruner
//vx:noreplay
package pruner

import (
	"errors"
	"time"

	"github.com/NethermindEth/juno/db"
	"github.com/NethermindEth/juno/zzverif/vx"
)

// C16-H5 (engine only): the minimum-age floor. FindOldestBlockAtOrAfter binary-searches a window of stored
// blocks for the first one whose timestamp is at or after the cut-off; every block from there on is younger
// than the configured minimum age and must stay. Block numbers are 64-bit symbolic (window of 1..8 blocks
// starting anywhere), the timestamps of the window are symbolic and non-decreasing (what a chain guarantees),
// the cut-off is symbolic; header reads are replaced by the timestamp table. Asserted: the result is exactly
// the least block of the window with timestamp >= cut-off - no such block lies below it (it would be pruned
// although too young), it is itself one, it lies in the window - and "no block in window" is reported exactly
// when every block is older than the cut-off.

var vxTsBase uint64
var vxTs [8]uint64
var vxTsLen uint64
var vxTsReads int

func vxTimestampByNumber(_ db.KeyValueReader, n uint64) (uint64, error) {
	vxTsReads++
	if n < vxTsBase || n-vxTsBase >= vxTsLen {
		return 0, db.ErrKeyNotFound
	}
	return vxTs[n-vxTsBase], nil
}

func VxC16FindOldestBlockAtOrAfter() {
	vx.Bound("window of 1..8 stored blocks starting at a symbolic 64-bit block number (window end below 2^64-1), symbolic non-decreasing 64-bit timestamps below 2^62, symbolic cut-off (unix seconds, 0..2^62); header reads replaced by the timestamp table")
	vx.Stub("github.com/NethermindEth/juno/core.GetBlockHeaderTimestampByNumber", vxTimestampByNumber)
	w := uint64(1 + vx.Choice("window", 8))
	base := vx.U64("lower")
	vx.Assume(base < 1<<63)
	vxTsBase, vxTsLen, vxTsReads = base, w, 0
	for i := uint64(0); i < w; i++ {
		vxTs[i] = vx.U64("timestamp")
		vx.Assume(vxTs[i] < 1<<62)
		if i > 0 {
			vx.Assume(vxTs[i-1] <= vxTs[i])
		}
	}
	cut := vx.U64("cutoff")
	vx.Assume(cut < 1<<62)
	upper := base + w - 1
	got, err := FindOldestBlockAtOrAfter(nil, base, upper, time.Unix(int64(cut), 0))
	// specification: least i with ts[i] >= cut
	want, found := uint64(0), false
	for i := uint64(0); i < w; i++ {
		if !found && vxTs[i] >= cut {
			want, found = base+i, true
		}
	}
	if found {
		vx.Cover("some-block-is-young-enough")
		vx.Assert(err == nil, "floor-found-when-a-block-is-at-or-after-the-cutoff")
		if err == nil {
			vx.Assert(got == want, "floor-is-the-oldest-block-at-or-after-the-cutoff")
		}
	} else {
		vx.Cover("every-block-is-older-than-the-cutoff")
		vx.Assert(errors.Is(err, ErrNoBlockInWindow), "no-block-in-window-reported-when-all-are-older")
	}
	vx.Assert(vxTsReads <= 4, "binary-search-reads-logarithmically-many-headers")
}
