//vx:pkg migration/historyprunner
//vx:include ../C18/historyprunner.go
package historyprunner

// C16-H6: the history-pruner migration never prunes above min(L1 head, chain head) - retained blocks and
// leaves every retained block readable. The scenario and its assertions are those of C18-H6
// (harness/C18/historyprunner.go): L1 head at or below the chain head, retention 0..3 blocks - including
// an L1 head inside the retention window, where nothing may be pruned - with and without an interrupted
// run; kept blocks keep their commitments, history, hash mappings and by-hash indexes, pruned blocks are
// exactly those below the floor.
func VxC16HistoryPrunerKeepsTheRetentionWindow() {
	VxC18HistoryPrunerMigration()
}
