//vx:pkg sync
//vx:noreplay
//vx:include kernels.go
package sync

import (
	"context"
	"errors"
	"time"

	"github.com/NethermindEth/juno/blockchain"
	"github.com/NethermindEth/juno/core"
	"github.com/NethermindEth/juno/core/felt"
	"github.com/NethermindEth/juno/feed"
	"github.com/NethermindEth/juno/utils/log"
	"github.com/NethermindEth/juno/zzverif/vx"
	"github.com/sourcegraph/conc/stream"
)

type (
	blockchainT = blockchain.Blockchain
	feltT       = felt.Felt
)

func feltFrom(v uint64) felt.Felt                  { return felt.FromUint64[felt.Felt](v) }
func nopLogger() log.StructuredLogger              { return log.NewNopZapLogger() }
func feedBlocks() *feed.Feed[*core.Block]          { return feed.New[*core.Block]() }
func feedReorgs() *feed.Feed[*ReorgBlockRange]     { return feed.New[*ReorgBlockRange]() }

// C06-H4 (engine only): the real syncBlocks loop - fetcher and verifier streams (conc/stream worker pools),
// pollLatest, store and revert tasks, stream resets and restarts - executed from source on the engine's
// cooperative scheduler with logical time, against the model local chain and a model feeder that answers
// at once for blocks it has and with "not found" after one network round trip of logical time for blocks
// beyond its tip. One schedule per path. The local chain starts as a prefix of the remote chain
// or on a fork of it; the node is stopped once the local chain equals the remote one. Asserted: only
// verified blocks were stored, each the successor of the head at that moment; only blocks the remote chain
// does not have were reverted, down to the common ancestor exactly; the local chain ends equal to the remote.

type vxPipeSource struct {
	vxSource
}

func (s *vxPipeSource) BlockByNumber(ctx context.Context, n uint64) (CommittedBlock, error) {
	if s.tick() {
		return CommittedBlock{}, errors.New("source: request failed")
	}
	if n >= uint64(len(s.remote)) {
		// beyond the tip: "not found" after a network round trip (logical time), or at once when the
		// stream is torn down
		select {
		case <-ctx.Done():
		case <-time.After(time.Second):
		}
		return CommittedBlock{}, errors.New("source: block unavailable")
	}
	return CommittedBlock{Block: &core.Block{Header: vxHeader(s.remote, n)}, Persisted: make(chan error, 1)}, nil
}

var vxPipeCancel context.CancelFunc
var vxPipeTarget []uint64
var vxPipeForked, vxPipeForkAt int

func VxC06PipelineRun() {
	vx.Bound("remote chain of 2..3 blocks; local chain = a prefix of it (1..2 blocks) or a fork of depth 1..2 above a shared prefix of 1..2 blocks; the k-th request to the source fails (k in 1..5) or none; one worker per stream; one schedule per path; logical time; stopped when the local chain equals the remote one")
	vx.RealPools()
	s, _, _ := vxSetupPipeline()
	ctx, cancel := context.WithCancel(context.Background())
	vxPipeCancel = cancel
	// a subscriber of the reorg feed (a goroutine of its own, as the RPC layer has)
	reorgSub := s.reorgFeed.Subscribe()
	var announced []ReorgBlockRange
	var storedWhenAnnounced []int
	go func() {
		for r := range reorgSub.Recv() {
			announced = append(announced, *r)
			storedWhenAnnounced = append(storedWhenAnnounced, len(vxStored))
		}
	}()
	s.syncBlocks(ctx)
	cancel()
	reorgSub.Unsubscribe()
	vx.Assert(len(vxLocal) == len(vxPipeTarget), "engine:local-chain-reaches-the-remote-height")
	for i := range vxLocal {
		if i < len(vxPipeTarget) {
			vx.Assert(vxLocal[i].Uint64() == vxPipeTarget[i], "engine:local-chain-equals-the-remote-chain")
		}
	}
	for _, n := range vxStored {
		vx.Assert(vxVerified[n], "engine:only-verified-blocks-stored")
	}
	// only blocks the remote chain does not have were reverted, newest first, down to the fork point
	for i, n := range vxReverted {
		vx.Cover("reverted")
		vx.Assert(vxPipeForked > 0 && n >= uint64(vxPipeForkAt), "engine:only-blocks-the-source-dropped-are-reverted")
		if i > 0 {
			vx.Assert(n+1 == vxReverted[i-1], "engine:reverts-go-down-from-the-head")
		}
	}
	vx.Assert(len(vxReverted) == vxPipeForked, "engine:reverted-exactly-the-forked-blocks")
	// subscribers hear of the reorg once, with the range of everything that was reverted
	if vxPipeForked > 0 {
		vx.Assert(len(announced) == 1, "engine:one-reorg-announcement")
		if len(announced) == 1 {
			vx.Assert(announced[0].StartBlockNum == uint64(vxPipeForkAt) && announced[0].EndBlockNum == uint64(vxPipeForkAt+vxPipeForked-1),
				"engine:announced-range-delimits-everything-reverted")
		}
	} else {
		vx.Assert(len(announced) == 0, "engine:no-reorg-announced-without-a-revert")
	}
	// Confinement: between two restarts of the streams, every change of the local chain - store or revert - is
	// made by one goroutine (the callback runner of the verifier stream). That is what orders a revert behind
	// every store queued before it, and what makes the one schedule explored here representative: a revert
	// issued from another goroutine could run between a block's commit and its new-head notification.
	for i := 1; i < len(vxChainWriters); i++ {
		if vxStreamEpochAt(i) == vxStreamEpochAt(i-1) {
			vx.Assert(vxChainWriters[i] == vxChainWriters[i-1], "engine:chain-changes-are-confined-to-one-goroutine-per-stream-generation")
		}
	}
	// every stored block extended the head of that moment: numbers are consecutive per segment
	for i := 1; i < len(vxStored); i++ {
		vx.Assert(vxStored[i] == vxStored[i-1]+1, "engine:stored-blocks-are-consecutive")
	}
}

// vxChainWriters: ids of the goroutines that changed the local chain (Store / RevertHead), in order, and the
// stream generation (number of setupWorkers calls so far) each change happened in.
var vxChainWriters []int
var vxChainWriterEpoch []int
var vxStreamEpoch int

func vxStreamEpochAt(i int) int { return vxChainWriterEpoch[i] }

// setupWorkers as in the source for tip mode (one fetch worker), counting the stream generations.
func vxSetupWorkers(s *Synchronizer) (*stream.Stream, *stream.Stream) {
	vxStreamEpoch++
	return stream.New().WithMaxGoroutines(1), stream.New().WithMaxGoroutines(1)
}

func vxPipeRevertHead(b *blockchainT) error {
	vxChainWriters = append(vxChainWriters, vx.GoroutineID())
	vxChainWriterEpoch = append(vxChainWriterEpoch, vxStreamEpoch)
	return vxRevertHead(b)
}

func vxPipeStore(b *blockchainT, blk *core.Block, c *core.BlockCommitments, su *core.StateUpdate, cl map[feltT]core.ClassDefinition) error {
	vxChainWriters = append(vxChainWriters, vx.GoroutineID())
	vxChainWriterEpoch = append(vxChainWriterEpoch, vxStreamEpoch)
	err := vxStore(b, blk, c, su, cl)
	if err == nil && len(vxLocal) == len(vxPipeTarget) {
		same := true
		for i := range vxLocal {
			if vxLocal[i].Uint64() != vxPipeTarget[i] {
				same = false
			}
		}
		if same {
			vxPipeCancel() // the operator stops the node
		}
	}
	return err
}

func vxSetupPipeline() (*Synchronizer, *vxPipeSource, int) {
	bc := "(*github.com/NethermindEth/juno/blockchain.Blockchain)."
	vx.Stub(bc+"Height", vxHeight)
	vx.Stub(bc+"BlockHeaderByNumber", vxHeaderByNumber)
	vx.Stub(bc+"HeadsHeader", vxHeadsHeader)
	vx.Stub(bc+"RevertHead", vxPipeRevertHead)
	vx.Stub(bc+"Store", vxPipeStore)
	vx.Stub("(*github.com/NethermindEth/juno/sync.Synchronizer).setupWorkers", vxSetupWorkers)
	vxChainWriters, vxChainWriterEpoch, vxStreamEpoch = nil, nil, 0
	vx.Stub(bc+"SanityCheckNewHeight", vxSanity)
	vxReverted, vxStored, vxNewHeads, vxReorgs = nil, nil, nil, nil
	vxVerified = map[uint64]bool{}
	vxSanityFails = false
	rn := 2 + vx.Choice("remoteLen", 2)
	src := &vxPipeSource{vxSource{remote: make([]feltT, rn), failAt: -1}}
	vxPipeTarget = nil
	for i := range src.remote {
		src.remote[i] = feltFrom(uint64(10 + i))
		vxPipeTarget = append(vxPipeTarget, uint64(10+i))
	}
	forked := 0
	switch vx.Choice("local", 5) {
	case 0:
		vxLocal = []feltT{src.remote[0]}
	case 1:
		vx.Assume(rn == 3) // something is left to fetch
		vxLocal = []feltT{src.remote[0], src.remote[1]}
	case 2:
		vxLocal = []feltT{src.remote[0], feltFrom(99)}
		forked = 1
		vx.Cover("local-chain-on-a-fork")
	case 3:
		vxLocal = []feltT{src.remote[0], feltFrom(98), feltFrom(99)}
		forked = 2
		vx.Cover("local-chain-on-a-fork-of-depth-2")
	case 4:
		vx.Assume(rn == 3)
		vxLocal = []feltT{src.remote[0], src.remote[1], feltFrom(99)}
		forked = 1
		vx.Cover("fork-above-a-shared-block")
	}
	vxPipeForked = forked
	vxPipeForkAt = len(vxLocal) - forked
	src.failAt = vx.Choice("source-fails-at-call", 6) - 1
	s := New(new(blockchainT), src, nopLogger(), 0, false, nil)
	return s, src, forked
}
