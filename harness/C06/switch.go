//vx:pkg sync
//vx:noreplay
//vx:include kernels.go
//vx:include pipeline.go
package sync

import (
	"context"
	"errors"
	"time"

	"github.com/NethermindEth/juno/core"
	"github.com/NethermindEth/juno/zzverif/vx"
)

// C06-H5 (engine only): the source REPLACES ITS TIP while the node is syncing. The real syncBlocks loop runs
// from source on the cooperative scheduler (as in C06-H4); the local chain starts at the genesis block, the
// feeder first serves chain A (2..3 blocks) and from its k-th answered request on chain B, which shares a
// prefix of 1..2 blocks with A and has the same or a different tip height. A subscriber of the new-heads feed
// and one of the reorg feed listen; the store-step listener may be slow (it blocks for two round trips of
// logical time), which is the window in which a reorg detected by a failed fetch of the next block could
// overtake the store step of the block being replaced. Asserted: the node ends on chain B; only verified
// successors were stored; every reverted block is one chain B does not have, newest first; a block is
// reverted only after its own new-head notification was sent (a subscriber never hears of a block after it
// is gone); the announced reorg ranges add up to what was reverted; all changes of the local chain within one
// generation of the streams come from one goroutine.

type vxSwitchSource struct {
	vxSource
	chainB   []feltT
	switchAt int // from the k-th call on the source answers from chain B
}

func (s *vxSwitchSource) turn() bool {
	if s.calls >= s.switchAt && s.chainB != nil {
		s.remote, s.chainB = s.chainB, nil
		vx.Cover("source-switched-to-the-other-fork")
	}
	return s.tick()
}

func (s *vxSwitchSource) BlockByNumber(ctx context.Context, n uint64) (CommittedBlock, error) {
	if s.turn() {
		return CommittedBlock{}, errors.New("source: request failed")
	}
	if n >= uint64(len(s.remote)) {
		select {
		case <-ctx.Done():
		case <-time.After(time.Second):
		}
		return CommittedBlock{}, errors.New("source: block unavailable")
	}
	return CommittedBlock{Block: &core.Block{Header: vxHeader(s.remote, n)}, Persisted: make(chan error, 1)}, nil
}

func (s *vxSwitchSource) BlockHeaderLatest(ctx context.Context) (*core.Header, error) {
	if s.turn() || len(s.remote) == 0 {
		return nil, errors.New("source: unavailable")
	}
	return vxHeader(s.remote, uint64(len(s.remote)-1)), nil
}

// what the subscribers and the chain model saw, in order
type vxEv struct {
	kind byte // 'S' stored, 'H' new head heard, 'R' reverted
	n    uint64
	hash uint64
}

var vxEvents []vxEv

func vxSwitchStore(b *blockchainT, blk *core.Block, c *core.BlockCommitments, su *core.StateUpdate, cl map[feltT]core.ClassDefinition) error {
	err := vxPipeStore(b, blk, c, su, cl)
	if err == nil {
		vxEvents = append(vxEvents, vxEv{'S', blk.Number, blk.Hash.Uint64()})
	}
	return err
}

func vxSwitchRevertHead(b *blockchainT) error {
	// let every goroutine that is ready (the subscribers) run before the head goes away
	<-time.After(0)
	if len(vxLocal) > 0 {
		vxEvents = append(vxEvents, vxEv{'R', uint64(len(vxLocal) - 1), vxLocal[len(vxLocal)-1].Uint64()})
	}
	return vxPipeRevertHead(b)
}

func VxC06SourceReplacesTip() {
	vx.Bound("local chain = genesis; the source serves chain A (2..3 blocks) and from its k-th answered request (k in 0..5) chain B sharing 1..2 blocks with A, B's tip at A's height or one above/below; store-step listener instantaneous or slow (2 round trips of logical time); one worker per stream; one schedule per path; stopped when the local chain equals B")
	vx.RealPools()
	bc := "(*github.com/NethermindEth/juno/blockchain.Blockchain)."
	s, _, _ := vxSetupPipeline() // installs the chain model; its source and local chain are replaced below
	vx.Stub(bc+"Store", vxSwitchStore)
	vx.Stub(bc+"RevertHead", vxSwitchRevertHead)
	vxEvents = nil
	la := 2 + vx.Choice("lenA", 2)
	shared := 1 + vx.Choice("shared", 2)
	vx.Assume(shared < la)
	lb := shared + 1 + vx.Choice("lenB-above-shared", 2)
	A := make([]feltT, la)
	B := make([]feltT, lb)
	for i := range A {
		A[i] = feltFrom(uint64(10 + i))
	}
	vxPipeTarget = nil
	for i := range B {
		if i < shared {
			B[i] = A[i]
		} else {
			B[i] = feltFrom(uint64(50 + i))
		}
		vxPipeTarget = append(vxPipeTarget, B[i].Uint64())
	}
	src := &vxSwitchSource{vxSource: vxSource{remote: A, failAt: -1}, chainB: B, switchAt: vx.Choice("switch-at-call", 6)}
	s.dataSource = src
	vxLocal = []feltT{A[0]}
	slow := vx.Choice("slow-store-listener", 2) == 1
	s.listener = &SelectiveListener{OnSyncStepDoneCb: func(op string, n uint64, _ time.Duration) {
		if slow && op == OpStore {
			<-time.After(2 * time.Second)
		}
	}}
	ctx, cancel := context.WithCancel(context.Background())
	vxPipeCancel = cancel
	reorgSub := s.reorgFeed.Subscribe()
	headSub := s.newHeads.Subscribe()
	var announced []ReorgBlockRange
	go func() {
		for r := range reorgSub.Recv() {
			announced = append(announced, *r)
		}
	}()
	go func() {
		for b := range headSub.Recv() {
			vxEvents = append(vxEvents, vxEv{'H', b.Number, b.Hash.Uint64()})
		}
	}()
	s.syncBlocks(ctx)
	cancel()
	<-time.After(0) // the subscribers drain what was sent last
	reorgSub.Unsubscribe()
	headSub.Unsubscribe()

	vx.Assert(len(vxLocal) == len(B), "engine:local-chain-reaches-the-height-of-the-source")
	for i := range vxLocal {
		if i < len(B) {
			vx.Assert(vxLocal[i].Uint64() == B[i].Uint64(), "engine:local-chain-equals-the-chain-the-source-has-now")
		}
	}
	for _, n := range vxStored {
		vx.Assert(vxVerified[n], "engine:only-verified-blocks-stored")
	}
	reverted := 0
	for i, e := range vxEvents {
		switch e.kind {
		case 'R':
			reverted++
			vx.Cover("a-stored-block-was-replaced")
			vx.Assert(e.n >= uint64(len(B)) || B[e.n].Uint64() != e.hash, "engine:only-blocks-the-source-dropped-are-reverted")
			heard := false
			for _, p := range vxEvents[:i] {
				if p.kind == 'H' && p.n == e.n && p.hash == e.hash {
					heard = true
				}
			}
			vx.Assert(heard, "engine:a-block-is-reverted-only-after-its-new-head-notification")
		}
	}
	total := 0
	for _, r := range announced {
		total += int(r.EndBlockNum-r.StartBlockNum) + 1
	}
	vx.Assert(total == reverted, "engine:announced-reorg-ranges-add-up-to-what-was-reverted")
	for i := 1; i < len(vxChainWriters); i++ {
		if vxStreamEpochAt(i) == vxStreamEpochAt(i-1) {
			vx.Assert(vxChainWriters[i] == vxChainWriters[i-1], "engine:chain-changes-are-confined-to-one-goroutine-per-stream-generation")
		}
	}
}
