//vx:pkg sync
//vx:noreplay
//vx:include pipeline.go
//vx:include kernels.go
package sync

import (
	"context"
	"errors"

	"github.com/NethermindEth/juno/core"
	"github.com/NethermindEth/juno/zzverif/vx"
)

// C06-H6 (engine only): "only ever stores verified blocks" against a source that answers the same request
// differently over time. The real syncBlocks loop as in C06-H4; the feeder serves, for its k-th block
// response, a *corrupted variant*: the same header and hash (the hash is only the source's claim) with
// content that does not match it - which the sanity check, and only the sanity check, can tell. Besides,
// the first attempt to store a chosen height may fail for a reason of the node's own (a transient database
// error), so that a block which has already been verified is fetched again. Whatever the combination, the
// block handed to Store is never a corrupted variant (judged by its content, not by object identity) and the node
// still converges to the remote chain.

var vxCorruptAt int       // the k-th served block (0-based) is a corrupted variant; -1: none
var vxServed int
var vxStoreFailsOnceAt int // first Store of this height fails with a transient error; -1: none
var vxStoreFailed bool
var vxCorruptStored int
var vxAccepted map[*core.Block]bool

type vxCorruptSource struct {
	vxPipeSource
}

func (s *vxCorruptSource) BlockByNumber(ctx context.Context, n uint64) (CommittedBlock, error) {
	cb, err := s.vxPipeSource.BlockByNumber(ctx, n)
	if err != nil {
		return cb, err
	}
	k := vxServed
	vxServed++
	if k == vxCorruptAt {
		// same header, same hash; a transaction count that the (absent) transactions do not match
		cb.Block.TransactionCount = 7
		vx.Cover("sched:corrupted-variant-served")
	}
	return cb, nil
}

func vxSanityContent(_ *blockchainT, b *core.Block, _ *core.StateUpdate, _ map[feltT]core.ClassDefinition) (*core.BlockCommitments, error) {
	if b.TransactionCount != uint64(len(b.Transactions)) {
		return nil, errors.New("sanity check failed: content does not match the header")
	}
	vxVerified[b.Number] = true
	vxAccepted[b] = true
	return &core.BlockCommitments{}, nil
}

func vxStoreChecked(b *blockchainT, blk *core.Block, c *core.BlockCommitments, su *core.StateUpdate, cl map[feltT]core.ClassDefinition) error {
	if int(blk.Number) == vxStoreFailsOnceAt && !vxStoreFailed {
		vxStoreFailed = true
		vx.Cover("sched:transient-store-failure")
		return errors.New("pebble: transient write failure")
	}
	if blk.TransactionCount != uint64(len(blk.Transactions)) {
		vxCorruptStored++
	}
	return vxPipeStore(b, blk, c, su, cl)
}

func VxC06CorruptedRefetchIsNeverStored() {
	vx.Bound("remote chain of 2..3 blocks, local chain a prefix of 1..2 blocks; the k-th block response of the source (k in 0..4, or none) is a corrupted variant with the genuine header and hash; the first store of height 1 or 2 fails with a transient error, or none does; one worker per stream; one schedule per path; logical time")
	vx.RealPools()
	s, psrc, forked := vxSetupPipeline()
	vx.Assume(forked == 0)
	vx.Assume(psrc.failAt < 0)
	bc := "(*github.com/NethermindEth/juno/blockchain.Blockchain)."
	vx.Stub(bc+"SanityCheckNewHeight", vxSanityContent)
	vx.Stub(bc+"Store", vxStoreChecked)
	vxAccepted = map[*core.Block]bool{}
	vxServed, vxStoreFailed, vxCorruptStored = 0, false, 0
	vxCorruptAt = vx.Choice("corrupted-response", 6) - 1
	vxStoreFailsOnceAt = []int{-1, 1, 2}[vx.Choice("transient-store-failure-at", 3)]
	s.dataSource = &vxCorruptSource{*psrc}
	ctx, cancel := context.WithCancel(context.Background())
	vxPipeCancel = cancel
	s.syncBlocks(ctx)
	cancel()
	vx.Assert(vxCorruptStored == 0, "engine:no-corrupted-variant-is-ever-stored")
	vx.Assert(len(vxLocal) == len(vxPipeTarget), "engine:local-chain-reaches-the-remote-height")
	for i := range vxLocal {
		if i < len(vxPipeTarget) {
			vx.Assert(vxLocal[i].Uint64() == vxPipeTarget[i], "engine:local-chain-equals-the-remote-chain")
		}
	}
}
