//vx:pkg sync
//vx:noreplay
package sync

import (
	"context"
	"errors"

	"github.com/NethermindEth/juno/blockchain"
	"github.com/NethermindEth/juno/blockchain/statebackend"
	"github.com/NethermindEth/juno/core"
	"github.com/NethermindEth/juno/core/felt"
	"github.com/NethermindEth/juno/feed"
	"github.com/NethermindEth/juno/starknet"
	"github.com/NethermindEth/juno/utils/log"
	"github.com/NethermindEth/juno/zzverif/vx"
)

// C06 (kernel level): the sequential reorg-detection / revert / store kernels of the synchronizer
// against a model chain. The local chain is a model (concrete-typed *blockchain.Blockchain methods
// are redirected inside the engine: no native replay), the data source is a model implementation of
// the DataSource interface that may fail at arbitrary calls and serves an arbitrary remote chain
// sharing a prefix with the local one. Goroutine schedules of the fetch/verify/store pipeline are
// outside this claim.

var (
	vxLocal    []felt.Felt // local chain: block i has hash vxLocal[i], parent vxLocal[i-1]
	vxReverted []uint64
	vxStored   []uint64
	vxNewHeads []uint64
	vxReorgs   []ReorgBlockRange
	vxVerified map[uint64]bool
	vxSanityFails bool
)

var vxZero felt.Felt

func vxHeader(chain []felt.Felt, n uint64) *core.Header {
	h := &core.Header{Number: n, Hash: &chain[n], ParentHash: &vxZero, GlobalStateRoot: &vxZero}
	if n > 0 {
		h.ParentHash = &chain[n-1]
	}
	return h
}

func vxHeight(*blockchain.Blockchain) (uint64, error) {
	if len(vxLocal) == 0 {
		return 0, errors.New("empty chain")
	}
	return uint64(len(vxLocal) - 1), nil
}

func vxHeaderByNumber(_ *blockchain.Blockchain, n uint64) (*core.Header, error) {
	if n >= uint64(len(vxLocal)) {
		return nil, errors.New("not found")
	}
	return vxHeader(vxLocal, n), nil
}

func vxHeadsHeader(*blockchain.Blockchain) (*core.Header, error) {
	if len(vxLocal) == 0 {
		return nil, errors.New("empty chain")
	}
	return vxHeader(vxLocal, uint64(len(vxLocal)-1)), nil
}

func vxRevertHead(*blockchain.Blockchain) error {
	if len(vxLocal) == 0 {
		return errors.New("empty chain")
	}
	vxReverted = append(vxReverted, uint64(len(vxLocal)-1))
	vxLocal = vxLocal[:len(vxLocal)-1]
	return nil
}

func vxStore(_ *blockchain.Blockchain, b *core.Block, _ *core.BlockCommitments, _ *core.StateUpdate, _ map[felt.Felt]core.ClassDefinition) error {
	if b.Number != uint64(len(vxLocal)) {
		return errors.New("block number difference between head and incoming block is not 1")
	}
	if len(vxLocal) > 0 && !b.ParentHash.Equal(&vxLocal[len(vxLocal)-1]) {
		// what the real Store returns: the state backend's error value (verifyBlockSuccession)
		return statebackend.ErrParentDoesNotMatchHead
	}
	vxLocal = append(vxLocal, *b.Hash)
	vxStored = append(vxStored, b.Number)
	return nil
}

func vxSanity(_ *blockchain.Blockchain, b *core.Block, _ *core.StateUpdate, _ map[felt.Felt]core.ClassDefinition) (*core.BlockCommitments, error) {
	if vxSanityFails {
		return nil, errors.New("sanity check failed")
	}
	vxVerified[b.Number] = true
	return &core.BlockCommitments{}, nil
}


type vxSource struct {
	remote   []felt.Felt
	failAt   int // fail the k-th call (-1 never)
	calls    int
	staleTip int // BlockHeaderLatest reports remote[len-1-staleTip]
}

func (s *vxSource) tick() bool {
	k := s.calls
	s.calls++
	return k == s.failAt
}
func (s *vxSource) BlockByNumber(_ context.Context, n uint64) (CommittedBlock, error) {
	if s.tick() || n >= uint64(len(s.remote)) {
		return CommittedBlock{}, errors.New("source: block unavailable")
	}
	return CommittedBlock{Block: &core.Block{Header: vxHeader(s.remote, n)}, Persisted: make(chan error, 1)}, nil
}
func (s *vxSource) BlockHeaderLatest(context.Context) (*core.Header, error) {
	if s.tick() || len(s.remote) == 0 {
		return nil, errors.New("source: unavailable")
	}
	return vxHeader(s.remote, uint64(len(s.remote)-1-s.staleTip)), nil
}
func (s *vxSource) PreConfirmedBlockByNumber(context.Context, uint64, string, uint64) (starknet.PreConfirmedUpdate, error) {
	return nil, errors.New("unused")
}
func (s *vxSource) PreConfirmedBlockLatest(context.Context, string, uint64) (starknet.PreConfirmedUpdate, uint64, error) {
	return nil, 0, errors.New("unused")
}
func (s *vxSource) Class(context.Context, *felt.Felt) (core.ClassDefinition, error) {
	return nil, errors.New("unused")
}

func vxSmall(name string) felt.Felt {
	k := vx.U8(name)
	vx.Assume(k >= 1 && k <= 3)
	return felt.FromUint64[felt.Felt](uint64(k))
}

// vxSetup builds local and remote chains of length 1..3 / 1..4 over a 3-value hash domain that agree
// exactly on the first F blocks.
func vxSetup() (*Synchronizer, *vxSource, int) {
	bc := "(*github.com/NethermindEth/juno/blockchain.Blockchain)."
	vx.Stub(bc+"Height", vxHeight)
	vx.Stub(bc+"BlockHeaderByNumber", vxHeaderByNumber)
	vx.Stub(bc+"HeadsHeader", vxHeadsHeader)
	vx.Stub(bc+"RevertHead", vxRevertHead)
	vx.Stub(bc+"Store", vxStore)
	vx.Stub(bc+"SanityCheckNewHeight", vxSanity)
	vxReverted, vxStored, vxNewHeads, vxReorgs = nil, nil, nil, nil
	vxVerified = map[uint64]bool{}
	vxSanityFails = false
	ln := 1 + vx.Choice("localLen", 3)
	rn := 1 + vx.Choice("remoteLen", 4)
	vxLocal = make([]felt.Felt, ln)
	src := &vxSource{remote: make([]felt.Felt, rn), failAt: vx.Choice("failAt", 4) - 1}
	for i := range vxLocal {
		vxLocal[i] = vxSmall("local")
	}
	for i := range src.remote {
		src.remote[i] = vxSmall("remote")
	}
	// common prefix of length F (genesis is always shared), blocks at F differ when both exist
	m := ln
	if rn < m {
		m = rn
	}
	F := 1 + vx.Choice("fork", m)
	for i := 0; i < F; i++ {
		vx.Assume(vxLocal[i].Equal(&src.remote[i]))
	}
	// a block hash commits to its parent: once the chains diverge they differ at every later height
	for i := F; i < m; i++ {
		vx.Assume(!vxLocal[i].Equal(&src.remote[i]))
	}
	s := New(new(blockchain.Blockchain), src, log.NewNopZapLogger(), 0, false, nil)
	vxHeadSub, vxReorgSub = s.newHeads.Subscribe(), s.reorgFeed.Subscribe()
	return s, src, F
}

var (
	vxHeadSub  *feed.Subscription[*core.Block]
	vxReorgSub *feed.Subscription[*ReorgBlockRange]
)

// vxDrain moves what the real feeds delivered (buffer of one) into the recorded lists.
func vxDrain() {
	select {
	case b := <-vxHeadSub.Recv():
		vxNewHeads = append(vxNewHeads, b.Number)
	default:
	}
	select {
	case r := <-vxReorgSub.Recv():
		vxReorgs = append(vxReorgs, *r)
	default:
	}
}

// C06-H1: reorg detection never fires while the source is ahead or unreachable, and when it fires the
// two chains really differ at the compared height.
func VxC06IsReverting() {
	vx.Bound("local chain 1..3 blocks, remote chain 1..4 blocks over a 3-value hash domain, shared prefix of symbolic length; source failure at an arbitrary call; stale latest header")
	s, src, _ := vxSetup()
	src.staleTip = vx.Choice("stale", 2)
	vx.Assume(src.staleTip < len(src.remote))
	localH := uint64(len(vxLocal) - 1)
	next := vx.U64("nextHeight")
	// the highest header the node has seen from the source so far: none, or an arbitrary one (after the
	// node followed a reorg onto a fork that is not longer, it is a header of the ABANDONED fork)
	if vx.Choice("remembers-a-header-of-the-source", 2) == 1 {
		hb := vx.FeltBytes("remembered.hash")
		rh := new(felt.Felt).SetBytes(hb[:])
		s.highestBlockHeader.Store(&core.Header{Number: vx.U64("remembered.number"), Hash: rh, ParentHash: &vxZero, GlobalStateRoot: &vxZero})
		vx.Cover("node-remembers-a-header-of-the-source")
	}
	callsBefore := src.calls
	last, isReorg := s.isReverting(context.Background(), next)
	if src.failAt >= callsBefore && src.failAt < src.calls {
		// the source could not be asked: without its word nothing may be declared dropped
		vx.Cover("source-unavailable-during-the-check")
		vx.Assert(!isReorg, "no-reorg-declared-when-the-source-could-not-be-asked")
	}
	if !isReorg {
		vx.Cover("no-reorg")
		return
	}
	vx.Cover("reorg-detected")
	reportedH := uint64(len(src.remote) - 1 - src.staleTip)
	vx.Assert(next == localH+1, "checks-only-when-waiting-for-next-block")
	vx.Assert(reportedH <= localH, "never-when-source-is-ahead")
	vx.Assert(!vxLocal[reportedH].Equal(&src.remote[reportedH]), "chains-differ-at-compared-height")
	vx.Assert(last == reportedH-1 || reportedH == 0, "last-possibly-valid-height-is-below-compared-block")
	vx.Assert(len(vxReverted) == 0, "detection-reverts-nothing")
}

// C06-H2: the revert loop only removes blocks the source does not have at that height (or that lie
// above lastPossiblyValidHeight), stops at the common ancestor when the source answers, and the
// reorg notification delimits exactly the reverted range, emitted once with the next stored block.
func VxC06RevertThenStore() {
	vx.Bound("local chain 1..3 blocks, remote chain 1..4 blocks over a 3-value hash domain, shared prefix of symbolic length; trigger: Store of the remote block above the local head; source failure at an arbitrary call")
	s, src, F := vxSetup()
	ln := len(vxLocal)
	vx.Assume(len(src.remote) > ln) // the source has the block right above the local head
	before := append([]felt.Felt{}, vxLocal...)
	ctx := context.Background()
	reset := func() {}
	// the pipeline: verify then store the remote block at height ln
	cb, err := src.BlockByNumber(ctx, uint64(ln))
	if err != nil {
		return
	}
	task := s.verifierTask(ctx, &cb, reset)
	task()
	vxDrain()
	perr := <-cb.Persisted
	if F == ln {
		// the remote block extends the local head
		vx.Cover("extends-head")
		vx.Assert(perr == nil && len(vxStored) == 1 && vxStored[0] == uint64(ln), "verified-successor-stored")
		vx.Assert(vxVerified[uint64(ln)], "stored-only-after-verification")
		vx.Assert(len(vxReverted) == 0, "no-revert-when-extending")
		vx.Assert(len(vxNewHeads) == 1 && vxNewHeads[0] == uint64(ln), "new-head-once-per-stored-block")
		return
	}
	vx.Cover("fork-below-head")
	vx.Assert(perr != nil && len(vxStored) == 0, "non-successor-not-stored")
	// every reverted block is one the source no longer has at that height
	for _, n := range vxReverted {
		vx.Assert(n >= uint64(F), "never-reverts-a-block-the-source-still-has")
		vx.Assert(n < uint64(len(before)), "reverts-only-existing-blocks")
	}
	for i := 1; i < len(vxReverted); i++ {
		vx.Assert(vxReverted[i] == vxReverted[i-1]-1, "reverts-from-the-head-downwards")
	}
	vx.Assert(len(vxLocal) >= F, "local-chain-keeps-common-prefix")
	if src.failAt < 0 {
		vx.Cover("source-stable")
		vx.Assert(len(vxLocal) == F, "stops-exactly-at-common-ancestor")
	}
	if len(vxReverted) > 0 {
		vx.Assert(s.currReorg != nil &&
			s.currReorg.EndBlockNum == uint64(len(before)-1) && s.currReorg.StartBlockNum == vxReverted[len(vxReverted)-1],
			"reorg-range-delimits-reverted-blocks")
	}
	vx.Assert(len(vxNewHeads) == 0 && len(vxReorgs) == 0, "nothing-announced-before-next-store")
	// follow-up: the pipeline keeps going - store the remote block right above the current head;
	// after an interrupted revert (source failure) this attempt fails again and a second revert
	// round runs, and so on until the common ancestor is reached and a block is stored
	stored := false
	for round := 0; round < 4 && !stored; round++ {
		cb2, err2 := src.BlockByNumber(ctx, uint64(len(vxLocal)))
		if err2 != nil {
			continue
		}
		s.verifierTask(ctx, &cb2, reset)()
		vxDrain()
		stored = <-cb2.Persisted == nil
	}
	if src.failAt < 0 {
		vx.Assert(stored, "remote-successor-stored-after-revert")
	}
	if !stored {
		vx.Cover("opt:not-converged-within-the-bound")
		return
	}
	if src.failAt >= 0 {
		vx.Cover("converged-after-an-interrupted-revert")
	}
	// one reorg, announced once, delimiting everything that was reverted
	vx.Assert(len(vxReorgs) == 1 && len(vxNewHeads) == 1, "reorg-announced-once-with-next-stored-block")
	if len(vxReorgs) == 1 && len(vxReverted) > 0 {
		vx.Assert(vxReorgs[0].EndBlockNum == uint64(len(before)-1) && vxReorgs[0].StartBlockNum == vxReverted[len(vxReverted)-1],
			"announced-range-delimits-everything-reverted")
	}
	vx.Assert(s.currReorg == nil, "reorg-state-cleared")
}

// C06-H3: a block that fails verification is never stored.
func VxC06VerifierGate() {
	vx.Bound("one block; verification outcome symbolic")
	s, src, _ := vxSetup()
	vx.Assume(len(src.remote) > len(vxLocal) && src.failAt < 0)
	vxSanityFails = vx.Bool("sanityFails")
	cb, err := src.BlockByNumber(context.Background(), uint64(len(vxLocal)))
	if err != nil {
		return
	}
	resets := 0
	s.verifierTask(context.Background(), &cb, func() { resets++ })()
	perr := <-cb.Persisted
	if vxSanityFails {
		vx.Cover("verification-failed")
		vx.Assert(perr != nil && len(vxStored) == 0 && resets == 1, "unverified-block-never-stored")
	} else {
		vx.Cover("verification-passed")
	}
}
