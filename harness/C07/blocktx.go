//vx:pkg core
package core

import (
	"github.com/NethermindEth/juno/core/felt"
	"github.com/NethermindEth/juno/zzverif/vx"
)

// C07-H2: BlockTransactions: transactions and receipts of a block stored in one buffer; the full
// decoders address exactly the items that were written (opaque codec model: offsets only).
func VxC07BlockTransactions() {
	vx.Bound("blocks with 0..2 transactions and as many receipts; encoded items 1..3 bytes (opaque codec model)")
	vx.BlobLens(1, 3)
	n := vx.Choice("n", 3)
	var txs []Transaction
	var rs []*TransactionReceipt
	for i := 0; i < n; i++ {
		hb := vx.FeltBytes("h")
		h := new(felt.Felt).SetBytes(hb[:])
		txs = append(txs, &InvokeTransaction{TransactionHash: h})
		fb := vx.FeltBytes("fee")
		rs = append(rs, &TransactionReceipt{TransactionHash: h, Fee: new(felt.Felt).SetBytes(fb[:])})
	}
	bt, err := NewBlockTransactions(txs, rs)
	vx.Assert(err == nil, "encode-ok")
	vx.Assert(len(bt.Indexes.Transactions) == n && len(bt.Indexes.Receipts) == n, "one-offset-per-item")
	gt, terr := bt.Transactions().All()
	gr, rerr := bt.Receipts().All()
	vx.Assert(terr == nil && rerr == nil && len(gt) == n && len(gr) == n, "all-items-decode")
	for i := 0; i < n; i++ {
		vx.Assert(gt[i].Hash().Equal(txs[i].Hash()), "transaction-i-is-transaction-i")
		vx.Assert(gr[i].TransactionHash.Equal(rs[i].TransactionHash) && gr[i].Fee.Equal(rs[i].Fee), "receipt-i-is-receipt-i")
	}
	if n > 0 {
		i := vx.Choice("i", n)
		t, e := bt.Transactions().Get(i)
		vx.Assert(e == nil && t.Hash().Equal(txs[i].Hash()), "get-transaction-by-index")
		r, e2 := bt.Receipts().Get(i)
		vx.Assert(e2 == nil && r.TransactionHash.Equal(rs[i].TransactionHash), "get-receipt-by-index")
		vx.Cover("non-empty-block")
	}
}
