//vx:pkg migration/historyprunner
//vx:include ../C18/historyprunner.go
package historyprunner

// C07-H5: transaction-by-hash lookups after the history-pruner migration rebuilt the by-hash indexes.
// The scenario and its assertions are those of C18-H6 (harness/C18/historyprunner.go): every
// transaction of a kept block is found by hash at exactly its (block, index) - the same transaction the
// by-number accessors return - and L1-handler message hashes resolve to their transactions, for every
// arrangement of invoke and L1-handler transactions, with and without an interrupted run.
func VxC07ByHashLookupsAfterHistoryPruning() {
	VxC18HistoryPrunerMigration()
}
