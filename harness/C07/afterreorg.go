//vx:pkg blockchain
//vx:include ../C08/reorg_realchain.go
//vx:include ../C09/reorgcache.go
package blockchain

// C07-H6: "the cheaper partial decoders and projections agree with the full decoder" and "everything stored
// for a block is returned unchanged by every accessor" on the real Blockchain around a reorg with reads
// before it (hash-by-number, receipt block hash, transaction lookups against the full block): the harness is
// shared with C08-H8, see there.
func VxC07AccessorsAgreeAfterReorg() {
	VxC08ReadsAfterReorgOnTheRealBlockchain()
}
