//vx:pkg core/indexed
package indexed

import (
	"errors"

	"github.com/NethermindEth/juno/db"
	"github.com/NethermindEth/juno/zzverif/vx"
)

// C07-H1: indexed.Write / LazySlice offsets. The CBOR codec is the opaque-blob model (an encoded
// item is a run of 1..3 uniquely identified bytes; decoding succeeds only on exactly one such run),
// so what is decided is the offset arithmetic: element i read == element i written, for the first,
// last and only element and the empty slice; out-of-range indexes are not found.

type VxItem struct {
	A uint64
	B uint8
}

func vxItems(n int) []VxItem {
	items := make([]VxItem, n)
	for i := range items {
		items[i] = VxItem{A: vx.U64("a"), B: vx.U8("b")}
	}
	return items
}

func vxSeq(items []VxItem) func(yield func(VxItem, error) bool) {
	return func(yield func(VxItem, error) bool) {
		for _, it := range items {
			if !yield(it, nil) {
				return
			}
		}
	}
}

func VxC07LazySlice() {
	vx.Bound("0..3 items, each encoded in 1..3 bytes (opaque codec model); symbolic index incl. out of range")
	vx.BlobLens(1, 3)
	n := vx.Choice("n", 4)
	items := vxItems(n)
	w := NewBufferedEncoder()
	idx, err := Write(w, vxSeq(items))
	vx.Assert(err == nil && len(idx) == n, "write-returns-one-offset-per-item")
	for i := 1; i < len(idx); i++ {
		vx.Assert(idx[i-1] < idx[i], "offsets-increase")
	}
	if n > 0 {
		vx.Assert(idx[0] == 0 && idx[n-1] < w.Len(), "offsets-inside-data")
	}
	ls := NewLazySlice[VxItem](idx, w.Bytes())
	i := vx.Int("i")
	vx.Assume(i >= -1 && i <= n)
	got, gerr := ls.Get(i)
	if i < 0 || i >= n {
		vx.Cover("out-of-range")
		vx.Assert(errors.Is(gerr, db.ErrKeyNotFound), "out-of-range-not-found")
	} else {
		vx.Cover("in-range")
		vx.Assert(gerr == nil && got == items[i], "get-returns-item-i")
	}
	all, aerr := ls.All()
	vx.Assert(aerr == nil && len(all) == n, "all-returns-every-item")
	for k := range all {
		vx.Assert(all[k] == items[k], "all-in-order")
	}
	cnt := 0
	for v, ierr := range ls.Iter() {
		vx.Assert(ierr == nil && cnt < n && v == items[cnt], "iter-in-order")
		cnt++
	}
	vx.Assert(cnt == n, "iter-yields-every-item")
	mapped, merr := AllMapped(ls, func(k int, v VxItem) (uint64, error) { return v.A + uint64(k), nil })
	vx.Assert(merr == nil && len(mapped) == n, "allmapped-length")
	for k := range mapped {
		vx.Assert(mapped[k] == items[k].A+uint64(k), "allmapped-sees-item-k")
	}
}

// A second, offset section written after the first one (the receipts of a block follow its
// transactions in the same buffer): absolute offsets address the right items.
func VxC07TwoSections() {
	vx.Bound("two consecutive sections of 0..2 items each in one buffer, items 1..3 bytes")
	vx.BlobLens(1, 3)
	n1, n2 := vx.Choice("n1", 3), vx.Choice("n2", 3)
	a, b := vxItems(n1), vxItems(n2)
	w := NewBufferedEncoder()
	i1, e1 := Write(w, vxSeq(a))
	i2, e2 := Write(w, vxSeq(b))
	vx.Assert(e1 == nil && e2 == nil, "writes-ok")
	data := w.Bytes()
	first := data
	if len(i2) > 0 {
		first = data[:i2[0]]
		vx.Cover("second-section-non-empty")
	}
	la := NewLazySlice[VxItem](i1, first)
	lb := NewLazySlice[VxItem](i2, data)
	ga, ea := la.All()
	gb, eb := lb.All()
	vx.Assert(ea == nil && eb == nil && len(ga) == n1 && len(gb) == n2, "both-sections-decode")
	for k := range ga {
		vx.Assert(ga[k] == a[k], "first-section-items")
	}
	for k := range gb {
		vx.Assert(gb[k] == b[k], "second-section-items")
	}
}
