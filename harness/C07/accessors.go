//vx:pkg core
package core

import (
	"github.com/NethermindEth/juno/core/felt"
	"github.com/NethermindEth/juno/db"
	"github.com/NethermindEth/juno/db/memory"
	"github.com/NethermindEth/juno/zzverif/vx"
)

// C07-H3: a stored block read back through every transaction/receipt accessor, on a reader that
// honours only what the storage contract promises: the value handed to a Get callback is lent for
// the duration of the callback (Pebble releases or reuses the buffer when the closer is closed), so
// the harness's reader passes a private copy and overwrites it as soon as the callback returns.
// Everything an accessor returns must therefore own its bytes, and every accessor - full decoder,
// per-index partial decoders, "all" decoders, lazy iterator, hash/status/event projections, lookup
// by transaction hash - must return exactly what was written.
//
// Codec model: values are opaque blobs, projection structs are filled by CBOR key (field name or
// `cbor` tag, shallowest field wins) - DESIGN.md §3.3.

type vxLendingReader struct{ inner db.KeyValueStore }

func (r vxLendingReader) Has(key []byte) (bool, error) { return r.inner.Has(key) }

func (r vxLendingReader) Get(key []byte, cb func([]byte) error) error {
	return r.inner.Get(key, func(v []byte) error {
		buf := append([]byte(nil), v...)
		err := cb(buf)
		for i := range buf { // the buffer goes back to the store
			buf[i] = 0xEE
		}
		return err
	})
}

func (r vxLendingReader) NewIterator(prefix []byte, withUpperBound bool) (db.Iterator, error) {
	return r.inner.NewIterator(prefix, withUpperBound)
}

func vxTxOfKind(kind int, h *felt.Felt) Transaction {
	switch kind {
	case 0:
		return &InvokeTransaction{TransactionHash: h}
	case 1:
		return &L1HandlerTransaction{TransactionHash: h}
	case 2:
		return &DeclareTransaction{TransactionHash: h}
	case 3:
		return &DeployAccountTransaction{DeployTransaction: DeployTransaction{TransactionHash: h}}
	}
	return &DeployTransaction{TransactionHash: h}
}

func VxC07StoredBlockAccessors() {
	kinds := 2
	if vx.Thorough() {
		kinds = 5
		vx.Bound("block with 0..2 transactions of any of the five kinds (hash symbolic, distinct) and their receipts (fee, reverted flag, revert reason, 0..1 event with symbolic emitter); block number symbolic; encoded items 1..2 bytes (opaque codec model); every accessor over a reader that reclaims the lent buffer")
	} else {
		vx.Bound("block with 0..2 transactions (invoke | l1-handler; hash symbolic, distinct) and their receipts (fee, reverted flag, revert reason, 0..1 event with symbolic emitter); block number symbolic; encoded items 1..2 bytes (opaque codec model); every accessor over a reader that reclaims the lent buffer")
	}
	vx.BlobLens(1, 2)
	n := vx.Choice("n", 3)
	var txs []Transaction
	var rs []*TransactionReceipt
	for i := 0; i < n; i++ {
		hb := vx.FeltBytes("h")
		h := new(felt.Felt).SetBytes(hb[:])
		vx.Assume(!h.IsZero()) // a transaction hash is a hash: the zero value means "missing" to the accessors
		for _, t := range txs {
			vx.Assume(!t.Hash().Equal(h))
		}
		txs = append(txs, vxTxOfKind(vx.Choice("kind", kinds), h))
		fb := vx.FeltBytes("fee")
		r := &TransactionReceipt{TransactionHash: h, Fee: new(felt.Felt).SetBytes(fb[:]), Reverted: vx.Bool("reverted")}
		if r.Reverted {
			r.RevertReason = "reason" + string(rune('0'+i))
		}
		if vx.Choice("events", 2) == 1 {
			eb := vx.FeltBytes("from")
			r.Events = []*Event{{From: new(felt.Felt).SetBytes(eb[:])}}
		}
		rs = append(rs, r)
	}
	d := memory.New()
	num := vx.U64("number")
	vx.Assert(WriteTransactionsAndReceipts(d, num, txs, rs) == nil, "write-ok")
	r := vxLendingReader{d}

	sameTx := func(got Transaction, i int) bool {
		if got == nil || !got.Hash().Equal(txs[i].Hash()) {
			return false
		}
		switch txs[i].(type) {
		case *InvokeTransaction:
			_, ok := got.(*InvokeTransaction)
			return ok
		case *L1HandlerTransaction:
			_, ok := got.(*L1HandlerTransaction)
			return ok
		case *DeclareTransaction:
			_, ok := got.(*DeclareTransaction)
			return ok
		case *DeployAccountTransaction:
			_, ok := got.(*DeployAccountTransaction)
			return ok
		case *DeployTransaction:
			_, ok := got.(*DeployTransaction)
			return ok
		}
		return false
	}
	sameRc := func(got *TransactionReceipt, i int) bool {
		w := rs[i]
		if got == nil || !got.TransactionHash.Equal(w.TransactionHash) || !got.Fee.Equal(w.Fee) ||
			got.Reverted != w.Reverted || got.RevertReason != w.RevertReason || len(got.Events) != len(w.Events) {
			return false
		}
		for j := range w.Events {
			if !got.Events[j].From.Equal(w.Events[j].From) {
				return false
			}
		}
		return true
	}

	// whole-block readers
	all, err := GetTransactionsByBlockNumber(r, num)
	vx.Assert(err == nil && len(all) == n, "all-transactions-count")
	for i := range all {
		vx.Assert(sameTx(all[i], i), "all-transactions-equal-stored")
	}
	allR, err := GetReceiptsByBlockNumber(r, num)
	vx.Assert(err == nil && len(allR) == n, "all-receipts-count")
	for i := range allR {
		vx.Assert(sameRc(allR[i], i), "all-receipts-equal-stored")
	}
	bt, br, err := GetTransactionsAndReceiptsByBlockNumber(r, num)
	vx.Assert(err == nil && len(bt) == n && len(br) == n, "both-count")
	for i := 0; i < n && i < len(bt) && i < len(br); i++ {
		vx.Assert(sameTx(bt[i], i) && sameRc(br[i], i), "both-equal-stored")
	}
	// the lazy iterator decodes after the lookup has returned
	k := 0
	for t, ierr := range GetTransactionsByBlockNumberIter(r, num) {
		vx.Assert(ierr == nil && k < n && sameTx(t, k), "iterator-yields-stored-transactions")
		if ierr != nil {
			break
		}
		k++
	}
	vx.Assert(k == n, "iterator-yields-every-transaction")
	// projections
	hashes, err := GetTransactionHashesByBlockNumber(r, num)
	vx.Assert(err == nil && len(hashes) == n, "hashes-count")
	for i := range hashes {
		vx.Assert(hashes[i].Equal(txs[i].Hash()), "hash-projection-agrees-with-full-decoder")
	}
	evs, err := GetTransactionEventsByBlockNumber(r, num)
	vx.Assert(err == nil && len(evs) == n, "events-count")
	for i := range evs {
		ok := evs[i].TransactionHash.Equal(rs[i].TransactionHash) && len(evs[i].Events) == len(rs[i].Events)
		for j := 0; ok && j < len(rs[i].Events); j++ {
			ok = evs[i].Events[j].From.Equal(rs[i].Events[j].From)
		}
		vx.Assert(ok, "events-projection-agrees-with-full-decoder")
	}
	if n == 0 {
		vx.Cover("empty-block")
		_, e := GetTransactionByBlockAndIndex(r, num, 0)
		vx.Assert(e != nil, "index-out-of-range-is-an-error")
		return
	}
	// per-index readers
	i := vx.Choice("i", n)
	t, err := GetTransactionByBlockAndIndex(r, num, uint64(i))
	vx.Assert(err == nil && sameTx(t, i), "transaction-by-index")
	rc, err := GetReceiptByBlockAndIndex(r, num, uint64(i))
	vx.Assert(err == nil && sameRc(rc, i), "receipt-by-index")
	t2, rc2, err := GetTransactionAndReceiptByBlockAndIndex(r, num, uint64(i))
	vx.Assert(err == nil && sameTx(t2, i) && sameRc(rc2, i), "pair-by-index")
	status, err := GetTransactionExecutionStatusByBlockAndIndex(r, num, uint64(i))
	vx.Assert(err == nil && status.Reverted == rs[i].Reverted && status.RevertReason == rs[i].RevertReason,
		"status-projection-agrees-with-full-decoder")
	th := (*felt.TransactionHash)(txs[i].Hash())
	t3, err := GetTransactionByHash(r, th)
	vx.Assert(err == nil && sameTx(t3, i), "transaction-by-hash")
	_, err = GetTransactionByBlockAndIndex(r, num, uint64(n))
	vx.Assert(err != nil, "index-out-of-range-is-an-error")
	if i == n-1 {
		vx.Cover("last-element")
	}
	if i == 0 {
		vx.Cover("first-element")
	}
}
