//vx:pkg core
package core

import (
	"github.com/NethermindEth/juno/core/felt"
	"github.com/NethermindEth/juno/db/memory"
	"github.com/NethermindEth/juno/zzverif/vx"
)

// C07-H4: block headers: "block/header by number or hash ... returns values equal to what was
// stored, and the cheaper partial decoders agree with the full decoder on every record". A header
// with symbolic hash, state root (zero included: the commitment of an empty state), number,
// transaction count and timestamp is stored; the full decoders and every projection accessor must
// return the stored values (over the lending reader of accessors.go).
func VxC07HeaderAccessors() {
	vx.Bound("one header: hash symbolic non-zero, parent hash, state root symbolic (zero included), number / transaction count / event count / timestamp symbolic 64-bit; full decoders by number and by hash, and the hash / state-root / hash+root / transaction-count / timestamp projections")
	d := memory.New()
	hb, rb, pb := vx.FeltBytes("hash"), vx.FeltBytes("root"), vx.FeltBytes("parent")
	hash, root, parent := new(felt.Felt).SetBytes(hb[:]), new(felt.Felt).SetBytes(rb[:]), new(felt.Felt).SetBytes(pb[:])
	vx.Assume(!hash.IsZero())
	h := &Header{
		Hash: hash, ParentHash: parent, GlobalStateRoot: root, Number: vx.U64("number"),
		TransactionCount: vx.U64("txcount"), EventCount: vx.U64("evcount"), Timestamp: vx.U64("timestamp"),
		ProtocolVersion: "0.13.2",
	}
	if root.IsZero() {
		vx.Cover("zero-state-root")
	}
	vx.Assert(WriteBlockHeader(d, h) == nil, "write-ok")
	r := vxLendingReader{d}
	same := func(g *Header) bool {
		return g != nil && g.Hash.Equal(hash) && g.ParentHash.Equal(parent) && g.GlobalStateRoot.Equal(root) && g.Number == h.Number &&
			g.TransactionCount == h.TransactionCount && g.EventCount == h.EventCount && g.Timestamp == h.Timestamp && g.ProtocolVersion == h.ProtocolVersion
	}
	g1, err := GetBlockHeaderByNumber(r, h.Number)
	vx.Assert(err == nil && same(g1), "header-by-number-equals-stored")
	g2, err := GetBlockHeaderByHash(r, hash)
	vx.Assert(err == nil && same(g2), "header-by-hash-equals-stored")
	n, err := GetBlockHeaderNumberByHash(r, hash)
	vx.Assert(err == nil && n == h.Number, "number-by-hash")
	ph, err := GetBlockHeaderHashByNumber(r, h.Number)
	vx.Assert(err == nil && ph.Equal(hash), "hash-projection-agrees-with-full-decoder")
	pr, err := GetGlobalStateRootByBlockNumber(r, h.Number)
	vx.Assert(err == nil && pr.Equal(root), "state-root-projection-agrees-with-full-decoder")
	ph2, pr2, err := GetBlockHeaderHashAndStateRootByNumber(r, h.Number)
	vx.Assert(err == nil && ph2.Equal(hash) && pr2.Equal(root), "hash-and-root-projection-agrees-with-full-decoder")
	tc, err := GetBlockTransactionCountByNumber(r, h.Number)
	vx.Assert(err == nil && tc == h.TransactionCount, "transaction-count-projection-agrees-with-full-decoder")
	ts, err := GetBlockHeaderTimestampByNumber(r, h.Number)
	vx.Assert(err == nil && ts == h.Timestamp, "timestamp-projection-agrees-with-full-decoder")
	// a block that is not stored is reported as such by every reader
	other := h.Number + 1
	_, e1 := GetBlockHeaderByNumber(r, other)
	_, e2 := GetBlockHeaderHashByNumber(r, other)
	_, e3 := GetGlobalStateRootByBlockNumber(r, other)
	vx.Assert(e1 != nil && e2 != nil && e3 != nil, "absent-header-is-an-error")
}
