//vx:pkg db/memory
//vx:include memory.go
package memory

import (
	"github.com/NethermindEth/juno/zzverif/vx"
)

// C15-H8: a batch is a BLIND ordered log of operations, applied to whatever the database holds when the
// batch is written - not to what it held when the operations were recorded (Pebble records without reading).
// Between the recording of the batch's operations and its Write, another writer changes the database
// directly (sequentially here: no schedule involved). After Write the database equals the model: the direct
// writes applied at their time, then the batch's operations in order. An indexed batch reads its own
// operations over the CURRENT database: a key it deleted stays invisible through it whatever is written
// to the database afterwards.
// keys of length 0..1 (one free byte): enough for "inside / outside / at the bounds of a range"
func vxKey1(tag string) []byte {
	return vx.Bytes(tag, vx.Choice(tag+".len", 2))
}

func VxC15BatchIsABlindLogAppliedAtWrite() {
	vx.Bound("database pre-loaded with 0..1 key; indexed batch recording 1..2 operations from {Put, Delete, DeleteRange} over symbolic keys of length 0..1; then 1 direct database write (Put or Delete, symbolic key); batch reads; Write; probe key symbolic")
	d := New()
	var cur []vxKV
	if vx.Choice("preload", 2) == 1 {
		k, v := vxKey1("base"), []byte{vx.U8("basev")}
		_ = d.Put(k, v)
		cur = vxModelPut(cur, k, v)
	}
	b := d.NewIndexedBatch()
	type op struct {
		kind int
		k, e []byte
		v    []byte
	}
	var ops []op
	nops := 1 + vx.Choice("nops", 2)
	for i := 0; i < nops; i++ {
		switch vx.Choice("op", 3) {
		case 0:
			o := op{kind: 0, k: vxKey1("k"), v: []byte{vx.U8("v")}}
			vx.Assert(b.Put(o.k, o.v) == nil, "batch-put-ok")
			ops = append(ops, o)
		case 1:
			o := op{kind: 1, k: vxKey1("k")}
			vx.Assert(b.Delete(o.k) == nil, "batch-delete-ok")
			ops = append(ops, o)
			vx.Cover("batch-records-a-delete")
		default:
			o := op{kind: 2, k: vxKey1("s"), e: vxKey1("e")}
			vx.Assert(b.DeleteRange(o.k, o.e) == nil, "batch-deleterange-ok")
			ops = append(ops, o)
		}
	}
	// another writer, after the batch recorded its operations
	wk := vxKey1("wk")
	if vx.Choice("direct-write", 2) == 0 {
		wv := []byte{vx.U8("wv")}
		vx.Assert(d.Put(wk, wv) == nil, "direct-put-ok")
		cur = vxModelPut(cur, wk, wv)
		vx.Cover("key-stored-directly-after-the-batch-recorded-its-operations")
	} else {
		vx.Assert(d.Delete(wk) == nil, "direct-delete-ok")
		cur = vxModelDel(cur, wk)
	}
	want := append([]vxKV{}, cur...)
	for _, o := range ops {
		switch o.kind {
		case 0:
			want = vxModelPut(want, o.k, o.v)
		case 1:
			want = vxModelDel(want, o.k)
		default:
			want = vxModelDelRange(want, o.k, o.e)
		}
	}
	q := vxKey1("q")
	inWant := false
	for _, x := range want {
		if string(x.k) == string(q) {
			inWant = true
		}
	}
	has, herr := b.Has(q)
	vx.Assert(herr == nil && has == inWant, "indexed-batch-reads-its-operations-over-the-current-database")
	vx.Assert(b.Write() == nil, "batch-write-ok")
	got, gerr := d.Has(q)
	vx.Assert(gerr == nil && got == inWant, "written-batch-applied-to-the-database-as-it-is-at-write")
}
