//vx:pkg db/memory
package memory

import (
	"bytes"
	"errors"

	"github.com/NethermindEth/juno/db"
	"github.com/NethermindEth/juno/zzverif/vx"
)

// C15-H3: the two remaining views of the storage contract.
// (a) db.BufferBatch over an indexed batch: reads through the buffer see the buffered writes over
//     the parent; the parent sees nothing before Flush and exactly the buffered state after it.
// (b) Snapshots: a snapshot taken from the database keeps answering (point reads and ordered
//     scans) as of the moment it was taken, whatever is written to the database afterwards.
// Helpers vxKey / vxModelPut / vxModelDel / vxModelView come from memory.go.

func VxC15BufferBatch() {
	vx.Bound("parent = indexed batch over a database pre-loaded with 0..1 key; <= 2 buffered operations from {Put (1-byte or empty value), Delete} over keys of length 0..2 (symbolic); probe key symbolic; before and after Flush")
	d := New()
	var base []vxKV
	if vx.Choice("preload", 2) == 1 {
		k, v := vxKey("base"), []byte{vx.U8("basev")}
		_ = d.Put(k, v)
		base = vxModelPut(base, k, v)
	}
	parent := d.NewIndexedBatch()
	buf := db.NewBufferBatch(parent)
	model := append([]vxKV{}, base...)
	nops := 1 + vx.Choice("nops", 2)
	for i := 0; i < nops; i++ {
		k := vxKey("k")
		switch vx.Choice("op", 3) {
		case 0:
			v := []byte{vx.U8("v")}
			vx.Assert(buf.Put(k, v) == nil, "buffered-put-ok")
			model = vxModelPut(model, k, v)
		case 1:
			v := []byte{}
			vx.Assert(buf.Put(k, v) == nil, "buffered-put-ok")
			model = vxModelPut(model, k, v)
			vx.Cover("empty-value")
		case 2:
			vx.Assert(buf.Delete(k) == nil, "buffered-delete-ok")
			model = vxModelDel(model, k)
		}
	}
	q := vxKey("q")
	lookup := func(m []vxKV) ([]byte, bool) {
		for _, x := range m {
			if bytes.Equal(x.k, q) {
				return x.v, true
			}
		}
		return nil, false
	}
	read := func(r interface {
		Get([]byte, func([]byte) error) error
	}) ([]byte, bool, error) {
		var got []byte
		found := false
		err := r.Get(q, func(v []byte) error { got, found = append([]byte{}, v...), true; return nil })
		return got, found, err
	}
	wantV, want := lookup(model)
	gv, gf, gerr := read(buf)
	vx.Assert(gf == want && (!want || bytes.Equal(gv, wantV)), "buffer-reads-see-buffered-writes-over-the-parent")
	vx.Assert(gf || errors.Is(gerr, db.ErrKeyNotFound), "absent-key-is-not-found")
	bV, bWant := lookup(base)
	pv, pf, _ := read(parent)
	vx.Assert(pf == bWant && (!bWant || bytes.Equal(pv, bV)), "parent-untouched-before-flush")
	vx.Assert(buf.Flush() == nil, "flush-ok")
	pv, pf, _ = read(parent)
	vx.Assert(pf == want && (!want || bytes.Equal(pv, wantV)), "parent-holds-the-buffered-state-after-flush")
}

func VxC15SnapshotIsolation() {
	vx.Bound("database with 0..1 key (length 0..2, symbolic; thorough: 0..2 keys); snapshot; then 1 operation (thorough: <= 2) {Put, Delete, DeleteRange} on the database; snapshot point read and full ordered scan")
	d := New()
	var model []vxKV
	maxKeys := 2
	if vx.Thorough() {
		maxKeys = 3
	}
	n := vx.Choice("nkeys", maxKeys)
	for i := 0; i < n; i++ {
		k, v := vxKey("k"), []byte{vx.U8("v")}
		_ = d.Put(k, v)
		model = vxModelPut(model, k, v)
	}
	snap := d.NewSnapshot()
	nops := 1
	if vx.Thorough() {
		nops = 1 + vx.Choice("nops", 2)
	}
	for i := 0; i < nops; i++ {
		switch vx.Choice("op", 3) {
		case 0:
			_ = d.Put(vxKey("w"), []byte{vx.U8("wv")})
		case 1:
			_ = d.Delete(vxKey("w"))
		case 2:
			_ = d.DeleteRange(vxKey("s"), vxKey("e"))
		}
	}
	q := vxKey("q")
	var want []byte
	found := false
	for _, x := range model {
		if bytes.Equal(x.k, q) {
			want, found = x.v, true
		}
	}
	gerr := snap.Get(q, func(v []byte) error {
		vx.Assert(found && bytes.Equal(v, want), "snapshot-value-as-of-the-snapshot")
		return nil
	})
	vx.Assert((gerr == nil) == found, "snapshot-presence-as-of-the-snapshot")
	it, ierr := snap.NewIterator(nil, false)
	vx.Assert(ierr == nil, "snapshot-iterator-opens")
	view := vxModelView(model, nil, false)
	i := 0
	for ok := it.First(); ok; ok = it.Next() {
		if i < len(view) {
			val, _ := it.Value()
			vx.Assert(bytes.Equal(it.Key(), view[i].k) && bytes.Equal(val, view[i].v), "snapshot-scan-as-of-the-snapshot")
		}
		i++
	}
	vx.Assert(i == len(view), "snapshot-scan-yields-exactly-the-old-keys")
	_ = it.Close()
}

// C15-H6: an iterator is a point-in-time view. The Pebble backends read an iterator from the state as of its
// creation; the memory backend mimics that by copying the matching keys and values when the iterator is
// opened. Later writes to the database - an overwrite with a value of the same or another length, a delete,
// a range delete, a committed batch - must not show through an iterator that is already open: the scan yields
// exactly the keys and values of the moment it was opened.
func VxC15OpenIteratorIsPointInTime() {
	vx.Bound("database with 1..2 keys (length 0..2, symbolic bytes, 1-byte values); iterator over everything opened; then 1 operation (thorough: <= 2) {Put of an arbitrary key (an existing one included) with a 1-byte value, Put with a 2-byte value, Delete, DeleteRange, batch Put + Write}; full ordered scan through the open iterator")
	d := New()
	var model []vxKV
	n := 1 + vx.Choice("nkeys", 2)
	for i := 0; i < n; i++ {
		k, v := vxKey("k"), []byte{vx.U8("v")}
		_ = d.Put(k, v)
		model = vxModelPut(model, k, v)
	}
	it, ierr := d.NewIterator(nil, false)
	vx.Assert(ierr == nil, "iterator-opens")
	nops := 1
	if vx.Thorough() {
		nops = 1 + vx.Choice("nops", 2)
	}
	for i := 0; i < nops; i++ {
		switch vx.Choice("op", 5) {
		case 0:
			_ = d.Put(vxKey("w"), []byte{vx.U8("wv")})
			vx.Cover("overwrite-with-a-value-of-the-same-length")
		case 1:
			_ = d.Put(vxKey("w"), []byte{vx.U8("wv"), vx.U8("wv2")})
		case 2:
			_ = d.Delete(vxKey("w"))
		case 3:
			_ = d.DeleteRange(vxKey("s"), vxKey("e"))
		case 4:
			b := d.NewBatch()
			_ = b.Put(vxKey("w"), []byte{vx.U8("wv")})
			vx.Assert(b.Write() == nil, "batch-commits")
		}
	}
	view := vxModelView(model, nil, false)
	i := 0
	for ok := it.First(); ok; ok = it.Next() {
		if i < len(view) {
			val, _ := it.Value()
			vx.Assert(bytes.Equal(it.Key(), view[i].k), "open-iterator-yields-the-keys-of-its-creation")
			vx.Assert(bytes.Equal(val, view[i].v), "open-iterator-yields-the-values-of-its-creation")
		}
		i++
	}
	vx.Assert(i == len(view), "open-iterator-yields-exactly-the-keys-of-its-creation")
	_ = it.Close()
}
