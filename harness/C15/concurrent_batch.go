//vx:pkg db/memory
//vx:noreplay
package memory

import (
	"github.com/NethermindEth/juno/db"
	"github.com/NethermindEth/juno/zzverif/vx"
)

// C15-H7 (engine only; schedules explored by bounded preemption): "a batch becomes visible all at once or
// not at all ... under concurrent readers with a writer". A writer goroutine commits a batch of 2..3
// operations (puts over existing keys, a put of a new key, a delete) while the harness goroutine reads:
// a snapshot, an iterator (both point-in-time views) - each must see every operation of the batch or
// none. The engine preempts at every lock acquisition / release and atomic operation, up to 3 times per
// path, in favour of any runnable goroutine, so every interleaving of the reader's calls with the
// commit's critical section(s) is explored. Also: a db.Update / db.Write transaction.
func vxGet1(r interface {
	Get([]byte, func([]byte) error) error
}, k []byte) int {
	out := -1
	_ = r.Get(k, func(v []byte) error {
		if len(v) > 0 {
			out = int(v[0])
		}
		return nil
	})
	return out
}

func VxC15BatchCommitIsAtomicForConcurrentReaders() {
	vx.Bound("database with keys a, b = 0 (c absent or present); writer goroutine commits one batch {a:=1, b:=1, optionally c:=1 or delete c} through batch.Write, Database.Update or Database.Write; reader takes a snapshot or an iterator at any point of the commit; every schedule with <= 3 preemptions at lock operations")
	d := New()
	ka, kb, kc := []byte{0x10}, []byte{0x20}, []byte{0x30}
	_ = d.Put(ka, []byte{0})
	_ = d.Put(kb, []byte{0})
	third := vx.Choice("thirdOp", 3) // 0: none, 1: put c, 2: delete existing c
	if third == 2 {
		_ = d.Put(kc, []byte{0})
	}
	fill := func(w interface {
		Put(k, v []byte) error
		Delete(k []byte) error
	}) {
		_ = w.Put(ka, []byte{1})
		_ = w.Put(kb, []byte{1})
		switch third {
		case 1:
			_ = w.Put(kc, []byte{1})
		case 2:
			_ = w.Delete(kc)
		}
	}
	how := vx.Choice("commitThrough", 3)
	done := make(chan error, 1)
	vx.Preemptions(3)
	go func() {
		switch how {
		case 0:
			b := d.NewBatch()
			fill(b)
			done <- b.Write()
		case 1:
			done <- d.Update(func(b db.IndexedBatch) error { fill(b); return nil })
		default:
			done <- d.Write(func(b db.Batch) error { fill(b); return nil })
		}
	}()
	var a, b, c int
	if vx.Choice("reader", 2) == 0 {
		s := d.NewSnapshot()
		a, b, c = vxGet1(s, ka), vxGet1(s, kb), vxGet1(s, kc)
		_ = s.Close()
	} else {
		it, err := d.NewIterator(nil, false)
		vx.Assert(err == nil, "iterator-opens")
		a, b, c = -1, -1, -1
		for ok := it.First(); ok; ok = it.Next() {
			v, _ := it.Value()
			x := -1
			if len(v) > 0 {
				x = int(v[0])
			}
			switch it.Key()[0] {
			case 0x10:
				a = x
			case 0x20:
				b = x
			case 0x30:
				c = x
			}
		}
		_ = it.Close()
	}
	vx.Assert((a == 0 && b == 0) || (a == 1 && b == 1), "engine:point-in-time-view-sees-all-or-nothing-of-a-batch")
	switch third {
	case 1:
		vx.Assert((a == 0 && c == -1) || (a == 1 && c == 1), "engine:point-in-time-view-sees-all-or-nothing-of-a-batch")
	case 2:
		vx.Assert((a == 0 && c == 0) || (a == 1 && c == -1), "engine:point-in-time-view-sees-all-or-nothing-of-a-batch")
	}
	if a == 1 {
		vx.Cover("sched:reader-after-the-commit")
	} else {
		vx.Cover("sched:reader-before-the-commit")
	}
	vx.Assert(<-done == nil, "commit-ok")
	vx.Assert(vxGet1(d, ka) == 1 && vxGet1(d, kb) == 1, "committed-batch-fully-visible-afterwards")
}
