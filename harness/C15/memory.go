//vx:pkg db/memory
package memory

import (
	"bytes"
	"errors"

	"github.com/NethermindEth/juno/db"
	"github.com/NethermindEth/juno/db/dbutils"
	"github.com/NethermindEth/juno/zzverif/vx"
)

// C15-H2: the in-memory backend against the reference model of the storage contract as the Pebble
// backends implement it (DESIGN.md appendix C.3; every disagreement found was replayed on real
// Pebble before being called a divergence).
//
// Model: store = finite map; NewIterator(prefix, ub) views the sorted keys k with prefix <= k and,
// when ub is requested and UpperBound(prefix) != nil, k < UpperBound(prefix). Cursor in
// {unpositioned, before-first, index, after-last}.

type vxKV struct{ k, v []byte }

// vxKey builds a key of length 0..2 from a small alphabet plus one free byte.
// quick: keys of length 0..2 with <= 2 operations; thorough: keys of length 0..1 with <= 3 operations
// (3 operations over length-2 keys exceed the path budget)
func vxKey(tag string) []byte {
	maxLen := 2
	if vx.Thorough() {
		maxLen = 1
	}
	n := vx.Choice(tag+".len", maxLen+1)
	k := vx.Bytes(tag, n)
	return k
}

func vxBound1(tag string) []byte {
	return vx.Bytes(tag, vx.Choice(tag+".len", 2))
}

func vxModelPut(m []vxKV, k, v []byte) []vxKV {
	for i := range m {
		if bytes.Equal(m[i].k, k) {
			m[i].v = v
			return m
		}
	}
	return append(m, vxKV{k, v})
}

func vxModelDel(m []vxKV, k []byte) []vxKV {
	out := m[:0:0]
	for _, e := range m {
		if !bytes.Equal(e.k, k) {
			out = append(out, e)
		}
	}
	return out
}

func vxModelDelRange(m []vxKV, s, e []byte) []vxKV {
	out := m[:0:0]
	for _, x := range m {
		if !(bytes.Compare(x.k, s) >= 0 && bytes.Compare(x.k, e) < 0) {
			out = append(out, x)
		}
	}
	return out
}

// vxModelView returns the keys visible to an iterator, sorted.
func vxModelView(m []vxKV, prefix []byte, withUB bool) []vxKV {
	var ub []byte
	if withUB {
		ub = dbutils.UpperBound(prefix)
	}
	var out []vxKV
	for _, x := range m {
		if bytes.Compare(x.k, prefix) >= 0 && (ub == nil || bytes.Compare(x.k, ub) < 0) {
			out = append(out, x)
		}
	}
	for i := 1; i < len(out); i++ {
		for j := i; j > 0 && bytes.Compare(out[j-1].k, out[j].k) > 0; j-- {
			out[j-1], out[j] = out[j], out[j-1]
		}
	}
	return out
}

// C15-H2a: point operations, range delete, and the set of keys an iterator sees, in order.
func VxC15MemoryRangeView() {
	vx.Bound("<= 2 store operations from {Put, Delete, DeleteRange} over keys of length 0..2 (thorough: <= 3 operations over keys of length 0..1), bytes symbolic; iterator with symbolic prefix (length 0..2) and upper-bound flag; full forward scan")
	d := New()
	var model []vxKV
	maxOps := 2
	if vx.Thorough() {
		maxOps = 3
	}
	nops := 1 + vx.Choice("nops", maxOps)
	for i := 0; i < nops; i++ {
		switch vx.Choice("op", 3) {
		case 0:
			k, v := vxKey("k"), []byte{vx.U8("v")}
			vx.Assert(d.Put(k, v) == nil, "put-ok")
			model = vxModelPut(model, k, v)
		case 1:
			k := vxKey("k")
			vx.Assert(d.Delete(k) == nil, "delete-ok")
			model = vxModelDel(model, k)
		case 2:
			s, e := vxKey("s"), vxKey("e")
			vx.Assert(d.DeleteRange(s, e) == nil, "deleterange-ok")
			model = vxModelDelRange(model, s, e)
			vx.Cover("delete-range")
		}
	}
	// point reads agree
	q := vxKey("q")
	has, err := d.Has(q)
	vx.Assert(err == nil, "has-ok")
	var want []byte
	found := false
	for _, x := range model {
		if bytes.Equal(x.k, q) {
			want, found = x.v, true
		}
	}
	vx.Assert(has == found, "has-agrees-with-model")
	gerr := d.Get(q, func(val []byte) error {
		vx.Assert(found && bytes.Equal(val, want), "get-returns-last-written-value")
		return nil
	})
	vx.Assert((gerr == nil) == found && (found || errors.Is(gerr, db.ErrKeyNotFound)), "get-not-found-iff-absent")

	// iterator view
	prefix := vxKey("prefix")
	withUB := vx.Bool("withUpperBound")
	it, ierr := d.NewIterator(prefix, withUB)
	vx.Assert(ierr == nil, "iterator-opens")
	view := vxModelView(model, prefix, withUB)
	ubNil := dbutils.UpperBound(prefix) == nil
	n := 0
	ok := it.First()
	for ok {
		if n < len(view) {
			vx.Assert(bytes.Equal(it.Key(), view[n].k), "scan-yields-model-keys-in-order")
			val, verr := it.Value()
			vx.Assert(verr == nil && bytes.Equal(val, view[n].v), "scan-yields-model-values")
		}
		n++
		ok = it.Next()
	}
	switch {
	case withUB && ubNil:
		vx.Cover("unbounded-prefix-with-upper-bound")
	case !withUB:
		vx.Cover("no-upper-bound")
	default:
		vx.Cover("bounded")
	}
	vx.Assert(n == len(view), "scan-yields-exactly-the-model-view")
	vx.Assert(it.Close() == nil, "iterator-closes")
}

// ---- positioning ----

const (
	vxUnpos = iota
	vxBefore
	vxAt
	vxAfter
)

type vxCursor struct {
	state int
	idx   int
}

func (c *vxCursor) valid() bool { return c.state == vxAt }

func (c *vxCursor) first(n int) bool {
	if n == 0 {
		c.state = vxAfter
		return false
	}
	c.state, c.idx = vxAt, 0
	return true
}

func (c *vxCursor) next(n int) bool {
	switch c.state {
	case vxUnpos, vxBefore:
		return c.first(n)
	case vxAt:
		if c.idx+1 < n {
			c.idx++
			return true
		}
		c.state = vxAfter
		return false
	}
	return false
}

func (c *vxCursor) prev(n int) bool {
	switch c.state {
	case vxUnpos:
		return c.first(n)
	case vxAt:
		if c.idx > 0 {
			c.idx--
			return true
		}
		c.state = vxBefore
		return false
	case vxAfter:
		if n == 0 {
			c.state = vxBefore
			return false
		}
		c.state, c.idx = vxAt, n-1
		return true
	}
	return false
}

func (c *vxCursor) seek(view []vxKV, k []byte) bool {
	for i := range view {
		if bytes.Compare(view[i].k, k) >= 0 {
			c.state, c.idx = vxAt, i
			return true
		}
	}
	c.state = vxAfter
	return false
}

// C15-H2b: positioning scripts. A store with <= 3 distinct keys; a script of <= 3 steps from
// {First, Next, Prev, Seek(k)}; after every step the returned flag, Valid(), Key() agree with the
// model cursor.
func VxC15MemoryPositioning() {
	steps := 3
	if vx.Thorough() {
		steps = 4
		vx.Bound("store of 0..3 keys (length 1, symbolic, distinct); scripts of <= 4 steps from {First, Next, Prev, Seek}")
	} else {
		vx.Bound("store of 0..3 keys (length 1, symbolic, distinct); scripts of <= 3 steps from {First, Next, Prev, Seek}")
	}
	d := New()
	var model []vxKV
	nk := vx.Choice("nkeys", 4)
	for i := 0; i < nk; i++ {
		k := vx.Bytes("k", 1)
		for _, x := range model {
			vx.Assume(!bytes.Equal(x.k, k))
		}
		v := []byte{byte(i)}
		_ = d.Put(k, v)
		model = vxModelPut(model, k, v)
	}
	it, err := d.NewIterator(nil, false)
	vx.Assert(err == nil, "iterator-opens")
	view := vxModelView(model, nil, false)
	var c vxCursor
	for s := 0; s < steps; s++ {
		var got, want bool
		switch vx.Choice("step", 4) {
		case 0:
			got, want = it.First(), c.first(len(view))
		case 1:
			got, want = it.Next(), c.next(len(view))
		case 2:
			got, want = it.Prev(), c.prev(len(view))
		case 3:
			k := vx.Bytes("seek", 1)
			got, want = it.Seek(k), c.seek(view, k)
		}
		vx.Assert(got == want, "step-result-agrees-with-contract")
		vx.Assert(it.Valid() == c.valid(), "valid-agrees-with-contract")
		vx.Assert(got == it.Valid(), "returned-flag-equals-valid")
		if c.valid() && it.Valid() {
			vx.Assert(bytes.Equal(it.Key(), view[c.idx].k), "positioned-on-contract-key")
		}
	}
}

// C15-H2c: write batches: all-or-nothing, later operations win, indexed reads see the batch's own
// writes over the database, Close drops everything, helper Update applies nothing when the callback fails.
func VxC15MemoryBatch() {
	vx.Bound("database pre-loaded with 0..1 key; batch of <= 2 operations from {Put, Delete, DeleteRange} over keys of length 0..2 (thorough: <= 3 operations over keys of length 0..1), symbolic; then Write | Close | failing Update callback; probe key symbolic")
	d := New()
	var base []vxKV
	if vx.Choice("preload", 2) == 1 {
		k, v := vxKey("base"), []byte{vx.U8("basev")}
		_ = d.Put(k, v)
		base = vxModelPut(base, k, v)
	}
	// model of the batch view = base with the batch operations applied in order
	view := append([]vxKV{}, base...)
	mode := vx.Choice("mode", 3) // 0 Write, 1 Close, 2 Update whose callback fails
	maxOps := 2
	if vx.Thorough() {
		maxOps = 3
	}
	apply := func(b db.IndexedBatch) {
		nops := 1 + vx.Choice("nops", maxOps)
		for i := 0; i < nops; i++ {
			kinds := 3
			if i == 2 {
				kinds = 2 // a third operation (thorough tier) is a Put or a Delete: three range deletes exceed the path budget
			}
			switch vx.Choice("op", kinds) {
			case 0:
				k, v := vxKey("k"), []byte{vx.U8("v")}
				vx.Assert(b.Put(k, v) == nil, "batch-put-ok")
				view = vxModelPut(view, k, v)
			case 1:
				k := vxKey("k")
				vx.Assert(b.Delete(k) == nil, "batch-delete-ok")
				view = vxModelDel(view, k)
			case 2:
				// range bounds of length 0..1 (a batch keeps range tombstones since fix KF-C15-3 and
				// applies them to every key of the database at Write: bounds of length 2 against keys of
				// length 2 exceed the path budget; inside / outside / at-the-bound cases are all reachable)
				s, e := vxBound1("s"), vxBound1("e")
				vx.Assert(b.DeleteRange(s, e) == nil, "batch-deleterange-ok")
				view = vxModelDelRange(view, s, e)
				vx.Cover("batch-delete-range")
			}
		}
		// read-your-writes through the indexed batch
		q := vxKey("bq")
		has, err := b.Has(q)
		found := false
		for _, x := range view {
			if bytes.Equal(x.k, q) {
				found = true
			}
		}
		vx.Assert(err == nil && has == found, "indexed-batch-reads-own-writes")
		// the database itself is untouched until Write
		for _, x := range base {
			h2, _ := d.Has(x.k)
			vx.Assert(h2, "database-untouched-before-write")
		}
	}
	var final []vxKV
	switch mode {
	case 0:
		b := d.NewIndexedBatch()
		apply(b)
		vx.Assert(b.Write() == nil, "batch-write-ok")
		final = view
		vx.Cover("written")
	case 1:
		b := d.NewIndexedBatch()
		apply(b)
		vx.Assert(b.Close() == nil, "batch-close-ok")
		final = base
		vx.Cover("closed")
	case 2:
		err := d.Update(func(b db.IndexedBatch) error {
			apply(b)
			return errors.New("callback failed")
		})
		vx.Assert(err != nil, "update-propagates-callback-error")
		final = base
		vx.Cover("update-failed")
	}
	q := vxKey("q")
	has, _ := d.Has(q)
	found := false
	for _, x := range final {
		if bytes.Equal(x.k, q) {
			found = true
			gerr := d.Get(q, func(val []byte) error {
				vx.Assert(bytes.Equal(val, x.v), "database-value-after-batch")
				return nil
			})
			vx.Assert(gerr == nil, "database-get-after-batch")
		}
	}
	vx.Assert(has == found, "database-contents-after-batch")
}
