//vx:pkg db/dbutils
package dbutils

import (
	"bytes"

	"github.com/NethermindEth/juno/zzverif/vx"
)

// C15-H1: UpperBound(p) is the least byte string greater than every key that has prefix p;
// nil (unbounded) iff p is empty or all 0xff.
// Bound: len(p) <= 6, extension suffix <= 2 bytes, probe string <= 7 bytes; all bytes symbolic.
func VxC15UpperBound() {
	vx.Bound("len(prefix)<=6; suffix<=2; probe<=7; bytes symbolic")
	n := vx.Choice("n", 7)
	p := vx.Bytes("p", n)
	ub := UpperBound(p)

	all := byte(0xff)
	for _, b := range p {
		all &= b
	}
	allFF := all == 0xff
	vx.Assert((ub == nil) == allFF, "nil-iff-empty-or-all-ff")
	if ub == nil {
		vx.Cover("unbounded")
		return
	}
	vx.Cover("bounded")
	if len(ub) < len(p) {
		vx.Cover("carry-truncates")
	}
	// (1) every extension of p is strictly below ub
	m := vx.Choice("m", 3)
	k := append(append([]byte{}, p...), vx.Bytes("suffix", m)...)
	vx.Assert(bytes.Compare(k, ub) < 0, "extension-below-bound")
	// p itself is not below... ub must be above p
	vx.Assert(bytes.Compare(p, ub) < 0, "prefix-below-bound")
	// (2) least: any s < ub is <= some extension of p (namely p followed by 0xff...)
	sl := vx.Choice("sl", 8)
	s := vx.Bytes("s", sl)
	if bytes.Compare(s, ub) < 0 {
		ext := append([]byte{}, p...)
		for i := 0; i < sl; i++ {
			ext = append(ext, 0xff)
		}
		vx.Assert(bytes.Compare(s, ext) <= 0, "bound-is-least")
	}
	// input not modified
}
