//vx:pkg blockchain
package blockchain

import (
	"iter"

	"github.com/NethermindEth/juno/core"
	"github.com/NethermindEth/juno/core/felt"
	"github.com/NethermindEth/juno/core/pending"
	"github.com/NethermindEth/juno/zzverif/vx"
)

// C09-H1/H2 (pre-confirmed path): EventFilter.Events over a pre-confirmed chain of two blocks holding
// four events with symbolic emitters and keys; filter with an optional address and key positions;
// pages obtained by following continuation tokens for every chunk size 1..4 must concatenate to
// exactly the naive scan: the matching events, in chain order, each tagged with its block,
// transaction index and event index, no duplicate and no omission.
// The bloom pre-test of a block is redirected to "maybe" inside the engine (murmur hashing of
// symbolic bytes is outside); natively the real bloom of the block's events is used.

func vxFelt(name string) *felt.Felt {
	b := vx.FeltBytes(name)
	return new(felt.Felt).SetBytes(b[:])
}

// small domain so that matches and non-matches are both frequent
func vxSmallFelt(name string) felt.Felt {
	k := vx.U8(name)
	vx.Assume(k < 2)
	return felt.FromUint64[felt.Felt](uint64(k))
}

var vxMaxKeys = 1

func vxEvent(tag string) *core.Event {
	from := vxSmallFelt(tag + ".from")
	nk := vx.Choice(tag+".nkeys", vxMaxKeys+1)
	keys := make([]felt.Felt, nk)
	for i := range keys {
		keys[i] = vxSmallFelt(tag + ".key")
	}
	return &core.Event{From: &from, Keys: keys}
}

type vxChain struct{ entries []*pending.PreConfirmed }

func (c vxChain) Length() int { return len(c.entries) }
func (c vxChain) Head() *pending.PreConfirmed {
	if len(c.entries) == 0 {
		return nil
	}
	return c.entries[len(c.entries)-1]
}
func (c vxChain) OldestFirst() iter.Seq[*pending.PreConfirmed] {
	return func(yield func(*pending.PreConfirmed) bool) {
		for _, e := range c.entries {
			if !yield(e) {
				return
			}
		}
	}
}

func vxMaybe(*EventMatcher, any) bool { return true }

type vxTagged struct {
	block    uint64
	tx, ev   uint
	event    *core.Event
}

func vxSpecMatch(addrs []felt.Address, keys [][]felt.Felt, e *core.Event) bool {
	if len(addrs) > 0 {
		found := false
		for _, a := range addrs {
			af := felt.Felt(a)
			if af.Equal(e.From) {
				found = true
			}
		}
		if !found {
			return false
		}
	}
	if len(e.Keys) < len(keys) {
		return false
	}
	for i, alts := range keys {
		if len(alts) == 0 {
			continue
		}
		ok := false
		for _, k := range alts {
			if k.Equal(&e.Keys[i]) {
				ok = true
			}
		}
		if !ok {
			return false
		}
	}
	return true
}

func VxC09PreConfirmedPaging() {
	vx.Bound("2 pre-confirmed blocks: block 12 with 3 events in 2 transactions, block 11 with a transaction without events (thorough: one event), emitters and keys from a 2-value domain, 0..1 keys per event; filter: 0..1 address, 0..1 key positions with 0..2 alternatives; chunk size 1..4")
	if vx.InEngine() {
		vx.Stub("(*github.com/NethermindEth/juno/blockchain.EventMatcher).TestBloom", vxMaybe)
	}
	// chain: latest canonical block is 10, pre-confirmed blocks 11 and 12
	mk := func(num uint64, perTx []int, tag string) (*pending.PreConfirmed, []vxTagged) {
		var rs []*core.TransactionReceipt
		var all []vxTagged
		for ti, ne := range perTx {
			r := &core.TransactionReceipt{TransactionHash: felt.NewFromUint64[felt.Felt](num*100 + uint64(ti))}
			for ei := 0; ei < ne; ei++ {
				ev := vxEvent(tag)
				r.Events = append(r.Events, ev)
				all = append(all, vxTagged{num, uint(ti), uint(ei), ev})
			}
			rs = append(rs, r)
		}
		h := &core.Header{Number: num, Hash: felt.NewFromUint64[felt.Felt](num)}
		if !vx.InEngine() {
			h.EventsBloom = core.EventsBloom(rs) // real bloom natively; the engine redirects TestBloom
		}
		return &pending.PreConfirmed{Block: &core.Block{Header: h, Receipts: rs}}, all
	}
	vxMaxKeys = 1
	// block 12 holds three events in two transactions (a page can be cut between two events of one
	// block after a non-matching one); block 11 holds one event in the thorough tier only
	perTxA := []int{0}
	perTxB := []int{1, 2}
	if vx.Thorough() {
		perTxA = []int{1}
	}
	b1, ev1 := mk(11, perTxA, "a")
	b2, ev2 := mk(12, perTxB, "b")
	chain := vxChain{[]*pending.PreConfirmed{b1, b2}}
	naive := append(ev1, ev2...)

	var addrs []felt.Address
	if vx.Choice("naddr", 2) == 1 {
		addrs = []felt.Address{felt.Address(vxSmallFelt("f.addr"))}
	}
	np := vx.Choice("npos", vxMaxKeys+1)
	keys := make([][]felt.Felt, np)
	for i := range keys {
		na := vx.Choice("nalts", 3)
		for j := 0; j < na; j++ {
			keys[i] = append(keys[i], vxSmallFelt("f.key"))
		}
	}
	f := newEventFilter(nil, addrs, keys, 11, PreConfirmedFilterSentinel,
		func() (PreConfirmedReader, error) { return chain, nil }, nil, nil)

	chunk := uint64(1 + vx.Choice("chunk", 4))
	var got []FilteredEvent
	var tok *ContinuationToken
	pages := 0
	for {
		page, next, err := f.Events(tok, chunk)
		vx.Assert(err == nil, "events-no-error")
		vx.Assert(uint64(len(page)) <= chunk, "page-within-chunk-size")
		got = append(got, page...)
		pages++
		if next.IsEmpty() {
			break
		}
		vx.Assert(pages < 8, "paging-terminates")
		if pages >= 8 {
			break
		}
		t := next
		tok = &t
	}
	if pages > 1 {
		vx.Cover("multiple-pages")
	}
	// naive scan
	var want []vxTagged
	for _, t := range naive {
		if vxSpecMatch(addrs, keys, t.event) {
			want = append(want, t)
		}
	}
	if len(want) > 0 {
		vx.Cover("some-match")
	}
	if len(want) < len(naive) {
		vx.Cover("some-filtered-out")
	}
	vx.Assert(len(got) == len(want), "exactly-the-matching-events")
	for i := range got {
		if i < len(want) {
			w := want[i]
			vx.Assert(got[i].Event == w.event && got[i].BlockNumber == w.block &&
				got[i].TransactionIndex == w.tx && got[i].EventIndex == w.ev, "events-in-chain-order-with-position-tags")
		}
	}
}
