//vx:pkg pruner
//vx:include support_fillspec.go core core
package pruner

import (
	"github.com/NethermindEth/juno/core"
	"github.com/NethermindEth/juno/core/felt"
	"github.com/NethermindEth/juno/db"
	"github.com/NethermindEth/juno/db/memory"
	"github.com/NethermindEth/juno/zzverif/vx"
	"github.com/bits-and-blooms/bloom/v3"
)

// C09-H3c: the pruning node's initializer of the running event index (pruner.InitializeRunningEventFilter,
// the twin of core.InitializeRunningEventFilter with a retention floor). Chain height, retention floor and
// the position of an optional shutdown snapshot are symbolic over three index windows; windows completed at
// or above the floor's window are persisted, older ones pruned. Whatever snapshot an earlier run left (none,
// caught up, behind in the same window, behind in an older window, ahead of the head after reverts or after a
// failed commit followed by a graceful shutdown), the index handed to the node expects block height+1 and
// covers the window holding it.

func vxPrunerFillSpec(reader db.KeyValueReader, rf *core.RunningEventFilter, from, end uint64) error {
	return core.VxFillContract(rf, from, end)
}

func VxC09PrunerInitializeDecision() {
	vx.Bound("pruning node: chain height symbolic in [0, 3*8192), retention floor symbolic in [0, height], windows completed at or above the floor's window persisted; snapshot: none | next block symbolic in [0, 4*8192); blocks without events (fill loop replaced by its loop-free contract inside the engine)")
	const n = core.NumBlocksPerFilter
	d := memory.New()
	latest := vx.U64("latest")
	floor := vx.U64("floor")
	vx.Assume(latest < 3*n && floor <= latest)
	if !vx.InEngine() {
		eb := bloom.New(core.EventsBloomLength, core.EventsBloomHashFuncs)
		for i := floor; i <= latest; i++ {
			_ = core.WriteBlockHeaderByNumber(d, &core.Header{Number: i, Hash: felt.NewFromUint64[felt.Felt](1000 + i), EventsBloom: eb})
		}
	} else {
		vx.Stub("github.com/NethermindEth/juno/pruner.fillRunningEventFilter", vxPrunerFillSpec)
	}
	vx.Assert(core.WriteChainHeight(d, latest) == nil, "setup")
	// the oldest retained block is the first block that still has its commitments
	vx.Assert(core.WriteBlockCommitment(d, floor, &core.BlockCommitments{}) == nil, "setup")
	fl, ferr := OldestRetainedBlock(d)
	vx.Assert(ferr == nil && fl == floor, "setup-floor")
	floorAligned := floor - floor%n
	for w := uint64(0); w < 3; w++ {
		if latest >= (w+1)*n-1 && w*n >= floorAligned {
			f := core.NewAggregatedFilter(w * n)
			vx.Assert(core.WriteAggregatedBloomFilter(d, &f) == nil, "setup")
		}
	}
	switch vx.Choice("snapshot", 2) {
	case 0:
		vx.Cover("no-snapshot")
	case 1:
		next := vx.U64("snapshot.next")
		vx.Assume(next < 4*n)
		f := core.NewAggregatedFilter(next - next%n)
		snap := core.NewRunningEventFilterHot(d, &f, next)
		vx.Assert(core.WriteRunningEventFilter(d, snap) == nil, "setup")
		switch {
		case next == latest+1:
			vx.Cover("snapshot-caught-up")
		case next > latest+1:
			vx.Cover("snapshot-ahead-of-head")
		case latest <= f.ToBlock():
			vx.Cover("snapshot-behind-same-window")
		default:
			vx.Cover("snapshot-behind-older-window")
		}
	}
	rf, err := InitializeRunningEventFilter(d)
	vx.Assert(err == nil && rf != nil, "initialize-succeeds")
	if err != nil || rf == nil {
		return
	}
	next, from, to, ok := core.VxRunningFilterState(rf)
	vx.Assert(ok, "filter-has-a-window")
	vx.Assert(next == latest+1, "filter-expects-the-block-after-the-head")
	want := (latest + 1) - (latest+1)%n
	vx.Assert(from == want && to == want+n-1, "filter-covers-the-window-of-the-next-block")
}
