//vx:pkg core
//vx:include restart.go
package core

import (
	"github.com/NethermindEth/juno/zzverif/vx"
	"github.com/bits-and-blooms/bitset"
)

// C09-H7: the aggregated index never drops a candidate block. Two blocks of one window, each
// holding an arbitrary subset of two event keys (real bloom hashing of the concrete keys); a query
// position with 0..2 alternatives drawn from those keys in an arbitrary order. Every block that holds
// at least one of the alternatives must be set in the result of BlocksForKeysInto (alternatives are
// OR-ed), the allocating BlocksForKeys must agree with it on those blocks, and an empty alternative
// list selects every block.
func VxC09AggregatedFilterHasNoFalseNegatives() {
	vx.Bound("one window starting at block 0; 2 blocks, each with an arbitrary subset of 2 concrete 32-byte keys; one filter position with 0..2 alternatives drawn (with repetition, any order) from the 2 keys")
	keys := [2][]byte{}
	for i := range keys {
		k := make([]byte, 32)
		k[31] = byte(i + 1)
		k[0] = byte(7 * (i + 1))
		keys[i] = k
	}
	f := NewAggregatedFilter(0)
	var holds [2][2]bool
	for b := 0; b < 2; b++ {
		bl := vxEmptyBloom()
		for i := range keys {
			if vx.Bool("holds") {
				holds[b][i] = true
				bl.Add(keys[i])
			}
		}
		vx.Assert(f.Insert(bl, uint64(b)) == nil, "insert-in-range")
	}
	nalt := vx.Choice("nalts", 3)
	var alts [][]byte
	var altIdx []int
	for j := 0; j < nalt; j++ {
		i := vx.Choice("alt", 2)
		alts = append(alts, keys[i])
		altIdx = append(altIdx, i)
	}
	out := bitset.New(uint(NumBlocksPerFilter))
	vx.Assert(f.BlocksForKeysInto(alts, out) == nil, "query-no-error")
	alloc := f.BlocksForKeys(alts)
	for b := 0; b < 2; b++ {
		must := nalt == 0
		for _, i := range altIdx {
			if holds[b][i] {
				must = true
			}
		}
		if must {
			vx.Cover("block-holds-an-alternative")
			vx.Assert(out.Test(uint(b)), "block-holding-an-alternative-is-a-candidate")
			vx.Assert(alloc.Test(uint(b)), "block-holding-an-alternative-is-a-candidate")
		}
		vx.Assert(out.Test(uint(b)) == alloc.Test(uint(b)), "both-query-forms-agree")
	}
}

// C09-H7b: a BUSY block - hundreds of distinct emitters / keys, a quarter of its 8192 bloom bits set - is
// indexed completely: every one of its keys finds the block through the aggregated index ("no matching event
// is ever omitted because of the bloom-filter index"), whatever buffer sizes the insertion uses. Real bloom
// hashing of 60 / 260 / 700 concrete keys (the block's bloom then has roughly 350 / 1400 / 3000 bits set).
func VxC09BusyBlockIsIndexedCompletely() {
	vx.Bound("one window starting at block 0; one block (number 0, 5 or 8191) whose bloom holds 60, 260 or 700 concrete 32-byte keys; every key queried through BlocksForKeys")
	nkeys := []int{60, 260, 700}[vx.Choice("keys-in-the-block", 3)]
	block := []uint64{0, 5, NumBlocksPerFilter - 1}[vx.Choice("block", 3)]
	keys := make([][]byte, nkeys)
	bl := vxEmptyBloom()
	for i := range keys {
		k := make([]byte, 32)
		k[31], k[30], k[0] = byte(i), byte(i>>8), byte(7*i+1)
		keys[i] = k
		bl.Add(k)
	}
	if bl.BitSet().Count() > 1024 {
		vx.Cover("more-than-1024-bloom-bits-set")
	}
	f := NewAggregatedFilter(0)
	vx.Assert(f.Insert(bl, block) == nil, "insert-in-range")
	missing := 0
	for i := range keys {
		if !f.BlocksForKeys([][]byte{keys[i]}).Test(uint(block)) {
			missing++
		}
	}
	vx.Assert(missing == 0, "every-key-of-a-busy-block-finds-the-block")
}
