//vx:pkg blockchain
//vx:include reorgcache.go
package blockchain

import (
	"github.com/NethermindEth/juno/core"
	"github.com/NethermindEth/juno/core/felt"
	"github.com/NethermindEth/juno/db/memory"
	"github.com/NethermindEth/juno/zzverif/vx"
)

// C09-H8 (canonical chain, paging under a scan limit): "the same list for every chunk size and scan
// limit". The real Blockchain (state backend Store, running filter, EventFilter.Events with real bloom
// hashing) holds blocks 1..3 (thorough: 1..4) above a stored genesis header, each with one event from emitter A or B (an
// arbitrary pattern). A query for A over [1, to] is paged to completion with a scan limit of 1..4
// candidate blocks per call and a chunk size of 1, 2 or 100 events, following the continuation tokens;
// the concatenated pages must be exactly the A events of blocks 1..to, in chain order, each once.
func VxC09CanonicalPagingWithScanLimit() {
	vx.Bound("blocks 1..3 (thorough: 1..4) on a stored genesis, one event each from emitter A or B (every pattern); query for A over [1, to], to from 2 to the head; scan limit 1..head candidate blocks per call; chunk size 1 or 100 (thorough: also 2); at most 10 pages")
	mem := memory.New()
	g := felt.NewFromUint64[felt.Felt](0x6000)
	vx.Assert(core.WriteBlockHeader(mem, &core.Header{Number: 0, Hash: g, ProtocolVersion: "0.13.2", EventsBloom: core.EventsBloom(nil)}) == nil &&
		core.WriteChainHeight(mem, 0) == nil, "setup")
	f := &vxFork{bc: vxBC(mem, 1), hashes: []*felt.Felt{g}, base: 0}
	a := felt.NewFromUint64[felt.Felt](0xA)
	b := felt.NewFromUint64[felt.Felt](0xB)
	nb := 3
	if vx.Thorough() {
		nb = 4
	}
	var fromA [5]bool
	for n := 1; n <= nb; n++ {
		if vx.Bool("fromA") {
			fromA[n] = true
			f.store(a, "h")
		} else {
			f.store(b, "h")
		}
	}
	to := uint64(2 + vx.Choice("to", nb-1))
	limit := uint(1 + vx.Choice("limit", nb))
	chunks := []uint64{1, 100}
	if vx.Thorough() {
		chunks = []uint64{1, 2, 100}
	}
	chunk := chunks[vx.Choice("chunk", len(chunks))]
	var want []uint64
	for n := uint64(1); n <= to; n++ {
		if fromA[n] {
			want = append(want, n)
		}
	}
	flt, err := f.bc.EventFilter([]felt.Address{felt.Address(*a)}, nil, nil)
	vx.Assert(err == nil, "filter-opens")
	vx.Assert(flt.SetRangeEndBlockByNumber(EventFilterFrom, 1) == nil && flt.SetRangeEndBlockByNumber(EventFilterTo, to) == nil, "range-ok")
	flt.WithLimit(limit)
	var got []uint64
	var tok *ContinuationToken
	pages := 0
	for {
		evs, next, perr := flt.Events(tok, chunk)
		vx.Assert(perr == nil, "page-ok")
		if perr != nil {
			return
		}
		vx.Assert(uint64(len(evs)) <= chunk, "page-within-chunk-size")
		for _, e := range evs {
			got = append(got, e.BlockNumber)
		}
		pages++
		if next.IsEmpty() {
			break
		}
		vx.Assert(pages < 10, "paging-terminates")
		if pages >= 10 {
			return
		}
		t := next
		tok = &t
	}
	_ = flt.Close()
	if pages > 1 {
		vx.Cover("several-pages")
	}
	if len(want) > 0 && !fromA[to] {
		vx.Cover("last-block-of-the-range-does-not-match")
	}
	vx.Assert(len(got) == len(want), "exactly-the-matching-events-for-every-limit-and-chunk-size")
	for i := range got {
		if i < len(want) {
			vx.Assert(got[i] == want[i], "events-in-chain-order")
		}
	}
}
