//vx:pkg blockchain
//vx:include matcher.go
package blockchain

import (
	"github.com/NethermindEth/juno/core"
	"github.com/NethermindEth/juno/core/felt"
	"github.com/NethermindEth/juno/zzverif/vx"
)

// C09-H9: the per-block bloom pre-test (EventMatcher.TestBloom: the gate in front of every pre-confirmed
// block and of the event subscriptions) never rejects a block that holds a matching event - "no matching
// event is ever omitted because of the bloom-filter index". A block with 1..2 events (emitter from a
// 2-value domain, 0..2 keys from a 2-value domain; real bloom of the block, real hashing of the concrete
// values); filter with 0..1 addresses and 0..2 key positions of 0..2 alternatives each - an EMPTY position
// (wildcard) included, alone, before and after a constrained position. Whenever the specification says some
// event of the block matches (vxSpecMatch) the pre-test must say "maybe"; and the exact matcher
// (MatchesAddress + MatchesEventKeys) must agree with the specification on every event.
func VxC09BlockBloomTestHasNoFalseNegatives() {
	vx.Bound("one block with 1 event (thorough: 1..2 events), emitter and keys from 2-value domains (concrete, enumerated), 0..2 keys per event; filter: 0..1 address, 0..2 key positions with 0..2 alternatives each (empty = wildcard); real bloom hashing")
	dom := func(name string) felt.Felt { return felt.FromUint64[felt.Felt](uint64(0x51 + vx.Choice(name, 2))) }
	ne := 1
	if vx.Thorough() {
		ne = 1 + vx.Choice("nevents", 2)
	}
	var evs []*core.Event
	for i := 0; i < ne; i++ {
		from := dom("e.from")
		nk := vx.Choice("e.nkeys", 3)
		keys := make([]felt.Felt, nk)
		for j := range keys {
			keys[j] = dom("e.key")
		}
		evs = append(evs, &core.Event{From: &from, Keys: keys})
	}
	rs := []*core.TransactionReceipt{{TransactionHash: felt.NewFromUint64[felt.Felt](1), Events: evs}}
	bl := core.EventsBloom(rs)

	var addrs []felt.Address
	if vx.Choice("naddr", 2) == 1 {
		addrs = []felt.Address{felt.Address(dom("f.addr"))}
	}
	np := vx.Choice("npos", 3)
	keys := make([][]felt.Felt, np)
	wildcard := false
	for i := range keys {
		na := vx.Choice("nalts", 3)
		if na == 0 {
			wildcard = true
		}
		for j := 0; j < na; j++ {
			keys[i] = append(keys[i], dom("f.key"))
		}
	}
	if wildcard {
		vx.Cover("filter-with-a-wildcard-position")
	}
	m := NewEventMatcher(addrs, keys)
	any := false
	for _, e := range evs {
		want := vxSpecMatch(addrs, keys, e)
		got := m.MatchesAddress(e.From) && m.MatchesEventKeys(e.Keys)
		vx.Assert(got == want, "exact-matcher-agrees-with-the-specification")
		any = any || want
	}
	if any {
		vx.Cover("block-holds-a-matching-event")
		vx.Assert(m.TestBloom(bl), "block-with-a-matching-event-passes-the-bloom-pre-test")
	}
}
