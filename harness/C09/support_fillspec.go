package core

// Exported views for harnesses that live in other packages (pruner).

// VxFillContract is the loop-free contract of the fill loops for blocks without events: blocks
// from..latest are inserted in order, rolling the window over when its last block is inserted.
func VxFillContract(rf *RunningEventFilter, from, latest uint64) error {
	if from > latest {
		return nil
	}
	if from < rf.inner.fromBlock || from > rf.inner.toBlock {
		return ErrAggregatedBloomFilterBlockOutOfRange
	}
	if latest >= rf.inner.toBlock {
		nf := NewAggregatedFilter((latest + 1) - (latest+1)%NumBlocksPerFilter)
		rf.inner = &nf
	}
	rf.next = latest + 1
	return nil
}

func VxRunningFilterState(rf *RunningEventFilter) (next, from, to uint64, ok bool) {
	if rf == nil || rf.inner == nil {
		return 0, 0, 0, false
	}
	return rf.next, rf.inner.fromBlock, rf.inner.toBlock, true
}
