//vx:pkg blockchain
package blockchain

import (
	"errors"

	"github.com/NethermindEth/juno/core"
	"github.com/NethermindEth/juno/db/memory"
	"github.com/NethermindEth/juno/zzverif/vx"
)

// C09-H2 (canonical chain, candidate-block iterator): the iterator that walks the 8192-block index
// windows of a query range [from, to] - persisted windows through the cache/fallback, the last one
// through the running filter - must yield every candidate block of the range, in order, exactly
// once, stop at `to`, and report the scan limit only when more candidates remain. With a filter
// that constrains nothing every block is a candidate, so the expected sequence is from..to.
// `from` is enumerated around the window boundaries (it indexes the bit rows); `to` and the scan
// limit are symbolic.
func VxC09MatchedBlockIterator() {
	vx.Bound("three index windows (two persisted, one running); from in {0, 8189..8193, 16382..16385}; to symbolic in [from, from+4]; scan limit symbolic in [0, 6] (0 = unlimited); unconstrained filter (every block is a candidate)")
	const n = core.NumBlocksPerFilter
	froms := []uint64{0, n - 3, n - 2, n - 1, n, n + 1, 2*n - 2, 2*n - 1, 2 * n, 2*n + 1}
	from := froms[vx.Choice("from", len(froms))]
	to := vx.U64("to")
	vx.Assume(to >= from && to <= from+4)
	limit := vx.U64("limit")
	vx.Assume(limit <= 6)

	d := memory.New()
	rfInner := core.NewAggregatedFilter(2 * n)
	rf := core.NewRunningEventFilterHot(d, &rfInner, 3*n) // head is the last block of the third window
	cache := NewAggregatedBloomCache(2)
	fetched := 0
	cache.WithFallback(func(k EventFiltersCacheKey) (core.AggregatedBloomFilter, error) {
		fetched++
		if k.fromBlock >= 2*n || k.fromBlock%n != 0 || k.toBlock != k.fromBlock+n-1 {
			return core.AggregatedBloomFilter{}, errors.New("no such persisted window")
		}
		return core.NewAggregatedFilter(k.fromBlock), nil
	})
	matcher := NewEventMatcher(nil, nil)
	it, err := cache.NewMatchedBlockIterator(from, to, limit, &matcher, rf)
	vx.Assert(err == nil, "iterator-opens")

	want := from
	for steps := 0; steps < 8; steps++ {
		b, ok, nerr := it.Next()
		if ok {
			vx.Assert(nerr == nil, "yield-without-error")
			vx.Assert(b == want, "yields-every-block-of-the-range-in-order")
			vx.Assert(b <= to, "never-yields-past-the-range-end")
			vx.Assert(limit == 0 || b-from < limit, "never-yields-more-than-the-scan-limit")
			want = b + 1
			continue
		}
		if nerr != nil {
			vx.Assert(errors.Is(nerr, ErrMaxScannedBlockLimitExceed), "only-the-scan-limit-ends-the-scan-early")
			vx.Assert(limit > 0 && want == from+limit && want <= to && b == want, "scan-limit-reported-only-when-a-further-candidate-exists")
			vx.Cover("scan-limit-hit")
			return
		}
		vx.Assert(want == to+1, "no-block-of-the-range-omitted")
		if from/n != to/n {
			vx.Cover("range-spans-a-window-boundary")
		}
		if to%n == 0 && from < to {
			vx.Cover("range-ends-on-a-window-start")
		}
		if from >= 2*n {
			vx.Cover("running-window-only")
		}
		return
	}
	vx.Assert(false, "opt:iterator-terminates")
}
