//vx:pkg blockchain
package blockchain

import (
	"github.com/NethermindEth/juno/blockchain/networks"
	"github.com/NethermindEth/juno/core"
	"github.com/NethermindEth/juno/core/felt"
	"github.com/NethermindEth/juno/db"
	"github.com/NethermindEth/juno/db/memory"
	"github.com/NethermindEth/juno/zzverif/vx"
)

// C09-H4 (canonical chain, reorg across an index-window boundary with a warm cache): "No matching
// event is ever omitted because of the bloom-filter index, its cache ... or blocks having been
// replaced by a reorg ... (including across a window boundary and after earlier queries warmed the
// cache)". The real Blockchain (state backend Store / RevertHead, running filter, aggregated filter
// cache, EventFilter.Events with real bloom hashing) on the in-memory store. The chain is placed
// right below the 8192-block boundary; blocks carry one event each from emitter A (first fork) or
// B (second fork); the history - how many blocks are stored past the boundary, whether a query
// warms the cache before the reorg, how deep the reorg is - is enumerated; block hashes symbolic.
// After the reorg a query for B over the replaced range must return every B event.

func vxBC(mem *memory.Database, next uint64) *Blockchain {
	// the real constructor (whatever it initialises - caches, feeds, the state backend - is initialised);
	// only the running filter's lazy start-up scan is replaced by a filter that is already positioned
	// at `next` with an empty window
	const w = core.NumBlocksPerFilter
	from := next - next%w
	return New(mem, &networks.Sepolia, WithRunningEventFilterInitializer(func(d db.KeyValueStore) (*core.RunningEventFilter, error) {
		inner := core.NewAggregatedFilter(from)
		return core.NewRunningEventFilterHot(d, &inner, next), nil
	}))
}

type vxFork struct {
	bc     *Blockchain
	hashes []*felt.Felt // hash of block (base+i)
	base   uint64
}

func (f *vxFork) store(emitter *felt.Felt, tag string) {
	n := f.base + uint64(len(f.hashes))
	hb := vx.FeltBytes(tag)
	hash := new(felt.Felt).SetBytes(hb[:])
	vx.Assume(!hash.IsZero())
	for _, h := range f.hashes {
		vx.Assume(!h.Equal(hash))
	}
	txHash := felt.NewFromUint64[felt.Felt](7000 + n)
	receipts := []*core.TransactionReceipt{{TransactionHash: txHash, Fee: &felt.Zero, Events: []*core.Event{{From: emitter}}}}
	txs := []core.Transaction{&core.InvokeTransaction{TransactionHash: txHash, Version: new(core.TransactionVersion).SetUint64(1)}}
	parent := f.hashes[len(f.hashes)-1]
	block := &core.Block{
		Header: &core.Header{Number: n, Hash: hash, ParentHash: parent, ProtocolVersion: "0.13.2",
			TransactionCount: 1, EventCount: 1, EventsBloom: core.EventsBloom(receipts)},
		Transactions: txs, Receipts: receipts,
	}
	diff := core.EmptyStateDiff()
	su := &core.StateUpdate{BlockHash: hash, OldRoot: &felt.Zero, NewRoot: &felt.Zero, StateDiff: &diff}
	vx.Assert(f.bc.stateBackend.Store(block, &core.BlockCommitments{}, su, nil) == nil, "store-ok")
	f.hashes = append(f.hashes, hash)
}

func (f *vxFork) revert() {
	rerr := f.bc.RevertHead()
	if rerr != nil && !vx.InEngine() {
		panic("revert: " + rerr.Error())
	}
	vx.Assert(rerr == nil, "revert-ok")
	f.hashes = f.hashes[:len(f.hashes)-1]
}

func (f *vxFork) eventsFrom(emitter *felt.Felt, from, to uint64) []uint64 {
	flt, err := f.bc.EventFilter([]felt.Address{felt.Address(*emitter)}, nil, nil)
	vx.Assert(err == nil, "filter-opens")
	vx.Assert(flt.SetRangeEndBlockByNumber(EventFilterFrom, from) == nil && flt.SetRangeEndBlockByNumber(EventFilterTo, to) == nil, "range-ok")
	evs, tok, err := flt.Events(nil, 100)
	vx.Assert(err == nil && tok.IsEmpty(), "query-ok")
	_ = flt.Close()
	var out []uint64
	for _, e := range evs {
		out = append(out, e.BlockNumber)
	}
	return out
}

func VxC09ReorgAcrossWindowWithWarmCache() {
	vx.Bound("head at 8189 (parent header only); first fork: blocks 8190.. up to 8191+k (k in 0..1 blocks past the window boundary), one event from A each; optional query that warms the window cache; reorg of depth 1..all stored blocks; second fork re-stores the same heights with one event from B each; queries for B and for A over the replaced range. Emitters fixed (real bloom hashing), block hashes symbolic.")
	const w = core.NumBlocksPerFilter
	mem := memory.New()
	base := w - 3 // 8189
	ph := vx.FeltBytes("h.base")
	baseHash := new(felt.Felt).SetBytes(ph[:])
	vx.Assume(!baseHash.IsZero())
	vx.Assert(core.WriteBlockHeader(mem, &core.Header{Number: base, Hash: baseHash, ProtocolVersion: "0.13.2", EventsBloom: core.EventsBloom(nil)}) == nil &&
		core.WriteChainHeight(mem, base) == nil, "setup")
	f := &vxFork{bc: vxBC(mem, base+1), hashes: []*felt.Felt{baseHash}, base: base}
	a := felt.NewFromUint64[felt.Felt](0xA)
	b := felt.NewFromUint64[felt.Felt](0xB)

	past := vx.Choice("blocksPastBoundary", 2)
	stored := 2 + past // 8190, 8191, (8192)
	for i := 0; i < stored; i++ {
		f.store(a, "h.forkA")
	}
	head := base + uint64(stored)
	if vx.Choice("warmCache", 2) == 1 {
		got := f.eventsFrom(a, base+1, head)
		vx.Assert(len(got) == stored, "first-fork-events-found")
		if past > 0 {
			vx.Cover("cache-warmed-with-the-completed-window")
		}
	}
	depth := 1 + vx.Choice("depth", stored)
	for i := 0; i < depth; i++ {
		f.revert()
	}
	if past > 0 && depth >= 2 {
		vx.Cover("reorg-crosses-the-window-boundary")
	}
	for i := 0; i < depth; i++ {
		f.store(b, "h.forkB")
	}
	gotB := f.eventsFrom(b, base+1, head)
	vx.Assert(len(gotB) == depth, "every-event-of-the-new-fork-is-returned")
	for i, n := range gotB {
		vx.Assert(n == head-uint64(depth)+1+uint64(i), "events-of-the-new-fork-in-chain-order")
	}
	gotA := f.eventsFrom(a, base+1, head)
	vx.Assert(len(gotA) == stored-depth, "no-event-of-a-replaced-block-is-returned")
}
