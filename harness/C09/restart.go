//vx:pkg core
package core

import (
	"github.com/NethermindEth/juno/core/felt"
	"github.com/NethermindEth/juno/db"
	"github.com/NethermindEth/juno/db/memory"
	"github.com/NethermindEth/juno/zzverif/vx"
	"github.com/bits-and-blooms/bloom/v3"
)

// C09-H3: "No matching event is ever omitted because of the bloom-filter index ... restarts, or
// blocks having been replaced by a reorg." The running window is rebuilt at start by
// InitializeRunningEventFilter from (chain height, optional shutdown snapshot, persisted windows,
// block headers).
//
// (a) VxC09InitializeDecision — the decision kernel with the chain height and the snapshot's next
//     block symbolic: whatever snapshot an earlier run left behind (none, caught up, behind in the
//     same window, behind in an older window, ahead of the head after reverts + kill), the filter
//     handed to the node must expect block height+1 and cover the window holding it.
// (b) VxC09RestartAfterReorg — histories with content: run 1 stores blocks and may shut down
//     gracefully (snapshot); run 2 reverts and stores replacement blocks whose events differ, then is
//     killed; after the restart every block of the canonical chain must be a candidate for the
//     bloom rows of its own events (no false negative).

func vxEmptyBloom() *bloom.BloomFilter { return bloom.New(EventsBloomLength, EventsBloomHashFuncs) }

// vxRowBloom returns a block bloom with exactly one row set.
func vxRowBloom(row uint) *bloom.BloomFilter {
	words := make([]uint64, EventsBloomLength/64)
	words[row/64] |= 1 << (row % 64)
	return bloom.FromWithM(words, EventsBloomLength, EventsBloomHashFuncs)
}

// vxFillSpec is the loop-free contract of fillRunningEventFilter for blocks without events
// (engine only; natively the real function walks the real headers).
func vxFillSpec(database db.KeyValueStore, rf *RunningEventFilter, from, latest uint64) error {
	if from > latest {
		return nil
	}
	if from < rf.inner.fromBlock || from > rf.inner.toBlock {
		return ErrAggregatedBloomFilterBlockOutOfRange
	}
	if latest >= rf.inner.toBlock {
		nf := NewAggregatedFilter((latest + 1) - (latest+1)%NumBlocksPerFilter)
		rf.inner = &nf
	}
	rf.next = latest + 1
	return nil
}

func vxHeader(n uint64, b *bloom.BloomFilter) *Header {
	return &Header{Number: n, Hash: felt.NewFromUint64[felt.Felt](1000 + n), EventsBloom: b}
}

func VxC09InitializeDecision() {
	vx.Bound("chain height symbolic in [0, 3*8192) (three index windows), every completed window persisted; snapshot: none | next block symbolic in [0, 4*8192) with the window holding it; blocks without events (window/next arithmetic only; fill loop replaced by its loop-free contract inside the engine)")
	const n = NumBlocksPerFilter
	d := memory.New()
	latest := vx.U64("latest")
	vx.Assume(latest < 3*n)
	if !vx.InEngine() {
		// natively the real fill reads real headers
		eb := vxEmptyBloom()
		for i := uint64(0); i <= latest; i++ {
			_ = WriteBlockHeaderByNumber(d, vxHeader(i, eb))
		}
	} else {
		vx.Stub("github.com/NethermindEth/juno/core.fillRunningEventFilter", vxFillSpec)
	}
	vx.Assert(WriteChainHeight(d, latest) == nil, "setup")
	for w := uint64(0); w < 3; w++ {
		if latest >= (w+1)*n-1 { // window w completed by a stored block
			f := NewAggregatedFilter(w * n)
			vx.Assert(WriteAggregatedBloomFilter(d, &f) == nil, "setup")
		}
	}
	switch vx.Choice("snapshot", 2) {
	case 0:
		vx.Cover("no-snapshot")
	case 1:
		next := vx.U64("snapshot.next")
		vx.Assume(next < 4*n)
		f := NewAggregatedFilter(next - next%n)
		snap := NewRunningEventFilterHot(d, &f, next)
		vx.Assert(WriteRunningEventFilter(d, snap) == nil, "setup")
		switch {
		case next == latest+1:
			vx.Cover("snapshot-caught-up")
		case next > latest+1:
			vx.Cover("snapshot-ahead-of-head")
		case latest <= f.toBlock:
			vx.Cover("snapshot-behind-same-window")
		default:
			vx.Cover("snapshot-behind-older-window")
		}
	}
	rf, err := InitializeRunningEventFilter(d)
	vx.Assert(err == nil && rf != nil, "initialize-succeeds")
	if err != nil || rf == nil {
		return
	}
	vx.Assert(rf.next == latest+1, "filter-expects-the-block-after-the-head")
	want := (latest + 1) - (latest+1)%n
	vx.Assert(rf.inner != nil && rf.inner.fromBlock == want && rf.inner.toBlock == want+n-1,
		"filter-covers-the-window-of-the-next-block")
}

// ---- histories with content ----

type vxRun struct {
	d      *memory.Database
	rf     *RunningEventFilter
	blooms []uint // row of the single event key of block i (canonical chain)
}

func (r *vxRun) store(row uint) {
	nb := uint64(len(r.blooms))
	b := vxRowBloom(row)
	batch := r.d.NewBatch()
	vx.Assert(r.rf.InsertWithBatch(batch, b, nb) == nil, "store-insert-ok")
	vx.Assert(WriteBlockHeaderByNumber(batch, vxHeader(nb, b)) == nil, "store-header-ok")
	vx.Assert(WriteChainHeight(batch, nb) == nil, "store-height-ok")
	vx.Assert(batch.Write() == nil, "store-commit-ok")
	r.blooms = append(r.blooms, row)
}

func (r *vxRun) revert() {
	nb := uint64(len(r.blooms)) - 1
	batch := r.d.NewBatch()
	vx.Assert(r.rf.OnReorgWithBatch(batch) == nil, "revert-filter-ok")
	vx.Assert(DeleteBlockHeaderByNumber(batch, nb) == nil, "revert-header-ok")
	if nb == 0 {
		vx.Assert(DeleteChainHeight(batch) == nil, "revert-height-ok")
	} else {
		vx.Assert(WriteChainHeight(batch, nb-1) == nil, "revert-height-ok")
	}
	vx.Assert(batch.Write() == nil, "revert-commit-ok")
	r.blooms = r.blooms[:nb]
}

func VxC09RestartAfterReorg() {
	vx.Bound("run 1: 1..3 blocks (each with one event key, bloom row A) then graceful shutdown (snapshot) or kill; run 2: revert 0..all blocks, store 0..2 replacement blocks (bloom row B), kill; restart. Heights < 8192 (one window)")
	const rowA, rowB = 5, 700
	r := &vxRun{d: memory.New()}
	var err error
	r.rf, err = InitializeRunningEventFilter(r.d)
	vx.Assert(err == nil, "first-start-ok")
	a := 1 + vx.Choice("run1.blocks", 3)
	for i := 0; i < a; i++ {
		r.store(rowA)
	}
	graceful := vx.Choice("run1.graceful", 2) == 1
	if graceful {
		vx.Assert(r.rf.Write() == nil, "snapshot-ok")
	}
	// run 2
	r.rf, err = InitializeRunningEventFilter(r.d)
	vx.Assert(err == nil, "second-start-ok")
	if err != nil {
		return
	}
	reverts := vx.Choice("run2.reverts", a+1)
	for i := 0; i < reverts; i++ {
		r.revert()
	}
	stores := vx.Choice("run2.stores", 3)
	for i := 0; i < stores; i++ {
		r.store(rowB)
	}
	switch {
	case graceful && reverts > 0 && stores >= reverts:
		vx.Cover("snapshot-then-blocks-replaced")
	case graceful && reverts > 0:
		vx.Cover("snapshot-then-chain-shortened")
	case graceful:
		vx.Cover("snapshot-then-extended")
	default:
		vx.Cover("no-snapshot")
	}
	// kill -9, run 3
	rf, err := InitializeRunningEventFilter(r.d)
	vx.Assert(err == nil, "restart-ok")
	if err != nil {
		return
	}
	vx.Assert(rf.next == uint64(len(r.blooms)), "filter-expects-the-block-after-the-head")
	for i, row := range r.blooms {
		candidate := rf.inner.bitmap[row].Test(uint(i))
		vx.Assert(candidate, "no-false-negative-after-restart")
	}
	// and the node keeps going: the next block can be stored
	r.rf = rf
	r.store(rowB)
}
