//vx:pkg core
package core

import (
	"github.com/NethermindEth/juno/core/felt"
	"github.com/NethermindEth/juno/zzverif/vx"
)

// C02-H3b: the state-diff hash that enters the >= 0.13.2 block hash commits to every entry of the
// diff. Two independent symbolic diffs with 0..1 entry per section are hashed by StateDiff.Hash;
// under ideal hashes equal hashes must mean equal diffs - except that deployed contracts and
// replaced classes are one "updated contracts" list in the protocol (address -> class hash), so an
// entry may move between those two sections without changing the hash.
func vxDiff(tag string) *StateDiff {
	d := EmptyStateDiff()
	switch vx.Choice(tag+"storage", 3) {
	case 1:
		d.StorageDiffs[*vxFelt(tag + "st.addr")] = map[felt.Felt]*felt.Felt{*vxFelt(tag + "st.key"): vxFelt(tag + "st.val")}
	case 2:
		// a contract listed under storage_diffs without any key/value pair: the list of updated contracts
		// is committed too (its length and every address), not only the pairs
		d.StorageDiffs[*vxFelt(tag + "st.addr")] = map[felt.Felt]*felt.Felt{}
		vx.Cover("contract-listed-without-storage-entries")
	}
	if vx.Bool(tag + "hasNonce") {
		d.Nonces[*vxFelt(tag + "n.addr")] = vxFelt(tag + "n.val")
	}
	switch vx.Choice(tag+"updated", 3) {
	case 1:
		d.DeployedContracts[*vxFelt(tag + "u.addr")] = vxFelt(tag + "u.class")
	case 2:
		d.ReplacedClasses[*vxFelt(tag + "u.addr")] = vxFelt(tag + "u.class")
	}
	if vx.Bool(tag + "hasV1") {
		d.DeclaredV1Classes[*vxFelt(tag + "v1.class")] = vxFelt(tag + "v1.casm")
	}
	if vx.Bool(tag + "hasV0") {
		d.DeclaredV0Classes = append(d.DeclaredV0Classes, vxFelt(tag+"v0.class"))
	}
	return &d
}

func vxSameMap(a, b map[felt.Felt]*felt.Felt) bool {
	if len(a) != len(b) {
		return false
	}
	for k, v := range a {
		w, ok := b[k]
		if !ok || !w.Equal(v) {
			return false
		}
	}
	return true
}

func VxC02StateDiffHash() {
	vx.Bound("two arbitrary state diffs with 0..1 entry per section (storage write or a contract listed with an empty storage map, nonce, deployed-or-replaced contract, declared v1 class, declared v0 class), every address / key / value symbolic")
	a, b := vxDiff("a."), vxDiff("b.")
	h1, h2 := a.Hash(), b.Hash()
	vx.CollisionFree()
	if !h1.Equal(&h2) {
		return
	}
	vx.Cover("hashes-equal")
	// storage
	vx.Assert(len(a.StorageDiffs) == len(b.StorageDiffs), "storage-section-committed")
	for addr, m := range a.StorageDiffs {
		n, ok := b.StorageDiffs[addr]
		vx.Assert(ok && vxSameMap(m, n), "storage-entries-committed")
	}
	vx.Assert(vxSameMap(a.Nonces, b.Nonces), "nonces-committed")
	// deployed + replaced are one list in the protocol
	ua, ub := map[felt.Felt]*felt.Felt{}, map[felt.Felt]*felt.Felt{}
	for k, v := range a.DeployedContracts {
		ua[k] = v
	}
	for k, v := range a.ReplacedClasses {
		ua[k] = v
	}
	for k, v := range b.DeployedContracts {
		ub[k] = v
	}
	for k, v := range b.ReplacedClasses {
		ub[k] = v
	}
	vx.Assert(vxSameMap(ua, ub), "updated-contracts-committed")
	vx.Assert(vxSameMap(a.DeclaredV1Classes, b.DeclaredV1Classes), "declared-classes-committed")
	vx.Assert(len(a.DeclaredV0Classes) == len(b.DeclaredV0Classes), "deprecated-classes-committed")
	for i := range a.DeclaredV0Classes {
		if i < len(b.DeclaredV0Classes) {
			vx.Assert(a.DeclaredV0Classes[i].Equal(b.DeclaredV0Classes[i]), "deprecated-classes-committed")
		}
	}
}
