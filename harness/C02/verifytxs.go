//vx:pkg core
//vx:include txhash.go
package core

import (
	"errors"

	"github.com/NethermindEth/juno/core/crypto"
	"github.com/NethermindEth/juno/blockchain/networks"
	"github.com/NethermindEth/juno/core/felt"
	"github.com/NethermindEth/juno/zzverif/vx"
)

// C02-H7: "every transaction's hash is the hash of its own fields" - for EVERY transaction of the block,
// whatever the block's size. VerifyTransactions is the only thing that ties a transaction's fields to the
// hash the block hash commits to. A block of n transactions (n from {1, 2, 8, 9, 12, 16, 17}: around any
// batch size a parallel verification might use) in which the transaction at an arbitrary position had a
// field changed after its hash was fixed must be refused; the untampered block is accepted. Ideal hashes.
// vxTxHashModel: inside the engine the transaction hash is one ideal-hash application over the two fields
// the harness varies (the hash formulas themselves are the subject of C02-H2); natively the real hash runs.
func vxTxHashModel(t Transaction, _ *networks.Network) (felt.Felt, error) {
	switch x := t.(type) {
	case *InvokeTransaction:
		return crypto.Pedersen(x.Nonce, &x.CallData[0]), nil
	case *L1HandlerTransaction:
		return crypto.Pedersen(&x.CallData[0], x.Nonce), nil
	}
	return felt.Felt{}, errors.New("unknown transaction type")
}

func VxC02EveryTransactionHashIsVerified() {
	if vx.InEngine() {
		vx.Stub("github.com/NethermindEth/juno/core.TransactionHash", vxTxHashModel)
	}
	vx.Bound("block of n in {1,2,8,9,12,16,17} invoke (v1) / L1-handler transactions with symbolic nonce and calldata word; one transaction at an arbitrary position tampered (nonce or calldata changed, declared hash kept), or none; protocol version 0.13.2; Sepolia")
	vx.CollisionFree()
	net := &networks.Sepolia
	n := []int{1, 2, 8, 9, 12, 16, 17}[vx.Choice("n", 7)]
	txs := make([]Transaction, n)
	for i := range txs {
		if i%3 == 2 {
			txs[i] = &L1HandlerTransaction{ContractAddress: felt.NewFromUint64[felt.Felt](0xC0), EntryPointSelector: felt.NewFromUint64[felt.Felt](0xE0),
				Nonce: vxFelt("l1.nonce"), CallData: []felt.Felt{*vxFelt("l1.cd")}, Version: new(TransactionVersion)}
		} else {
			txs[i] = &InvokeTransaction{ContractAddress: felt.NewFromUint64[felt.Felt](0xC1), SenderAddress: felt.NewFromUint64[felt.Felt](0xC1),
				Nonce: vxFelt("inv.nonce"), CallData: []felt.Felt{*vxFelt("inv.cd")}, MaxFee: felt.NewFromUint64[felt.Felt](1),
				Version: new(TransactionVersion).SetUint64(1)}
		}
		h, err := TransactionHash(txs[i], net)
		vx.Assert(err == nil, "hash-computable")
		hh := h
		switch t := txs[i].(type) {
		case *InvokeTransaction:
			t.TransactionHash = &hh
		case *L1HandlerTransaction:
			t.TransactionHash = &hh
		}
	}
	vx.Assert(VerifyTransactions(txs, net, "0.13.2") == nil, "genuine-block-is-accepted")
	pos := vx.Choice("tampered-position", n)
	nv := vxFelt("tampered-value")
	switch t := txs[pos].(type) {
	case *InvokeTransaction:
		if vx.Bool("tamper-calldata") {
			vx.Assume(!nv.Equal(&t.CallData[0]))
			t.CallData = []felt.Felt{*nv}
		} else {
			vx.Assume(!nv.Equal(t.Nonce))
			t.Nonce = nv
		}
	case *L1HandlerTransaction:
		vx.Assume(!nv.Equal(&t.CallData[0]))
		t.CallData = []felt.Felt{*nv}
	}
	if n > 8 && pos >= 8*(n/8) {
		vx.Cover("tampered-transaction-in-the-last-partial-batch-of-8")
	}
	vx.Assert(VerifyTransactions(txs, net, "0.13.2") != nil, "transaction-whose-fields-do-not-hash-to-its-hash-is-refused-at-every-position")
}
