//vx:pkg blockchain/statebackend
//vx:include ../C05/store.go
package statebackend

import (
	"github.com/NethermindEth/juno/blockchain/networks"
	"github.com/NethermindEth/juno/core"
	"github.com/NethermindEth/juno/core/felt"
	"github.com/NethermindEth/juno/db/memory"
	"github.com/NethermindEth/juno/zzverif/vx"
)

// C02-H6: "a rejected block leaves the head, state and all indexes exactly as they were". Both state
// backends; a head at n-1 (n around the event-index window boundary); Store is offered a block that
// must be refused - wrong number, wrong parent hash, a state update whose old root is not the current
// root, or whose new root is not the root the diff produces - and must refuse it, leave the database
// image byte-for-byte unchanged and leave the in-memory event index expecting block n; the genuine block
// n is then stored and the index follows it.
func VxC02RejectedStoreLeavesEverythingUntouched() {
	vx.Bound("both state backends; block number n in {8190, 8191, 8192} on top of a head at n-1 (empty state); rejected for one of: number n+1, foreign parent hash, wrong old root, wrong new root (the wrong values symbolic); then the genuine empty block n")
	const w = core.NumBlocksPerFilter
	n := w - 2 + uint64(vx.Choice("n", 3))
	newState := vx.Choice("backend", 2) == 1
	mem := memory.New()
	fdb := &vxFailDB{Database: mem}
	parentHash := vxFeltIn("parentHash")
	vx.Assume(!parentHash.IsZero())
	parent := &core.Header{Number: n - 1, Hash: parentHash, ProtocolVersion: "0.13.2"}
	vx.Assert(core.WriteBlockHeader(mem, parent) == nil && core.WriteChainHeight(mem, n-1) == nil, "setup")
	from := n - n%w
	if from > 0 {
		prev := core.NewAggregatedFilter(from - w)
		vx.Assert(core.WriteAggregatedBloomFilter(mem, &prev) == nil, "setup")
	}
	inner := core.NewAggregatedFilter(from)
	rf := core.NewRunningEventFilterHot(fdb, &inner, n)
	backend := New(fdb, rf, &networks.Sepolia, nil, newState)
	hash := vxFeltIn("hash")
	vx.Assume(!hash.IsZero() && !hash.Equal(parentHash))

	mk := func(num uint64, par, oldRoot, newRoot *felt.Felt) (*core.Block, *core.StateUpdate) {
		diff := core.EmptyStateDiff()
		return &core.Block{Header: &core.Header{Number: num, Hash: hash, ParentHash: par, ProtocolVersion: "0.13.2"}},
			&core.StateUpdate{BlockHash: hash, OldRoot: oldRoot, NewRoot: newRoot, StateDiff: &diff}
	}
	bad := vxFeltIn("wrong")
	vx.Assume(!bad.IsZero())
	var blk *core.Block
	var su *core.StateUpdate
	switch vx.Choice("why", 4) {
	case 0:
		blk, su = mk(n+1, parentHash, &felt.Zero, &felt.Zero)
		vx.Cover("wrong-number")
	case 1:
		vx.Assume(!bad.Equal(parentHash))
		blk, su = mk(n, bad, &felt.Zero, &felt.Zero)
		vx.Cover("foreign-parent")
	case 2:
		blk, su = mk(n, parentHash, bad, &felt.Zero)
		vx.Cover("wrong-old-root")
	case 3:
		blk, su = mk(n, parentHash, &felt.Zero, bad)
		vx.Cover("wrong-new-root")
	}
	before := vxImage(mem)
	err := backend.Store(blk, &core.BlockCommitments{}, su, nil)
	vx.Assert(err != nil, "block-that-does-not-verify-is-refused")
	vx.Assert(vxSameImage(before, vxImage(mem)), "refused-block-leaves-the-database-untouched")
	next, nerr := rf.NextBlock()
	vx.Assert(nerr == nil && next == n, "refused-block-leaves-the-event-index-untouched")
	h, herr := core.GetChainHeight(mem)
	vx.Assert(herr == nil && h == n-1, "head-unchanged")
	// the genuine block is accepted afterwards
	good, gsu := mk(n, parentHash, &felt.Zero, &felt.Zero)
	if n%w == w-1 {
		vx.Cover("last-block-of-a-window")
	}
	vx.Assert(backend.Store(good, &core.BlockCommitments{}, gsu, nil) == nil, "genuine-block-stored-after-the-refusal")
	next, nerr = rf.NextBlock()
	vx.Assert(nerr == nil && next == n+1, "event-index-follows-the-stored-block")
}
