//vx:pkg core
package core

import (
	"github.com/NethermindEth/juno/core/crypto"
	"github.com/NethermindEth/juno/core/felt"
	"github.com/NethermindEth/juno/zzverif/vx"
)

// C02-H3: what a block hash commits to about execution goes through the per-receipt hash and the
// per-event hash. Two independent symbolic receipts / events are hashed by the real functions;
// under ideal hashes (collision-free, never zero) "hashes equal and a committed field differs"
// must be unsatisfiable. Committed fields of a receipt: transaction hash, actual fee, every
// L2->L1 message (sender, recipient, payload and their count), the execution status (reverted or
// not, and the revert reason when reverted), L1 gas and L1 data gas consumed.

func vxReceipt(tag string) *TransactionReceipt {
	r := &TransactionReceipt{
		TransactionHash: vxFelt(tag + "txhash"),
		Fee:             vxFelt(tag + "fee"),
		Reverted:        vx.Bool(tag + "reverted"),
	}
	if r.Reverted {
		r.RevertReason = vx.String(tag+"reason", vx.Choice(tag+"reason.len", 2))
	}
	switch vx.Choice(tag+"resources", 3) {
	case 1:
		r.ExecutionResources = &ExecutionResources{}
	case 2:
		r.ExecutionResources = &ExecutionResources{TotalGasConsumed: &GasConsumed{
			L1Gas: vx.U64(tag + "l1gas"), L1DataGas: vx.U64(tag + "l1datagas"),
		}}
	}
	nm := vx.Choice(tag+"msgs", 2)
	for i := 0; i < nm; i++ {
		m := &L2ToL1Message{From: vxFelt(tag + "msg.from"), Payload: vxFelts(tag+"msg.payload", 1)}
		copy(m.To[:], vx.Bytes(tag+"msg.to", len(m.To)))
		r.L2ToL1Message = append(r.L2ToL1Message, m)
	}
	return r
}

func vxGas(r *TransactionReceipt) (l1, l1data uint64) {
	if r.ExecutionResources != nil && r.ExecutionResources.TotalGasConsumed != nil {
		return r.ExecutionResources.TotalGasConsumed.L1Gas, r.ExecutionResources.TotalGasConsumed.L1DataGas
	}
	return 0, 0
}

func VxC02ReceiptHash() {
	vx.Bound("two arbitrary receipts: tx hash, fee, reverted flag, revert reason of 0..1 bytes, gas consumed absent | present (64-bit), 0..1 L2->L1 messages with 0..1 payload elements")
	a, b := vxReceipt("a."), vxReceipt("b.")
	h1, h2 := a.hash(), b.hash()
	vx.CollisionFree()
	if !h1.Equal(&h2) {
		return
	}
	vx.Cover("hashes-equal")
	vx.Assert(a.TransactionHash.Equal(b.TransactionHash), "transaction-hash-committed")
	vx.Assert(a.Fee.Equal(b.Fee), "fee-committed")
	vx.Assert(a.Reverted == b.Reverted, "execution-status-committed")
	if a.Reverted && b.Reverted {
		vx.Assert(a.RevertReason == b.RevertReason, "revert-reason-committed")
	}
	al1, ald := vxGas(a)
	bl1, bld := vxGas(b)
	vx.Assert(al1 == bl1 && ald == bld, "gas-consumed-committed")
	vx.Assert(len(a.L2ToL1Message) == len(b.L2ToL1Message), "message-count-committed")
	for i := range a.L2ToL1Message {
		if i >= len(b.L2ToL1Message) {
			break
		}
		x, y := a.L2ToL1Message[i], b.L2ToL1Message[i]
		vx.Assert(x.From.Equal(y.From) && x.To == y.To && vxSameFelts(x.Payload, y.Payload), "message-committed")
	}
}

// The event leaf hash of the >= 0.13.2 commitment (event emitter, transaction hash, keys, data),
// obtained by handing the real commitment code a trie that records the single leaf it is given.
func vxEventLeaf(e *Event, txHash *felt.Felt) felt.Felt {
	var got felt.Felt
	run := func(height uint8, do func(Trie) error) error { return do(vxCaptureTrie{&got}) }
	_, _ = eventCommitmentPoseidon(
		[]*TransactionReceipt{{TransactionHash: txHash, Events: []*Event{e}}},
		TempTrieBackend{RunOnTempTriePedersen: run, RunOnTempTriePoseidon: run},
	)
	return got
}

type vxCaptureTrie struct{ leaf *felt.Felt }

func (t vxCaptureTrie) Update(key, value *felt.Felt) error    { *t.leaf = *value; return nil }
func (t vxCaptureTrie) Get(key *felt.Felt) (felt.Felt, error) { return *t.leaf, nil }
func (t vxCaptureTrie) Hash() (felt.Felt, error)              { return *t.leaf, nil }
func (t vxCaptureTrie) HashFn() crypto.HashFn                 { return nil }

func VxC02EventLeafHash() {
	vx.Bound("two arbitrary events with 0..1 keys and 0..1 data elements, emitted by two arbitrary transactions; Poseidon (>= 0.13.2) leaf")
	mk := func(tag string) (*Event, *felt.Felt) {
		return &Event{From: vxFelt(tag + "from"), Keys: vxFelts(tag+"keys", 1), Data: vxFelts(tag+"data", 1)}, vxFelt(tag + "tx")
	}
	ea, ta := mk("a.")
	eb, tb := mk("b.")
	h1, h2 := vxEventLeaf(ea, ta), vxEventLeaf(eb, tb)
	vx.CollisionFree()
	if !h1.Equal(&h2) {
		return
	}
	vx.Cover("hashes-equal")
	vx.Assert(ea.From.Equal(eb.From), "emitter-committed")
	vx.Assert(ta.Equal(tb), "transaction-hash-committed")
	vx.Assert(vxSameFelts(ea.Keys, eb.Keys), "keys-committed")
	vx.Assert(vxSameFelts(ea.Data, eb.Data), "data-committed")
}

// The transaction leaf of the transaction commitment (hash and signature) for the three arms:
// Pedersen (< 0.13.2, version >= 0.11.1), Poseidon 0.13.2 and Poseidon 0.13.4. Known protocol
// identifications are part of the oracle: in 0.13.2 an empty signature is hashed as [0] (so it is
// indistinguishable from the one-element signature [0]); 0.13.4 hashes it as [].
func vxTxLeaf(arm int, tx Transaction) felt.Felt {
	var got felt.Felt
	run := func(height uint8, do func(Trie) error) error { return do(vxCaptureTrie{&got}) }
	backend := TempTrieBackend{RunOnTempTriePedersen: run, RunOnTempTriePoseidon: run}
	switch arm {
	case 0:
		_, _ = transactionCommitmentPedersen([]Transaction{tx}, "0.12.3", backend)
	case 1:
		_, _ = transactionCommitmentPoseidon0132([]Transaction{tx}, backend)
	default:
		_, _ = transactionCommitmentPoseidon0134([]Transaction{tx}, backend)
	}
	return got
}

func VxC02TransactionLeafHash() {
	vx.Bound("two invoke transactions with arbitrary hashes and signatures of 0..2 arbitrary elements; commitment arms Pedersen (0.12.3), Poseidon 0.13.2, Poseidon 0.13.4")
	arm := vx.Choice("arm", 3)
	mk := func(tag string) *InvokeTransaction {
		return &InvokeTransaction{TransactionHash: vxFelt(tag + "hash"), TransactionSignature: vxFelts(tag+"sig", 2)}
	}
	a, b := mk("a."), mk("b.")
	h1, h2 := vxTxLeaf(arm, a), vxTxLeaf(arm, b)
	vx.CollisionFree()
	if !h1.Equal(&h2) {
		return
	}
	vx.Cover("hashes-equal")
	vx.Assert(a.TransactionHash.Equal(b.TransactionHash), "transaction-hash-committed")
	sa, sb := a.TransactionSignature, b.TransactionSignature
	if arm == 1 {
		// 0.13.2: [] is hashed as [0]
		if len(sa) == 0 {
			sa = []felt.Felt{felt.Zero}
		}
		if len(sb) == 0 {
			sb = []felt.Felt{felt.Zero}
		}
	}
	vx.Assert(vxSameFelts(sa, sb), "signature-committed")
}
