//vx:pkg core
package core

import (
	"github.com/NethermindEth/juno/blockchain/networks"
	"github.com/NethermindEth/juno/core/felt"
	"github.com/NethermindEth/juno/zzverif/vx"
)

// C02-H1: every committed header field participates in the block hash.
// Oracle: injectivity under collision-free hashes. The hash is computed for two independent
// symbolic blocks; "hashes equal and some committed field differs" must be unsatisfiable.
// The committed-field tables are DESIGN.md appendix A (from the Starknet block-hash spec).
// Bound of this file: blocks without transactions/receipts (commitments of empty lists), empty
// state diff; every header field symbolic at full width; counts < 2^32.

func vxFelt(name string) *felt.Felt {
	b := vx.FeltBytes(name)
	return new(felt.Felt).SetBytes(b[:])
}

func vxHeader(tag, version string) *Block {
	h := &Header{
		ParentHash:       vxFelt(tag + "parent"),
		Number:           vx.U64(tag + "number"),
		GlobalStateRoot:  vxFelt(tag + "root"),
		SequencerAddress: vxFelt(tag + "seq"),
		TransactionCount: vx.U64(tag + "txcount"),
		EventCount:       vx.U64(tag + "evcount"),
		Timestamp:        vx.U64(tag + "time"),
		ProtocolVersion:  version,
		L1GasPriceETH:    vxFelt(tag + "l1wei"),
		L1GasPriceSTRK:   vxFelt(tag + "l1fri"),
		L1DAMode:         L1DAMode(vx.U8(tag+"da") & 1),
		L1DataGasPrice:   &GasPrice{PriceInWei: vxFelt(tag + "datawei"), PriceInFri: vxFelt(tag + "datafri")},
		L2GasPrice:       &GasPrice{PriceInWei: vxFelt(tag + "l2wei"), PriceInFri: vxFelt(tag + "l2fri")},
	}
	vx.Assume(h.TransactionCount < 1<<32 && h.EventCount < 1<<32)
	return &Block{Header: h}
}

func vxVersionString(tag string) string {
	// an ASCII version string of 6 bytes; never starts with NUL (else SetBytes would identify
	// "\x00x" with "x": protocol-level identification, version strings are printable)
	s := vx.String(tag+"version", 6)
	vx.Assume(s[0] != 0)
	return s
}

func vxSameCommon(a, b *Block) {
	vx.Assert(a.Number == b.Number, "number-committed")
	vx.Assert(a.ParentHash.Equal(b.ParentHash), "parent-hash-committed")
	vx.Assert(a.GlobalStateRoot.Equal(b.GlobalStateRoot), "global-root-committed")
	vx.Assert(a.TransactionCount == b.TransactionCount, "tx-count-committed")
}

func VxC02BlockHashPost0134() {
	vx.Bound("two arbitrary headers, protocol >= 0.13.4; no transactions; empty state diff; counts < 2^32; version string 6 bytes")
	a, b := vxHeader("a.", vxVersionString("a.")), vxHeader("b.", vxVersionString("b."))
	sd := EmptyStateDiff()
	h1, _, e1 := post0134Hash(a, &sd, TrieBackend)
	h2, _, e2 := post0134Hash(b, &sd, TrieBackend)
	vx.Assert(e1 == nil && e2 == nil, "hash-computes")
	vx.CollisionFree()
	if !h1.Equal(&h2) {
		vx.Cover("hashes-differ")
		return
	}
	vx.Cover("hashes-equal")
	vxSameCommon(a, b)
	vx.Assert(a.SequencerAddress.Equal(b.SequencerAddress), "sequencer-committed")
	vx.Assert(a.Timestamp == b.Timestamp, "timestamp-committed")
	vx.Assert(a.EventCount == b.EventCount, "event-count-committed")
	vx.Assert(a.L1DAMode == b.L1DAMode, "da-mode-committed")
	vx.Assert(a.ProtocolVersion == b.ProtocolVersion, "version-committed")
	vx.Assert(a.L1GasPriceETH.Equal(b.L1GasPriceETH) && a.L1GasPriceSTRK.Equal(b.L1GasPriceSTRK), "l1-gas-prices-committed")
	vx.Assert(a.L1DataGasPrice.PriceInWei.Equal(b.L1DataGasPrice.PriceInWei) &&
		a.L1DataGasPrice.PriceInFri.Equal(b.L1DataGasPrice.PriceInFri), "l1-data-gas-prices-committed")
	vx.Assert(a.L2GasPrice.PriceInWei.Equal(b.L2GasPrice.PriceInWei) &&
		a.L2GasPrice.PriceInFri.Equal(b.L2GasPrice.PriceInFri), "l2-gas-prices-committed")
}

func VxC02BlockHashPost0132() {
	vx.Bound("two arbitrary headers, 0.13.2 <= protocol < 0.13.4; no transactions; empty state diff; counts < 2^32")
	a, b := vxHeader("a.", vxVersionString("a.")), vxHeader("b.", vxVersionString("b."))
	sd := EmptyStateDiff()
	h1, _, e1 := Post0132Hash(a, &sd, TrieBackend)
	h2, _, e2 := Post0132Hash(b, &sd, TrieBackend)
	vx.Assert(e1 == nil && e2 == nil, "hash-computes")
	vx.CollisionFree()
	if !h1.Equal(&h2) {
		return
	}
	vx.Cover("hashes-equal")
	vxSameCommon(a, b)
	vx.Assert(a.SequencerAddress.Equal(b.SequencerAddress), "sequencer-committed")
	vx.Assert(a.Timestamp == b.Timestamp, "timestamp-committed")
	vx.Assert(a.EventCount == b.EventCount, "event-count-committed")
	vx.Assert(a.L1DAMode == b.L1DAMode, "da-mode-committed")
	vx.Assert(a.ProtocolVersion == b.ProtocolVersion, "version-committed")
	vx.Assert(a.L1GasPriceETH.Equal(b.L1GasPriceETH) && a.L1GasPriceSTRK.Equal(b.L1GasPriceSTRK), "l1-gas-prices-committed")
	vx.Assert(a.L1DataGasPrice.PriceInWei.Equal(b.L1DataGasPrice.PriceInWei) &&
		a.L1DataGasPrice.PriceInFri.Equal(b.L1DataGasPrice.PriceInFri), "l1-data-gas-prices-committed")
}

func VxC02BlockHashPost07() {
	vx.Bound("two arbitrary headers, protocol < 0.13.2 after the first 0.7 block; no transactions")
	a, b := vxHeader("a.", "0.12.0"), vxHeader("b.", "0.12.0")
	h1, _, e1 := post07Hash(a, nil, nil, TrieBackend)
	h2, _, e2 := post07Hash(b, nil, nil, TrieBackend)
	vx.Assert(e1 == nil && e2 == nil, "hash-computes")
	vx.CollisionFree()
	if !h1.Equal(&h2) {
		return
	}
	vx.Cover("hashes-equal")
	vxSameCommon(a, b)
	vx.Assert(a.SequencerAddress.Equal(b.SequencerAddress), "sequencer-committed")
	vx.Assert(a.Timestamp == b.Timestamp, "timestamp-committed")
	vx.Assert(a.EventCount == b.EventCount, "event-count-committed")
}

func VxC02BlockHashPre07() {
	vx.Bound("two arbitrary headers before the first 0.7 block; no transactions; chain id symbolic")
	a, b := vxHeader("a.", ""), vxHeader("b.", "")
	c1, c2 := vxFelt("a.chain"), vxFelt("b.chain")
	h1, _, e1 := pre07Hash(a, nil, c1, TrieBackend)
	h2, _, e2 := pre07Hash(b, nil, c2, TrieBackend)
	vx.Assert(e1 == nil && e2 == nil, "hash-computes")
	vx.CollisionFree()
	if !h1.Equal(&h2) {
		return
	}
	vx.Cover("hashes-equal")
	vxSameCommon(a, b)
	vx.Assert(c1.Equal(c2), "chain-id-committed")
}

// The dispatcher picks the arm the version table says.
func VxC02BlockHashDispatch() {
	vx.Bound("versions {0.14.1,0.14.0,0.13.4,0.13.3,0.13.2,0.13.1,0.12.0,empty}; block number below/above First07Block")
	versions := []string{"0.14.1", "0.14.0", "0.13.4", "0.13.3", "0.13.2", "0.13.1", "0.12.0", ""}
	vi := vx.Choice("version", len(versions))
	b := vxHeader("a.", versions[vi])
	net := &networks.Mainnet
	sd := EmptyStateDiff()
	got, _, err := BlockHash(b, &sd, net, nil, TrieBackend)
	vx.Assert(err == nil, "dispatch-computes")
	var want felt.Felt
	switch {
	case vi <= 2:
		vx.Cover("arm-0134")
		want, _, _ = post0134Hash(b, &sd, TrieBackend)
	case vi <= 4:
		vx.Cover("arm-0132")
		want, _, _ = Post0132Hash(b, &sd, TrieBackend)
	case b.Number < net.BlockHashMetaInfo.First07Block:
		vx.Cover("arm-pre07")
		want, _, _ = pre07Hash(b, &sd, net.L2ChainIDFelt(), TrieBackend)
	default:
		vx.Cover("arm-post07")
		want, _, _ = post07Hash(b, &sd, nil, TrieBackend)
	}
	vx.Assert(got.Equal(&want), "dispatch-picks-version-arm")
}

// ConcatCounts packs (tx count, event count, state-diff length, DA mode) injectively.
func VxC02ConcatCounts() {
	vx.Bound("all four inputs symbolic; tx count < 2^59 (a larger value would exceed the field modulus)")
	t1, e1, s1 := vx.U64("t1"), vx.U64("e1"), vx.U64("s1")
	t2, e2, s2 := vx.U64("t2"), vx.U64("e2"), vx.U64("s2")
	m1, m2 := L1DAMode(vx.U8("m1")&1), L1DAMode(vx.U8("m2")&1)
	vx.Assume(t1 < 1<<59 && t2 < 1<<59)
	c1 := ConcatCounts(t1, e1, s1, m1)
	c2 := ConcatCounts(t2, e2, s2, m2)
	if c1.Equal(&c2) {
		vx.Assert(t1 == t2 && e1 == e2 && s1 == s2 && m1 == m2, "concat-counts-injective")
	}
}
