//vx:pkg core
package core

import (
	"github.com/NethermindEth/juno/blockchain/networks"
	"github.com/NethermindEth/juno/core/felt"
	"github.com/NethermindEth/juno/zzverif/vx"
)

// C02-H2: every committed field of a transaction participates in its hash (injectivity under
// collision-free hashes), per transaction type and version. Two independent symbolic transactions
// of the same type/version are hashed; "hashes equal and a committed field differs" must be
// unsatisfiable. Committed-field tables: DESIGN.md appendix A. Slices have symbolic length 0..1
// (thorough: 0..2) with symbolic elements; the chain id is a field too (two networks).

func vxFelts(name string, maxLen int) []felt.Felt {
	n := vx.Choice(name+".len", maxLen+1)
	out := make([]felt.Felt, n)
	for i := range out {
		out[i] = *vxFelt(name)
	}
	return out
}

func vxSameFelts(a, b []felt.Felt) bool {
	if len(a) != len(b) {
		return false
	}
	for i := range a {
		if !a[i].Equal(&b[i]) {
			return false
		}
	}
	return true
}

func vxVersion(v uint64) *TransactionVersion { return new(TransactionVersion).SetUint64(v) }

func vxMaxLen() int {
	if vx.Thorough() {
		return 2
	}
	return 1
}

func vxNet(tag string) *networks.Network {
	if vx.Choice(tag+"net", 2) == 0 {
		return &networks.Mainnet
	}
	return &networks.Sepolia
}

func vxBounds(tag string) map[Resource]ResourceBounds {
	mk := func(n string) ResourceBounds {
		p := vxFelt(tag + n + ".price")
		// prices are 128-bit quantities in the protocol
		pb := p.Bytes()
		for i := 0; i < 16; i++ {
			vx.Assume(pb[i] == 0)
		}
		return ResourceBounds{MaxAmount: vx.U64(tag + n + ".amount"), MaxPricePerUnit: p}
	}
	m := map[Resource]ResourceBounds{ResourceL1Gas: mk("l1"), ResourceL2Gas: mk("l2")}
	if vx.Choice(tag+"hasdata", 2) == 1 {
		m[ResourceL1DataGas] = mk("l1data")
	}
	return m
}

func vxSameBounds(a, b map[Resource]ResourceBounds) bool {
	for _, r := range []Resource{ResourceL1Gas, ResourceL2Gas, ResourceL1DataGas} {
		x, okx := a[r]
		y, oky := b[r]
		if okx != oky {
			return false
		}
		if okx && (x.MaxAmount != y.MaxAmount || !x.MaxPricePerUnit.Equal(y.MaxPricePerUnit)) {
			return false
		}
	}
	return true
}

func vxInvoke(tag string, ver uint64) *InvokeTransaction {
	t := &InvokeTransaction{
		Version:         vxVersion(ver),
		CallData:        vxFelts(tag+"calldata", vxMaxLen()),
		MaxFee:          vxFelt(tag + "maxfee"),
		ContractAddress: vxFelt(tag + "contract"), EntryPointSelector: vxFelt(tag + "selector"),
		Nonce: vxFelt(tag + "nonce"), SenderAddress: vxFelt(tag + "sender"),
	}
	if ver == 3 {
		t.ResourceBounds = vxBounds(tag)
		t.Tip = vx.U64(tag + "tip")
		t.PaymasterData = vxFelts(tag+"paymaster", 1)
		t.AccountDeploymentData = vxFelts(tag+"acctdeploy", 1)
		t.NonceDAMode = DataAvailabilityMode(vx.U8(tag+"nonceda") & 1)
		t.FeeDAMode = DataAvailabilityMode(vx.U8(tag+"feeda") & 1)
		t.ProofFacts = vxFelts(tag+"proof", 1)
	}
	return t
}

func VxC02InvokeHash() {
	vx.Bound("invoke v0 / v1 / v3: two arbitrary transactions, calldata 0..1 (thorough 0..2) elements, other lists 0..1, resource prices < 2^128, both DA modes, two networks")
	ver := []uint64{0, 1, 3}[vx.Choice("version", 3)]
	a, b := vxInvoke("a.", ver), vxInvoke("b.", ver)
	na, nb := vxNet("a."), vxNet("b.")
	h1, e1 := TransactionHash(a, na)
	h2, e2 := TransactionHash(b, nb)
	vx.Assert(e1 == nil && e2 == nil, "hash-computes")
	vx.CollisionFree()
	if !h1.Equal(&h2) {
		return
	}
	vx.Cover("hashes-equal")
	vx.Assert(na.L2ChainID == nb.L2ChainID, "chain-id-committed")
	vx.Assert(vxSameFelts(a.CallData, b.CallData), "calldata-committed")
	switch ver {
	case 0:
		vx.Assert(a.ContractAddress.Equal(b.ContractAddress) && a.EntryPointSelector.Equal(b.EntryPointSelector), "v0-contract-and-selector-committed")
		vx.Assert(a.MaxFee.Equal(b.MaxFee), "max-fee-committed")
	case 1:
		vx.Assert(a.SenderAddress.Equal(b.SenderAddress) && a.Nonce.Equal(b.Nonce), "v1-sender-and-nonce-committed")
		vx.Assert(a.MaxFee.Equal(b.MaxFee), "max-fee-committed")
	case 3:
		vx.Assert(a.SenderAddress.Equal(b.SenderAddress) && a.Nonce.Equal(b.Nonce), "v3-sender-and-nonce-committed")
		vx.Assert(a.Tip == b.Tip, "v3-tip-committed")
		vx.Assert(vxSameBounds(a.ResourceBounds, b.ResourceBounds), "v3-resource-bounds-committed")
		vx.Assert(vxSameFelts(a.PaymasterData, b.PaymasterData), "v3-paymaster-data-committed")
		vx.Assert(vxSameFelts(a.AccountDeploymentData, b.AccountDeploymentData), "v3-account-deployment-data-committed")
		vx.Assert(a.NonceDAMode == b.NonceDAMode && a.FeeDAMode == b.FeeDAMode, "v3-da-modes-committed")
		vx.Assert(vxSameFelts(a.ProofFacts, b.ProofFacts), "v3-proof-facts-committed")
	}
}

func vxDeclare(tag string, ver uint64) *DeclareTransaction {
	t := &DeclareTransaction{
		Version: vxVersion(ver), ClassHash: vxFelt(tag + "class"), SenderAddress: vxFelt(tag + "sender"),
		MaxFee: vxFelt(tag + "maxfee"), Nonce: vxFelt(tag + "nonce"), CompiledClassHash: vxFelt(tag + "casm"),
	}
	if ver == 3 {
		t.ResourceBounds = vxBounds(tag)
		t.Tip = vx.U64(tag + "tip")
		t.PaymasterData = vxFelts(tag+"paymaster", 1)
		t.AccountDeploymentData = vxFelts(tag+"acctdeploy", 1)
		t.NonceDAMode = DataAvailabilityMode(vx.U8(tag+"nonceda") & 1)
		t.FeeDAMode = DataAvailabilityMode(vx.U8(tag+"feeda") & 1)
	}
	return t
}

func VxC02DeclareHash() {
	vx.Bound("declare v0 (no stored hash) / v1 / v2 / v3: two arbitrary transactions, lists 0..1, two networks")
	ver := []uint64{0, 1, 2, 3}[vx.Choice("version", 4)]
	a, b := vxDeclare("a.", ver), vxDeclare("b.", ver)
	na, nb := vxNet("a."), vxNet("b.")
	h1, e1 := TransactionHash(a, na)
	h2, e2 := TransactionHash(b, nb)
	vx.Assert(e1 == nil && e2 == nil, "hash-computes")
	vx.CollisionFree()
	if !h1.Equal(&h2) {
		return
	}
	vx.Cover("hashes-equal")
	vx.Assert(na.L2ChainID == nb.L2ChainID, "chain-id-committed")
	vx.Assert(a.SenderAddress.Equal(b.SenderAddress) && a.ClassHash.Equal(b.ClassHash), "sender-and-class-committed")
	if ver <= 2 {
		vx.Assert(a.MaxFee.Equal(b.MaxFee), "max-fee-committed")
	}
	if ver >= 1 {
		vx.Assert(a.Nonce.Equal(b.Nonce), "nonce-committed")
	}
	if ver >= 2 {
		vx.Assert(a.CompiledClassHash.Equal(b.CompiledClassHash), "compiled-class-hash-committed")
	}
	if ver == 3 {
		vx.Assert(a.Tip == b.Tip && vxSameBounds(a.ResourceBounds, b.ResourceBounds), "v3-tip-and-bounds-committed")
		vx.Assert(vxSameFelts(a.PaymasterData, b.PaymasterData) && vxSameFelts(a.AccountDeploymentData, b.AccountDeploymentData), "v3-data-lists-committed")
		vx.Assert(a.NonceDAMode == b.NonceDAMode && a.FeeDAMode == b.FeeDAMode, "v3-da-modes-committed")
	}
}

func vxDeployAccount(tag string, ver uint64) *DeployAccountTransaction {
	t := &DeployAccountTransaction{
		DeployTransaction: DeployTransaction{
			Version: vxVersion(ver), ContractAddressSalt: vxFelt(tag + "salt"), ContractAddress: vxFelt(tag + "contract"),
			ClassHash: vxFelt(tag + "class"), ConstructorCallData: vxFelts(tag+"ctor", vxMaxLen()),
		},
		MaxFee: vxFelt(tag + "maxfee"), Nonce: vxFelt(tag + "nonce"),
	}
	if ver == 3 {
		t.ResourceBounds = vxBounds(tag)
		t.Tip = vx.U64(tag + "tip")
		t.PaymasterData = vxFelts(tag+"paymaster", 1)
		t.NonceDAMode = DataAvailabilityMode(vx.U8(tag+"nonceda") & 1)
		t.FeeDAMode = DataAvailabilityMode(vx.U8(tag+"feeda") & 1)
	}
	return t
}

func VxC02DeployAccountHash() {
	vx.Bound("deploy-account v1 / v3: two arbitrary transactions, constructor calldata 0..1 (thorough 0..2), two networks")
	ver := []uint64{1, 3}[vx.Choice("version", 2)]
	a, b := vxDeployAccount("a.", ver), vxDeployAccount("b.", ver)
	na, nb := vxNet("a."), vxNet("b.")
	h1, e1 := TransactionHash(a, na)
	h2, e2 := TransactionHash(b, nb)
	vx.Assert(e1 == nil && e2 == nil, "hash-computes")
	vx.CollisionFree()
	if !h1.Equal(&h2) {
		return
	}
	vx.Cover("hashes-equal")
	vx.Assert(na.L2ChainID == nb.L2ChainID, "chain-id-committed")
	vx.Assert(a.ContractAddress.Equal(b.ContractAddress) && a.ClassHash.Equal(b.ClassHash) &&
		a.ContractAddressSalt.Equal(b.ContractAddressSalt), "address-class-salt-committed")
	vx.Assert(vxSameFelts(a.ConstructorCallData, b.ConstructorCallData), "constructor-calldata-committed")
	vx.Assert(a.Nonce.Equal(b.Nonce), "nonce-committed")
	if ver == 1 {
		vx.Assert(a.MaxFee.Equal(b.MaxFee), "max-fee-committed")
	} else {
		vx.Assert(a.Tip == b.Tip && vxSameBounds(a.ResourceBounds, b.ResourceBounds), "v3-tip-and-bounds-committed")
		vx.Assert(vxSameFelts(a.PaymasterData, b.PaymasterData), "v3-paymaster-data-committed")
		vx.Assert(a.NonceDAMode == b.NonceDAMode && a.FeeDAMode == b.FeeDAMode, "v3-da-modes-committed")
	}
}

func VxC02L1HandlerHash() {
	vx.Bound("l1-handler v0 with nonce: two arbitrary transactions, calldata 0..1 (thorough 0..2), two networks")
	mk := func(tag string) *L1HandlerTransaction {
		return &L1HandlerTransaction{Version: vxVersion(0), ContractAddress: vxFelt(tag + "contract"),
			EntryPointSelector: vxFelt(tag + "selector"), Nonce: vxFelt(tag + "nonce"), CallData: vxFelts(tag+"calldata", vxMaxLen())}
	}
	a, b := mk("a."), mk("b.")
	na, nb := vxNet("a."), vxNet("b.")
	h1, e1 := TransactionHash(a, na)
	h2, e2 := TransactionHash(b, nb)
	vx.Assert(e1 == nil && e2 == nil, "hash-computes")
	vx.CollisionFree()
	if !h1.Equal(&h2) {
		return
	}
	vx.Cover("hashes-equal")
	vx.Assert(na.L2ChainID == nb.L2ChainID, "chain-id-committed")
	vx.Assert(a.ContractAddress.Equal(b.ContractAddress) && a.EntryPointSelector.Equal(b.EntryPointSelector), "contract-and-selector-committed")
	vx.Assert(a.Nonce.Equal(b.Nonce) && vxSameFelts(a.CallData, b.CallData), "nonce-and-calldata-committed")
}

// ResourceBounds.Bytes packs (resource name, amount, price < 2^128) injectively.
func VxC02ResourceBoundsPacking() {
	vx.Bound("two arbitrary bounds for each resource kind; price < 2^128")
	r := []Resource{ResourceL1Gas, ResourceL2Gas, ResourceL1DataGas}[vx.Choice("resource", 3)]
	mk := func(tag string) ResourceBounds {
		p := vxFelt(tag + "price")
		pb := p.Bytes()
		for i := 0; i < 16; i++ {
			vx.Assume(pb[i] == 0)
		}
		return ResourceBounds{MaxAmount: vx.U64(tag + "amount"), MaxPricePerUnit: p}
	}
	a, b := mk("a."), mk("b.")
	fa := felt.FromBytes[felt.Felt](a.Bytes(r))
	fb := felt.FromBytes[felt.Felt](b.Bytes(r))
	if fa.Equal(&fb) {
		vx.Assert(a.MaxAmount == b.MaxAmount && a.MaxPricePerUnit.Equal(b.MaxPricePerUnit), "bounds-packing-injective")
	}
}
