//vx:pkg core
package core

import (
	"github.com/NethermindEth/juno/blockchain/networks"
	"github.com/NethermindEth/juno/core/felt"
	"github.com/NethermindEth/juno/zzverif/vx"
)

// C02-H4: the verification gate. VerifyBlockHash accepts a block exactly when
//   - it carries as many receipts as transactions and every receipt names its transaction, and
//   - the hash in its header is the hash recomputed from its content (with the network's fallback
//     sequencer address standing in for a missing one), or the block lies in the network's
//     declared unverifiable range.
// Header fields, the claimed hash and the block number are symbolic; blocks are empty (the
// per-transaction verification is the subject of the tx-hash harnesses) or carry one
// transaction/receipt pair whose hashes may disagree.
func VxC02VerifyBlockHashGate() {
	vx.Bound("empty block (or one transaction whose receipt names a different hash) on Mainnet | Sepolia-integration (unverifiable range [0,110511]); protocol version 0.12.3 | 0.13.2 | 0.13.4; every header field, the claimed hash and the block number symbolic; sequencer address present or (0.12.3) missing")
	nets := []*networks.Network{&networks.Mainnet, &networks.Integration}
	net := nets[vx.Choice("network", len(nets))]
	ver := []string{"0.12.3", "0.13.2", "0.13.4"}[vx.Choice("version", 3)]
	b := vxHeader("b.", ver)
	// only headers older than 0.13.2 can lack the sequencer address (the later hash arms read it
	// unconditionally; a >= 0.13.2 header without one is not a header the feeder produces)
	if ver == "0.12.3" && vx.Bool("noSequencer") {
		b.SequencerAddress = nil
		vx.Cover("sequencer-address-missing")
	}
	b.Hash = vxFelt("claimedHash")
	b.TransactionCount, b.EventCount = 0, 0
	sd := EmptyStateDiff()
	if vx.Bool("mismatchedReceipt") {
		th, rh := vxFelt("txh"), vxFelt("rch")
		vx.Assume(!th.Equal(rh))
		b.Transactions = []Transaction{&InvokeTransaction{TransactionHash: th, Version: new(TransactionVersion).SetUint64(1)}}
		b.Receipts = []*TransactionReceipt{{TransactionHash: rh}}
		_, err := VerifyBlockHash(b, net, &sd, TrieBackend)
		vx.Assert(err != nil, "receipt-naming-another-transaction-is-refused")
		return
	}
	vx.CollisionFree()
	_, err := VerifyBlockHash(b, net, &sd, TrieBackend)
	unverifiable := net.BlockHashMetaInfo.UnverifiableRange != nil &&
		b.Number >= net.BlockHashMetaInfo.UnverifiableRange[0] && b.Number <= net.BlockHashMetaInfo.UnverifiableRange[1]
	matches := false
	overrides := []*felt.Felt{nil}
	if b.SequencerAddress == nil {
		overrides = []*felt.Felt{&felt.Zero, net.BlockHashMetaInfo.FallBackSequencerAddress}
	}
	for _, o := range overrides {
		h, _, herr := BlockHash(b, &sd, net, o, TrieBackend)
		if herr == nil && h.Equal(b.Hash) {
			matches = true
		}
	}
	if err == nil {
		vx.Cover("accepted")
		vx.Assert(matches || unverifiable, "accepted-only-if-the-hash-is-the-recomputed-hash")
	} else {
		vx.Cover("refused")
		vx.Assert(!matches && !unverifiable, "refused-only-if-the-hash-differs")
	}
	if unverifiable {
		vx.Cover("unverifiable-range")
	}
}
