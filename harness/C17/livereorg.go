//vx:pkg l1
//vx:noreplay
//vx:include l1head.go
//vx:include subscription.go
package l1

import (
	"context"
	"time"

	"github.com/NethermindEth/juno/zzverif/vx"
)

// C17-H6 (engine only): an Ethereum reorg seen on the live subscription, through the real receive loop
// (watchL1StateUpdates / receiveL1StateUpdates / applyStateUpdate / setL1Head on the scheduler, logical time).
// One subscription delivers a history of 2..4 events over Ethereum heights 5..7: a commit at a height above
// every commit still standing, or the removal notice of a height, which withdraws every delivered commit at or
// above it - so a replacement commit may arrive at a LOWER Ethereum height than the commit it replaces. Then a
// finalised height from {4..8} is polled once. The head recorded must be the Starknet block of the highest
// delivered commit that was not removed and is at or below the finalised height, none if there is none.
func VxC17LiveReorgThroughTheReceiveLoop() {
	vx.Bound("one subscription delivering 2..4 events over Ethereum heights 5..7 (commit above every standing commit | removal of a height with a standing commit at or above it); finalised height 4..8, one poll; timers on logical time")
	e := vxNewEnv(1000)
	type standing struct{ l1, l2 uint64 }
	var alive []standing
	var events []*StateUpdate
	n := 2 + vx.Choice("events", 3)
	removals := 0
	for i := 0; i < n; i++ {
		h := 5 + uint64(vx.Choice("l1", 3))
		top := uint64(0)
		for _, a := range alive {
			if a.l1 > top {
				top = a.l1
			}
		}
		if vx.Choice("removal", 2) == 1 {
			vx.Assume(top >= h) // the notice withdraws something that was delivered
			var keep []standing
			for _, a := range alive {
				if a.l1 < h {
					keep = append(keep, a)
				}
			}
			alive = keep
			events = append(events, &StateUpdate{L1RefHeight: h, Removed: true})
			removals++
		} else {
			vx.Assume(h > top) // logs arrive in Ethereum order
			l2 := uint64(i + 1)
			alive = append(alive, standing{h, l2})
			events = append(events, &StateUpdate{L2BlockNumber: l2, L1RefHeight: h})
			if removals > 0 {
				vx.Cover("commit-delivered-after-a-removal")
			}
		}
	}
	fin := 4 + uint64(vx.Choice("finalised", 5))
	wantHas, want, wantL1 := false, uint64(0), uint64(0)
	for _, a := range alive {
		if a.l1 <= fin && (!wantHas || a.l1 > wantL1) {
			wantHas, want, wantL1 = true, a.l2, a.l1
		}
	}
	ctx, cancel := context.WithCancel(context.Background())
	live := &vxLiveProvider{
		vxProvider: e.p,
		scripts:    [][]*StateUpdate{events},
		failing:    []bool{false},
		stopAfter:  1,
		cancel:     cancel,
	}
	e.p.finalised = fin
	e.c.provider = live
	e.c.pollFinalisedInterval = 10 * time.Second
	e.c.resubscribeDelay = time.Second
	err := e.c.watchL1StateUpdates(ctx)
	cancel()
	vx.Assert(err == nil, "engine:watch-returns-cleanly")
	vx.Assert(live.polls == 1, "engine:polled-once")
	got, has := e.lastHead()
	if wantHas {
		vx.Cover("a-finalised-commit-survives")
	} else {
		vx.Cover("no-finalised-commit-survives")
	}
	vx.Assert(has == wantHas, "engine:head-recorded-iff-a-finalised-commit-survives")
	if has && wantHas {
		vx.Assert(got == want, "engine:head-is-the-highest-finalised-surviving-commit")
	}
}
