//vx:pkg l1
package l1

import (
	"context"
	"errors"
	"math/big"

	"github.com/NethermindEth/juno/blockchain"
	"github.com/NethermindEth/juno/blockchain/networks"
	"github.com/NethermindEth/juno/core"
	"github.com/NethermindEth/juno/db/memory"
	"github.com/NethermindEth/juno/utils/log"
	"github.com/NethermindEth/juno/zzverif/vx"
)

// ---- model L1 provider (interface implementation: plain Go, runs natively too) ----

type vxProvider struct {
	finalised uint64
	latest    uint64
	events    []*StateUpdate // what FilterStateUpdate can see
	filterErrAt int          // fail the k-th FilterStateUpdate call (-1: never)
	filterCalls int
	ranges    [][2]uint64
}

func (p *vxProvider) ChainID(context.Context) (*big.Int, error)        { return big.NewInt(1), nil }
func (p *vxProvider) FinalisedHeight(context.Context) (uint64, error)  { return p.finalised, nil }
func (p *vxProvider) LatestHeight(context.Context) (uint64, error)     { return p.latest, nil }
func (p *vxProvider) Close()                                           {}
func (p *vxProvider) WatchStateUpdate(context.Context, chan<- *StateUpdate) (Subscription, error) {
	return nil, errors.New("not used")
}
func (p *vxProvider) FilterStateUpdate(_ context.Context, from, to uint64) ([]*StateUpdate, error) {
	k := p.filterCalls
	p.filterCalls++
	p.ranges = append(p.ranges, [2]uint64{from, to})
	if k == p.filterErrAt {
		return nil, errors.New("eth_getLogs failed")
	}
	var out []*StateUpdate
	for _, e := range p.events {
		if e.L1RefHeight >= from && e.L1RefHeight <= to {
			out = append(out, e)
		}
	}
	return out, nil
}

// ---- recording of SetL1Head: engine = redirected method, native = real chain on the memory DB ----

var vxHeads []core.L1Head

func vxSetL1Head(_ *blockchain.Blockchain, h *core.L1Head) error {
	vxHeads = append(vxHeads, *h)
	return nil
}

func vxFinalisedHeight(c *Client, ctx context.Context) (uint64, bool) {
	h, err := c.provider.FinalisedHeight(ctx)
	return h, err == nil
}

type vxEnv struct {
	c     *Client
	p     *vxProvider
	chain *blockchain.Blockchain
	seen  int
}

func vxNewEnv(chunk uint64) *vxEnv {
	p := &vxProvider{filterErrAt: -1}
	e := &vxEnv{p: p}
	vxHeads = nil
	if vx.InEngine() {
		vx.Stub("(*github.com/NethermindEth/juno/blockchain.Blockchain).SetL1Head", vxSetL1Head)
		vx.Stub("(*github.com/NethermindEth/juno/l1.Client).finalisedHeight", vxFinalisedHeight)
		e.chain = new(blockchain.Blockchain)
	} else {
		e.chain = blockchain.New(memory.New(), &networks.Sepolia)
	}
	// the real constructor (whatever it initialises is initialised); the engine's stand-in chain has no
	// network, so that one field is set afterwards
	e.c = NewClient(p, e.chain, log.NewNopZapLogger(), WithCatchUpChunkSize(chunk))
	e.c.network = &networks.Sepolia
	return e
}

// lastHead returns the recorded L1 head (Starknet block number), if any.
func (e *vxEnv) lastHead() (uint64, bool) {
	if vx.InEngine() {
		if len(vxHeads) == 0 {
			return 0, false
		}
		return vxHeads[len(vxHeads)-1].BlockNumber, true
	}
	h, err := e.chain.L1Head()
	if err != nil {
		return 0, false
	}
	return h.BlockNumber, true
}

type vxEvent struct {
	l1, l2 uint64
	alive  bool
}

// C17-H1: bounded histories of live updates, removals and finalised polls.
// Assumptions (well-behaved L1 node): finalised height never decreases; live logs arrive in L1
// order above the finalised height; a later Starknet commit has a higher Starknet number; a
// removal at L1 height h invalidates every delivered log at height >= h.
func VxC17Histories() {
	steps := 3
	if vx.Thorough() {
		steps = 5
		vx.Bound("histories of <= 5 steps from {update, removal, finalised poll}; all heights 64-bit symbolic")
	} else {
		vx.Bound("histories of <= 3 steps from {update, removal, finalised poll}; all heights 64-bit symbolic")
	}
	vx.MapOrders(true)
	e := vxNewEnv(1000)
	var evs []vxEvent // ghost: every delivered, not removed, not yet finalised-and-consumed event
	var fin uint64    // last finalised height polled
	var specHead uint64
	specHas := false
	var specHeadL1 uint64
	for s := 0; s < steps; s++ {
		switch vx.Choice("op", 3) {
		case 0: // live update
			l1h, l2n := vx.U64("l1h"), vx.U64("l2n")
			vx.Assume(l1h > fin)
			for _, g := range evs {
				if g.alive {
					vx.Assume(l1h > g.l1 && l2n > g.l2)
				}
			}
			if specHas {
				vx.Assume(l1h > specHeadL1 && l2n > specHead)
			}
			e.c.applyStateUpdate(&StateUpdate{L2BlockNumber: l2n, L1RefHeight: l1h})
			evs = append(evs, vxEvent{l1h, l2n, true})
			vx.Cover("update")
		case 1: // removal (reorg) at height h
			h := vx.U64("rm")
			vx.Assume(h > fin)
			e.c.applyStateUpdate(&StateUpdate{L1RefHeight: h, Removed: true})
			for i := range evs {
				if evs[i].l1 >= h {
					evs[i].alive = false
				}
			}
			vx.Cover("removal")
		case 2: // finalised poll
			f := vx.U64("F")
			vx.Assume(f >= fin)
			fin = f
			e.p.finalised = f
			err := e.c.setL1Head(context.Background())
			vx.Assert(err == nil, "poll-no-error")
			// spec: highest alive delivered event at or below F
			for i := range evs {
				if evs[i].alive && evs[i].l1 <= f {
					if !specHas || evs[i].l1 >= specHeadL1 {
						specHas, specHead, specHeadL1 = true, evs[i].l2, evs[i].l1
					}
					evs[i].alive = false // finalised: consumed
				}
			}
			got, has := e.lastHead()
			vx.Assert(has == specHas, "head-recorded-iff-finalised-event-exists")
			if has {
				vx.Cover("head-set")
				vx.Assert(got == specHead, "head-is-highest-finalised-canonical-commit")
				vx.Assert(specHeadL1 <= f, "head-not-above-finalised")
			}
			// buffer holds only entries above F
			for k := range e.c.nonFinalisedLogs {
				vx.Assert(k > f, "buffer-only-above-finalised")
			}
			vx.Cover("poll")
		}
	}
}

// C17-H3: start-up catch-up scan. Chunks tile [0, latest] downwards without gap, overlap or
// underflow; the scan stops at the first chunk containing a finalised event or at 0; a filter
// error leaves the partial state usable.
//vx:solver cvc5-int
func VxC17CatchUp() {
	vx.Bound("latest < 2^62, finalised, chunk size symbolic 64-bit with chunk >= 1; <= 3 chunks scanned; <= 2 events at symbolic heights")
	vx.Unwind(8)
	chunk := vx.U64("chunk")
	vx.Assume(chunk >= 1)
	e := vxNewEnv(chunk)
	e.p.latest = vx.U64("latest")
	e.p.finalised = vx.U64("finalised")
	vx.Assume(e.p.finalised <= e.p.latest)
	vx.Assume(e.p.latest < 1<<62) // L1 block heights are far below 2^62 (latest = 2^64-1 would wrap to+1)
	ne := vx.Choice("nevents", 3)
	for i := 0; i < ne; i++ {
		h := vx.U64("evh")
		vx.Assume(h <= e.p.latest)
		e.p.events = append(e.p.events, &StateUpdate{L2BlockNumber: vx.U64("evl2"), L1RefHeight: h})
	}
	e.p.filterErrAt = vx.Choice("errAt", 4) - 1
	// keep the number of chunks small: whole range fits in 3 chunks
	vx.Assume(chunk > e.p.latest/3)
	err := e.c.catchUpL1HeadUpdates(context.Background())
	rs := e.p.ranges
	vx.Assert(len(rs) >= 1 && rs[0][1] == e.p.latest, "scan-starts-at-latest")
	for i, r := range rs {
		vx.Assert(r[0] <= r[1], "chunk-well-formed")
		vx.Assert(r[1]-r[0] < chunk, "chunk-at-most-chunk-size")
		if i > 0 {
			vx.Assert(rs[i-1][0] > 0 && r[1] == rs[i-1][0]-1, "chunks-adjacent-no-gap-no-overlap")
		}
	}
	last := rs[len(rs)-1]
	if err != nil {
		vx.Cover("filter-error")
		vx.Assert(e.p.filterErrAt == len(rs)-1, "error-only-from-failing-call")
		return
	}
	vx.Cover("scan-complete")
	// stop condition: a finalised event was seen in the scanned range, or genesis reached
	sawFinal := false
	for _, ev := range e.p.events {
		if ev.L1RefHeight >= last[0] && ev.L1RefHeight <= e.p.finalised {
			sawFinal = true
		}
	}
	vx.Assert(sawFinal || last[0] == 0, "stops-at-finalised-event-or-genesis")
	// and not earlier: no finalised event in the chunks before the last one
	for _, ev := range e.p.events {
		if len(rs) > 1 && ev.L1RefHeight >= rs[len(rs)-2][0] {
			vx.Assert(ev.L1RefHeight > e.p.finalised, "does-not-scan-past-first-finalised-chunk")
		}
	}
	// the head written is the highest finalised event
	got, has := e.lastHead()
	var bestL1, bestL2 uint64
	found := false
	for _, ev := range e.p.events {
		if ev.L1RefHeight <= e.p.finalised && ev.L1RefHeight >= last[0] {
			if !found || ev.L1RefHeight >= bestL1 {
				found, bestL1, bestL2 = true, ev.L1RefHeight, ev.L2BlockNumber
			}
		}
	}
	vx.Assert(has == found, "catchup-head-iff-finalised-event")
	if has && ne == 1 {
		vx.Assert(got == bestL2, "catchup-head-is-highest-finalised")
	}
}

// C17-H3: events delivered by the start-up catch-up scan are buffered exactly like live ones: when
// their Ethereum block is finalised later, the recorded L1 head is the LAST state commit of the
// highest finalised Ethereum block (several commits can share one Ethereum block; the provider
// returns them in log order).
func VxC17CatchUpThenFinalise() {
	vx.Bound("catch-up over one chunk; 1..3 state-commit events in log order at symbolic non-decreasing Ethereum heights (equal heights included) and symbolic Starknet block numbers; finalised height symbolic at scan time, then advanced to a symbolic later height; latest < 2^62")
	e := vxNewEnv(1 << 62)
	e.p.latest = vx.U64("latest")
	vx.Assume(e.p.latest < 1<<62)
	e.p.finalised = vx.U64("finalised")
	vx.Assume(e.p.finalised <= e.p.latest)
	ne := 1 + vx.Choice("nevents", 3)
	var prev uint64
	for i := 0; i < ne; i++ {
		h := vx.U64("evh")
		vx.Assume(h <= e.p.latest && h >= prev)
		prev = h
		e.p.events = append(e.p.events, &StateUpdate{L2BlockNumber: vx.U64("evl2"), L1RefHeight: h})
	}
	vx.Assert(e.c.catchUpL1HeadUpdates(context.Background()) == nil, "catch-up-ok")
	later := vx.U64("finalisedLater")
	vx.Assume(later >= e.p.finalised && later <= e.p.latest)
	e.p.finalised = later
	vx.Assert(e.c.setL1Head(context.Background()) == nil, "set-head-ok")
	// expected: the last event (log order) among those with the highest Ethereum height <= later
	found := false
	var bestL1, bestL2 uint64
	for _, ev := range e.p.events {
		if ev.L1RefHeight <= later && (!found || ev.L1RefHeight >= bestL1) {
			found, bestL1, bestL2 = true, ev.L1RefHeight, ev.L2BlockNumber
		}
	}
	got, has := e.lastHead()
	vx.Assert(has == found, "head-recorded-iff-finalised-event-exists")
	if has && found {
		vx.Assert(got == bestL2, "head-is-the-last-commit-of-the-highest-finalised-block")
	}
	if ne >= 2 && e.p.events[0].L1RefHeight == e.p.events[1].L1RefHeight {
		vx.Cover("several-commits-in-one-ethereum-block")
	}
}

// C17-H7: the catch-up scan followed by a live Ethereum reorg. The backward scan over SEVERAL chunks buffers the
// commits it finds newest chunk first and stops at the chunk holding a finalised one; the buffer it leaves behind
// is then driven by the live stream like any other. Two commits A (already finalised) and B (not yet) lie in
// different chunks; afterwards the live stream delivers a removal notice at a symbolic height (it withdraws B
// exactly when it is at or below B's height), optionally a replacement commit above everything still standing,
// and the finalised height advances to a symbolic later value. The recorded head must be the highest commit
// that was delivered, not removed, and is finalised - never the withdrawn B.
func VxC17CatchUpThenLiveReorg() {
	vx.Bound("chunk size 10, latest Ethereum height symbolic in 20..29 (three chunks); commit A at a symbolic height in the oldest chunks and finalised, commit B at a symbolic height above the finalised height; live: one removal notice at a symbolic height, optional replacement commit at a symbolic height above every standing commit; finalised height advanced to a symbolic later value")
	e := vxNewEnv(10)
	latest := vx.U64("latest")
	vx.Assume(latest >= 20 && latest <= 29)
	e.p.latest = latest
	hA, hB := vx.U64("A.l1"), vx.U64("B.l1")
	f0 := vx.U64("finalised")
	vx.Assume(hA <= f0 && f0 < hB && hB <= latest && hA < 10 && hB >= 10)
	e.p.finalised = f0
	e.p.events = []*StateUpdate{{L2BlockNumber: 25, L1RefHeight: hA}, {L2BlockNumber: 50, L1RefHeight: hB}}
	vx.Assert(e.c.catchUpL1HeadUpdates(context.Background()) == nil, "catch-up-ok")
	type standing struct{ l1, l2 uint64 }
	alive := []standing{{hA, 25}, {hB, 50}}
	// live stream
	hR := vx.U64("removal.l1")
	vx.Assume(hR > f0 && hR <= latest+5)
	e.c.applyStateUpdate(&StateUpdate{L1RefHeight: hR, Removed: true})
	var keep []standing
	for _, a := range alive {
		if a.l1 < hR {
			keep = append(keep, a)
		}
	}
	if len(keep) < len(alive) {
		vx.Cover("the-unfinalised-commit-found-by-the-scan-is-withdrawn")
	}
	alive = keep
	if vx.Choice("replacement", 2) == 1 {
		hC := vx.U64("C.l1")
		top := uint64(0)
		for _, a := range alive {
			if a.l1 > top {
				top = a.l1
			}
		}
		vx.Assume(hC > top && hC > f0 && hC <= latest+10)
		e.c.applyStateUpdate(&StateUpdate{L2BlockNumber: 60, L1RefHeight: hC})
		alive = append(alive, standing{hC, 60})
	}
	f1 := vx.U64("finalisedLater")
	vx.Assume(f1 >= f0 && f1 <= latest+20)
	e.p.finalised = f1
	vx.Assert(e.c.setL1Head(context.Background()) == nil, "set-head-ok")
	found := false
	var bestL1, bestL2 uint64
	for _, a := range alive {
		if a.l1 <= f1 && (!found || a.l1 > bestL1) {
			found, bestL1, bestL2 = true, a.l1, a.l2
		}
	}
	got, has := e.lastHead()
	vx.Assert(found, "commit-A-is-finalised") // by construction
	vx.Assert(has, "head-recorded")
	if has && found {
		vx.Assert(got == bestL2, "head-is-the-highest-surviving-finalised-commit")
	}
}
