//vx:pkg l1
//vx:noreplay
//vx:include l1head.go
package l1

import (
	"context"
	"errors"
	"time"

	"github.com/NethermindEth/juno/zzverif/vx"
)

// C17-H5 (engine only): the recorded head through subscription failures and resubscriptions. The real
// watchL1StateUpdates / receiveL1StateUpdates / subscribeToUpdates / setL1Head loop runs on the engine's
// scheduler with logical time (timers and the poll ticker fire only when the loop is idle) and with every
// ready case of each select explored (vx.SelectAny: Go picks among ready cases at random, so the error of a
// failed subscription may be handled while events it delivered are still queued). The model L1 node delivers
// 1..2 events (a commit; then a second commit or the removal of the first) split in an arbitrary way
// between a first subscription, which then fails, and the subscription that replaces it; then everything is
// finalised and polled once. The head recorded must be the highest delivered commit that was not removed -
// no event the node delivered is lost by the resubscription. Not replayed natively: the select choices
// of the Go runtime cannot be steered.

type vxSub struct {
	errc chan error
	p    *vxLiveProvider
}

func (s *vxSub) Err() <-chan error { return s.errc }
func (s *vxSub) Unsubscribe()      { s.p.unsubscribed++ }

type vxLiveProvider struct {
	*vxProvider
	scripts      [][]*StateUpdate // what subscription k forwards right after it is established
	failing      []bool           // whether subscription k fails afterwards
	subs         int
	polls        int
	stopAfter    int
	cancel       context.CancelFunc
	unsubscribed int
}

func (p *vxLiveProvider) WatchStateUpdate(_ context.Context, ch chan<- *StateUpdate) (Subscription, error) {
	k := p.subs
	p.subs++
	s := &vxSub{errc: make(chan error, 1), p: p}
	if k < len(p.scripts) {
		for _, e := range p.scripts[k] {
			ch <- e
		}
		if p.failing[k] {
			s.errc <- errors.New("subscription dropped")
		}
	}
	return s, nil
}

func (p *vxLiveProvider) FinalisedHeight(context.Context) (uint64, error) {
	p.polls++
	if p.polls >= p.stopAfter {
		p.cancel() // the node is stopped after this poll
	}
	return p.finalised, nil
}

func VxC17HeadThroughResubscription() {
	vx.Bound("1..2 delivered events (commit at L1 height 10; then a commit at 11 or the removal of height 10), split arbitrarily between a subscription that fails after delivering and its replacement; every ready select case explored; finalised height 20, one poll; timers on logical time")
	vx.SelectAny()
	e := vxNewEnv(1000)
	e1 := &StateUpdate{L2BlockNumber: 1, L1RefHeight: 10}
	events := []*StateUpdate{e1}
	wantHas, want := true, uint64(1)
	switch vx.Choice("second", 3) {
	case 1:
		events = append(events, &StateUpdate{L2BlockNumber: 2, L1RefHeight: 11})
		want = 2
		vx.Cover("two-commits")
	case 2:
		events = append(events, &StateUpdate{L1RefHeight: 10, Removed: true})
		wantHas = false
		vx.Cover("commit-then-removal")
	}
	cut := vx.Choice("delivered-by-first-subscription", len(events)+1)
	if cut > 0 {
		vx.Cover("events-queued-when-the-subscription-fails")
	}
	ctx, cancel := context.WithCancel(context.Background())
	live := &vxLiveProvider{
		vxProvider: e.p,
		scripts:    [][]*StateUpdate{events[:cut], events[cut:]},
		failing:    []bool{true, false},
		stopAfter:  1,
		cancel:     cancel,
	}
	e.p.finalised = 20
	e.c.provider = live
	e.c.pollFinalisedInterval = 10 * time.Second
	e.c.resubscribeDelay = time.Second
	err := e.c.watchL1StateUpdates(ctx)
	cancel()
	vx.Assert(err == nil, "engine:watch-returns-cleanly")
	vx.Assert(live.subs == 2, "engine:resubscribed-once")
	vx.Assert(live.polls == 1, "engine:polled-once")
	got, has := e.lastHead()
	vx.Assert(has == wantHas, "engine:head-recorded-iff-a-delivered-commit-survives")
	if has && wantHas {
		vx.Assert(got == want, "engine:head-is-the-highest-delivered-surviving-commit")
	}
}
