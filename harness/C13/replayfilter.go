//vx:pkg consensus/driver
//vx:include driver.go
package driver

import (
	"context"
	"iter"

	"github.com/NethermindEth/juno/consensus/tendermint"
	"github.com/NethermindEth/juno/consensus/types"
	"github.com/NethermindEth/juno/consensus/types/actions"
	"github.com/NethermindEth/juno/consensus/types/wal"
	"github.com/NethermindEth/juno/zzverif/vx"
)

// C13-H8: recovery hands the state machine EVERY logged input that is not older than the height it is at.
// The log may hold inputs of later heights - a proposal or vote of height h+1 from a faster peer, received and
// flushed while this validator was still in height h; the state machine buffers them and acts on them when it
// gets there. If recovery skipped them, the validator would behave differently after the crash (prevote nil
// on the propose timeout where it would have prevoted the proposal it had logged) and, after a second crash
// in h+1, contradict itself. Driver.replay runs against a model log of 1..4 entries (start markers, timeouts,
// prevotes) at symbolic heights in ascending order and a model state machine at a symbolic height that
// records what it is fed: exactly the entries at or above that height, in log order, nothing else.

type vxReplayLog struct {
	vxWAL
	entries []wal.Entry[vxV, vxH, vxA]
}

func (w vxReplayLog) LoadAllEntries() iter.Seq2[wal.Entry[vxV, vxH, vxA], error] {
	return func(yield func(wal.Entry[vxV, vxH, vxA], error) bool) {
		for _, e := range w.entries {
			if !yield(e, nil) {
				return
			}
		}
	}
}

type vxRecordingSM struct {
	tendermint.StateMachine[vxV, vxH, vxA]
	height types.Height
	fed    []wal.Entry[vxV, vxH, vxA]
}

func (m *vxRecordingSM) Height() types.Height { return m.height }
func (m *vxRecordingSM) ProcessWAL(e wal.Entry[vxV, vxH, vxA]) []actions.Action[vxV, vxH, vxA] {
	m.fed = append(m.fed, e)
	return nil
}

func VxC13ReplayFeedsEveryInputNotBelowTheHeight() {
	vx.Bound("log of 1..4 entries (start marker | propose timeout | prevote) at symbolic 64-bit heights in ascending order; state machine at a symbolic height that does not change during replay (no commit among the replayed inputs)")
	l := &vxLog{failSetAt: -1, failFlush: -1}
	d := vxNewDriver(l, true)
	n := 1 + vx.Choice("entries", 4)
	var entries []wal.Entry[vxV, vxH, vxA]
	var last types.Height
	for i := 0; i < n; i++ {
		h := types.Height(vx.U64("entry.height"))
		vx.Assume(h >= last)
		last = h
		switch vx.Choice("entry.kind", 3) {
		case 0:
			s := wal.Start(h)
			entries = append(entries, &s)
		case 1:
			entries = append(entries, &wal.Timeout{Step: types.StepPropose, Height: h, Round: 0})
		default:
			entries = append(entries, &wal.Prevote[vxH, vxA]{MessageHeader: types.MessageHeader[vxA]{Height: h, Round: 0, Sender: vxA{2}}})
		}
	}
	sm := &vxRecordingSM{height: types.Height(vx.U64("machine.height"))}
	d.db = vxReplayLog{vxWAL{l}, entries}
	d.stateMachine = sm
	err := d.replay(context.Background())
	vx.Assert(err == nil, "replay-succeeds")
	var want []wal.Entry[vxV, vxH, vxA]
	for _, e := range entries {
		switch {
		case e.GetHeight() < sm.height:
			vx.Cover("entry-of-a-height-already-decided")
		case e.GetHeight() == sm.height:
			vx.Cover("entry-of-the-height-in-progress")
			want = append(want, e)
		default:
			vx.Cover("entry-of-a-later-height")
			want = append(want, e)
		}
	}
	vx.Assert(len(sm.fed) == len(want), "every-logged-input-not-below-the-height-is-replayed")
	for i := range want {
		if i < len(sm.fed) {
			vx.Assert(sm.fed[i] == want[i], "inputs-are-replayed-in-log-order")
		}
	}
	vx.Assert(len(l.events) == 0, "replay-neither-writes-nor-broadcasts")
}
