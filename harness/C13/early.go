//vx:pkg consensus/tendermint
//vx:include ../C12/statemachine.go
//vx:include replay.go
package tendermint

import (
	"github.com/NethermindEth/juno/consensus/types"
	"github.com/NethermindEth/juno/consensus/types/actions"
	"github.com/NethermindEth/juno/consensus/types/wal"
	"github.com/NethermindEth/juno/utils/log"
	"github.com/NethermindEth/juno/zzverif/vx"
)

// C13-H5: messages logged before their height's Start entry. While machine A runs height 1 it receives
// one arbitrary message of height 2 (logged under height 2, not yet acted on); height 1 is then decided
// (proposal + 3 precommits), the driver prunes the log up to height 1 and starts height 2, where the
// cached message takes effect. Crash after any prefix of the height-2 log that covers the broadcasts
// already made; machine B is created at height 2 and replays that prefix (early message first, then
// Start). B must not cast a vote that conflicts with one A made visible, and after the full log B is in
// A's state and answers one further arbitrary message with the same votes.

func vxHeightMsg(sm *vxSM, h types.Height, node uint64, tag string) []vxAct {
	switch vx.Choice(tag+".kind", 3) {
	case 0:
		r := vxRound(tag + ".p.round")
		v := vxV{vxValueK(tag + ".p.value")}
		p := &types.Proposal[vxV, vxH, vxA]{
			MessageHeader: types.MessageHeader[vxA]{Height: h, Round: r, Sender: vxVals{}.Proposer(h, r)},
			ValidRound:    -1, Value: &v,
		}
		vx.Assume(p.Sender[0] != node)
		return sm.ProcessProposal(p)
	case 1:
		r := vxRound(tag + ".v.round")
		snd := vx.U64(tag + ".v.sender")
		vx.Assume(snd < 4 && snd != node)
		var id *vxH
		if vx.Choice(tag+".v.hasid", 2) == 1 {
			id = &vxH{vxValueK(tag + ".v.id")}
		}
		return sm.ProcessPrevote(&types.Prevote[vxH, vxA]{MessageHeader: types.MessageHeader[vxA]{Height: h, Round: r, Sender: vxA{snd}}, ID: id})
	}
	r := vxRound(tag + ".c.round")
	snd := vx.U64(tag + ".c.sender")
	vx.Assume(snd < 4 && snd != node)
	var id *vxH
	if vx.Choice(tag+".c.hasid", 2) == 1 {
		id = &vxH{vxValueK(tag + ".c.id")}
	}
	return sm.ProcessPrecommit(&types.Precommit[vxH, vxA]{MessageHeader: types.MessageHeader[vxA]{Height: h, Round: r, Sender: vxA{snd}}, ID: id})
}

func VxC13EarlyMessagesSurviveRestart() {
	vx.Bound("N=4 equal-power validators, node 1 (never proposer of round 0); height 1 decided in round 0; one arbitrary height-2 message (proposal/prevote/precommit, rounds 0..2, values {1,2}) received during height 1; crash after any prefix of the height-2 log; one further arbitrary height-2 message after recovery")
	const node = uint64(1)
	app := &vxApp2{next: vxV{1}}
	app.valid[1], app.valid[2] = true, vx.Bool("valid2")
	A := New[vxV, vxH, vxA](log.NewNopZapLogger(), vxA{node}, app, vxVals{}, types.Height(1)).(*vxSM)
	var log1, log2 []wal.Entry[vxV, vxH, vxA]
	var votes1, votes2 []vxVote
	n1, n2 := 0, 0
	vxCollect(A.ProcessStart(0), &n1, &log1, &votes1)
	// the early message of height 2: logged, no visible effect yet
	early := vxHeightMsg(A, 2, node, "early")
	if len(early) == 0 {
		return // rejected by the vote counter (e.g. not from the proposer): nothing was logged
	}
	for _, a := range early {
		_, isWAL := a.(*actions.WriteWAL[vxV, vxH, vxA])
		vx.Assert(isWAL, "future-height-message-is-only-logged")
	}
	vxCollect(early, &n2, &log2, &votes2)
	// height 1 is decided: proposal of round 0 from validator 0 and precommits of validators 0, 2, 3
	v := vxV{1}
	id := v.Hash()
	committed := false
	note := func(acts []vxAct) {
		for _, a := range acts {
			if _, ok := a.(*actions.Commit[vxV, vxH, vxA]); ok {
				committed = true
			}
		}
	}
	note(A.ProcessProposal(&types.Proposal[vxV, vxH, vxA]{
		MessageHeader: types.MessageHeader[vxA]{Height: 1, Round: 0, Sender: vxA{0}}, ValidRound: -1, Value: &v}))
	for _, s := range []uint64{0, 2, 3} {
		note(A.ProcessPrecommit(&types.Precommit[vxH, vxA]{MessageHeader: types.MessageHeader[vxA]{Height: 1, Round: 0, Sender: vxA{s}}, ID: &id}))
	}
	vx.Assert(committed && A.state.height == 2, "height-1-decided")
	if !committed {
		return
	}
	// driver: commit prunes the log up to height 1, then the next height starts
	vxCollect(A.ProcessStart(0), &n2, &log2, &votes2)
	if len(votes2) > 0 {
		vx.Cover("early-message-caused-a-vote-at-start")
	}

	keep := vx.Choice("keep", len(log2)+1)
	B := New[vxV, vxH, vxA](log.NewNopZapLogger(), vxA{node}, app, vxVals{}, types.Height(2)).(*vxSM)
	var votesB []vxVote
	var logB []wal.Entry[vxV, vxH, vxA]
	nb := 0
	for _, e := range log2[:keep] {
		vxCollect(B.ProcessWAL(e), &nb, &logB, &votesB)
	}
	for _, a := range votes2 {
		if a.atLog > keep {
			continue
		}
		for _, b := range votesB {
			if a.kind == b.kind && a.round == b.round {
				vx.Assert(a.has == b.has && (!a.has || a.id == b.id), "no-conflicting-vote-after-recovery")
			}
		}
	}
	if keep < len(log2) {
		return
	}
	vx.Cover("full-log-replayed")
	sa, sb := A.state, B.state
	vx.Assert(sa.height == sb.height && sa.round == sb.round && sa.step == sb.step &&
		sa.lockedRound == sb.lockedRound && sa.validRound == sb.validRound, "same-state-after-full-replay")
	// one further message, delivered to both: the recovered machine knows what the live one knew
	var va, vb []vxVote
	var la, lb []wal.Entry[vxV, vxH, vxA]
	na, nbb := 0, 0
	kind := vx.Choice("next.kind", 2)
	r := vxRound("next.round")
	snd := vx.U64("next.sender")
	vx.Assume(snd < 4 && snd != node)
	var nid *vxH
	if vx.Choice("next.hasid", 2) == 1 {
		nid = &vxH{vxValueK("next.id")}
	}
	for i, sm := range []*vxSM{A, B} {
		var acts []vxAct
		hdr := types.MessageHeader[vxA]{Height: 2, Round: r, Sender: vxA{snd}}
		if kind == 0 {
			acts = sm.ProcessPrevote(&types.Prevote[vxH, vxA]{MessageHeader: hdr, ID: nid})
		} else {
			acts = sm.ProcessPrecommit(&types.Precommit[vxH, vxA]{MessageHeader: hdr, ID: nid})
		}
		if i == 0 {
			vxCollect(acts, &na, &la, &va)
		} else {
			vxCollect(acts, &nbb, &lb, &vb)
		}
	}
	vx.Assert(len(la) == len(lb), "recovered-machine-accepts-the-same-messages")
	vx.Assert(len(va) == len(vb), "recovered-machine-answers-with-the-same-votes")
	for i := range va {
		if i < len(vb) {
			vx.Assert(va[i].kind == vb[i].kind && va[i].round == vb[i].round && va[i].has == vb[i].has && va[i].id == vb[i].id,
				"recovered-machine-answers-with-the-same-votes")
		}
	}
}
