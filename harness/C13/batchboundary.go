//vx:pkg consensus/walstore
//vx:include ../C14/flushfail.go
//vx:include ../C14/codec.go
package walstore

// C13-H10: "nothing is visible before its WAL flush": the driver flushes, then broadcasts; the flush must
// have written every buffered entry - the newest one, which caused the broadcast, included - however many
// were buffered. The obligation is C14-H11's (harness/C14/flushfail.go).
func VxC13FlushWritesEveryBufferedEntry() {
	VxC14BatchBoundariesAreTheCallers()
}
