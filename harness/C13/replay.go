//vx:pkg consensus/tendermint
//vx:include ../C12/statemachine.go
package tendermint

import (
	"github.com/NethermindEth/juno/consensus/types"
	"github.com/NethermindEth/juno/consensus/types/actions"
	"github.com/NethermindEth/juno/consensus/types/wal"
	"github.com/NethermindEth/juno/utils/log"
	"github.com/NethermindEth/juno/zzverif/vx"
)

// C13-H3: replay equivalence at the state-machine level. Machine A: ProcessStart + <= 2 arbitrary
// inputs; its WriteWAL actions are the durable log (the driver flushes them before any broadcast of
// the same action list becomes visible). Crash point: any prefix of the log that covers every
// broadcast already made. Machine B: fresh, ProcessWAL over that prefix, while the application is
// allowed to answer Value() differently after the restart.
// Asserted: B never produces a prevote / precommit that conflicts with one A broadcast for the same
// (height, round), and after the full log B is in A's consensus state.
// Known finding KF-C13-1 (proposer role: the own proposal is not logged and Application.Value() is
// asked again during replay) is split out by label.

type vxApp2 struct {
	next  vxV
	valid [4]bool
}

func (a *vxApp2) Value() vxV        { return a.next }
func (a *vxApp2) Valid(v vxV) bool  { return a.valid[v[0]&3] }

type vxVote struct {
	kind  int
	round types.Round
	has   bool
	id    uint64
	atLog int // number of WAL entries written when it was broadcast
}

var vxOwnProposals int

func vxCollect(acts []vxAct, logLen *int, entries *[]wal.Entry[vxV, vxH, vxA], votes *[]vxVote) {
	for _, a := range acts {
		switch x := a.(type) {
		case *actions.BroadcastProposal[vxV, vxH, vxA]:
			vxOwnProposals++
		case *actions.WriteWAL[vxV, vxH, vxA]:
			*entries = append(*entries, x.Entry)
			*logLen++
		case *actions.BroadcastPrevote[vxH, vxA]:
			v := vxVote{kind: 1, round: x.Round, has: x.ID != nil, atLog: *logLen}
			if x.ID != nil {
				v.id = (*x.ID)[0]
			}
			*votes = append(*votes, v)
		case *actions.BroadcastPrecommit[vxH, vxA]:
			v := vxVote{kind: 2, round: x.Round, has: x.ID != nil, atLog: *logLen}
			if x.ID != nil {
				v.id = (*x.ID)[0]
			}
			*votes = append(*votes, v)
		}
	}
}

func VxC13ReplayEquivalence() {
	vx.Bound("N=4 equal-power validators, height 1, rounds 0..2, values {1,2}; Start + <= 2 arbitrary inputs; crash after any logged entry; Value() may differ after restart")
	node := uint64(vx.Choice("node", 2)) // node 0 is the proposer of round 0
	appA := &vxApp2{next: vxV{1}}
	appB := &vxApp2{next: vxV{vxValueK("valueAfterRestart")}}
	for i := 1; i <= 2; i++ {
		b := vx.Bool("valid")
		appA.valid[i], appB.valid[i] = b, b
	}
	const h = types.Height(1)
	vxOwnProposals = 0
	A := New[vxV, vxH, vxA](log.NewNopZapLogger(), vxA{node}, appA, vxVals{}, h).(*vxSM)
	var entries []wal.Entry[vxV, vxH, vxA]
	var votesA []vxVote
	logLen := 0
	vxCollect(A.ProcessStart(0), &logLen, &entries, &votesA)
	for s := 0; s < 2; s++ {
		var acts []vxAct
		switch vx.Choice("kind", 3) {
		case 0:
			r := vxRound("p.round")
			v := vxV{vxValueK("p.value")}
			p := &types.Proposal[vxV, vxH, vxA]{
				MessageHeader: types.MessageHeader[vxA]{Height: h, Round: r, Sender: vxVals{}.Proposer(h, r)},
				ValidRound:    -1, Value: &v,
			}
			vx.Assume(p.Sender[0] != node)
			acts = A.ProcessProposal(p)
		case 1:
			r := vxRound("v.round")
			snd := vx.U64("v.sender")
			vx.Assume(snd < 4 && snd != node)
			var id *vxH
			if vx.Choice("v.hasid", 2) == 1 {
				id = &vxH{vxValueK("v.id")}
			}
			acts = A.ProcessPrevote(&types.Prevote[vxH, vxA]{MessageHeader: types.MessageHeader[vxA]{Height: h, Round: r, Sender: vxA{snd}}, ID: id})
		case 2:
			st := types.Step(vx.U8("t.step"))
			vx.Assume(st <= 2)
			acts = A.ProcessTimeout(types.Timeout{Step: st, Height: h, Round: vxRound("t.round")})
		}
		vxCollect(acts, &logLen, &entries, &votesA)
	}
	ownA := vxOwnProposals
	// crash point: keep the first `keep` entries; every broadcast made before the crash had its
	// cause flushed, so only votes with atLog <= keep were seen by peers
	keep := vx.Choice("keep", len(entries)+1)
	B := New[vxV, vxH, vxA](log.NewNopZapLogger(), vxA{node}, appB, vxVals{}, h).(*vxSM)
	var votesB []vxVote
	var entriesB []wal.Entry[vxV, vxH, vxA]
	lb := 0
	for _, e := range entries[:keep] {
		vxCollect(B.ProcessWAL(e), &lb, &entriesB, &votesB)
	}
	// known finding KF-C13-1 applies whenever the node acted as proposer (in any round) before the crash
	proposerRole := ownA > 0
	for _, a := range votesA {
		if a.atLog > keep {
			continue // not yet visible at the crash
		}
		for _, b := range votesB {
			if a.kind == b.kind && a.round == b.round {
				same := a.has == b.has && (!a.has || a.id == b.id)
				if proposerRole {
					vx.Assert(same, "no-conflicting-vote-after-recovery#KF-C13-1")
				} else {
					vx.Assert(same, "no-conflicting-vote-after-recovery")
				}
			}
		}
	}
	if keep == len(entries) {
		vx.Cover("full-log-replayed")
		sa, sb := A.state, B.state
		eq := sa.height == sb.height && sa.round == sb.round && sa.step == sb.step &&
			sa.lockedRound == sb.lockedRound && sa.validRound == sb.validRound
		if proposerRole {
			vx.Assert(eq, "same-state-after-full-replay#KF-C13-1")
		} else {
			vx.Assert(eq, "same-state-after-full-replay")
		}
	}
}

// C13-H4: a timeout is logged before anything it causes becomes visible. The machine is put in an
// arbitrary (round, step) of height 1; a timeout of an arbitrary kind / round fires; whenever the
// returned action list contains a broadcast or a commit, a WriteWAL of that timeout comes first -
// Driver.execute flushes the log before it lets a broadcast out, so after a crash the replayed
// machine has seen the timeout whose effect the peers have seen.
func VxC13TimeoutLoggedBeforeEffect() {
	vx.Bound("N=4 validators, node 1, height 1; machine in an arbitrary round 0..2 and step propose/prevote/precommit; one timeout with arbitrary step and round 0..2")
	const h = types.Height(1)
	app := &vxApp{next: vxV{1}}
	sm := New[vxV, vxH, vxA](log.NewNopZapLogger(), vxA{1}, app, vxVals{}, h).(*vxSM)
	sm.isHeightStarted = true
	sm.state.round = vxRound("round")
	st := types.Step(vx.U8("step"))
	vx.Assume(st <= 2)
	sm.state.step = st
	ts := types.Step(vx.U8("t.step"))
	vx.Assume(ts <= 2)
	tm := types.Timeout{Step: ts, Height: h, Round: vxRound("t.round")}
	acts := sm.ProcessTimeout(tm)
	logged := false
	for _, a := range acts {
		switch x := a.(type) {
		case *actions.WriteWAL[vxV, vxH, vxA]:
			if t, ok := x.Entry.(*wal.Timeout); ok && types.Timeout(*t) == tm {
				logged = true
			}
		case *actions.BroadcastProposal[vxV, vxH, vxA], *actions.BroadcastPrevote[vxH, vxA],
			*actions.BroadcastPrecommit[vxH, vxA], *actions.Commit[vxV, vxH, vxA]:
			vx.Cover("timeout-has-a-visible-effect")
			vx.Assert(logged, "timeout-logged-before-its-visible-effect")
		}
	}
	if len(acts) == 0 {
		vx.Cover("timeout-ignored")
	}
}
