//vx:pkg consensus/walstore
//vx:include ../C14/walnum.go
package walstore

// C13-H9: what the validator logged before it sent a vote must still be there after ANY number of restarts:
// a restart after the log cleanup must not open its new file over the one holding the height in progress.
// The obligation is C14-H10's (harness/C14/walnum.go).
func VxC13RestartNeverOverwritesTheLogInProgress() {
	VxC14NewLogNeverReusesAnExistingNumber()
}
