//vx:pkg consensus/tendermint
//vx:include ../C12/statemachine.go
//vx:include replay.go
package tendermint

import (
	"github.com/NethermindEth/juno/consensus/types"
	"github.com/NethermindEth/juno/consensus/types/actions"
	"github.com/NethermindEth/juno/consensus/types/wal"
	"github.com/NethermindEth/juno/utils/log"
	"github.com/NethermindEth/juno/zzverif/vx"
)

// C13-H7: every message the machine takes in for its current height is logged, and logged before anything
// it causes. The machine is in an arbitrary round 0..2 and step of height 1 and already holds a context of
// 0..3 earlier messages (a proposal with an arbitrary valid round, prevotes of an arbitrary earlier or current
// round); one further message arrives - a prevote or precommit from a validator that has not voted in that
// round, or the proposal of the round's proposer - with an ARBITRARY round (older than, equal to, or newer than
// the machine's). Asserted: the returned list starts with a WriteWAL of exactly that message (so the replayed
// machine sees every input the crashed one saw - a late vote of an earlier round can complete the polka that
// line 28 waits for), and any broadcast or commit comes after it.
func VxC13MessageLoggedBeforeEffect() {
	vx.Bound("N=4 validators, node 1, height 1; machine in an arbitrary round 0..2 and step; context: optional proposal of the current round (valid round -1..round-1, value 1..2) and 0..2 prevotes of an arbitrary round for that value from validators 2,3; one arriving prevote / precommit (sender 0, any round 0..2, nil or value 1..2) or proposal (any round 0..2 other than the context's, its proposer as sender)")
	const h = types.Height(1)
	app := &vxApp2{next: vxV{1}}
	app.valid[1], app.valid[2] = true, true
	sm := New[vxV, vxH, vxA](log.NewNopZapLogger(), vxA{1}, app, vxVals{}, h).(*vxSM)
	sm.isHeightStarted = true
	cur := vxRound("round")
	sm.state.round = cur
	st := types.Step(vx.U8("step"))
	vx.Assume(st <= 2)
	sm.state.step = st
	// context held by the vote counter
	ctxRound := types.Round(-1)
	if vx.Choice("ctx.proposal", 2) == 1 {
		v := vxV{vxValueK("ctx.value")}
		vr := types.Round(vx.I64("ctx.vr"))
		vx.Assume(vr >= -1 && vr < cur)
		snd := vxVals{}.Proposer(h, cur)
		vx.Assume(snd[0] != 1)
		p := &types.Proposal[vxV, vxH, vxA]{MessageHeader: types.MessageHeader[vxA]{Height: h, Round: cur, Sender: snd}, ValidRound: vr, Value: &v}
		vx.Assert(sm.voteCounter.AddProposal(p), "setup")
		ctxRound = cur
		nv := vx.Choice("ctx.prevotes", 3)
		pr := vxRound("ctx.prevoteRound")
		id := v.Hash()
		for i := 0; i < nv; i++ {
			pv := &types.Prevote[vxH, vxA]{MessageHeader: types.MessageHeader[vxA]{Height: h, Round: pr, Sender: vxA{uint64(2 + i)}}, ID: &id}
			vx.Assert(sm.voteCounter.AddPrevote(pv), "setup")
		}
	}
	// the arriving message
	r := vxRound("m.round")
	var acts []vxAct
	var isThis func(e wal.Entry[vxV, vxH, vxA]) bool
	switch vx.Choice("m.kind", 3) {
	case 0:
		vx.Assume(r != ctxRound)
		snd := vxVals{}.Proposer(h, r)
		vx.Assume(snd[0] != 1)
		v := vxV{vxValueK("m.value")}
		vr := types.Round(vx.I64("m.vr"))
		vx.Assume(vr >= -1 && vr < r)
		p := &types.Proposal[vxV, vxH, vxA]{MessageHeader: types.MessageHeader[vxA]{Height: h, Round: r, Sender: snd}, ValidRound: vr, Value: &v}
		acts = sm.ProcessProposal(p)
		isThis = func(e wal.Entry[vxV, vxH, vxA]) bool {
			x, ok := e.(*wal.Proposal[vxV, vxH, vxA])
			return ok && (*types.Proposal[vxV, vxH, vxA])(x) == p
		}
	case 1:
		var id *vxH
		if vx.Choice("m.hasid", 2) == 1 {
			id = &vxH{vxValueK("m.id")}
		}
		pv := &types.Prevote[vxH, vxA]{MessageHeader: types.MessageHeader[vxA]{Height: h, Round: r, Sender: vxA{0}}, ID: id}
		acts = sm.ProcessPrevote(pv)
		isThis = func(e wal.Entry[vxV, vxH, vxA]) bool {
			x, ok := e.(*wal.Prevote[vxH, vxA])
			return ok && (*types.Prevote[vxH, vxA])(x) == pv
		}
	default:
		var id *vxH
		if vx.Choice("m.hasid", 2) == 1 {
			id = &vxH{vxValueK("m.id")}
		}
		pc := &types.Precommit[vxH, vxA]{MessageHeader: types.MessageHeader[vxA]{Height: h, Round: r, Sender: vxA{0}}, ID: id}
		acts = sm.ProcessPrecommit(pc)
		isThis = func(e wal.Entry[vxV, vxH, vxA]) bool {
			x, ok := e.(*wal.Precommit[vxH, vxA])
			return ok && (*types.Precommit[vxH, vxA])(x) == pc
		}
	}
	switch {
	case r < cur:
		vx.Cover("message-of-an-earlier-round")
	case r == cur:
		vx.Cover("message-of-the-current-round")
	default:
		vx.Cover("message-of-a-later-round")
	}
	first := false
	if len(acts) > 0 {
		if w, ok := acts[0].(*actions.WriteWAL[vxV, vxH, vxA]); ok && isThis(w.Entry) {
			first = true
		}
	}
	vx.Assert(first, "accepted-message-is-logged-first")
	for _, a := range acts {
		switch a.(type) {
		case *actions.BroadcastProposal[vxV, vxH, vxA], *actions.BroadcastPrevote[vxH, vxA],
			*actions.BroadcastPrecommit[vxH, vxA], *actions.Commit[vxV, vxH, vxA]:
			if r < cur {
				vx.Cover("late-message-has-a-visible-effect")
			}
			vx.Assert(first, "message-logged-before-its-visible-effect")
		}
	}
}
