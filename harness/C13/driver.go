//vx:pkg consensus/driver
package driver

import (
	"context"
	"errors"
	"iter"
	"time"

	"github.com/NethermindEth/juno/consensus/p2p"
	"github.com/NethermindEth/juno/consensus/types"
	"github.com/NethermindEth/juno/consensus/types/actions"
	"github.com/NethermindEth/juno/consensus/types/wal"
	"github.com/NethermindEth/juno/sync"
	"github.com/NethermindEth/juno/utils/log"
	"github.com/NethermindEth/juno/zzverif/vx"
)

// C13-H1 / H4: Driver.execute and Driver.commit against model collaborators (all interfaces, so
// the same models run natively). Arbitrary action lists of length <= 4 over all seven action kinds.
//   - at every broadcast and at OnCommit the WAL store has no un-flushed entry;
//   - a WAL error stops execution before anything later becomes visible;
//   - in replay mode nothing is written to or flushed in the WAL;
//   - commit: deliver -> DeleteWALEntries(height) -> Flush, in that order.

type (
	vxH [4]uint64
	vxA [4]uint64
	vxV [4]uint64
)

func (v vxV) Hash() vxH { return vxH(v) }

type vxLog struct {
	events    []string
	pending   int
	failSetAt int
	failFlush int
	sets      int
	flushes   int
	visibleWithPending bool
}

type vxWAL struct{ l *vxLog }

func (w vxWAL) Flush() error {
	k := w.l.flushes
	w.l.flushes++
	if k == w.l.failFlush {
		w.l.events = append(w.l.events, "flush-fail")
		return errors.New("flush failed")
	}
	w.l.pending = 0
	w.l.events = append(w.l.events, "flush")
	return nil
}
func (w vxWAL) LoadAllEntries() iter.Seq2[wal.Entry[vxV, vxH, vxA], error] {
	return func(func(wal.Entry[vxV, vxH, vxA], error) bool) {}
}
func (w vxWAL) SetWALEntry(wal.Entry[vxV, vxH, vxA]) error {
	k := w.l.sets
	w.l.sets++
	if k == w.l.failSetAt {
		w.l.events = append(w.l.events, "set-fail")
		return errors.New("set failed")
	}
	w.l.pending++
	w.l.events = append(w.l.events, "set")
	return nil
}
func (w vxWAL) DeleteWALEntries(types.Height) error {
	w.l.pending++
	w.l.events = append(w.l.events, "delete")
	return nil
}
func (w vxWAL) Close() error { return nil }

type vxBcast[M any] struct{ l *vxLog }

func (b vxBcast[M]) Broadcast(context.Context, M) {
	if b.l.pending > 0 {
		b.l.visibleWithPending = true
	}
	b.l.events = append(b.l.events, "broadcast")
}

type vxCommit struct {
	l  *vxLog
	ok bool
}

func (c vxCommit) OnCommit(context.Context, types.Height, vxV) bool {
	if c.l.pending > 0 {
		c.l.visibleWithPending = true
	}
	c.l.events = append(c.l.events, "oncommit")
	return c.ok
}
func (c vxCommit) Listen() <-chan sync.CommittedBlock { return nil }

func vxNewDriver(l *vxLog, commitOK bool) *Driver[vxV, vxH, vxA] {
	// the real constructor (whatever it initialises is initialised); the state machine is set by the
	// harnesses that need one
	d := New[vxV, vxH, vxA](log.NewNopZapLogger(), vxWAL{l}, nil, vxCommit{l, commitOK},
		p2p.Broadcasters[vxV, vxH, vxA]{
			ProposalBroadcaster:  vxBcast[*types.Proposal[vxV, vxH, vxA]]{l},
			PrevoteBroadcaster:   vxBcast[*types.Prevote[vxH, vxA]]{l},
			PrecommitBroadcaster: vxBcast[*types.Precommit[vxH, vxA]]{l},
		}, p2p.Listeners[vxV, vxH, vxA]{}, nil, nil,
		func(types.Step, types.Round) time.Duration { return time.Hour })
	return &d
}

func vxAction(tag string) actions.Action[vxV, vxH, vxA] {
	v := vxV{1}
	switch vx.Choice(tag, 6) {
	case 0:
		st := wal.Start(1)
		return &actions.WriteWAL[vxV, vxH, vxA]{Entry: &st}
	case 1:
		return &actions.BroadcastProposal[vxV, vxH, vxA]{Value: &v}
	case 2:
		return &actions.BroadcastPrevote[vxH, vxA]{}
	case 3:
		return &actions.BroadcastPrecommit[vxH, vxA]{}
	case 4:
		return &actions.ScheduleTimeout{Step: types.StepPropose, Height: 1, Round: types.Round(vx.I64(tag + ".round"))}
	}
	c := actions.Commit[vxV, vxH, vxA]{Value: &v}
	c.Height = 1
	return &c
}

func VxC13ExecuteFlushBeforeVisible() {
	n := 3
	if vx.Thorough() {
		n = 4
		vx.Bound("arbitrary action lists of length <= 4 over {WriteWAL, Broadcast x3, ScheduleTimeout, Commit}; WAL set/flush failure at an arbitrary call; replay flag")
	} else {
		vx.Bound("arbitrary action lists of length <= 3 over {WriteWAL, Broadcast x3, ScheduleTimeout, Commit}; WAL set/flush failure at an arbitrary call; replay flag")
	}
	l := &vxLog{failSetAt: vx.Choice("failSetAt", 4) - 1, failFlush: vx.Choice("failFlushAt", 4) - 1}
	d := vxNewDriver(l, vx.Bool("commitOK"))
	replaying := vx.Bool("replaying")
	k := 1 + vx.Choice("len", n)
	var acts []actions.Action[vxV, vxH, vxA]
	for i := 0; i < k; i++ {
		acts = append(acts, vxAction("a"))
	}
	committed, err := d.execute(context.Background(), replaying, acts)
	for _, tm := range d.scheduledTms {
		if tm != nil {
			tm.Stop()
		}
	}
	if replaying {
		vx.Cover("replay-mode")
		for _, e := range l.events {
			vx.Assert(e != "set" && e != "set-fail", "replay-writes-nothing-to-wal")
		}
	} else {
		vx.Assert(!l.visibleWithPending, "nothing-visible-before-its-wal-flush")
	}
	// a WAL failure ends execution: nothing after it in the event log except what the same action did
	for i, e := range l.events {
		if e == "set-fail" || e == "flush-fail" {
			vx.Cover("wal-failure")
			vx.Assert(err != nil, "wal-failure-is-reported")
			visibleAfter := false
			for _, later := range l.events[i+1:] {
				if later == "broadcast" || later == "oncommit" {
					visibleAfter = true
				}
			}
			vx.Assert(!visibleAfter, "nothing-visible-after-wal-failure")
		}
	}
	if committed {
		vx.Cover("committed")
	}
	// commit sequence: oncommit -> delete -> flush
	for i, e := range l.events {
		if e == "oncommit" && err == nil {
			vx.Assert(i+2 < len(l.events)+0 && l.events[i+1] == "delete" && l.events[i+2] == "flush", "commit-delivers-then-prunes-then-flushes")
			vx.Assert(committed, "commit-reported")
		}
	}
}
