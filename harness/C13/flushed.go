//vx:pkg consensus/walstore
//vx:include ../C14/codec.go
//vx:include ../C14/flushfail.go
package walstore

// C13-H6: an input that was flushed before a crash is replayed after it. The log is re-opened through
// Pebble's WAL reader, which hands back a batch only if its sequence number is greater than that of the
// batch before it; the batch headers consecutive flushes write (entry batches, prune-only batches as the
// driver emits at every commit, mixed ones) must therefore be strictly increasing and non-overlapping,
// or the first batch of the next height - Start and the inputs received before the first broadcast -
// is silently skipped on recovery. Scenario and assertions are those of C14-H4 (harness/C14/flushfail.go).
func VxC13FlushedBatchesAreReplayable() {
	VxC14BatchHeadersFollowReaderContract()
}
