//vx:pkg consensus/votecounter
package votecounter

import (
	"github.com/NethermindEth/juno/consensus/types"
	"github.com/NethermindEth/juno/zzverif/vx"
)

// C12-H1: quorum arithmetic for every total voting power N >= 1 (full 64-bit width, no bound).
// Agreement rests on: any two quorums share more than f voting power, the correct validators
// alone (N-f) can form a quorum, and f is the largest power strictly below N/3.
//vx:solver cvc5-int
func VxC12QuorumArithmetic() {
	vx.Bound("N: all 64-bit values >= 1 (N = 0, an empty validator set, is assumed away)")
	n := types.VotingPower(vx.U64("N"))
	vx.Assume(n >= 1)
	fv, qv := f(n), q(n)
	if n >= 1<<63 {
		vx.Cover("N>=2^63")
	}
	if n%3 == 0 {
		vx.Cover("N%3==0")
	}
	vx.Assert(qv <= n, "quorum-at-most-total")
	vx.Assert(qv >= 1, "quorum-positive")
	// 2q - N > f, written without wrap-around
	vx.Assert(qv >= n-qv && qv-(n-qv) > fv, "two-quorums-share-more-than-f")
	vx.Assert(fv <= n && n-fv >= qv, "correct-validators-can-form-quorum")
	// 3f < N <= 3f+3
	vx.Assert(fv <= n/3 && fv*3 < n && n-fv*3 <= 3, "f-is-largest-below-third")
	// q is the least value with 3q >= 2N: q = N - floor(N/3)
	vx.Assert(qv == n-n/3, "q-is-ceil-two-thirds")
	// f+1 (line 55 of the paper) contains at least one correct validator: f+1 > f trivially; f+1 <= N
	vx.Assert(fv+1 <= n, "f-plus-one-within-total")
}
