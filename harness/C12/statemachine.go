//vx:pkg consensus/tendermint
package tendermint

import (
	"github.com/NethermindEth/juno/consensus/types"
	"github.com/NethermindEth/juno/consensus/types/actions"
	"github.com/NethermindEth/juno/consensus/votecounter"
	"github.com/NethermindEth/juno/utils/log"
	"github.com/NethermindEth/juno/zzverif/vx"
)

// C12-H4 / C13-H2: single-validator obligations of the real state machine driven through its real
// vote counter. 4 validators of power 1 (N=4, f=1, q=3); the node is validator 0 or 1; height 1.
// A bounded sequence of arbitrary inputs (proposal / prevote / precommit / timeout with symbolic
// rounds 0..2, senders, values {1,2}, valid rounds) is processed after ProcessStart; over the
// produced actions:
//   (B) the node never broadcasts two prevotes, nor two precommits, for the same height and round;
//   (C) a prevote for a value that conflicts with the node's lock is only sent under the unlock
//       condition (a proposal whose valid round is >= the locked round with a prevote quorum there);
//   (D) a Commit is only produced for a value the application judged valid and that has a
//       precommit quorum (counted by the harness over distinct senders) in the proposal's round;
//   (W) whenever a call makes something visible (broadcast / commit), the list starts with the
//       WriteWAL of the input that caused it (C13: cause logged first).
// Multi-validator composition of agreement is outside (DESIGN.md C12).

type (
	vxH [4]uint64
	vxA [4]uint64
	vxV [4]uint64
)

func (v vxV) Hash() vxH { return vxH(v) }

type vxApp struct {
	next  vxV
	valid [4]bool
}

func (a *vxApp) Value() vxV { return a.next }
func (a *vxApp) Valid(v vxV) bool {
	return a.valid[v[0]&3]
}

type vxVals struct{}

func (vxVals) TotalVotingPower(types.Height) types.VotingPower { return 4 }
func (vxVals) ValidatorVotingPower(_ types.Height, a *vxA) types.VotingPower {
	if (*a)[0] < 4 && (*a)[1] == 0 && (*a)[2] == 0 && (*a)[3] == 0 {
		return 1
	}
	return 0
}
func (vxVals) Proposer(_ types.Height, r types.Round) vxA { return vxA{uint64(r) & 3} }

type vxMsg struct {
	kind     int // 0 proposal 1 prevote 2 precommit
	round    types.Round
	sender   uint64
	hasID    bool
	id       uint64
	accepted bool
}

type vxSM = stateMachine[vxV, vxH, vxA]
type vxAct = actions.Action[vxV, vxH, vxA]

func vxRound(name string) types.Round {
	r := types.Round(vx.I64(name))
	vx.Assume(r >= 0 && r <= 2)
	return r
}

func vxValueK(name string) uint64 {
	k := vx.U64(name)
	vx.Assume(k == 1 || k == 2)
	return k
}

func VxC12StateMachineObligations() {
	// two arbitrary inputs after ProcessStart in both tiers: a third input multiplies the path count by the size
	// of the input alphabet (~60) and exceeds the path budget (200000) for every seed state - measured, not
	// reported as covered; the one-step harnesses from arbitrary states (C12-H3/H5/H8) carry the depth instead
	steps := 2
	vx.Bound("N=4 equal-power validators, height 1, rounds 0..2, values {1,2}; ProcessStart + <= 2 arbitrary inputs from 5 seed states; one message per (sender, round, kind)")
	seed := vx.Choice("seed", 5)
	node := uint64(1)
	if seed == 0 {
		node = uint64(vx.Choice("node", 2))
	}
	app := &vxApp{next: vxV{1}}
	for i := 1; i <= 2; i++ {
		app.valid[i] = vx.Bool("valid")
	}
	const h = types.Height(1)
	sm := New[vxV, vxH, vxA](log.NewNopZapLogger(), vxA{node}, app, vxVals{}, h).(*vxSM)

	var msgs []vxMsg
	var ownPrevoteRounds, ownPrecommitRounds []types.Round
	var commits int

	check := func(acts []vxAct, isStart bool, lockedRoundPre types.Round, lockedPre *vxV) {
		// (W) cause logged first
		visibleAt := -1
		for i, a := range acts {
			switch a.(type) {
			case *actions.BroadcastProposal[vxV, vxH, vxA], *actions.BroadcastPrevote[vxH, vxA],
				*actions.BroadcastPrecommit[vxH, vxA], *actions.Commit[vxV, vxH, vxA]:
				if visibleAt < 0 {
					visibleAt = i
				}
			}
		}
		if visibleAt >= 0 {
			vx.Cover("visible-action")
			_, isWAL := acts[0].(*actions.WriteWAL[vxV, vxH, vxA])
			vx.Assert(isWAL && visibleAt > 0, "cause-logged-before-visible-effect")
		}
		for _, a := range acts {
			switch x := a.(type) {
			case *actions.BroadcastPrevote[vxH, vxA]:
				vx.Assert(x.Height == sm.state.height || commits > 0, "prevote-at-current-height")
				for _, r := range ownPrevoteRounds {
					vx.Assert(r != x.Round, "one-prevote-per-round")
				}
				ownPrevoteRounds = append(ownPrevoteRounds, x.Round)
				msgs = append(msgs, vxMsg{kind: 1, round: x.Round, sender: node, hasID: x.ID != nil, accepted: true})
				if x.ID != nil {
					msgs[len(msgs)-1].id = (*x.ID)[0]
					vx.Cover("prevote-for-value")
					// (C) lock rule against the pre-call lock
					if lockedRoundPre != -1 && lockedPre != nil && lockedPre.Hash() != *x.ID {
						vx.Cover("opt:prevote-against-lock")
						p := sm.voteCounter.GetProposal(x.Round)
						ok := p != nil && p.ValidRound >= lockedRoundPre &&
							sm.voteCounter.HasQuorumForVote(p.ValidRound, votecounter.Prevote, x.ID)
						vx.Assert(ok, "opt:prevote-against-lock-only-with-newer-polka")
					}
				}
			case *actions.BroadcastPrecommit[vxH, vxA]:
				for _, r := range ownPrecommitRounds {
					vx.Assert(r != x.Round, "one-precommit-per-round")
				}
				ownPrecommitRounds = append(ownPrecommitRounds, x.Round)
				m := vxMsg{kind: 2, round: x.Round, sender: node, hasID: x.ID != nil, accepted: true}
				if x.ID != nil {
					m.id = (*x.ID)[0]
				}
				msgs = append(msgs, m)
			case *actions.Commit[vxV, vxH, vxA]:
				commits++
				vx.Cover("commit")
				vx.Assert(x.Value != nil && app.Valid(*x.Value), "commit-only-valid-value")
				var cnt uint64
				for _, m := range msgs {
					if m.kind == 2 && m.accepted {
						cnt += vx.B2U(m.hasID && m.round == x.Round && m.id == (*x.Value)[0])
					}
				}
				vx.Assert(cnt >= 3, "commit-only-with-precommit-quorum")
			}
		}
	}

	check(sm.ProcessStart(0), true, -1, nil)

	// concrete seed scenarios (no forks) that put the machine into deeper states:
	//  1: proposal(r0, value 1) + two foreign prevotes for it  -> polka in round 0 (lock if valid)
	//  2: seed 1 + one foreign precommit for value 1          -> one precommit short of a decision
	//  3: seed 1 + precommit timeout of round 0               -> round 1 (the node proposes)
	concreteVote := func(kind int, snd uint64, r types.Round, k uint64) {
		lr, lv := sm.state.lockedRound, sm.state.lockedValue
		hdr := types.MessageHeader[vxA]{Height: h, Round: r, Sender: vxA{snd}}
		id := &vxH{k}
		m := vxMsg{kind: kind, round: r, sender: snd, hasID: true, id: k, accepted: true}
		msgs = append(msgs, m)
		if kind == 1 {
			check(sm.ProcessPrevote(&types.Prevote[vxH, vxA]{MessageHeader: hdr, ID: id}), false, lr, lv)
		} else {
			check(sm.ProcessPrecommit(&types.Precommit[vxH, vxA]{MessageHeader: hdr, ID: id}), false, lr, lv)
		}
	}
	if seed == 4 {
		// a decision being assembled in a round the node may not be in: proposal at R in {0,2} plus two
		// foreign precommits for it (one short of the quorum)
		R := types.Round(2 * vx.Choice("seed.R", 2))
		v := vxV{1}
		p := &types.Proposal[vxV, vxH, vxA]{
			MessageHeader: types.MessageHeader[vxA]{Height: h, Round: R, Sender: vxVals{}.Proposer(h, R)}, ValidRound: -1, Value: &v,
		}
		check(sm.ProcessProposal(p), false, -1, nil)
		concreteVote(2, 3, R, 1)
		concreteVote(2, uint64(2-R), R, 1)
	}
	if seed >= 1 && seed <= 3 {
		v := vxV{1}
		p := &types.Proposal[vxV, vxH, vxA]{
			MessageHeader: types.MessageHeader[vxA]{Height: h, Round: 0, Sender: vxA{0}}, ValidRound: -1, Value: &v,
		}
		check(sm.ProcessProposal(p), false, -1, nil)
		concreteVote(1, 2, 0, 1)
		concreteVote(1, 3, 0, 1)
	}
	if seed == 2 {
		concreteVote(2, 2, 0, 1)
	}
	if seed == 3 {
		lr, lv := sm.state.lockedRound, sm.state.lockedValue
		check(sm.ProcessTimeout(types.Timeout{Step: types.StepPrecommit, Height: h, Round: 0}), false, lr, lv)
	}

	for s := 0; s < steps && commits == 0; s++ {
		lockedRoundPre, lockedPre := sm.state.lockedRound, sm.state.lockedValue
		var acts []vxAct
		switch vx.Choice("kind", 4) {
		case 0:
			r := vxRound("p.round")
			v := vxV{vxValueK("p.value")}
			vr := types.Round(vx.I64("p.vr"))
			vx.Assume(vr >= -1 && vr < r)
			p := &types.Proposal[vxV, vxH, vxA]{
				MessageHeader: types.MessageHeader[vxA]{Height: h, Round: r, Sender: vxVals{}.Proposer(h, r)},
				ValidRound:    vr, Value: &v,
			}
			vx.Assume(p.Sender[0] != node) // own proposals come from startRound
			acts = sm.ProcessProposal(p)
			vx.Cover("input-proposal")
		case 1, 2:
			kind := vx.Choice("votekind", 2) + 1
			r := vxRound("v.round")
			snd := vx.U64("v.sender")
			vx.Assume(snd < 4 && snd != node)
			for _, m := range msgs {
				if m.kind == kind {
					vx.Assume(!(m.sender == snd && m.round == r))
				}
			}
			m := vxMsg{kind: kind, round: r, sender: snd}
			var id *vxH
			if vx.Choice("v.hasid", 2) == 1 {
				k := vxValueK("v.id")
				id = &vxH{k}
				m.hasID, m.id = true, k
			}
			hdr := types.MessageHeader[vxA]{Height: h, Round: r, Sender: vxA{snd}}
			if kind == 1 {
				acts = sm.ProcessPrevote(&types.Prevote[vxH, vxA]{MessageHeader: hdr, ID: id})
				vx.Cover("input-prevote")
			} else {
				// record before processing: the commit check runs inside the same call
				m.accepted = true
				msgs = append(msgs, m)
				acts = sm.ProcessPrecommit(&types.Precommit[vxH, vxA]{MessageHeader: hdr, ID: id})
				vx.Cover("input-precommit")
				check(acts, false, lockedRoundPre, lockedPre)
				continue
			}
			m.accepted = true
			msgs = append(msgs, m)
		case 3:
			st := types.Step(vx.U8("t.step"))
			vx.Assume(st <= 2)
			acts = sm.ProcessTimeout(types.Timeout{Step: st, Height: h, Round: vxRound("t.round")})
			vx.Cover("input-timeout")
		}
		check(acts, false, lockedRoundPre, lockedPre)
	}
}

// C12-H3 (lines 22-33 of the paper, one step from an arbitrary lock state): the machine is in round
// r in {1,2} at step propose with an arbitrary lock (lockedRound in [-1, r-1], locked value in
// {1,2}); the vote counter already holds a prevote quorum for some value at some earlier round; a
// proposal for round r arrives with arbitrary value and valid round. The prevote the node sends
// must be exactly the one the algorithm prescribes:
//   vr = -1                      : v if valid(v) and (lockedRound = -1 or lockedValue = v), else nil
//   vr >= 0 with a polka at vr   : v if valid(v) and (lockedRound <= vr or lockedValue = v), else nil
//   otherwise                    : no prevote yet
func VxC12LockRule() {
	vx.Bound("N=4 equal-power validators, node 0, height 1; round r in {1,2}; arbitrary lock (round -1..r-1, value {1,2}); polka for an arbitrary value at an arbitrary earlier round; proposal with arbitrary value {1,2} and valid round -1..r-1")
	const h = types.Height(1)
	app := &vxApp{next: vxV{1}}
	for i := 1; i <= 2; i++ {
		app.valid[i] = vx.Bool("valid")
	}
	sm := New[vxV, vxH, vxA](log.NewNopZapLogger(), vxA{0}, app, vxVals{}, h).(*vxSM)
	r := types.Round(1 + vx.Choice("round", 2))
	sm.isHeightStarted = true
	sm.state.round = r
	sm.state.step = types.StepPropose
	L := types.Round(vx.I64("lockedRound"))
	vx.Assume(L >= -1 && L < r)
	lv := vxValueK("lockedValue")
	if L >= 0 {
		sm.state.lockedRound, sm.state.lockedValue = L, &vxV{lv}
		sm.state.validRound, sm.state.validValue = L, &vxV{lv}
		vx.Cover("locked")
	}
	// a prevote quorum (validators 1,2,3) for value pv at round pr < r
	pr := types.Round(vx.Choice("polkaRound", int(r)))
	pv := vxValueK("polkaValue")
	for _, snd := range []uint64{1, 2, 3} {
		ok := sm.voteCounter.AddPrevote(&types.Prevote[vxH, vxA]{
			MessageHeader: types.MessageHeader[vxA]{Height: h, Round: pr, Sender: vxA{snd}}, ID: &vxH{pv}})
		vx.Assert(ok, "seed-prevote-accepted")
	}
	v := vxValueK("value")
	vr := types.Round(vx.I64("validRound"))
	vx.Assume(vr >= -1 && vr < r)
	val := vxV{v}
	acts := sm.ProcessProposal(&types.Proposal[vxV, vxH, vxA]{
		MessageHeader: types.MessageHeader[vxA]{Height: h, Round: r, Sender: vxVals{}.Proposer(h, r)},
		ValidRound:    vr, Value: &val,
	})
	var sent *actions.BroadcastPrevote[vxH, vxA]
	n := 0
	for _, a := range acts {
		if p, ok := a.(*actions.BroadcastPrevote[vxH, vxA]); ok {
			sent = p
			n++
		}
	}
	valid := app.Valid(val)
	lockOK22 := L == -1 || lv == v
	switch {
	case vr == -1:
		vx.Cover("first-proposal-rule")
		vx.Assert(n == 1 && sent.Round == r, "line22-prevotes-once-in-current-round")
		if n == 1 {
			vx.Assert((sent.ID != nil) == (valid && lockOK22), "line22-votes-value-iff-valid-and-lock-allows")
			if sent.ID != nil {
				vx.Assert((*sent.ID)[0] == v, "line22-votes-the-proposed-value")
			}
		}
	case vr == pr && pv == v:
		vx.Cover("polka-previous-rule")
		vx.Assert(n == 1 && sent.Round == r, "line28-prevotes-once-in-current-round")
		if n == 1 {
			lockOK28 := L <= vr || lv == v
			vx.Assert((sent.ID != nil) == (valid && lockOK28), "line28-votes-value-iff-valid-and-unlock-condition")
			if L > vr && lv != v {
				vx.Cover("lock-forbids")
			}
		}
	default:
		vx.Cover("no-rule-enabled")
		vx.Assert(n == 0, "no-prevote-without-enabled-rule")
	}
}
