//vx:pkg consensus/votecounter
package votecounter

import (
	"github.com/NethermindEth/juno/consensus/types"
	"github.com/NethermindEth/juno/zzverif/vx"
)

// C12-H2: the vote counter - what the state machine's rules read. With N = 4 equal-power validators
// and a proposer schedule that depends on height and round:
//   - a proposal is accepted only from the proposer of ITS height and round (also when it is for a
//     future height and only buffered), at most one per (height, round), and the accepted one is the
//     one GetProposal returns once that height is current ("every committed value was proposed by
//     that round's proposer");
//   - a vote counts once per (sender, round, kind): duplicates and equivocations do not add power;
//   - HasQuorumForVote(id) holds exactly when more than 2/3 of the power sent that vote.

type (
	vxcH [4]uint64
	vxcA [4]uint64
	vxcV [4]uint64
)

func (v vxcV) Hash() vxcH { return vxcH(v) }

type vxcVals struct{}

func (vxcVals) TotalVotingPower(types.Height) types.VotingPower { return 4 }
func (vxcVals) ValidatorVotingPower(_ types.Height, a *vxcA) types.VotingPower {
	if (*a)[0] < 4 && (*a)[1] == 0 && (*a)[2] == 0 && (*a)[3] == 0 {
		return 1
	}
	return 0
}
func (vxcVals) Proposer(h types.Height, r types.Round) vxcA { return vxcA{(uint64(h) + uint64(r)) & 3} }

func VxC12VoteCounterProposals() {
	vx.Bound("N=4, current height 5; 2 proposals with symbolic height in {5,6}, round 0..1, sender 0..3 (or a non-validator), value {1,2}; then the height advances")
	vc := New[vxcV, vxcH, vxcA](vxcVals{}, 5)
	type key struct {
		h types.Height
		r types.Round
	}
	accepted := map[key]uint64{}
	for i := 0; i < 2; i++ {
		h := types.Height(5 + vx.Choice("height", 2))
		r := types.Round(vx.Choice("round", 2))
		snd := vx.U64("sender")
		vx.Assume(snd < 5)
		val := 1 + uint64(vx.Choice("value", 2))
		v := vxcV{val}
		p := &types.Proposal[vxcV, vxcH, vxcA]{
			MessageHeader: types.MessageHeader[vxcA]{Height: h, Round: r, Sender: vxcA{snd}}, ValidRound: -1, Value: &v,
		}
		ok := vc.AddProposal(p)
		expected := vxcVals{}.Proposer(h, r)
		_, dup := accepted[key{h, r}]
		if ok {
			vx.Assert(snd == expected[0], "proposal-accepted-only-from-the-proposer-of-its-height-and-round")
			vx.Assert(!dup, "one-proposal-per-height-and-round")
			accepted[key{h, r}] = val
			if h == 6 {
				vx.Cover("future-height-proposal-buffered")
			}
		} else if snd == expected[0] && !dup {
			vx.Assert(false, "opt:proposer-proposal-refused")
		}
	}
	// at height 5
	for r := types.Round(0); r < 2; r++ {
		got := vc.GetProposal(r)
		val, has := accepted[key{5, r}]
		vx.Assert((got != nil) == has && (got == nil || (*got.Value)[0] == val), "stored-proposal-is-the-accepted-one")
	}
	vc.StartNewHeight()
	for r := types.Round(0); r < 2; r++ {
		got := vc.GetProposal(r)
		val, has := accepted[key{6, r}]
		vx.Assert((got != nil) == has && (got == nil || (*got.Value)[0] == val), "buffered-proposal-becomes-the-proposal-of-its-height")
		if got != nil {
			vx.Assert(got.Sender == vxcVals{}.Proposer(6, r), "proposal-of-a-round-comes-from-that-rounds-proposer")
		}
	}
}

func VxC12VoteCounterQuorums() {
	vx.Bound("N=4, height 5, round 0; 4 prevotes with symbolic sender 0..4 (4 = non-validator) and id in {nil,1,2}; duplicates and equivocations included")
	vc := New[vxcV, vxcH, vxcA](vxcVals{}, 5)
	// sent[s][k]: validator s sent vote kind k (0 nil, 1 id1, 2 id2) at least once. A faulty validator
	// may send several different votes; each counts towards its own value, the same vote only once.
	var sent [5][3]bool
	for i := 0; i < 4; i++ {
		snd := vx.U64("sender")
		vx.Assume(snd < 5)
		kind := vx.Choice("id", 3)
		var id *vxcH
		if kind > 0 {
			id = &vxcH{uint64(kind)}
		}
		pv := &types.Prevote[vxcH, vxcA]{MessageHeader: types.MessageHeader[vxcA]{Height: 5, Round: 0, Sender: vxcA{snd}}, ID: id}
		ok := vc.AddPrevote(pv)
		if sent[snd][kind] {
			vx.Cover("duplicate-vote")
			vx.Assert(!ok, "duplicate-vote-not-counted-again")
		}
		sent[snd][kind] = true
	}
	count := func(k int) int {
		c := 0
		for s := 0; s < 4; s++ { // validators only: a non-validator has no power
			if sent[s][k] {
				c++
			}
		}
		return c
	}
	for k := 0; k < 3; k++ {
		var id *vxcH
		if k > 0 {
			id = &vxcH{uint64(k)}
		}
		vx.Assert(vc.HasQuorumForVote(0, Prevote, id) == (count(k) >= 3), "quorum-for-a-value-iff-more-than-two-thirds-sent-it")
	}
	voted := 0
	for s := 0; s < 4; s++ {
		if sent[s][0] || sent[s][1] || sent[s][2] {
			voted++
		}
	}
	vx.Assert(vc.HasQuorumForAny(0, Prevote) == (voted >= 3), "quorum-for-any-iff-more-than-two-thirds-voted")
}

// C12-H10: the quorum and f+1 thresholds are those of the CURRENT height's validator set. The total voting
// power changes from height to height (validators join and leave); after StartNewHeight - once or twice, i.e.
// after commits - a set of votes is a quorum exactly when its power reaches ceil(2N/3) for the total power N OF
// THAT HEIGHT (the threshold the property names; two such quorums share more than f = floor((N-1)/3): C12-H1). Validators have power 1; the number of
// validators at heights 5, 6, 7 is symbolic (1..7 each); k validators of the current height's set send the
// same prevote.
type vxcGrowing struct{ n [3]uint64 }

func (g vxcGrowing) size(h types.Height) uint64 {
	if h < 5 {
		return g.n[0]
	}
	if h > 7 {
		return g.n[2]
	}
	return g.n[h-5]
}
func (g vxcGrowing) TotalVotingPower(h types.Height) types.VotingPower {
	return types.VotingPower(g.size(h))
}
func (g vxcGrowing) ValidatorVotingPower(h types.Height, a *vxcA) types.VotingPower {
	if (*a)[0] < g.size(h) {
		return 1
	}
	return 0
}
func (g vxcGrowing) Proposer(_ types.Height, r types.Round) vxcA { return vxcA{uint64(r) % 7} }

func VxC12ThresholdsFollowTheValidatorSetOfTheHeight() {
	vx.Bound("validators of power 1; set sizes at heights 5,6,7 symbolic in 1..7; counter built at height 5 and advanced 0..2 heights; k = 0..7 validators of the current set prevote the same value in round 0")
	var g vxcGrowing
	for i := range g.n {
		g.n[i] = vx.U64("validators")
		vx.Assume(g.n[i] >= 1 && g.n[i] <= 7)
	}
	vc := New[vxcV, vxcH, vxcA](g, 5)
	adv := vx.Choice("heights-advanced", 3)
	for i := 0; i < adv; i++ {
		vc.StartNewHeight()
	}
	h := types.Height(5 + adv)
	n := g.size(h)
	if adv > 0 && n != g.size(h-1) {
		vx.Cover("validator-set-changed-since-the-previous-height")
	}
	id := vxcH{1}
	k := uint64(vx.Choice("voters", 8))
	vx.Assume(k <= n)
	for s := uint64(0); s < k; s++ {
		pv := &types.Prevote[vxcH, vxcA]{MessageHeader: types.MessageHeader[vxcA]{Height: h, Round: 0, Sender: vxcA{s}}, ID: &id}
		vx.Assert(vc.AddPrevote(pv), "vote-of-a-validator-of-the-height-is-counted")
	}
	vx.Assert(vc.HasQuorumForVote(0, Prevote, &id) == (3*k >= 2*n), "quorum-is-two-thirds-of-the-power-of-the-current-height")
	vx.Assert(vc.HasQuorumForAny(0, Prevote) == (3*k >= 2*n), "any-quorum-is-two-thirds-of-the-power-of-the-current-height")
}
