//vx:pkg consensus/tendermint
//vx:include statemachine.go
package tendermint

import (
	"github.com/NethermindEth/juno/consensus/types"
	"github.com/NethermindEth/juno/consensus/types/actions"
	"github.com/NethermindEth/juno/utils/log"
	"github.com/NethermindEth/juno/zzverif/vx"
)

// C12-H9: "every committed value was ... judged valid by the application" - at every height, not only the
// first one the machine was started for. Height 1 is decided the ordinary way (proposal of round 0 or, after
// the round-0 timeouts, of round 1; prevote and precommit quorums from the other validators). The machine
// then runs height 2, where the proposer of a round 0..1 (a validator that may be faulty) proposes a value
// whose validity the application decides symbolically, and all three other validators prevote and precommit
// that value. The node must ask the application about THIS value: if it is invalid the node never prevotes
// it, never precommits it and never commits it, whatever it accepted at the height before; if it is valid the
// height is decided. Nothing the machine learned at one height (locks, valid values, round flags, cached
// judgements) may leak into the next.
func VxC12ValidityJudgedAtEveryHeight() {
	vx.Bound("N=4 validators, node 1; height 1 decided in round 0 or 1 on a valid value; height 2: proposal of round 0..1 by that round's proposer with a value of symbolic validity, prevotes and precommits for it from validators 0,2,3")
	const node = uint64(1)
	app := &vxApp{next: vxV{1}}
	app.valid[1] = true
	app.valid[2] = vx.Bool("second-height-value-is-valid")
	sm := New[vxV, vxH, vxA](log.NewNopZapLogger(), vxA{node}, app, vxVals{}, types.Height(1)).(*vxSM)

	others := []uint64{0, 2, 3}
	run := func(h types.Height, r types.Round, v vxV) (prevoted, precommitted, committed bool) {
		id := v.Hash()
		note := func(acts []vxAct) {
			for _, a := range acts {
				switch x := a.(type) {
				case *actions.BroadcastPrevote[vxH, vxA]:
					if x.Height == h && x.ID != nil && *x.ID == id {
						prevoted = true
					}
				case *actions.BroadcastPrecommit[vxH, vxA]:
					if x.Height == h && x.ID != nil && *x.ID == id {
						precommitted = true
					}
				case *actions.Commit[vxV, vxH, vxA]:
					if x.Height == h && x.Value != nil && x.Value.Hash() == id {
						committed = true
					}
				}
			}
		}
		note(sm.ProcessStart(0))
		for cur := types.Round(0); cur < r; cur++ {
			// nobody proposes in the earlier rounds: the node's timeouts move it on, the others' nil votes
			// and the round-skip rule do the rest
			note(sm.ProcessTimeout(types.Timeout{Step: types.StepPropose, Height: h, Round: cur}))
			for _, s := range others {
				hdr := types.MessageHeader[vxA]{Height: h, Round: cur, Sender: vxA{s}}
				note(sm.ProcessPrevote(&types.Prevote[vxH, vxA]{MessageHeader: hdr}))
			}
			for _, s := range others {
				hdr := types.MessageHeader[vxA]{Height: h, Round: cur, Sender: vxA{s}}
				note(sm.ProcessPrecommit(&types.Precommit[vxH, vxA]{MessageHeader: hdr}))
			}
			note(sm.ProcessTimeout(types.Timeout{Step: types.StepPrecommit, Height: h, Round: cur}))
		}
		if sm.state.height != h {
			return
		}
		vx.Assert(sm.state.round == r, "setup-reaches-the-round")
		prop := vxVals{}.Proposer(h, r)
		if prop[0] != node {
			vv := v
			note(sm.ProcessProposal(&types.Proposal[vxV, vxH, vxA]{
				MessageHeader: types.MessageHeader[vxA]{Height: h, Round: r, Sender: prop}, ValidRound: -1, Value: &vv}))
		}
		for _, s := range others {
			hdr := types.MessageHeader[vxA]{Height: h, Round: r, Sender: vxA{s}}
			note(sm.ProcessPrevote(&types.Prevote[vxH, vxA]{MessageHeader: hdr, ID: &id}))
		}
		for _, s := range others {
			hdr := types.MessageHeader[vxA]{Height: h, Round: r, Sender: vxA{s}}
			note(sm.ProcessPrecommit(&types.Precommit[vxH, vxA]{MessageHeader: hdr, ID: &id}))
		}
		return
	}

	r1 := types.Round(vx.Choice("first-height-round", 2))
	// round 1's proposer is the node itself: it proposes the application's value {1}
	_, _, c1 := run(1, r1, vxV{1})
	vx.Assert(c1 && sm.state.height == 2, "first-height-decided-on-the-valid-value")
	if !c1 {
		return
	}
	vx.Assert(sm.state.lockedRound == -1 && sm.state.lockedValue == nil && sm.state.validRound == -1 && sm.state.validValue == nil,
		"lock-and-valid-value-reset-for-the-next-height")
	app.next = vxV{2}
	r2 := types.Round(vx.Choice("second-height-round", 2))
	if r2 == 1 {
		// the node itself proposes in round 1; it takes the application's own (by definition valid) value
		vx.Assume(app.valid[2])
	}
	pv, pc, cm := run(2, r2, vxV{2})
	if app.valid[2] {
		vx.Cover("second-height-value-valid")
		vx.Assert(cm, "valid-value-with-quorums-is-decided")
	} else {
		vx.Cover("second-height-value-invalid")
		vx.Assert(!pv, "node-never-prevotes-a-value-the-application-rejects")
		vx.Assert(!pc, "node-never-precommits-a-value-the-application-rejects")
		vx.Assert(!cm, "node-never-commits-a-value-the-application-rejects")
	}
}
