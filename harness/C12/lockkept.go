//vx:pkg consensus/tendermint
//vx:include statemachine.go
package tendermint

import (
	"github.com/NethermindEth/juno/consensus/types"
	"github.com/NethermindEth/juno/consensus/types/actions"
	"github.com/NethermindEth/juno/utils/log"
	"github.com/NethermindEth/juno/zzverif/vx"
)

// C12-H8: a lock is only ever replaced by a newer lock. This is the inductive step behind "never prevotes a
// value conflicting with its lock unless the unlock condition holds": the lock rule of lines 22/28 (C12-H3)
// reads (lockedValue, lockedRound), so agreement needs those to stay put between the round in which the node
// precommitted a value and any later round - through nil polkas, timeouts, round changes and stray messages.
// The machine is put in an arbitrary round 0..2 and step of height 1 with an arbitrary lock (none, or value
// 1..2 locked in a round <= the current one); the vote counter holds a context of 0..2 prevotes of the current
// round (all nil or all for one value, from validators 2 and 3) and optionally the current round's proposal;
// one arbitrary input is processed (timeout of any kind and round, proposal, prevote or precommit of any
// round). Afterwards, unless the height was decided: the lock is unchanged, or it was replaced by a lock taken
// in the current round (lockedRound' = round' > lockedRound) on a value for which the node sent a precommit
// in that very step (line 36-43).
func VxC12LockOnlyReplacedByNewerLock() {
	vx.Bound("N=4 validators, node 1, height 1; machine in an arbitrary round 0..2 and step with an arbitrary lock (none | value 1..2 at a round <= current); context: 0..2 prevotes of the current round (nil or one value) from validators 2,3 and optionally the current round's proposal (value 1..2, valid round -1..round-1); one arbitrary input (timeout step/round 0..2, or proposal/prevote/precommit with rounds 0..2, nil or values 1..2)")
	const h = types.Height(1)
	const node = uint64(1)
	app := &vxApp{next: vxV{1}}
	app.valid[1], app.valid[2] = true, true
	sm := New[vxV, vxH, vxA](log.NewNopZapLogger(), vxA{node}, app, vxVals{}, h).(*vxSM)
	sm.isHeightStarted = true
	r0 := vxRound("round")
	s0 := types.Step(vx.U8("step"))
	vx.Assume(s0 <= 2)
	sm.state.round, sm.state.step = r0, s0
	lr := types.Round(vx.I64("lockedRound"))
	vx.Assume(lr >= -1 && lr <= r0)
	var lv uint64
	sm.state.lockedRound = lr
	if lr >= 0 {
		lv = vxValueK("lockedValue")
		sm.state.lockedValue = &vxV{lv}
		// a node that locked in the current round has precommitted in it
		vx.Assume(lr < r0 || s0 == types.StepPrecommit)
		// the valid value is at least as recent as the lock
		sm.state.validRound = lr
		sm.state.validValue = &vxV{lv}
		vx.Cover("node-holds-a-lock")
	}
	// context
	var ctxID *vxH
	if vx.Choice("ctx.hasid", 2) == 1 {
		ctxID = &vxH{vxValueK("ctx.id")}
	}
	nv := vx.Choice("ctx.prevotes", 3)
	for i := 0; i < nv; i++ {
		pv := &types.Prevote[vxH, vxA]{MessageHeader: types.MessageHeader[vxA]{Height: h, Round: r0, Sender: vxA{uint64(2 + i)}}, ID: ctxID}
		vx.Assert(sm.voteCounter.AddPrevote(pv), "setup")
	}
	ctxProposal := vx.Choice("ctx.proposal", 2) == 1
	if ctxProposal {
		v := vxV{vxValueK("ctx.value")}
		vr := types.Round(vx.I64("ctx.vr"))
		vx.Assume(vr >= -1 && vr < r0)
		snd := vxVals{}.Proposer(h, r0)
		vx.Assume(snd[0] != node)
		p := &types.Proposal[vxV, vxH, vxA]{MessageHeader: types.MessageHeader[vxA]{Height: h, Round: r0, Sender: snd}, ValidRound: vr, Value: &v}
		vx.Assert(sm.voteCounter.AddProposal(p), "setup")
	}

	var acts []vxAct
	switch vx.Choice("kind", 4) {
	case 0:
		ts := types.Step(vx.U8("t.step"))
		vx.Assume(ts <= 2)
		acts = sm.ProcessTimeout(types.Timeout{Step: ts, Height: h, Round: vxRound("t.round")})
	case 1:
		r := vxRound("p.round")
		vx.Assume(!(ctxProposal && r == r0))
		v := vxV{vxValueK("p.value")}
		vr := types.Round(vx.I64("p.vr"))
		vx.Assume(vr >= -1 && vr < r)
		p := &types.Proposal[vxV, vxH, vxA]{
			MessageHeader: types.MessageHeader[vxA]{Height: h, Round: r, Sender: vxVals{}.Proposer(h, r)},
			ValidRound:    vr, Value: &v,
		}
		vx.Assume(p.Sender[0] != node)
		acts = sm.ProcessProposal(p)
	default:
		r := vxRound("v.round")
		var id *vxH
		if vx.Choice("v.hasid", 2) == 1 {
			id = &vxH{vxValueK("v.id")}
		}
		hdr := types.MessageHeader[vxA]{Height: h, Round: r, Sender: vxA{0}}
		if vx.Choice("v.kind", 2) == 0 {
			acts = sm.ProcessPrevote(&types.Prevote[vxH, vxA]{MessageHeader: hdr, ID: id})
		} else {
			acts = sm.ProcessPrecommit(&types.Precommit[vxH, vxA]{MessageHeader: hdr, ID: id})
		}
	}
	if sm.state.height != h {
		return
	}
	for _, a := range acts {
		if pc, ok := a.(*actions.BroadcastPrecommit[vxH, vxA]); ok && pc.ID == nil {
			vx.Cover("nil-precommit-sent")
		}
	}
	// lines 36-41 the other way round: whenever the node precommits a value in this step, it holds a lock on
	// exactly that value AT THE ROUND OF THE PRECOMMIT afterwards - also when it was already locked on the same
	// value from an earlier round (a lock that keeps its old round would be released by a later proposal
	// whose valid round lies between the two, line 28)
	for _, a := range acts {
		if pc, ok := a.(*actions.BroadcastPrecommit[vxH, vxA]); ok && pc.ID != nil {
			vx.Cover("value-precommit-sent")
			vx.Assert(sm.state.lockedRound == pc.Round && sm.state.lockedValue != nil && (*sm.state.lockedValue)[0] == (*pc.ID)[0],
				"precommit-for-a-value-locks-it-at-the-round-of-the-precommit")
			if lr >= 0 && lv == (*pc.ID)[0] {
				vx.Cover("relock-on-the-value-already-locked")
			}
		}
	}
	lr1 := sm.state.lockedRound
	unchanged := lr1 == lr && (lr < 0 || (sm.state.lockedValue != nil && (*sm.state.lockedValue)[0] == lv))
	if lr < 0 {
		unchanged = unchanged && sm.state.lockedValue == nil
	}
	if unchanged {
		vx.Cover("lock-unchanged")
		return
	}
	vx.Cover("lock-replaced")
	newer := lr1 > lr && lr1 == sm.state.round && sm.state.lockedValue != nil
	vx.Assert(newer, "lock-only-replaced-by-a-lock-of-the-current-round")
	if !newer {
		return
	}
	sent := false
	for _, a := range acts {
		if pc, ok := a.(*actions.BroadcastPrecommit[vxH, vxA]); ok && pc.Round == lr1 && pc.ID != nil && (*pc.ID)[0] == (*sm.state.lockedValue)[0] {
			sent = true
		}
	}
	vx.Assert(sent, "new-lock-comes-with-a-precommit-for-that-value")
}
