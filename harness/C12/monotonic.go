//vx:pkg consensus/tendermint
//vx:include statemachine.go
package tendermint

import (
	"github.com/NethermindEth/juno/consensus/types"
	"github.com/NethermindEth/juno/utils/log"
	"github.com/NethermindEth/juno/zzverif/vx"
)

// C12-H7: within a height a validator's (round, step) never moves backwards - the inductive step
// behind "at most one prevote and one precommit per (height, round)": a round that has been left, or
// a step that has been taken, is never re-entered, so its vote cannot be cast a second time.
// The machine is put in an arbitrary round 0..2 and step of height 1 (fresh vote counter); one
// arbitrary input (timeout of any kind and round, proposal, prevote or precommit) is processed;
// afterwards either the height advanced, or the round grew, or the round is unchanged and the step
// did not decrease.
func VxC12RoundAndStepNeverMoveBackwards() {
	vx.Bound("N=4 validators, node 1, height 1; machine in an arbitrary round 0..2 and step; one arbitrary input (timeout step/round 0..2, or proposal/prevote/precommit with rounds 0..2, values {1,2})")
	const h = types.Height(1)
	const node = uint64(1)
	app := &vxApp{next: vxV{1}}
	app.valid[1], app.valid[2] = vx.Bool("valid"), vx.Bool("valid")
	sm := New[vxV, vxH, vxA](log.NewNopZapLogger(), vxA{node}, app, vxVals{}, h).(*vxSM)
	sm.isHeightStarted = true
	r0 := vxRound("round")
	s0 := types.Step(vx.U8("step"))
	vx.Assume(s0 <= 2)
	sm.state.round, sm.state.step = r0, s0

	switch vx.Choice("kind", 4) {
	case 0:
		ts := types.Step(vx.U8("t.step"))
		vx.Assume(ts <= 2)
		sm.ProcessTimeout(types.Timeout{Step: ts, Height: h, Round: vxRound("t.round")})
	case 1:
		r := vxRound("p.round")
		v := vxV{vxValueK("p.value")}
		p := &types.Proposal[vxV, vxH, vxA]{
			MessageHeader: types.MessageHeader[vxA]{Height: h, Round: r, Sender: vxVals{}.Proposer(h, r)},
			ValidRound:    -1, Value: &v,
		}
		vx.Assume(p.Sender[0] != node)
		sm.ProcessProposal(p)
	default:
		r := vxRound("v.round")
		snd := vx.U64("v.sender")
		vx.Assume(snd < 4 && snd != node)
		var id *vxH
		if vx.Choice("v.hasid", 2) == 1 {
			id = &vxH{vxValueK("v.id")}
		}
		hdr := types.MessageHeader[vxA]{Height: h, Round: r, Sender: vxA{snd}}
		if vx.Choice("v.kind", 2) == 0 {
			sm.ProcessPrevote(&types.Prevote[vxH, vxA]{MessageHeader: hdr, ID: id})
		} else {
			sm.ProcessPrecommit(&types.Precommit[vxH, vxA]{MessageHeader: hdr, ID: id})
		}
	}
	if sm.state.height != h {
		return // decided: cannot happen from a single input on a fresh vote counter
	}
	r1, s1 := sm.state.round, sm.state.step
	if r1 > r0 {
		vx.Cover("round-advanced")
	}
	vx.Assert(r1 >= r0, "round-never-decreases")
	if r1 == r0 {
		vx.Assert(s1 >= s0, "step-never-decreases-within-a-round")
	}
}
