//vx:pkg blockchain/statebackend
//vx:include ../C05/store.go
package statebackend

import (
	"github.com/NethermindEth/juno/blockchain/networks"
	"github.com/NethermindEth/juno/core"
	"github.com/NethermindEth/juno/core/felt"
	"github.com/NethermindEth/juno/db/memory"
	"github.com/NethermindEth/juno/zzverif/vx"
)

// C04-H6: Store then RevertHead of a block WITH transactions restores the database image, on both
// state backends: the block carries 1..2 transactions, each an invoke or an L1-handler transaction (every
// arrangement), with receipts and one event; after the revert every record the block wrote - header,
// hash mapping, transactions and receipts, the by-hash transaction index, the L1-handler message-hash
// lookup, state update, commitments, event-index entry - is gone and nothing else changed; the lookups a
// user could still try (transaction by hash, L1-handler transaction by message hash) answer not-found.
// The Keccak message hash is replaced inside the engine by an injective stand-in (see vxMsgHash).

func vxMsgHash(l *core.L1HandlerTransaction) []byte {
	out := make([]byte, 32)
	n := l.Nonce.Bytes()
	c := l.CallData[0].Bytes()
	copy(out[0:16], n[16:32])
	copy(out[16:32], c[16:32])
	return out
}

func VxC04StoreRevertWithTransactions() {
	vx.Bound("both state backends; block 5 on a head at 4 (empty state); 1..2 transactions, each invoke or L1 handler, one event in the first receipt; block hash symbolic; Store then RevertHead")
	if vx.InEngine() {
		vx.Stub("(*github.com/NethermindEth/juno/core.L1HandlerTransaction).MessageHash", vxMsgHash)
	}
	const n = uint64(5)
	newState := vx.Choice("backend", 2) == 1
	mem := memory.New()
	parentHash := felt.NewFromUint64[felt.Felt](0x7004)
	parent := &core.Header{Number: n - 1, Hash: parentHash, ProtocolVersion: "0.13.2"}
	vx.Assert(core.WriteBlockHeader(mem, parent) == nil && core.WriteChainHeight(mem, n-1) == nil, "setup")
	inner := core.NewAggregatedFilter(0)
	rf := core.NewRunningEventFilterHot(mem, &inner, n)
	backend := New(mem, rf, &networks.Sepolia, nil, newState)
	hash := vxFeltIn("hash")
	vx.Assume(!hash.IsZero() && !hash.Equal(parentHash))

	ntx := 1 + vx.Choice("ntx", 2)
	var txs []core.Transaction
	var rs []*core.TransactionReceipt
	var l1s []*core.L1HandlerTransaction
	addr := felt.NewFromUint64[felt.Felt](0xA)
	for i := 0; i < ntx; i++ {
		h := felt.NewFromUint64[felt.Felt](9000 + uint64(i))
		if vx.Choice("l1", 2) == 1 {
			tx := &core.L1HandlerTransaction{
				TransactionHash: h, ContractAddress: addr, EntryPointSelector: addr, Nonce: felt.NewFromUint64[felt.Felt](uint64(i)),
				CallData: []felt.Felt{felt.FromUint64[felt.Felt](uint64(i + 1))}, Version: new(core.TransactionVersion),
			}
			txs = append(txs, tx)
			l1s = append(l1s, tx)
			vx.Cover("l1-handler-transaction")
		} else {
			txs = append(txs, &core.InvokeTransaction{TransactionHash: h, Version: new(core.TransactionVersion).SetUint64(1)})
		}
		r := &core.TransactionReceipt{TransactionHash: h, Fee: &felt.Zero}
		if i == 0 {
			r.Events = []*core.Event{{From: addr}}
		}
		rs = append(rs, r)
	}
	block := &core.Block{
		Header: &core.Header{Number: n, Hash: hash, ParentHash: parentHash, ProtocolVersion: "0.13.2",
			TransactionCount: uint64(ntx), EventCount: 1, EventsBloom: core.EventsBloom(rs)},
		Transactions: txs, Receipts: rs,
	}
	diff := core.EmptyStateDiff()
	su := &core.StateUpdate{BlockHash: hash, OldRoot: &felt.Zero, NewRoot: &felt.Zero, StateDiff: &diff}

	before := vxImage(mem)
	vx.Assert(backend.Store(block, &core.BlockCommitments{}, su, nil) == nil, "store-ok")
	for i, tx := range txs {
		got, err := core.GetTransactionByHash(mem, (*felt.TransactionHash)(tx.Hash()))
		vx.Assert(err == nil && got.Hash().Equal(tx.Hash()), "stored-transaction-found-by-hash")
		_ = i
	}
	for _, l := range l1s {
		h, err := core.GetL1HandlerTxnHashByMsgHash(mem, l.MessageHash())
		vx.Assert(err == nil && h.Equal(l.Hash()), "stored-l1-handler-found-by-message-hash")
	}
	vx.Assert(backend.RevertHead() == nil, "revert-ok")
	for _, tx := range txs {
		_, err := core.GetTransactionByHash(mem, (*felt.TransactionHash)(tx.Hash()))
		vx.Assert(err != nil, "reverted-transaction-not-found-by-hash")
	}
	for _, l := range l1s {
		_, err := core.GetL1HandlerTxnHashByMsgHash(mem, l.MessageHash())
		vx.Assert(err != nil, "reverted-l1-handler-not-found-by-message-hash")
	}
	vx.Assert(vxSameImage(before, vxImage(mem)), "store-then-revert-restores-the-database-image")
}
