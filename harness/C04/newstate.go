//vx:pkg core/state
package state

import (
	"bytes"

	"github.com/NethermindEth/juno/core"
	"github.com/NethermindEth/juno/core/felt"
	"github.com/NethermindEth/juno/core/trie2/triedb"
	"github.com/NethermindEth/juno/db"
	"github.com/NethermindEth/juno/db/memory"
	"github.com/NethermindEth/juno/zzverif/vx"
)

// C04-H2 (new state backend): "Reverting the head block succeeds for every block the node was able
// to store, and leaves the node observationally identical to one that never stored it." The real
// State.Update / State.Revert run on the real trie database over the in-memory store. Block 0
// deploys a contract and writes a slot and a nonce; block 1 is an arbitrary diff over that
// contract (storage writes to the written and to a never-written slot with values that may be zero
// or equal to the current value, nonce, class replacement, deployment of a second contract - each
// section present or absent); then block 1 is reverted. The database image (every key and value)
// after the revert must equal the image before block 1, the root must be the old root, and a
// different block 1' must apply on top and give the root a node that never saw block 1 computes.
// Contract addresses and slot keys are fixed (the trie paths are then concrete: the key-dependent
// restructurings are C01's subject); all values are symbolic.

func vxFeltIn(name string) *felt.Felt {
	b := vx.FeltBytes(name)
	return new(felt.Felt).SetBytes(b[:])
}

type vxKV struct{ k, v []byte }

func vxImage(d *memory.Database) []vxKV {
	it, err := d.NewIterator(nil, false)
	vx.Assert(err == nil, "iterate")
	var out []vxKV
	for ok := it.First(); ok; ok = it.Next() {
		v, verr := it.Value()
		vx.Assert(verr == nil, "iterate")
		out = append(out, vxKV{append([]byte(nil), it.Key()...), append([]byte(nil), v...)})
	}
	_ = it.Close()
	return out
}

// vxIsTrieNode: path-keyed trie node records. A node that no parent references is not observable
// through any query (tries are only read from the root down), so records left behind there are
// outside the property; all other buckets (contract records, history logs, classes) are read by
// key and must be restored exactly.
func vxIsTrieNode(k []byte) bool {
	return len(k) > 0 && (k[0] == byte(db.ClassTrie) || k[0] == byte(db.ContractTrieContract) || k[0] == byte(db.ContractTrieStorage))
}

func vxCompareImages(before, after []vxKV) {
	find := func(img []vxKV, k []byte) ([]byte, bool) {
		for _, e := range img {
			if bytes.Equal(e.k, k) {
				return e.v, true
			}
		}
		return nil, false
	}
	for _, e := range before {
		v, ok := find(after, e.k)
		vx.Assert(ok, "no-record-lost-by-store-then-revert")
		if ok {
			vx.Assert(bytes.Equal(v, e.v), "every-record-restored-to-its-value-before-the-block")
		}
	}
	for _, e := range after {
		_, ok := find(before, e.k)
		if vxIsTrieNode(e.k) {
			// since fix KF-C03-1 removed leaves are really removed: no trie-node record may stay behind
			// either (the new backend's head read fetches leaves by path, so a stale leaf IS observable)
			vx.Assert(ok, "no-trie-node-record-left-behind-by-the-reverted-block")
			continue
		}
		vx.Assert(ok, "no-keyed-record-left-behind-by-the-reverted-block")
	}
}

func vxApply(sdb *StateDB, d *memory.Database, root *felt.Felt, num uint64, diff *core.StateDiff) (felt.Felt, error) {
	batch := d.NewBatch()
	st, err := New(root, sdb, batch)
	vx.Assert(err == nil, "state-opens")
	su := &core.StateUpdate{OldRoot: root, StateDiff: diff}
	if err := st.Update(&core.Header{Number: num}, su, nil, true); err != nil {
		return felt.Felt{}, err
	}
	vx.Assert(batch.Write() == nil, "commit")
	return st.Commitment("")
}

func vxBlock1(tag string, a1, a2, slotW, slotN *felt.Felt) core.StateDiff {
	diff := core.EmptyStateDiff()
	if vx.Bool(tag + "hasStorage") {
		m := map[felt.Felt]*felt.Felt{}
		if vx.Bool(tag + "writesWrittenSlot") {
			m[*slotW] = vxFeltIn(tag + "w")
		}
		if vx.Bool(tag + "writesFreshSlot") {
			m[*slotN] = vxFeltIn(tag + "n")
		}
		diff.StorageDiffs[*a1] = m
	}
	if vx.Bool(tag + "hasNonce") {
		diff.Nonces[*a1] = vxFeltIn(tag + "nonce")
	}
	if vx.Bool(tag + "hasReplaced") {
		diff.ReplacedClasses[*a1] = vxFeltIn(tag + "class")
	}
	if vx.Bool(tag + "hasDeployed") {
		diff.DeployedContracts[*a2] = vxFeltIn(tag + "deployedclass")
		if vx.Bool(tag + "deployedNonce") { // a deploy-account transaction also bumps the new account's nonce
			diff.Nonces[*a2] = vxFeltIn(tag + "nonceB")
		}
	}
	return diff
}

func VxC04NewStateUpdateRevert() {
	vx.Bound("block 0: deploy contract A, write one slot and the nonce (values symbolic, non-zero); block 1: sections {storage (written slot, never-written slot), nonce, replaced class, deployment of B} each present or absent, every value symbolic (zero and unchanged values included); revert of block 1; then a second arbitrary block 1'. Addresses/slots fixed.")
	// ideal hashes: no collisions and never zero (a contract commitment that hashes to zero would
	// read as "delete this leaf"), for every hash computed from here on
	vx.CollisionFree()
	d := memory.New()
	sdb := NewStateDB(d, triedb.New(d, nil))
	a1 := felt.NewFromUint64[felt.Felt](0x1000)
	a2 := felt.NewFromUint64[felt.Felt](0x2000)
	slotW := felt.NewFromUint64[felt.Felt](0x20)
	slotN := felt.NewFromUint64[felt.Felt](0x21)

	diff0 := core.EmptyStateDiff()
	c0, v0, n0 := vxFeltIn("class0"), vxFeltIn("val0"), vxFeltIn("nonce0")
	vx.Assume(!v0.IsZero() && !c0.IsZero())
	diff0.DeployedContracts[*a1] = c0
	diff0.StorageDiffs[*a1] = map[felt.Felt]*felt.Felt{*slotW: v0}
	diff0.Nonces[*a1] = n0
	r0, err := vxApply(sdb, d, &felt.Zero, 0, &diff0)
	vx.Assert(err == nil, "block-0-stores")
	before := vxImage(d)

	diff1 := vxBlock1("b1.", a1, a2, slotW, slotN)
	r1, err := vxApply(sdb, d, &r0, 1, &diff1)
	vx.Assert(err == nil, "block-1-stores")
	if err != nil {
		return
	}
	if w, ok := diff1.StorageDiffs[*a1][*slotN]; ok && w.IsZero() {
		vx.Cover("zero-written-to-never-written-slot")
	}
	if w, ok := diff1.StorageDiffs[*a1][*slotW]; ok && w.Equal(v0) {
		vx.Cover("opt:unchanged-value-written")
	}
	if len(diff1.ReplacedClasses) > 0 {
		vx.Cover("class-replaced")
	}
	if len(diff1.DeployedContracts) > 0 {
		vx.Cover("contract-deployed")
	}

	// revert block 1
	batch := d.NewBatch()
	st, err := New(&r1, sdb, batch)
	vx.Assert(err == nil, "state-opens")
	su1 := &core.StateUpdate{OldRoot: &r0, NewRoot: &r1, StateDiff: &diff1}
	rerr := st.Revert(&core.Header{Number: 1}, su1)
	vx.Assert(rerr == nil, "revert-succeeds-for-every-storable-block")
	if rerr != nil {
		return
	}
	vx.Assert(batch.Write() == nil, "commit")
	after := vxImage(d)
	vxCompareImages(before, after)

	// head state answers as before block 1
	sr, err := NewStateReader(&r0, sdb)
	vx.Assert(err == nil, "reader-opens-at-old-root")
	if err != nil {
		return
	}
	gv, e1 := sr.ContractStorage(a1, slotW)
	gn, e2 := sr.ContractNonce(a1)
	gc, e3 := sr.ContractClassHash(a1)
	vx.Assert(e1 == nil && e2 == nil && e3 == nil && gv.Equal(v0) && gn.Equal(n0) && gc.Equal(c0), "head-state-restored")
}

// C04-H2b: "a node that followed one fork, reverted it and then followed another is
// indistinguishable from a node that followed the second fork directly."
func VxC04NewStateForkConvergence() {
	vx.Bound("block 0 as above; fork A = block 1 with every section present (values symbolic); revert; fork B = arbitrary block 1' (sections present or absent, values symbolic); compared with a second node that stored block 0 and block 1' only: state root, head reads, and every keyed record")
	vx.CollisionFree()
	a1 := felt.NewFromUint64[felt.Felt](0x1000)
	a2 := felt.NewFromUint64[felt.Felt](0x2000)
	slotW := felt.NewFromUint64[felt.Felt](0x20)
	slotN := felt.NewFromUint64[felt.Felt](0x21)
	c0, v0, n0 := vxFeltIn("class0"), vxFeltIn("val0"), vxFeltIn("nonce0")
	vx.Assume(!v0.IsZero() && !c0.IsZero())
	mk0 := func() core.StateDiff {
		diff0 := core.EmptyStateDiff()
		diff0.DeployedContracts[*a1] = c0
		diff0.StorageDiffs[*a1] = map[felt.Felt]*felt.Felt{*slotW: v0}
		diff0.Nonces[*a1] = n0
		return diff0
	}
	// node 1: block 0, fork A, revert, fork B
	d := memory.New()
	sdb := NewStateDB(d, triedb.New(d, nil))
	diff0 := mk0()
	r0, err := vxApply(sdb, d, &felt.Zero, 0, &diff0)
	vx.Assert(err == nil, "block-0-stores")
	diffA := core.EmptyStateDiff()
	diffA.StorageDiffs[*a1] = map[felt.Felt]*felt.Felt{*slotW: vxFeltIn("A.w"), *slotN: vxFeltIn("A.n")}
	diffA.Nonces[*a1] = vxFeltIn("A.nonce")
	diffA.ReplacedClasses[*a1] = vxFeltIn("A.class")
	diffA.DeployedContracts[*a2] = vxFeltIn("A.deployedclass")
	rA, err := vxApply(sdb, d, &r0, 1, &diffA)
	vx.Assert(err == nil, "fork-A-stores")
	if err != nil {
		return
	}
	batch := d.NewBatch()
	st, err := New(&rA, sdb, batch)
	vx.Assert(err == nil, "state-opens")
	rerr := st.Revert(&core.Header{Number: 1}, &core.StateUpdate{OldRoot: &r0, NewRoot: &rA, StateDiff: &diffA})
	vx.Assert(rerr == nil, "revert-succeeds-for-every-storable-block")
	if rerr != nil {
		return
	}
	vx.Assert(batch.Write() == nil, "commit")
	diffB := vxBlock1("B.", a1, a2, slotW, slotN)
	rB, err := vxApply(sdb, d, &r0, 1, &diffB)
	vx.Assert(err == nil, "fork-B-stores-after-the-revert")
	if err != nil {
		return
	}
	// node 2: block 0, fork B
	d2 := memory.New()
	sdb2 := NewStateDB(d2, triedb.New(d2, nil))
	diff02 := mk0()
	r02, err := vxApply(sdb2, d2, &felt.Zero, 0, &diff02)
	vx.Assert(err == nil && r02.Equal(&r0), "second-node-block-0")
	rB2, err := vxApply(sdb2, d2, &r02, 1, &diffB)
	vx.Assert(err == nil, "second-node-fork-B")
	vx.Assert(rB.Equal(&rB2), "same-state-root-as-a-node-that-never-saw-fork-A")
	img1, img2 := vxImage(d), vxImage(d2)
	vxCompareImages(img2, img1)
}


// C04-H2c (new backend, system contracts): see VxC04LegacySystemContractsRevert.
func VxC04NewStateSystemContractsRevert() {
	vx.Bound("new backend; block 0 deploys an ordinary contract; block 1 writes one slot (symbolic non-zero value) of system contract 0x1, of 0x2, or of both; revert of block 1")
	vx.CollisionFree()
	d := memory.New()
	sdb := NewStateDB(d, triedb.New(d, nil))
	a1 := felt.NewFromUint64[felt.Felt](0x1000)
	slot := felt.NewFromUint64[felt.Felt](0x20)
	diff0 := core.EmptyStateDiff()
	diff0.DeployedContracts[*a1] = felt.NewFromUint64[felt.Felt](0xC1)
	r0, err := vxApply(sdb, d, &felt.Zero, 0, &diff0)
	vx.Assert(err == nil, "block-0-stores")
	before := vxImage(d)
	diff1 := core.EmptyStateDiff()
	which := 1 + vx.Choice("sysWrite", 3)
	if which&1 != 0 {
		v := vxFeltIn("sys1")
		vx.Assume(!v.IsZero())
		diff1.StorageDiffs[*felt.NewFromUint64[felt.Felt](1)] = map[felt.Felt]*felt.Felt{*slot: v}
	}
	if which&2 != 0 {
		v := vxFeltIn("sys2")
		vx.Assume(!v.IsZero())
		diff1.StorageDiffs[*felt.NewFromUint64[felt.Felt](2)] = map[felt.Felt]*felt.Felt{*slot: v}
	}
	r1, err := vxApply(sdb, d, &r0, 1, &diff1)
	vx.Assert(err == nil, "block-1-stores")
	batch := d.NewBatch()
	st, err := New(&r1, sdb, batch)
	vx.Assert(err == nil, "state-opens")
	vx.Assert(st.Revert(&core.Header{Number: 1}, &core.StateUpdate{OldRoot: &r0, NewRoot: &r1, StateDiff: &diff1}) == nil, "revert-succeeds-for-every-storable-block")
	vx.Assert(batch.Write() == nil, "commit")
	vxCompareImages(before, vxImage(d))
}

// C04-H2d (new backend): a contract that a reverted block deployed *with storage* is deployed again
// by the replacement block with different storage. Everything the reverted block left under the
// contract's storage-trie prefix must be gone, or the replacement's storage root is built on top of
// stale nodes. The deployed address is an ordinary one or one ending in 0xff (the successor of its key
// prefix carries into the previous byte - the range delete over the prefix has to get that right).
func VxC04RedeployAfterRevert() {
	vx.Bound("new backend; block 0 deploys contract A with one slot; fork A = block 1 deploying contract B (address 0x2000, 0x20ff or 0xffff) with 1..2 storage slots and optionally a nonce; revert; fork B = block 1' deploying B again with a different / overlapping / no storage slot; compared with a node that only ever stored block 0 and block 1'. Values symbolic, addresses and slots from a fixed alphabet.")
	vx.CollisionFree()
	a1 := felt.NewFromUint64[felt.Felt](0x1000)
	var a2 *felt.Felt
	switch vx.Choice("deployedAddress", 3) {
	case 0:
		a2 = felt.NewFromUint64[felt.Felt](0x2000)
	case 1:
		a2 = felt.NewFromUint64[felt.Felt](0x20ff)
		vx.Cover("deployed-address-ends-in-0xff")
	default:
		a2 = felt.NewFromUint64[felt.Felt](0xffff)
		vx.Cover("deployed-address-ends-in-0xffff")
	}
	slotW := felt.NewFromUint64[felt.Felt](0x20)
	slotN := felt.NewFromUint64[felt.Felt](0x21)
	c0, v0 := vxFeltIn("class0"), vxFeltIn("val0")
	vx.Assume(!v0.IsZero() && !c0.IsZero())
	mk0 := func() core.StateDiff {
		diff0 := core.EmptyStateDiff()
		diff0.DeployedContracts[*a1] = c0
		diff0.StorageDiffs[*a1] = map[felt.Felt]*felt.Felt{*slotW: v0}
		return diff0
	}
	d := memory.New()
	sdb := NewStateDB(d, triedb.New(d, nil))
	diff0 := mk0()
	r0, err := vxApply(sdb, d, &felt.Zero, 0, &diff0)
	vx.Assert(err == nil, "block-0-stores")
	before := vxImage(d)

	diffA := core.EmptyStateDiff()
	diffA.DeployedContracts[*a2] = vxFeltIn("A.class")
	av := vxFeltIn("A.v")
	vx.Assume(!av.IsZero())
	diffA.StorageDiffs[*a2] = map[felt.Felt]*felt.Felt{*slotW: av}
	if vx.Bool("A.twoSlots") {
		av2 := vxFeltIn("A.v2")
		vx.Assume(!av2.IsZero())
		diffA.StorageDiffs[*a2][*slotN] = av2
	}
	if vx.Bool("A.nonce") {
		diffA.Nonces[*a2] = vxFeltIn("A.nonceB")
	}
	rA, err := vxApply(sdb, d, &r0, 1, &diffA)
	vx.Assert(err == nil, "fork-A-stores")
	if err != nil {
		return
	}
	batch := d.NewBatch()
	st, err := New(&rA, sdb, batch)
	vx.Assert(err == nil, "state-opens")
	rerr := st.Revert(&core.Header{Number: 1}, &core.StateUpdate{OldRoot: &r0, NewRoot: &rA, StateDiff: &diffA})
	vx.Assert(rerr == nil, "revert-succeeds-for-every-storable-block")
	if rerr != nil {
		return
	}
	vx.Assert(batch.Write() == nil, "commit")
	vxCompareImages(before, vxImage(d))
	// nothing may be left under the storage-trie prefix of the purged contract: a later deployment of the
	// same address opens its storage trie at that prefix
	for _, e := range vxImage(d) {
		if len(e.k) > 0 && e.k[0] == byte(db.ContractTrieStorage) {
			ab := a2.Bytes()
			vx.Assert(!(len(e.k) >= 1+len(ab) && bytes.Equal(e.k[1:1+len(ab)], ab[:])), "no-storage-node-of-the-purged-contract-left-behind")
		}
	}

	diffB := core.EmptyStateDiff()
	diffB.DeployedContracts[*a2] = vxFeltIn("B.class")
	switch vx.Choice("B.storage", 3) {
	case 0:
		vx.Cover("redeployed-without-storage")
	case 1:
		bv := vxFeltIn("B.v")
		vx.Assume(!bv.IsZero())
		diffB.StorageDiffs[*a2] = map[felt.Felt]*felt.Felt{*slotN: bv}
		vx.Cover("redeployed-with-a-different-slot")
	default:
		bv := vxFeltIn("B.v")
		vx.Assume(!bv.IsZero())
		diffB.StorageDiffs[*a2] = map[felt.Felt]*felt.Felt{*slotW: bv}
		vx.Cover("redeployed-with-the-same-slot")
	}
	rB, err := vxApply(sdb, d, &r0, 1, &diffB)
	vx.Assert(err == nil, "fork-B-stores-after-the-revert")
	if err != nil {
		return
	}
	d2 := memory.New()
	sdb2 := NewStateDB(d2, triedb.New(d2, nil))
	diff02 := mk0()
	r02, err := vxApply(sdb2, d2, &felt.Zero, 0, &diff02)
	vx.Assert(err == nil && r02.Equal(&r0), "second-node-block-0")
	rB2, err := vxApply(sdb2, d2, &r02, 1, &diffB)
	vx.Assert(err == nil, "second-node-fork-B")
	vx.Assert(rB.Equal(&rB2), "same-state-root-as-a-node-that-never-saw-fork-A")
	sr, err := NewStateReader(&rB, sdb)
	vx.Assert(err == nil, "reader-opens-at-the-new-root")
	if err == nil {
		gv, e1 := sr.ContractStorage(a2, slotW)
		want := felt.Zero
		if w, ok := diffB.StorageDiffs[*a2][*slotW]; ok {
			want = *w
		}
		vx.Assert(e1 == nil && gv.Equal(&want), "redeployed-contract-reads-only-what-the-replacement-block-wrote")
	}
}

// C04-H2e (new backend): a block that touches SEVERAL contracts in the same section - two class
// replacements, two nonce updates, storage writes in two contracts - is undone contract by contract: each
// gets back ITS OWN previous class / nonce / value (the reverse diff is built in loops over maps; a value
// shared between iterations restores one contract's old value into all of them).
func VxC04RevertRestoresEveryContractsOwnValues() {
	vx.Bound("new backend; block 0 deploys contracts A and B with different symbolic classes, nonces and one storage slot each; block 1 replaces the class of both, sets the nonce of both and overwrites the slot of both (each section present or absent; values symbolic); reverse diff inspected; revert; database image and head reads compared with the state before block 1")
	vx.CollisionFree()
	d := memory.New()
	sdb := NewStateDB(d, triedb.New(d, nil))
	a1 := felt.NewFromUint64[felt.Felt](0x1000)
	a2 := felt.NewFromUint64[felt.Felt](0x2000)
	slot := felt.NewFromUint64[felt.Felt](0x20)
	cA, cB := vxFeltIn("classA"), vxFeltIn("classB")
	nA, nB := vxFeltIn("nonceA"), vxFeltIn("nonceB")
	vA, vB := vxFeltIn("valA"), vxFeltIn("valB")
	vx.Assume(!cA.IsZero() && !cB.IsZero() && !cA.Equal(cB) && !nA.Equal(nB) && !vA.IsZero() && !vB.IsZero() && !vA.Equal(vB))
	diff0 := core.EmptyStateDiff()
	diff0.DeployedContracts[*a1], diff0.DeployedContracts[*a2] = cA, cB
	diff0.Nonces[*a1], diff0.Nonces[*a2] = nA, nB
	diff0.StorageDiffs[*a1] = map[felt.Felt]*felt.Felt{*slot: vA}
	diff0.StorageDiffs[*a2] = map[felt.Felt]*felt.Felt{*slot: vB}
	r0, err := vxApply(sdb, d, &felt.Zero, 0, &diff0)
	vx.Assert(err == nil, "block-0-stores")
	before := vxImage(d)

	diff1 := core.EmptyStateDiff()
	if vx.Bool("replacesBothClasses") {
		diff1.ReplacedClasses[*a1], diff1.ReplacedClasses[*a2] = vxFeltIn("b1.classA"), vxFeltIn("b1.classB")
		vx.Cover("two-classes-replaced-in-one-block")
	}
	if vx.Bool("setsBothNonces") {
		diff1.Nonces[*a1], diff1.Nonces[*a2] = vxFeltIn("b1.nonceA"), vxFeltIn("b1.nonceB")
		vx.Cover("two-nonces-set-in-one-block")
	}
	if vx.Bool("writesBothSlots") {
		diff1.StorageDiffs[*a1] = map[felt.Felt]*felt.Felt{*slot: vxFeltIn("b1.valA")}
		diff1.StorageDiffs[*a2] = map[felt.Felt]*felt.Felt{*slot: vxFeltIn("b1.valB")}
		vx.Cover("two-contracts-written-in-one-block")
	}
	r1, err := vxApply(sdb, d, &r0, 1, &diff1)
	vx.Assert(err == nil, "block-1-stores")
	if err != nil {
		return
	}
	// the reverse diff the node reports for block 1 names each contract's own previous values
	sr1, err := NewStateReader(&r1, sdb)
	vx.Assert(err == nil, "reader-opens")
	rev, err := sr1.GetReverseStateDiff(1, &diff1)
	vx.Assert(err == nil, "reverse-diff-computable")
	if err == nil {
		if len(diff1.ReplacedClasses) > 0 {
			vx.Assert(rev.ReplacedClasses[*a1].Equal(cA) && rev.ReplacedClasses[*a2].Equal(cB), "reverse-diff-names-each-contracts-own-previous-class")
		}
		if len(diff1.Nonces) > 0 {
			vx.Assert(rev.Nonces[*a1].Equal(nA) && rev.Nonces[*a2].Equal(nB), "reverse-diff-names-each-contracts-own-previous-nonce")
		}
		if len(diff1.StorageDiffs) > 0 {
			vx.Assert(rev.StorageDiffs[*a1][*slot].Equal(vA) && rev.StorageDiffs[*a2][*slot].Equal(vB), "reverse-diff-names-each-contracts-own-previous-value")
		}
	}
	batch := d.NewBatch()
	st, err := New(&r1, sdb, batch)
	vx.Assert(err == nil, "state-opens")
	rerr := st.Revert(&core.Header{Number: 1}, &core.StateUpdate{OldRoot: &r0, NewRoot: &r1, StateDiff: &diff1})
	vx.Assert(rerr == nil, "revert-succeeds-for-every-storable-block")
	if rerr != nil {
		return
	}
	vx.Assert(batch.Write() == nil, "commit")
	vxCompareImages(before, vxImage(d))
	sr, err := NewStateReader(&r0, sdb)
	vx.Assert(err == nil, "reader-opens-at-old-root")
	if err == nil {
		gcA, e1 := sr.ContractClassHash(a1)
		gcB, e2 := sr.ContractClassHash(a2)
		gnA, e3 := sr.ContractNonce(a1)
		gnB, e4 := sr.ContractNonce(a2)
		vx.Assert(e1 == nil && e2 == nil && e3 == nil && e4 == nil && gcA.Equal(cA) && gcB.Equal(cB) && gnA.Equal(nA) && gnB.Equal(nB), "head-state-restored")
	}
}
