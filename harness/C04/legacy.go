//vx:pkg core/deprecatedstate
package deprecatedstate

import (
	"bytes"

	"github.com/NethermindEth/juno/core"
	"github.com/NethermindEth/juno/core/felt"
	"github.com/NethermindEth/juno/db"
	"github.com/NethermindEth/juno/db/memory"
	"github.com/NethermindEth/juno/zzverif/vx"
)

// C04-H1 (legacy state backend): the same obligations as newstate.go for deprecatedstate.State on
// an indexed batch over the in-memory store: block 0 deploys a contract and writes a slot and the
// nonce, block 1 is an arbitrary diff (storage writes to the written and to a never-written slot,
// zero and unchanged values included; nonce; class replacement; deployment of a second contract),
// then block 1 is reverted. Reverting must succeed for every block that could be stored, restore
// every keyed record (contract fields, the three history logs) and the state root.

type vxKV struct{ k, v []byte }

func vxFeltInL4(name string) *felt.Felt {
	b := vx.FeltBytes(name)
	return new(felt.Felt).SetBytes(b[:])
}

func vxImage(r interface {
	NewIterator(prefix []byte, withUpperBound bool) (db.Iterator, error)
}) []vxKV {
	it, err := r.NewIterator(nil, false)
	vx.Assert(err == nil, "iterate")
	var out []vxKV
	for ok := it.First(); ok; ok = it.Next() {
		v, verr := it.Value()
		vx.Assert(verr == nil, "iterate")
		out = append(out, vxKV{append([]byte(nil), it.Key()...), append([]byte(nil), v...)})
	}
	_ = it.Close()
	return out
}

// trie node buckets of the legacy layout: unreachable nodes are not observable
func vxIsTrieNode(k []byte) bool {
	return len(k) > 0 && (k[0] == byte(db.StateTrie) || k[0] == byte(db.ContractStorage) || k[0] == byte(db.ClassesTrie))
}

func vxCompareImages(before, after []vxKV) {
	find := func(img []vxKV, k []byte) ([]byte, bool) {
		for _, e := range img {
			if bytes.Equal(e.k, k) {
				return e.v, true
			}
		}
		return nil, false
	}
	for _, e := range before {
		v, ok := find(after, e.k)
		vx.Assert(ok, "no-record-lost-by-store-then-revert")
		if ok {
			vx.Assert(bytes.Equal(v, e.v), "every-record-restored-to-its-value-before-the-block")
		}
	}
	for _, e := range after {
		if vxIsTrieNode(e.k) {
			continue
		}
		_, ok := find(before, e.k)
		vx.Assert(ok, "no-keyed-record-left-behind-by-the-reverted-block")
	}
}

func VxC04LegacyUpdateRevert() {
	vx.Bound("legacy backend; block 0: deploy contract A, write one slot and the nonce (values symbolic, non-zero); block 1: sections {storage (written slot, never-written slot), nonce, replaced class, deployment of B with or without a nonce for B} each present or absent, every value symbolic (zero and unchanged values included); revert of block 1. Addresses/slots fixed.")
	vx.CollisionFree()
	d := memory.New()
	txn := d.NewIndexedBatch()
	s := New(txn)
	a1 := felt.NewFromUint64[felt.Felt](0x1000)
	a2 := felt.NewFromUint64[felt.Felt](0x2000)
	slotW := felt.NewFromUint64[felt.Felt](0x20)
	slotN := felt.NewFromUint64[felt.Felt](0x21)

	diff0 := core.EmptyStateDiff()
	c0, v0, n0 := vxFeltInL4("class0"), vxFeltInL4("val0"), vxFeltInL4("nonce0")
	vx.Assume(!v0.IsZero() && !c0.IsZero())
	diff0.DeployedContracts[*a1] = c0
	diff0.StorageDiffs[*a1] = map[felt.Felt]*felt.Felt{*slotW: v0}
	diff0.Nonces[*a1] = n0
	su0 := &core.StateUpdate{OldRoot: &felt.Zero, StateDiff: &diff0}
	vx.Assert(s.Update(&core.Header{Number: 0}, su0, nil, true) == nil, "block-0-stores")
	r0, err := s.Commitment("")
	vx.Assert(err == nil, "root-0")
	before := vxImage(txn)

	diff1 := core.EmptyStateDiff()
	zeroToFresh := false
	if vx.Bool("hasStorage") {
		m := map[felt.Felt]*felt.Felt{}
		if vx.Bool("writesWrittenSlot") {
			m[*slotW] = vxFeltInL4("w")
		}
		if vx.Bool("writesFreshSlot") {
			m[*slotN] = vxFeltInL4("n")
			zeroToFresh = m[*slotN].IsZero()
		}
		diff1.StorageDiffs[*a1] = m
	}
	if vx.Bool("hasNonce") {
		diff1.Nonces[*a1] = vxFeltInL4("nonce")
	}
	if vx.Bool("hasReplaced") {
		diff1.ReplacedClasses[*a1] = vxFeltInL4("class")
	}
	if vx.Bool("hasDeployed") {
		diff1.DeployedContracts[*a2] = vxFeltInL4("deployedclass")
		if vx.Bool("deployedNonce") { // a deploy-account transaction also bumps the new account's nonce
			diff1.Nonces[*a2] = vxFeltInL4("nonceB")
		}
	}
	su1 := &core.StateUpdate{OldRoot: &r0, StateDiff: &diff1}
	uerr := s.Update(&core.Header{Number: 1}, su1, nil, true)
	vx.Assert(uerr == nil, "block-1-stores")
	if uerr != nil {
		return
	}
	r1, err := s.Commitment("")
	vx.Assert(err == nil, "root-1")
	su1.NewRoot = &r1

	rerr := s.Revert(&core.Header{Number: 1}, su1)
	if zeroToFresh {
		vx.Cover("zero-written-to-never-written-slot")
	}
	vx.Assert(rerr == nil, "revert-succeeds-for-every-storable-block")
	if rerr != nil {
		return
	}
	back, err := s.Commitment("")
	vx.Assert(err == nil && back.Equal(&r0), "state-root-restored")
	vxCompareImages(before, vxImage(txn))
	gv, e1 := s.ContractStorage(a1, slotW)
	gn, e2 := s.ContractNonce(a1)
	gc, e3 := s.ContractClassHash(a1)
	vx.Assert(e1 == nil && e2 == nil && e3 == nil && gv.Equal(v0) && gn.Equal(n0) && gc.Equal(c0), "head-state-restored")
}


// C04-H1b (legacy backend, system contracts): 0x1 and 0x2 hold storage without being deployed by a
// diff; they are created on first write and must be purged again when the block that created them
// is reverted - whichever of the two the block touched.
func VxC04LegacySystemContractsRevert() {
	vx.Bound("legacy backend; block 0 deploys an ordinary contract; block 1 writes one slot (symbolic non-zero value) of system contract 0x1, of 0x2, or of both, none of them written before; revert of block 1")
	vx.CollisionFree()
	d := memory.New()
	txn := d.NewIndexedBatch()
	s := New(txn)
	a1 := felt.NewFromUint64[felt.Felt](0x1000)
	slot := felt.NewFromUint64[felt.Felt](0x20)
	diff0 := core.EmptyStateDiff()
	diff0.DeployedContracts[*a1] = felt.NewFromUint64[felt.Felt](0xC1)
	vx.Assert(s.Update(&core.Header{Number: 0}, &core.StateUpdate{OldRoot: &felt.Zero, StateDiff: &diff0}, nil, true) == nil, "block-0-stores")
	r0, err := s.Commitment("")
	vx.Assert(err == nil, "root-0")
	before := vxImage(txn)
	diff1 := core.EmptyStateDiff()
	which := 1 + vx.Choice("sysWrite", 3)
	if which&1 != 0 {
		v := vxFeltInL4("sys1")
		vx.Assume(!v.IsZero())
		diff1.StorageDiffs[*felt.NewFromUint64[felt.Felt](1)] = map[felt.Felt]*felt.Felt{*slot: v}
	}
	if which&2 != 0 {
		v := vxFeltInL4("sys2")
		vx.Assume(!v.IsZero())
		diff1.StorageDiffs[*felt.NewFromUint64[felt.Felt](2)] = map[felt.Felt]*felt.Felt{*slot: v}
	}
	if which == 2 {
		vx.Cover("only-system-contract-2")
	}
	su1 := &core.StateUpdate{OldRoot: &r0, StateDiff: &diff1}
	vx.Assert(s.Update(&core.Header{Number: 1}, su1, nil, true) == nil, "block-1-stores")
	r1, err := s.Commitment("")
	vx.Assert(err == nil, "root-1")
	su1.NewRoot = &r1
	vx.Assert(s.Revert(&core.Header{Number: 1}, su1) == nil, "revert-succeeds-for-every-storable-block")
	back, err := s.Commitment("")
	vx.Assert(err == nil && back.Equal(&r0), "state-root-restored")
	vxCompareImages(before, vxImage(txn))
}
