//vx:pkg blockchain
//vx:include ../C09/reorgcache.go
package blockchain

// C04-H7: "a node that followed one fork, reverted it and then followed another is indistinguishable from a
// node that followed the second fork directly" - observed through event queries, which are answered from the
// event index and its in-memory window cache. The reorg across the index-window boundary with a warm cache
// (real Blockchain, real bloom hashing) is C09-H4's scenario, see harness/C09/reorgcache.go: after the
// reorg every event of the new fork is returned and none of a replaced block.
func VxC04EventQueriesAfterAReorgAnswerTheNewFork() {
	VxC09ReorgAcrossWindowWithWarmCache()
}
