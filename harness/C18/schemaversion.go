//vx:pkg migration
package migration

import (
	"github.com/NethermindEth/juno/zzverif/vx"
)

// C18-H1a: SchemaVersion set algebra at full 64-bit width (no bound beyond the type).
func VxC18SchemaVersionOps() {
	vx.Bound("all 64-bit versions, all bit indexes 0..63")
	a := SchemaVersion(vx.U64("a"))
	b := SchemaVersion(vx.U64("b"))
	i := vx.U8("i")
	j := vx.U8("j")
	vx.Assume(i < 64 && j < 64)

	c := a
	c.Set(i)
	vx.Assert(c.Has(i), "set-then-has")
	vx.Assert(uint64(c) == uint64(a)|(uint64(1)<<i), "set-is-or-bit")
	vx.Assert(c.Contains(a), "set-never-clears")
	if j != i {
		vx.Assert(c.Has(j) == a.Has(j), "set-leaves-other-bits")
	}
	vx.Assert(a.Has(i) == ((uint64(a)>>i)&1 == 1), "has-is-bit-test")

	// Contains(b) <=> every bit of b is in a
	vx.Assert(a.Contains(b) == (uint64(b)&^uint64(a) == 0), "contains-is-subset")
	if a.Contains(b) && b.Has(j) {
		vx.Assert(a.Has(j), "contains-pointwise")
	}
	d := a.Difference(b)
	vx.Assert(d.Has(j) == (a.Has(j) && !b.Has(j)), "difference-pointwise")
	u := a.Union(b)
	vx.Assert(u.Has(j) == (a.Has(j) || b.Has(j)), "union-pointwise")

	hb := a.HighestBit()
	if a == 0 {
		vx.Assert(hb == -1, "highest-bit-empty")
	} else {
		vx.Assert(hb >= 0 && hb < 64 && uint64(a)>>uint(hb) == 1, "highest-bit-is-top-set-bit")
	}
}

// C18-H1a': Len is the cardinality. Inductive characterisation, bit index case-split (0..63):
// Len(0) = 0 and Len(a) = Len(a without bit i) + [bit i of a].
func VxC18SchemaVersionLen() {
	vx.Bound("all 64-bit versions; bit index enumerated 0..63")
	a := SchemaVersion(vx.U64("a"))
	i := uint8(vx.Choice("i", 64))
	var z SchemaVersion
	vx.Assert(z.Len() == 0, "len-empty")
	without := SchemaVersion(uint64(a) &^ (uint64(1) << i))
	add := 0
	if a.Has(i) {
		add = 1
	}
	vx.Assert(a.Len() == without.Len()+add, "len-counts-each-bit-once")
}

// C18-H1b: Iter yields exactly the set bits in ascending order (and stops when told to).
//vx:solver z3-new
// Versions with at most 2 set bits at arbitrary (symbolic) positions 0..63, so that the word
// boundaries (bit 0, bit 63, adjacent bits, gaps of 63) are all inside the claim.
func VxC18SchemaVersionIter() {
	// 3 symbolic bit positions leave the solvers without an answer within the query timeout
	// (trailing-zero reasoning over three disjoint shifts); the thorough tier keeps 2
	maxBits := 2
	vx.Bound("versions with <= 2 set bits at arbitrary positions 0..63; early stop at any position")
	vx.Unwind(12)
	var a SchemaVersion
	k := vx.Choice("k", maxBits+1)
	prev := -1
	for j := 0; j < k; j++ {
		p := int(vx.U8("p"))
		vx.Assume(p > prev && p < 64)
		a |= SchemaVersion(uint64(1) << uint(p))
		prev = p
	}
	stopAt := vx.Choice("stopAt", maxBits+2)
	count := 0
	last := -1
	seen := uint64(0)
	a.Iter()(func(idx uint8) bool {
		vx.Assert(int(idx) > last, "ascending")
		vx.Assert(idx < 64 && a.Has(idx), "yields-only-set-bits")
		last = int(idx)
		seen |= uint64(1) << idx
		count++
		return count != stopAt
	})
	if stopAt == 0 || count < stopAt {
		vx.Cover("complete")
		vx.Assert(seen == uint64(a), "yields-every-set-bit")
		vx.Assert(count == k, "count-is-cardinality")
	} else {
		vx.Cover("stopped-early")
		vx.Assert(count == stopAt, "stops-when-told")
		mask := ^uint64(0)
		if last < 63 {
			mask = (uint64(1) << uint(last+1)) - 1
		}
		vx.Assert(seen == uint64(a)&mask, "prefix-complete")
	}
}

// C18-H1c: the same through the range-over-func form the runner uses, dense low bits.
func VxC18SchemaVersionRange() {
	var limit uint64 = 16
	if vx.Thorough() {
		limit = 256
		vx.Bound("every version below 2^8 (dense), via range-over-func")
	} else {
		vx.Bound("every version below 2^4 (dense), via range-over-func")
	}
	vx.Unwind(12)
	a := SchemaVersion(vx.U64("a"))
	vx.Assume(uint64(a) < limit)
	seen := uint64(0)
	n := 0
	for idx := range a.Iter() {
		seen |= uint64(1) << idx
		n++
	}
	vx.Assert(seen == uint64(a), "range-yields-every-set-bit")
	vx.Assert(n == a.Len(), "range-count")
}
