//vx:pkg migration
package migration

import (
	"bytes"
	"context"
	"errors"
	"time"

	"github.com/NethermindEth/juno/blockchain/networks"
	"github.com/NethermindEth/juno/db"
	"github.com/NethermindEth/juno/db/memory"
	"github.com/NethermindEth/juno/utils/log"
	"github.com/NethermindEth/juno/zzverif/vx"
)

// C18-H2: the migration runner over model migrations whose every Migrate call returns an arbitrary
// outcome, across process restarts, on the real memory DB (metadata CBOR = opaque codec model):
//   (i)   a migration's bit is set only after one of its Migrate calls returned (nil, nil);
//   (ii)  a migration is never invoked again once its bit is set;
//   (iii) migrations are invoked in ascending index order within a run;
//   (iv)  Before receives exactly the last saved intermediate state (nil when none);
//   (v)   applied bits are never cleared.

type vxCtx struct{ cancelled *bool }

func (c vxCtx) Deadline() (time.Time, bool) { return time.Time{}, false }
func (c vxCtx) Done() <-chan struct{}        { return nil }
func (c vxCtx) Value(any) any                { return nil }
func (c vxCtx) Err() error {
	if *c.cancelled {
		return context.Canceled
	}
	return nil
}

type vxWorld struct {
	completed [2]bool
	saved     [2][]byte // ghost: last intermediate state the runner should have persisted
	order     []int
	applied   SchemaVersion
	serial    byte
}

type vxMig struct {
	idx int
	w   *vxWorld
}

var errVxMig = errors.New("migration failed")

func (m *vxMig) Before(st []byte) error {
	vx.Assert(bytes.Equal(st, m.w.saved[m.idx]), "before-receives-last-saved-state")
	return nil
}

func (m *vxMig) Migrate(ctx context.Context, _ db.KeyValueStore, _ *networks.Network, _ log.StructuredLogger) ([]byte, error) {
	w := m.w
	vx.Assert(!w.applied.Has(uint8(m.idx)), "applied-migration-never-invoked-again")
	w.order = append(w.order, m.idx)
	w.serial++
	state := []byte{byte(m.idx), w.serial}
	c := ctx.(vxCtx)
	switch vx.Choice("outcome", 7) {
	case 6:
		// an empty but non-nil state also means "in progress, run me again" (the block-transactions
		// and head-state migrators return []byte{} for that)
		vx.Cover("outcome-in-progress-empty-state")
		w.saved[m.idx] = []byte{}
		return []byte{}, nil
	case 0:
		vx.Cover("outcome-complete")
		w.completed[m.idx] = true
		w.saved[m.idx] = nil
		return nil, nil
	case 1:
		vx.Cover("outcome-in-progress")
		w.saved[m.idx] = state
		return state, nil
	case 2:
		vx.Cover("outcome-cancelled-with-state")
		*c.cancelled = true
		w.saved[m.idx] = state
		return state, ctx.Err()
	case 3:
		vx.Cover("outcome-cancelled-without-state")
		*c.cancelled = true
		w.saved[m.idx] = nil // documented: a nil state on cancellation clears any existing state
		return nil, ctx.Err()
	case 4:
		vx.Cover("outcome-error-with-state")
		return state, errVxMig
	}
	vx.Cover("outcome-error-without-state")
	return nil, errVxMig
}

func VxC18RunnerOutcomes() {
	runs := 2
	if vx.Thorough() {
		runs = 3
		vx.Bound("2 mandatory migrations; every Migrate call returns one of 7 outcomes {(nil,nil),(state,nil),(empty non-nil state,nil),(state,cancelled),(nil,cancelled),(state,err),(nil,err)}; 3 process runs")
	} else {
		vx.Bound("2 mandatory migrations; every Migrate call returns one of 7 outcomes {(nil,nil),(state,nil),(empty non-nil state,nil),(state,cancelled),(nil,cancelled),(state,err),(nil,err)}; 2 process runs")
	}
	d := memory.New()
	w := &vxWorld{}
	for run := 0; run < runs; run++ {
		reg := NewRegistry().With(&vxMig{0, w}).With(&vxMig{1, w})
		runner, err := NewRunner(reg, d, &networks.Sepolia, log.NewNopZapLogger())
		vx.Assert(err == nil, "runner-opens")
		cancelled := false
		w.order = nil
		_ = runner.Run(vxCtx{&cancelled})
		meta, merr := GetSchemaMetadata(d)
		vx.Assert(merr == nil, "metadata-readable")
		// what the run was asked to do stays on record whether or not it got there
		target := reg.TargetVersion()
		vx.Assert(uint64(target)&^uint64(meta.LastTargetVersion) == 0, "last-target-records-everything-the-run-was-asked-to-do")
		for i := 0; i < 2; i++ {
			// (a Migrate that returned (nil, ctx.Err()) - cancelled without state - used to be recorded as
			// applied: KF-C18-1, fixed)
			vx.Assert(!meta.CurrentVersion.Has(uint8(i)) || w.completed[i], "applied-only-after-completion")
			if w.applied.Has(uint8(i)) {
				vx.Assert(meta.CurrentVersion.Has(uint8(i)), "applied-bits-never-cleared")
			}
			if w.completed[i] {
				vx.Assert(meta.CurrentVersion.Has(uint8(i)), "completed-migration-recorded")
			}
		}
		for k := 1; k < len(w.order); k++ {
			vx.Assert(w.order[k-1] < w.order[k], "ascending-order-each-once-per-run")
		}
		w.applied = meta.CurrentVersion
	}
}

// C18-H3: refusal rules. A database opens iff the binary's target contains everything already
// applied (no downgrade) and everything previously targeted on the registered indexes (no opt-out).
func VxC18RefusalRules() {
	vx.Bound("3 registered migrations (1 mandatory, 2 optional with symbolic enable flags); arbitrary recorded CurrentVersion / LastTargetVersion over the low 8 migration indexes")
	d := memory.New()
	cur, last := SchemaVersion(vx.U8("current")), SchemaVersion(vx.U8("lastTarget"))
	vx.Assert(WriteSchemaMetadata(d, SchemaMetadata{CurrentVersion: cur, LastTargetVersion: last}) == nil, "seed-metadata")
	w := &vxWorld{}
	e1, e2 := vx.Bool("opt1"), vx.Bool("opt2")
	reg := NewRegistry().With(&vxMig{0, w}).WithOptional(&vxMig{1, w}, e1, "opt-one").WithOptional(&vxMig{1, w}, e2, "")
	target := reg.TargetVersion()
	_, err := NewRunner(reg, d, &networks.Sepolia, log.NewNopZapLogger())
	noDowngrade := uint64(cur)&^uint64(target) == 0
	optedOut := uint64(last) &^ uint64(target) & 0b111 // only registered indexes can be named
	if err == nil {
		vx.Cover("opens")
		vx.Assert(noDowngrade, "never-opens-a-newer-database")
		vx.Assert(optedOut == 0, "never-opens-with-an-opted-out-migration")
	} else {
		vx.Cover("refuses")
		vx.Assert(!noDowngrade || optedOut != 0, "refuses-only-for-downgrade-or-opt-out")
	}
}


// C18-H3b: opting out of a migration that an earlier run had opted into is refused, however that
// earlier run ended (completed, still in progress, cancelled, failed) and whatever other
// migrations it finished on the way.
func VxC18OptOutAfterInterruptedRun() {
	vx.Bound("run 1: mandatory migration 0 and optional migration 1 (enabled), every Migrate call with one of 7 outcomes; run 2 opens the database with migration 1 disabled")
	d := memory.New()
	w := &vxWorld{}
	reg := NewRegistry().With(&vxMig{0, w}).WithOptional(&vxMig{1, w}, true, "opt-one")
	runner, err := NewRunner(reg, d, &networks.Sepolia, log.NewNopZapLogger())
	vx.Assert(err == nil, "runner-opens")
	cancelled := false
	_ = runner.Run(vxCtx{&cancelled})
	if w.completed[0] && !w.completed[1] {
		vx.Cover("first-migration-done-optional-one-interrupted")
	}
	reg2 := NewRegistry().With(&vxMig{0, w}).WithOptional(&vxMig{1, w}, false, "opt-one")
	_, err = NewRunner(reg2, d, &networks.Sepolia, log.NewNopZapLogger())
	vx.Assert(err != nil, "opt-out-of-a-previously-targeted-migration-is-refused")
}
