//vx:pkg migration/statedifflength
package statedifflength

import (
	"context"

	"github.com/NethermindEth/juno/core"
	"github.com/NethermindEth/juno/core/felt"
	"github.com/NethermindEth/juno/db"
	"github.com/NethermindEth/juno/db/memory"
	"github.com/NethermindEth/juno/utils/log"
	"github.com/NethermindEth/juno/zzverif/vx"
)

// C18-H5: the real state-diff-length migration (source -> readers -> committer pipeline, run on the
// engine's cooperative goroutine scheduler) over a chain of 1..3 blocks with a pruned prefix of
// symbolic length and state diffs of symbolic length, cancelled at a symbolic point of its work (the
// k-th database read) or not at all, then resumed from the intermediate state it returned until it
// reports completion: every retained block ends with StateDiffLength equal to the length of its own
// state diff, i.e. the same final database as an uninterrupted run, and completion is reported only then.

type vxCancelDB struct {
	db.KeyValueStore
	n      *int
	at     int
	cancel context.CancelFunc
}

func (d vxCancelDB) Get(key []byte, cb func([]byte) error) error {
	*d.n++
	if *d.n == d.at {
		d.cancel()
	}
	return d.KeyValueStore.Get(key, cb)
}

func vxNoTicker(context.Context, any, func()) context.CancelFunc { return func() {} }

func VxC18StateDiffLengthBackfill() {
	vx.Bound("chain of 1..3 blocks (thorough: 1..4), oldest retained block anywhere in the chain, 0..2 nonce updates per block; cancellation at the k-th database read of the first run for k in 1..8 or never; a further prefix of the chain (possibly beyond the saved checkpoint) pruned before the resumed run; resumed until completion (<= 3 runs); one reader goroutine in the engine (GOMAXPROCS model = 1), real worker count natively")
	if vx.InEngine() {
		vx.Stub("github.com/NethermindEth/juno/migration/progresslogger.CallEveryInterval", vxNoTicker)
	}
	maxBlocks := 3
	if vx.Thorough() {
		maxBlocks = 4
	}
	nblocks := 1 + vx.Choice("nblocks", maxBlocks)
	oldest := vx.Choice("oldest", nblocks)
	d := memory.New()
	want := make([]uint64, nblocks)
	for b := oldest; b < nblocks; b++ {
		nn := vx.Choice("nonces", 3)
		nonces := map[felt.Felt]*felt.Felt{}
		for i := 0; i < nn; i++ {
			nonces[felt.FromUint64[felt.Felt](uint64(i+1))] = felt.NewFromUint64[felt.Felt](uint64(b + 1))
		}
		su := &core.StateUpdate{StateDiff: &core.StateDiff{Nonces: nonces}}
		want[b] = uint64(nn)
		if core.WriteStateUpdateByBlockNum(d, uint64(b), su) != nil ||
			core.WriteBlockCommitment(d, uint64(b), &core.BlockCommitments{TransactionCommitment: felt.NewFromUint64[felt.Felt](uint64(b))}) != nil {
			vx.Assume(false)
		}
	}
	if core.WriteChainHeight(d, uint64(nblocks-1)) != nil {
		vx.Assume(false)
	}

	cancelAt := vx.Choice("cancel-at", 9) // 0: never
	var state []byte
	done := false
	prunedBetween := false
	for run := 0; run < 3 && !done; run++ {
		m := &Migrator{}
		vx.Assert(m.Before(state) == nil, "before-accepts-own-intermediate-state")
		ctx, cancel := context.WithCancel(context.Background())
		var store db.KeyValueStore = d
		if run == 0 && cancelAt > 0 {
			n := 0
			store = vxCancelDB{KeyValueStore: d, n: &n, at: cancelAt, cancel: cancel}
		}
		st, err := m.Migrate(ctx, store, nil, log.NewNopZapLogger())
		cancel()
		vx.Assert(err == nil, "migrate-no-error")
		if err != nil {
			return
		}
		if st == nil {
			done = true
		} else {
			vx.Cover("sched:interrupted-and-resumed")
			state = st
			// between two starts the node may have been started with history pruning switched on: the
			// pruning migration runs first (lower index) and removes a longer prefix of the chain,
			// possibly beyond the checkpoint the interrupted backfill saved
			if run == 0 && nblocks-1-oldest > 0 {
				more := vx.Choice("pruned-before-resume", nblocks-oldest)
				for i := 0; i < more; i++ {
					if core.DeleteBlockCommitment(d, uint64(oldest)) != nil || core.DeleteStateUpdateByBlockNum(d, uint64(oldest)) != nil {
						vx.Assume(false)
					}
					oldest++
				}
				if more > 0 {
					prunedBetween = true
					vx.Cover("sched:prefix-pruned-between-the-runs")
				}
			}
		}
	}
	vx.Assert(done, "resumed-run-completes")
	if !done {
		return
	}
	for b := oldest; b < nblocks; b++ {
		c, err := core.GetBlockCommitmentByBlockNum(d, uint64(b))
		vx.Assert(err == nil, "commitments-still-readable")
		if err == nil {
			vx.Assert(c.StateDiffLength == want[b], "every-retained-block-backfilled-when-complete")
		}
	}
	if oldest == nblocks-1 {
		if prunedBetween {
			// reached only on an interrupted first run: whether a native run is interrupted at the same
			// point depends on the goroutine schedule
			vx.Cover("sched:only-head-retained-after-pruning-between-the-runs")
		} else {
			vx.Cover("only-head-retained")
		}
	}
}
