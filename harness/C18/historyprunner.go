//vx:pkg migration/historyprunner
package historyprunner

import (
	"context"
	"time"

	"github.com/NethermindEth/juno/core"
	"github.com/NethermindEth/juno/core/felt"
	"github.com/NethermindEth/juno/db"
	"github.com/NethermindEth/juno/db/memory"
	"github.com/NethermindEth/juno/utils/log"
	"github.com/NethermindEth/juno/zzverif/vx"
)

// C18-H6 / C07: the real history-pruner migration (setup, stager pipeline, restorer pipeline, scratch
// wipe; goroutines on the engine's scheduler) over a chain of 3 blocks whose transactions are invoke or
// L1-handler transactions in an arbitrary arrangement, with a symbolic retention (the oldest kept block
// is 1 or 2), cancelled at a symbolic point of its work (the k-th database read of the first run) or not
// at all, and resumed from the intermediate state it returned until it reports completion. Afterwards
// the database is the one an uninterrupted run leaves: every transaction of a kept block is found by its
// hash at exactly its (block, index), L1-handler message hashes resolve to their transactions, the kept
// blocks' state history and hash -> number mappings (and the one of the block just below) are in place,
// and the by-hash records of the pruned blocks are gone.

type vxCancelDB struct {
	db.KeyValueStore
	n      *int
	at     int
	cancel context.CancelFunc
}

func (d vxCancelDB) Get(key []byte, cb func([]byte) error) error {
	*d.n++
	if *d.n == d.at {
		d.cancel()
	}
	return d.KeyValueStore.Get(key, cb)
}

// vxMessageHash stands in for the Keccak-256 message hash inside the engine: an injective encoding of the
// fields that distinguish the harness's L1-handler transactions (nonce = block number, first calldata word
// = position), so message hashes are distinct exactly when the real ones are.
func vxMessageHash(l *core.L1HandlerTransaction) []byte {
	out := make([]byte, 32)
	n := l.Nonce.Bytes()
	c := l.CallData[0].Bytes()
	copy(out[0:16], n[16:32])
	copy(out[16:32], c[16:32])
	return out
}

// vxBlockTime: two hours old below youngFrom, ten minutes old from there on.
func vxBlockTime(now uint64, b, youngFrom int) uint64 {
	if b < youngFrom {
		return now - 7200 + uint64(b)
	}
	return now - 600 + uint64(b)
}

func vxNoTicker(context.Context, any, func()) context.CancelFunc { return func() {} }

func VxC18HistoryPrunerMigration() {
	vx.Bound("chain of 3 blocks with 1..2 transactions each (invoke or L1 handler, any arrangement), one storage-history entry per block, L1 head 0..2 below or at the chain head, retained blocks 0..3 (oldest kept block 0..2; nothing is pruned when the L1 head lies inside the retention window); minimum age off or one hour with the blocks from a chosen height on younger than that; cancellation at the k-th database read of the first run for k in 1..24 (thorough) / a sample of k (quick), or never; resumed until completion (<= 4 runs); one worker goroutine per stage in the engine")
	if vx.InEngine() {
		vx.Stub("github.com/NethermindEth/juno/migration/progresslogger.CallEveryInterval", vxNoTicker)
		vx.Stub("(*github.com/NethermindEth/juno/core.L1HandlerTransaction).MessageHash", vxMessageHash)
	}
	const n = 3
	d := memory.New()
	// minimum age: off, or one hour with the blocks from `youngFrom` on younger than that (timestamps are
	// taken relative to the clock the migration reads; block timestamps never decrease)
	minAge := time.Duration(0)
	youngFrom := n
	now := uint64(time.Now().Unix())
	if vx.Choice("min-age", 2) == 1 {
		minAge = time.Hour
		youngFrom = vx.Choice("young-from", n+1)
		vx.Cover("minimum-age-configured")
	}
	addr := felt.NewFromUint64[felt.Felt](0xA)
	slot := felt.NewFromUint64[felt.Felt](0x5)
	hashes := make([]*felt.Felt, n)
	var txs [n][]core.Transaction
	for b := 0; b < n; b++ {
		num := uint64(b)
		hashes[b] = felt.NewFromUint64[felt.Felt](0x4000 + num)
		// the minimum-age arm keeps the block contents fixed (one transaction per block,
		// L1 handler in block 1), the content dimension is explored with the age setting off
		wide := minAge == 0
		ntx := 1
		if wide {
			ntx = 1 + vx.Choice("ntx", 2)
		}
		var rs []*core.TransactionReceipt
		for i := 0; i < ntx; i++ {
			h := felt.NewFromUint64[felt.Felt](9000 + 10*num + uint64(i))
			if (wide && vx.Choice("l1", 2) == 1) || (!wide && b == 1) {
				txs[b] = append(txs[b], &core.L1HandlerTransaction{
					TransactionHash: h, ContractAddress: addr, EntryPointSelector: slot, Nonce: felt.NewFromUint64[felt.Felt](num),
					CallData: []felt.Felt{felt.FromUint64[felt.Felt](uint64(i + 1))}, Version: new(core.TransactionVersion),
				})
			} else {
				txs[b] = append(txs[b], &core.InvokeTransaction{TransactionHash: h, Version: new(core.TransactionVersion).SetUint64(1)})
			}
			rs = append(rs, &core.TransactionReceipt{TransactionHash: h, Fee: &felt.Zero})
		}
		diff := core.EmptyStateDiff()
		diff.StorageDiffs[*addr] = map[felt.Felt]*felt.Felt{*slot: felt.NewFromUint64[felt.Felt](100 + num)}
		if core.WriteBlockHeader(d, &core.Header{Number: num, Hash: hashes[b], ProtocolVersion: "0.13.2", Timestamp: vxBlockTime(now, b, youngFrom)}) != nil ||
			core.WriteStateUpdateByBlockNum(d, num, &core.StateUpdate{BlockHash: hashes[b], StateDiff: &diff}) != nil ||
			core.WriteDeprecatedContractStorageHistory(d, addr, slot, felt.NewFromUint64[felt.Felt](99+num), num) != nil ||
			core.WriteBlockCommitment(d, num, &core.BlockCommitments{}) != nil ||
			core.WriteTransactionsAndReceipts(d, num, txs[b], rs) != nil ||
			core.WriteL1HandlerMsgHashes(d, txs[b]) != nil {
			vx.Assume(false)
		}
	}
	// the L1 head is the chain head or lies below it; the retention may exceed it (then nothing is pruned)
	l1 := uint64(n - 1 - vx.Choice("l1-behind", 3))
	if core.WriteChainHeight(d, n-1) != nil || core.WriteL1Head(d, &core.L1Head{BlockNumber: l1, BlockHash: hashes[l1], StateRoot: &felt.Zero}) != nil {
		vx.Assume(false)
	}
	retained := uint64(vx.Choice("retained", 4))
	oldest := uint64(0) // nothing pruned when the retention window reaches below the first block
	if l1 >= retained {
		oldest = l1 - retained
	} else {
		vx.Cover("l1-head-inside-the-retention-window")
	}
	// blocks younger than the minimum age stay as well: the floor is the lower of the two (the age search
	// only looks at blocks up to the L1 head; if none there is young enough the count floor stands)
	if minAge > 0 && l1 >= retained && uint64(youngFrom) <= l1 && uint64(youngFrom) < oldest {
		oldest = uint64(youngFrom)
		vx.Cover("minimum-age-lowers-the-floor")
		if oldest == 0 {
			vx.Cover("minimum-age-reaches-genesis")
		}
	}

	cancelAt := 0
	if vx.Thorough() && minAge == 0 {
		cancelAt = vx.Choice("cancel-at", 25)
	} else if minAge == 0 {
		cancelAt = []int{0, 3, 7, 11, 16}[vx.Choice("cancel-at", 5)]
	} else {
		cancelAt = []int{0, 7}[vx.Choice("cancel-at", 2)]
	}
	var state []byte
	done := false
	for run := 0; run < 4 && !done; run++ {
		m := New(retained, minAge)
		vx.Assert(m.Before(state) == nil, "before-accepts-own-intermediate-state")
		ctx, cancel := context.WithCancel(context.Background())
		var store db.KeyValueStore = d
		if run == 0 && cancelAt > 0 {
			cnt := 0
			store = vxCancelDB{KeyValueStore: d, n: &cnt, at: cancelAt, cancel: cancel}
		}
		st, err := m.Migrate(ctx, store, nil, log.NewNopZapLogger())
		cancel()
		vx.Assert(err == nil, "migrate-no-error")
		if err != nil {
			return
		}
		if st == nil {
			done = true
		} else {
			vx.Cover("sched:interrupted-and-resumed")
			state = st
		}
	}
	vx.Assert(done, "resumed-run-completes")
	if !done {
		return
	}
	has := func(k []byte) bool { ok, _ := d.Has(k); return ok }
	for b := 0; b < n; b++ {
		num := uint64(b)
		for i, tx := range txs[b] {
			th := (*felt.TransactionHash)(tx.Hash())
			bi, err := core.TransactionBlockNumbersAndIndicesByHashBucket.Get(d, th)
			if num >= oldest {
				vx.Assert(err == nil && bi.Number == num && bi.Index == uint64(i), "kept-transaction-indexed-at-its-block-and-position")
				got, gerr := core.GetTransactionByHash(d, th)
				vx.Assert(gerr == nil && got.Hash().Equal(tx.Hash()), "kept-transaction-found-by-hash")
				if l1, ok := tx.(*core.L1HandlerTransaction); ok {
					vx.Cover("l1-handler-in-kept-block")
					lh, lerr := core.GetL1HandlerTxnHashByMsgHash(d, l1.MessageHash())
					vx.Assert(lerr == nil && lh.Equal(tx.Hash()), "l1-handler-message-hash-resolves")
				}
			} else {
				vx.Assert(err != nil, "pruned-transaction-not-indexed")
			}
		}
		_, nerr := core.GetBlockHeaderNumberByHash(d, hashes[b])
		hist := has(db.DeprecatedContractStorageHistoryAtBlockKey(addr, slot, num))
		_, cerr := core.GetBlockCommitmentByBlockNum(d, num)
		if num >= oldest {
			vx.Assert(nerr == nil && hist && cerr == nil, "kept-block-history-and-hash-mapping-in-place")
		} else {
			vx.Assert(!hist && cerr != nil, "pruned-block-history-removed")
			vx.Assert((nerr == nil) == (num+1 == oldest), "hash-mapping-kept-only-for-the-block-below-the-window")
		}
	}
}
