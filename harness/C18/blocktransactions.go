//vx:pkg migration/blocktransactions
package blocktransactions

import (
	"context"

	"github.com/NethermindEth/juno/core"
	"github.com/NethermindEth/juno/core/felt"
	"github.com/NethermindEth/juno/db"
	"github.com/NethermindEth/juno/db/memory"
	"github.com/NethermindEth/juno/db/typed/prefix"
	"github.com/NethermindEth/juno/migration/blocktransactions/txlayout"
	"github.com/NethermindEth/juno/utils/log"
	"github.com/NethermindEth/juno/zzverif/vx"
)

// C18-H7: the real block-transactions migration (per-transaction layout -> one combined record per block;
// block-range source -> 4 ingestor goroutines -> committer, batch semaphore; run on the engine's cooperative
// scheduler) over a chain of 11..13 blocks - two block ranges of 10 - in which block 0 carries one transaction,
// blocks of the second range carry 0..1 transaction each and every other block is EMPTY, cancelled at a symbolic
// point of its work (the k-th database read of the first run) or not at all, and resumed until it reports
// completion. Afterwards every block - the empty ones included - has its combined record, the transactions and
// receipts read back through the current accessors are the ones stored, and the old buckets are empty.

type vxCancelDB struct {
	db.KeyValueStore
	n      *int
	at     int
	cancel context.CancelFunc
}

func (d vxCancelDB) Get(key []byte, cb func([]byte) error) error {
	*d.n++
	if *d.n == d.at {
		d.cancel()
	}
	return d.KeyValueStore.Get(key, cb)
}

func vxNoLog(*counter, uint64, int, int) {}

// vxPull2 is iter.Pull2 built from a goroutine and two channels (the runtime's coroutine primitive has no
// body the engine could execute): next() resumes the sequence until it yields or ends, stop() makes the
// pending yield return false. Engine only; natively the real iter.Pull2 runs.
func vxPull2[K, V any](seq func(yield func(K, V) bool)) (func() (K, V, bool), func()) {
	type item struct {
		k  K
		v  V
		ok bool
	}
	ask := make(chan bool)
	out := make(chan item)
	started, finished := false, false
	body := func() {
		if !<-ask {
			out <- item{}
			return
		}
		seq(func(k K, v V) bool {
			out <- item{k, v, true}
			return <-ask
		})
		out <- item{}
	}
	next := func() (K, V, bool) {
		if finished {
			var it item
			return it.k, it.v, false
		}
		if !started {
			started = true
			go body()
		}
		ask <- true
		it := <-out
		if !it.ok {
			finished = true
		}
		return it.k, it.v, it.ok
	}
	stop := func() {
		if finished || !started {
			finished = true
			return
		}
		ask <- false
		// the sequence may yield once more before it notices; drain until it ends
		for it := range out {
			if !it.ok {
				break
			}
			ask <- false
		}
		finished = true
	}
	return next, stop
}

func VxC18BlockTransactionsMigration() {
	vx.Bound("chain of 11..13 blocks (two ranges of 10): block 0 with one invoke transaction, each block of the second range with 0..1 transaction, all others empty; cancellation at the k-th database read of the first run (a sample of k) or never; the resumed run cancelled at its 1st..3rd read or not at all; resumed until completion (<= 4 runs); one schedule per path")
	if vx.InEngine() {
		vx.Stub("(*github.com/NethermindEth/juno/migration/blocktransactions.counter).log", vxNoLog)
		vx.Stub("iter.Pull2", vxPull2[prefix.Entry[core.Transaction], error])
	}
	d := memory.New()
	nblocks := 11 + vx.Choice("extra-blocks", 3)
	txs := make([][]core.Transaction, nblocks)
	rcs := make([][]*core.TransactionReceipt, nblocks)
	for b := 0; b < nblocks; b++ {
		n := 0
		if b == 0 {
			n = 1
		} else if b >= 10 {
			n = vx.Choice("ntx", 2)
		}
		for i := 0; i < n; i++ {
			h := felt.NewFromUint64[felt.Felt](9000 + 10*uint64(b) + uint64(i))
			txs[b] = append(txs[b], &core.InvokeTransaction{TransactionHash: h, Version: new(core.TransactionVersion).SetUint64(1)})
			rcs[b] = append(rcs[b], &core.TransactionReceipt{TransactionHash: h, Fee: &felt.Zero})
		}
		hdr := &core.Header{Number: uint64(b), TransactionCount: uint64(n)}
		if core.BlockHeadersByNumberBucket.Put(d, uint64(b), hdr) != nil ||
			txlayout.TransactionLayoutPerTx.WriteTransactionsAndReceipts(d, uint64(b), txs[b], rcs[b]) != nil {
			vx.Assume(false)
		}
	}
	if core.WriteChainHeight(d, uint64(nblocks-1)) != nil {
		vx.Assume(false)
	}
	cancelAt := []int{0, 2, 9, 17, 30}[vx.Choice("cancel-at", 5)]
	// ... and the resumed run may be interrupted as well (a second interruption can hit the pass that gives the
	// empty tail of the chain its records)
	cancelAt2 := []int{0, 1, 2, 3}[vx.Choice("second-run-cancel-at", 4)]
	done := false
	for run := 0; run < 4 && !done; run++ {
		ctx, cancel := context.WithCancel(context.Background())
		// every run is stopped by the operator after 60 reads (an uninterrupted run over this chain needs far
		// fewer): a migration that goes round in circles shows up as "never completes", not as a hung check
		n := 0
		at := 60
		if run == 0 && cancelAt > 0 {
			at = cancelAt
		}
		if run == 1 && cancelAt2 > 0 {
			at = cancelAt2
			vx.Cover("sched:second-run-interrupted-too")
		}
		var store db.KeyValueStore = vxCancelDB{KeyValueStore: d, n: &n, at: at, cancel: cancel}
		st, err := Migrator{}.Migrate(ctx, store, nil, log.NewNopZapLogger())
		cancel()
		vx.Assert(err == nil, "migrate-no-error")
		if err != nil {
			return
		}
		if st == nil {
			done = true
		} else {
			vx.Cover("sched:interrupted-and-resumed")
		}
	}
	vx.Assert(done, "resumed-run-completes")
	if !done {
		return
	}
	for b := 0; b < nblocks; b++ {
		has, err := core.BlockTransactionsBucket.Has(d, uint64(b))
		vx.Assert(err == nil && has, "every-block-has-its-combined-record-when-complete")
		got, err := core.GetTransactionsByBlockNumber(d, uint64(b))
		vx.Assert(err == nil && len(got) == len(txs[b]), "transactions-of-every-block-readable-when-complete")
		for i := range got {
			if i < len(txs[b]) {
				vx.Assert(got[i].Hash().Equal(txs[b][i].Hash()), "transactions-read-back-are-the-ones-stored")
			}
		}
		rs, err := core.GetReceiptsByBlockNumber(d, uint64(b))
		vx.Assert(err == nil && len(rs) == len(rcs[b]), "receipts-of-every-block-readable-when-complete")
	}
	_, any, err := getFirstBlockToMigrate(d)
	vx.Assert(err == nil && !any, "old-buckets-empty-when-complete")
}

// C18-H8: resumption from ANY state an interrupted run can leave. The migration converts the chain in ranges of
// 10 blocks; a range is converted atomically (its combined records and the deletion of its old entries are one
// batch), but the batches of the four ingestors hold interleaved ranges and are committed one after the other,
// so a kill (or a failing batch write) between two commits leaves an arbitrary SUBSET of the ranges converted -
// not necessarily a prefix. The database is put directly into such a state: chain of 25 blocks (ranges 0..9,
// 10..19, 20..24), each range either without transactions or with one transaction in its first block, an
// arbitrary subset of the ranges already in the combined layout and the rest in the old per-transaction layout.
// Then the real migration runs to completion (uninterrupted). Afterwards every block has its combined record,
// every stored transaction and receipt reads back through the current accessors, and the old buckets are empty:
// a converted range is not converted again from its (now empty) old entries, and a range of empty blocks that
// was not reached is not forgotten.
func VxC18BlockTransactionsResumeFromAnyCommittedSubset() {
	vx.Bound("chain of 25 blocks = 3 ranges; per range: no transactions | one invoke transaction in its first block; any subset of the ranges already converted (combined layout), the others in the old layout; one uninterrupted run of the real migration (bounded by reads); one schedule per path")
	if vx.InEngine() {
		vx.Stub("(*github.com/NethermindEth/juno/migration/blocktransactions.counter).log", vxNoLog)
		vx.Stub("iter.Pull2", vxPull2[prefix.Entry[core.Transaction], error])
	}
	d := memory.New()
	const nblocks = 25
	txs := make([][]core.Transaction, nblocks)
	rcs := make([][]*core.TransactionReceipt, nblocks)
	anyOld := false
	for r := 0; r < 3; r++ {
		first, last := 10*r, min(10*r+9, nblocks-1)
		hasTx := vx.Choice("range-has-a-transaction", 2) == 1
		converted := vx.Choice("range-already-converted", 2) == 1
		if converted {
			vx.Cover("a-range-is-already-converted")
		} else if !hasTx {
			vx.Cover("an-unconverted-range-of-empty-blocks")
		} else {
			anyOld = true
		}
		for b := first; b <= last; b++ {
			if hasTx && b == first {
				h := felt.NewFromUint64[felt.Felt](9000 + uint64(b))
				txs[b] = []core.Transaction{&core.InvokeTransaction{TransactionHash: h, Version: new(core.TransactionVersion).SetUint64(1)}}
				rcs[b] = []*core.TransactionReceipt{{TransactionHash: h, Fee: &felt.Zero}}
			}
			layout := txlayout.TransactionLayoutPerTx
			if converted {
				layout = txlayout.TransactionLayoutCombined
			}
			hdr := &core.Header{Number: uint64(b), TransactionCount: uint64(len(txs[b]))}
			if core.BlockHeadersByNumberBucket.Put(d, uint64(b), hdr) != nil ||
				layout.WriteTransactionsAndReceipts(d, uint64(b), txs[b], rcs[b]) != nil {
				vx.Assume(false)
			}
		}
	}
	_ = anyOld
	if core.WriteChainHeight(d, nblocks-1) != nil {
		vx.Assume(false)
	}
	done := false
	for run := 0; run < 2 && !done; run++ {
		ctx, cancel := context.WithCancel(context.Background())
		n := 0
		var store db.KeyValueStore = vxCancelDB{KeyValueStore: d, n: &n, at: 150, cancel: cancel}
		st, err := Migrator{}.Migrate(ctx, store, nil, log.NewNopZapLogger())
		cancel()
		vx.Assert(err == nil, "migrate-no-error")
		if err != nil {
			return
		}
		done = st == nil
	}
	vx.Assert(done, "run-completes")
	if !done {
		return
	}
	for b := 0; b < nblocks; b++ {
		has, err := core.BlockTransactionsBucket.Has(d, uint64(b))
		vx.Assert(err == nil && has, "every-block-has-its-combined-record-when-complete")
		got, err := core.GetTransactionsByBlockNumber(d, uint64(b))
		vx.Assert(err == nil && len(got) == len(txs[b]), "transactions-of-every-block-readable-when-complete")
		for i := range got {
			if i < len(txs[b]) {
				vx.Assert(got[i].Hash().Equal(txs[b][i].Hash()), "transactions-read-back-are-the-ones-stored")
			}
		}
		rs, err := core.GetReceiptsByBlockNumber(d, uint64(b))
		vx.Assert(err == nil && len(rs) == len(rcs[b]), "receipts-of-every-block-readable-when-complete")
	}
	_, any, err := getFirstBlockToMigrate(d)
	vx.Assert(err == nil && !any, "old-buckets-empty-when-complete")
}
