//vx:pkg consensus/propeller
package propeller

import (
	"bytes"
	"crypto/rand"

	"github.com/NethermindEth/juno/consensus/propeller/merkle"
	"github.com/NethermindEth/juno/zzverif/vx"
	"github.com/libp2p/go-libp2p/core/crypto"
	"github.com/libp2p/go-libp2p/core/peer"
)

// C19-H4: the unit validator. "A unit whose shard data, proof, index, signature, committee or
// sender does not match is rejected and cannot cause a different message to be delivered or the
// receiver to fail", and "every shard's Merkle proof verifies against the signed message root".
// Committee of four peers A < B < L < P (L = this node, P = the publisher): shard 0 comes from A,
// shard 1 from B, shard 2 directly from P. The engine replaces signature verification by "equals
// the publisher's signature" and the protobuf encoding of a shard list by its wire format written
// out by hand; natively the real ed25519 keys and protobuf run.

var vxGoodSig Signature

func vxVerifySigSpec(_ crypto.PubKey, _ *MessageRoot, _ *CommitteeID, _ Nonce, sig Signature) error {
	if len(sig) == 0 || !bytes.Equal(sig, vxGoodSig) {
		return errVxBadSig
	}
	return nil
}

type vxSigErr struct{}

func (vxSigErr) Error() string { return "signature is invalid" }

var errVxBadSig error = vxSigErr{}

// vxProtoSpec: wire format of ShardsOfPeer{repeated Shard shards = 1}, Shard{bytes data = 1} for
// shards shorter than 126 bytes (one-byte varints).
func vxProtoSpec(sd ShardData) []byte {
	var out []byte
	for _, s := range sd {
		var inner []byte
		if len(s) > 0 {
			inner = append([]byte{0x0a, byte(len(s))}, s...)
		}
		out = append(out, 0x0a, byte(len(inner)))
		out = append(out, inner...)
	}
	return out
}

type vxNet struct {
	v        UnitValidator
	a, b, p  peer.ID
	units    []Unit
	shards   [][]byte
	root     merkle.Hash
	senderOf []peer.ID
}

// vxSetup builds the committee, the validator and three genuine units whose proofs are over the
// leaves the validator checks (the protobuf encoding of the unit's shard list).
func vxNoKey(peer.ID) (crypto.PubKey, error) { return nil, nil }

func vxSetup(rawLeaves bool) *vxNet {
	n := &vxNet{}
	var pub crypto.PubKey
	var priv crypto.PrivKey
	local := peer.ID("L-local")
	if vx.InEngine() {
		vx.Stub("github.com/NethermindEth/juno/consensus/propeller.VerifyMessageSignature", vxVerifySigSpec)
		vx.Stub("(github.com/NethermindEth/juno/consensus/propeller.ShardData).MarshalProto", vxProtoSpec)
		// the publisher's key is only handed to the (modelled) signature check
		vx.Stub("(github.com/libp2p/go-libp2p/core/peer.ID).ExtractPublicKey", vxNoKey)
		n.a, n.b, n.p = peer.ID("A-peer"), peer.ID("B-peer"), peer.ID("P-publisher")
	} else {
		var err error
		priv, pub, err = crypto.GenerateEd25519Key(rand.Reader)
		if err != nil {
			panic(err)
		}
		pid, perr := peer.IDFromPublicKey(pub)
		if perr != nil {
			panic(perr)
		}
		// the committee is kept sorted by peer id: a real ed25519 peer id starts with 0x00 0x24
		n.a, n.b, n.p = peer.ID("\x00\x01A-peer"), peer.ID("\x00\x02B-peer"), pid
		local = peer.ID("\x00\x03L-local")
	}
	sched := &Scheduler{
		localPeerID: local, localPeerIDIndex: 2,
		peers:         []PeerCommittee{{ID: n.a}, {ID: n.b}, {ID: local}, {ID: n.p}},
		numDataShards: 1, numCodingShards: 2,
	}
	n.v = NewValidator(n.p, sched) // the real constructor (whatever bookkeeping it allocates)
	n.senderOf = []peer.ID{n.a, n.b, n.p}
	for i := 0; i < 3; i++ {
		n.shards = append(n.shards, vx.Bytes("shard", 2))
	}
	leaves := make([][]byte, 3)
	for i := range leaves {
		if rawLeaves {
			leaves[i] = n.shards[i] // what CreatePropellerUnits hashes: merkle.New(encodedMessage)
		} else {
			leaves[i] = ShardData{n.shards[i]}.MarshalProto()
		}
	}
	if !vx.InEngine() {
		// the hand-written wire format is the real one
		for i := range n.shards {
			if !bytes.Equal(vxProtoSpec(ShardData{n.shards[i]}), ShardData{n.shards[i]}.MarshalProto()) {
				panic("vxProtoSpec differs from protobuf")
			}
		}
	}
	root, tree := merkle.New(leaves)
	n.root = root
	var committee CommitteeID
	mr := MessageRoot(root)
	if vx.InEngine() {
		vxGoodSig = Signature{0x51, 0x9e}
	} else {
		sig, err := SignMessage(priv, &mr, &committee, 7)
		if err != nil {
			panic(err)
		}
		vxGoodSig = sig
	}
	for i := 0; i < 3; i++ {
		n.units = append(n.units, Unit{CommitteeID: committee, Publisher: n.p, MessageRoot: mr, MerkleProof: tree[i],
			Signature: vxGoodSig, ShardIndex: ShardIndex(i), ShardData: ShardData{n.shards[i]}, Nonce: 7})
	}
	return n
}

func VxC19ValidatorRejectsCorruptionOnly() {
	vx.Bound("committee of 4 (1 data + 2 coding shards), shards of 2 symbolic bytes; for one shard index: optionally first a unit with one corrupted field (a shard byte, a proof sibling byte, the shard index (any other 32-bit value, out of range included), the signature, the sender) - every byte of the corruption symbolic - then the genuine unit, then the genuine unit again")
	n := vxSetup(false)
	i := vx.Choice("index", 3)
	genuine := n.units[i]
	if vx.Bool("junkFirst") {
		junk := genuine
		sender := n.senderOf[i]
		changed := false
		switch vx.Choice("corrupt", 5) {
		case 0:
			d := append([]byte(nil), genuine.ShardData[0]...)
			x := vx.U8("flip")
			vx.Assume(x != 0)
			d[vx.Choice("at", len(d))] ^= x
			junk.ShardData = ShardData{d}
			changed = true
			vx.Cover("corrupted-shard-data")
		case 1:
			sib := append([]merkle.Hash(nil), genuine.MerkleProof.Siblings...)
			x := vx.U8("flip")
			vx.Assume(x != 0)
			sib[vx.Choice("sib", len(sib))][vx.Choice("byte", 32)] ^= x
			junk.MerkleProof = merkle.Proof{Siblings: sib}
			changed = true
			vx.Cover("corrupted-proof")
		case 2:
			// right data, wrong index claimed (and so the wrong relayer for it)
			// (any other 32-bit value: another shard of the committee, or an index no shard has)
			bad := vx.U32("claimed-index")
			vx.Assume(bad != uint32(i))
			junk.ShardIndex = ShardIndex(bad)
			if bad >= 3 {
				vx.Cover("corrupted-index-out-of-range")
			}
			changed = true
			vx.Cover("corrupted-index")
		case 3:
			s := append(Signature(nil), genuine.Signature...)
			x := vx.U8("flip")
			vx.Assume(x != 0)
			s[0] ^= x
			junk.Signature = s
			changed = true
			vx.Cover("corrupted-signature")
		case 4:
			sender = n.senderOf[(i+1)%3]
			changed = true
			vx.Cover("wrong-sender")
		}
		vx.CollisionFree()
		err := n.v.Validate(&junk, sender)
		vx.Assert(!changed || err != nil, "corrupted-unit-is-rejected")
	}
	vx.Assert(n.v.Validate(&genuine, n.senderOf[i]) == nil, "genuine-unit-is-accepted-whatever-was-rejected-before")
	vx.Assert(n.v.Validate(&genuine, n.senderOf[i]) != nil, "duplicate-is-rejected")
}

// C19-H5: the units the publisher side produces pass the receiver's validation. The proof is built
// exactly as CreatePropellerUnits builds it (merkle.New over the encoded shards).
func VxC19PublishedUnitPassesValidation() {
	vx.Bound("units built as CreatePropellerUnits builds them (Merkle tree over the raw shards), 3 shards of 2 symbolic bytes; validator's shard/proof check on each")
	n := vxSetup(true)
	i := vx.Choice("index", 3)
	vx.CollisionFree()
	vx.Assert(n.v.verifyDataShards(&n.units[i]) == nil, "published-unit-proof-verifies#KF-C19-3")
}
