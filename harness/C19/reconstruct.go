//vx:pkg consensus/propeller
package propeller

import (
	"bytes"

	"github.com/NethermindEth/juno/consensus/propeller/merkle"
	"github.com/NethermindEth/juno/consensus/propeller/reedsolomon"
	"github.com/NethermindEth/juno/zzverif/vx"
)

// C19-H3: reconstruction wiring. A message is padded, split into d data shards, extended by p
// parity shards and bound by a Merkle tree (real PadMessage / merkle.New); a receiver holds an
// arbitrary subset of the units with at least d of them and calls ConstructMessageFromUnits. It
// must not crash and must return exactly the message, the local shard and a proof that verifies -
// whichever units are missing (unit 0 included).
//
// Reed-Solomon field arithmetic (assembly) is outside the engine: the parity shards are arbitrary
// bytes of the right size and RecoverData is replaced by its contract (missing shards are restored
// to what the sender produced). Natively the real encoder and decoder run.

var vxOriginalShards [][]byte

func vxRecoverSpec(shards [][]byte, numDataShards, parity int) ([][]byte, error) {
	for i := range shards {
		if shards[i] == nil {
			shards[i] = append([]byte(nil), vxOriginalShards[i]...)
		}
	}
	return shards, nil
}

func VxC19ReconstructFromSubset() {
	vx.Bound("message of 0..3 symbolic bytes; 2 data shards + 2 parity shards; every subset of units with >= 2 present; local shard index arbitrary in 0..3")
	const d, p = 2, 2
	n := vx.Choice("n", 4)
	m := vx.Bytes("m", n)
	padded := PadMessage(m, d)
	var shards [][]byte
	if vx.InEngine() {
		vx.Stub("github.com/NethermindEth/juno/consensus/propeller/reedsolomon.RecoverData", vxRecoverSpec)
		sz := len(padded) / d
		for i := 0; i < d; i++ {
			shards = append(shards, append([]byte(nil), padded[i*sz:(i+1)*sz]...))
		}
		for i := 0; i < p; i++ {
			shards = append(shards, vx.Bytes("parity", sz))
		}
	} else {
		var err error
		shards, err = reedsolomon.EncodeData(append([]byte(nil), padded...), d, p)
		if err != nil {
			panic(err)
		}
	}
	vxOriginalShards = shards
	root, tree := merkle.New(shards)
	units := make([]*Unit, d+p)
	present := 0
	for i := range units {
		if vx.Bool("present") {
			units[i] = &Unit{MessageRoot: MessageRoot(root), MerkleProof: tree[i], ShardIndex: ShardIndex(i),
				ShardData: []Shard{append([]byte(nil), shards[i]...)}}
			present++
		}
	}
	vx.Assume(present >= d)
	if units[0] == nil {
		vx.Cover("unit-zero-missing")
	}
	if present == d+p {
		vx.Cover("nothing-missing")
	}
	local := vx.Choice("local", d+p)
	msg, localShard, proof, err := ConstructMessageFromUnits(units, ShardIndex(local), d, p)
	vx.Assert(err == nil, "reconstruction-succeeds-with-enough-units")
	if err != nil {
		return
	}
	vx.Assert(bytes.Equal(msg, m), "reconstructed-message-is-the-message")
	vx.Assert(len(localShard) == 1 && bytes.Equal(localShard[0], shards[local]), "local-shard-is-the-senders-shard")
	vx.Assert(proof.Verify(&root, shards[local], uint32(local)), "local-proof-verifies")
}

// vxUnitsFor pads and shards message m as the publisher does and returns the units a receiver holds
// (missing = the index left out, -1 none) together with the shards.
func vxUnitsFor(m []byte, tag string, missing int) ([]*Unit, [][]byte) {
	const d, p = 2, 2
	padded := PadMessage(m, d)
	var shards [][]byte
	if vx.InEngine() {
		sz := len(padded) / d
		for i := 0; i < d; i++ {
			shards = append(shards, append([]byte(nil), padded[i*sz:(i+1)*sz]...))
		}
		for i := 0; i < p; i++ {
			shards = append(shards, vx.Bytes(tag+"parity", sz))
		}
	} else {
		var err error
		shards, err = reedsolomon.EncodeData(append([]byte(nil), padded...), d, p)
		if err != nil {
			panic(err)
		}
	}
	root, tree := merkle.New(shards)
	units := make([]*Unit, d+p)
	for i := range units {
		if i != missing {
			units[i] = &Unit{MessageRoot: MessageRoot(root), MerkleProof: tree[i], ShardIndex: ShardIndex(i),
				ShardData: []Shard{append([]byte(nil), shards[i]...)}}
		}
	}
	return units, shards
}

// C19-H3b: a delivered message stays what it was. The node reconstructs message A and hands it on (the
// application holds on to it), then reconstructs message B from another publisher. A must still be A -
// whatever buffers the reconstruction takes from a pool or keeps between calls: "the reconstructed message
// is bit-for-bit the original" for as long as the receiver holds it, not only at the moment of return.
func VxC19DeliveredMessageIsNotTouchedByLaterReconstructions() {
	vx.Bound("two messages of 1..3 and 0..3 symbolic bytes; 2+2 shards; one unit of each possibly missing; A reconstructed and kept, then B reconstructed, then A compared")
	if vx.InEngine() {
		vx.Stub("github.com/NethermindEth/juno/consensus/propeller/reedsolomon.RecoverData", vxRecoverSpec)
	}
	na := 1 + vx.Choice("na", 3)
	nb := vx.Choice("nb", 4)
	ma := vx.Bytes("ma", na)
	mb := vx.Bytes("mb", nb)
	ua, sa := vxUnitsFor(ma, "a.", vx.Choice("a.missing", 3)-1)
	vxOriginalShards = sa
	gotA, _, _, err := ConstructMessageFromUnits(ua, 0, 2, 2)
	vx.Assert(err == nil && bytes.Equal(gotA, ma), "reconstructed-message-is-the-message")
	if err != nil {
		return
	}
	ub, sb := vxUnitsFor(mb, "b.", vx.Choice("b.missing", 3)-1)
	vxOriginalShards = sb
	gotB, _, _, err := ConstructMessageFromUnits(ub, 1, 2, 2)
	vx.Assert(err == nil && bytes.Equal(gotB, mb), "reconstructed-message-is-the-message")
	vx.Assert(bytes.Equal(gotA, ma), "delivered-message-unchanged-by-a-later-reconstruction")
}
