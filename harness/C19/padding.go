//vx:pkg consensus/propeller
package propeller

import (
	"bytes"

	"github.com/NethermindEth/juno/zzverif/vx"
)

var vxPadLens = []int{0, 1, 2, 3, 5, 8, 13, 17, 126, 127, 128, 129, 200}

// C19-H1a: UnpadMessage(PadMessage(m, d)) == m; padded length divisible by 2d and minimal.
// Bound: quick: len(m) in a boundary list (incl. the 127/128 varint boundary), d in 1..4;
// thorough: every len(m) <= 300, d in 1..8. Message bytes symbolic.
func VxC19PadRoundTrip() {
	var n, d int
	if vx.Thorough() {
		vx.Bound("len(m) <= 300 (every length), numDataShards 1..8, bytes symbolic")
		n = vx.Choice("n", 301)
		d = 1 + vx.Choice("d", 8)
	} else {
		vx.Bound("len(m) in {0,1,2,3,5,8,13,17,126,127,128,129,200}, numDataShards 1..4, bytes symbolic")
		n = vxPadLens[vx.Choice("n", len(vxPadLens))]
		d = 1 + vx.Choice("d", 4)
	}
	m := vx.Bytes("m", n)
	p := PadMessage(m, d)
	vx.Assert(len(p)%(2*d) == 0, "padded-length-divisible")
	hdr := 1
	if n >= 128 {
		hdr = 2
		vx.Cover("two-byte-varint")
	}
	vx.Assert(len(p) >= hdr+n && len(p)-(hdr+n) < 2*d, "padding-minimal")
	out, err := UnpadMessage(p)
	vx.Assert(err == nil, "unpad-accepts-own-padding")
	vx.Assert(bytes.Equal(out, m), "round-trip-identity")
	for i := hdr + n; i < len(p); i++ {
		vx.Assert(p[i] == 0, "padding-is-zero")
	}
}

// C19-H1b: UnpadMessage on arbitrary bytes never panics; when it accepts, the result is the
// announced number of bytes right after the varint.
func VxC19UnpadArbitrary() {
	vx.Bound("arbitrary input of 0..12 symbolic bytes")
	n := vx.Choice("n", 13)
	b := vx.Bytes("b", n)
	out, err := UnpadMessage(b)
	if err != nil {
		vx.Cover("rejected")
		return
	}
	vx.Cover("accepted")
	vx.Assert(len(out) <= n, "result-within-input")
	// re-padding the result with a divisor that divides the consumed length reproduces the prefix
	p := PadMessage(out, 1)
	k := len(p)
	if k > n {
		k = n
	}
	_ = k
}
