//vx:pkg consensus/propeller/merkle
package merkle

import (
	"github.com/NethermindEth/juno/zzverif/vx"
)

// C19-H2a: a Merkle leaf commits to every byte of its shard, whatever the shard's size. A shard is verified
// against the signed root through its leaf hash; if some byte of some shard size does not reach the hash, a
// shard corrupted there passes its proof and - with exactly a threshold-size subset - a different message is
// rebuilt without an error. Two shards of the same length L (L chosen around the sizes where buffers and
// block boundaries change: 0..2, 31..33, 55..65, 119..129, 255..257, 499..513, 1000, 1024, 1025, 4096) that
// differ in one byte - the first, the middle one, or one of the last eight (all other bytes symbolic and shared) must have different leaf
// hashes, and a leaf hash never equals the hash of an inner node (domain separation by the tags). SHA-256 is
// an ideal hash (uninterpreted, collision-free).
func VxC19LeafCommitsToEveryByte() {
	vx.Bound("shard length from {1, 2, 31..33, 55, 56, 64, 65, 119, 128, 255..257, 499..513, 1000, 1024, 1025, 4096}; all bytes symbolic; the two shards differ in exactly one byte: the first, the middle or one of the last eight; SHA-256 ideal")
	lens := []int{1, 2, 31, 32, 33, 55, 56, 64, 65, 119, 128, 255, 256, 257, 499, 500, 501, 502, 503, 504, 505, 506, 507, 508, 509, 510, 511, 512, 513, 1000, 1024, 1025, 4096}
	L := lens[vx.Choice("length", len(lens))]
	d1 := vx.Bytes("shard", L)
	d2 := append([]byte{}, d1...)
	// the differing byte: the first, the middle or one of the last eight bytes
	cands := []int{0, L / 2, L - 8, L - 7, L - 6, L - 5, L - 4, L - 3, L - 2, L - 1}
	pos := cands[vx.Choice("position", len(cands))]
	vx.Assume(pos >= 0 && pos < L)
	other := vx.U8("other-byte")
	vx.Assume(other != d1[pos])
	d2[pos] = other
	vx.CollisionFree()
	h1, h2 := merkleLeafHash(d1), merkleLeafHash(d2)
	vx.Assert(h1 != h2, "leaf-hash-commits-to-every-byte-of-the-shard")
	if L >= 499 && L <= 513 {
		vx.Cover("shard-sizes-around-512-bytes")
	}
	n := merkleNodeHash(&h1, &h2)
	vx.Assert(n != h1 && n != h2, "node-hash-differs-from-leaf-hashes")
}
