//vx:pkg sync/preconfirmed
package preconfirmed

import (
	"github.com/NethermindEth/juno/blockchain"
	"github.com/NethermindEth/juno/core"
	"github.com/NethermindEth/juno/core/felt"
	"github.com/NethermindEth/juno/core/pending"
	"github.com/NethermindEth/juno/db"
	"github.com/NethermindEth/juno/zzverif/vx"
)

// C20-H4: state views are true overlays over an immutable chain. Reading the state at any block of
// the stored pre-confirmed chain (a) never writes to the stored entries - every view already handed
// out stays what it was - and (b) resolves exactly the classes declared by the blocks up to and
// including the requested one, never those of later blocks.

type vxBaseReader struct{ blockchain.Reader }

type vxBaseState struct{ core.StateReader }

func (vxBaseState) Class(*felt.Felt) (*core.DeclaredClassDefinition, error) {
	return nil, db.ErrKeyNotFound
}

func (vxBaseReader) StateAtBlockNumber(uint64) (core.StateReader, blockchain.StateCloser, error) {
	return vxBaseState{}, func() error { return nil }, nil
}

func VxC20StateViewsAreOverlays() {
	vx.Bound("stored chain of 2..3 pre-confirmed blocks, each declaring 0..1 class (distinct symbolic class hashes); state read at an arbitrary block of the chain, optionally preceded by a read at the tip; class lookups for every declared hash")
	n := 2 + vx.Choice("blocks", 2)
	oldest := uint64(10)
	var entries []*pending.PreConfirmed
	var hashes []felt.Felt
	declared := make([]bool, n)
	for i := 0; i < n; i++ {
		e := vxEntry(oldest+uint64(i), "e")
		hb := vx.FeltBytes("class")
		var h felt.Felt
		h.SetBytes(hb[:])
		for _, o := range hashes {
			vx.Assume(!o.Equal(&h))
		}
		hashes = append(hashes, h)
		if vx.Bool("declares") {
			declared[i] = true
			e.NewClasses = map[felt.Felt]core.ClassDefinition{h: &core.SierraClass{}}
		}
		entries = append(entries, e)
	}
	c, err := NewChain(entries...)
	vx.Assert(err == nil, "newchain-accepts-contiguous")
	s := NewChainStorage()
	s.inner.Store(&c)
	view := s.inner.Load()
	if vx.Bool("readTipFirst") {
		_, _, terr := view.PreConfirmedStateAt(oldest+uint64(n-1), vxBaseReader{})
		vx.Assert(terr == nil, "state-at-tip-opens")
	}
	at := vx.Choice("at", n)
	st, _, serr := view.PreConfirmedStateAt(oldest+uint64(at), vxBaseReader{})
	vx.Assert(serr == nil, "state-opens")
	if serr != nil {
		return
	}
	for i := 0; i < n; i++ {
		_, cerr := st.Class(&hashes[i])
		if declared[i] && i <= at {
			vx.Assert(cerr == nil, "class-declared-up-to-the-block-is-visible")
		} else {
			vx.Assert(cerr != nil, "class-of-a-later-block-is-not-visible")
			if declared[i] {
				vx.Cover("later-declaration-hidden")
			}
		}
		// the stored entries are what they were
		want := 0
		if declared[i] {
			want = 1
		}
		vx.Assert(len(entries[i].NewClasses) == want, "stored-entry-not-written-by-a-read")
	}
}
