//vx:pkg sync/preconfirmed
//vx:noreplay
//vx:include chain.go
package preconfirmed

import (
	"github.com/NethermindEth/juno/zzverif/vx"
)

// C20-H7 (engine only; schedules explored by bounded preemption): "a snapshot handed to a reader is a
// contiguous run of blocks ending at the tip ... while the writer keeps publishing". A reader goroutine
// calls SnapshotForBlock(b) while the writer (the harness goroutine) performs one step - AdvanceTo after
// the head moved, a full drop, or an ApplyUpdate (new tip / new round at a lower slot). The engine preempts
// the reader at every atomic operation, so the writer's publication lands before, between or after the
// reader's loads. Whatever the schedule, the view the reader got is either empty or a contiguous run of
// exactly Length() blocks whose oldest block is b - i.e. it is a view of ONE published chain.
func VxC20SnapshotIsOfOnePublishedChain() {
	vx.Bound("stored chain of 2..3 blocks from a symbolic height; reader: SnapshotForBlock(oldest | oldest+1); writer: one of AdvanceTo(oldest+1), AdvanceTo(beyond the tip: drop), ApplyUpdate(new block at tip+1), ApplyUpdate(new round at the tip slot); every schedule with <= 2 preemptions of either goroutine at atomic operations")
	n := 2 + vx.Choice("len", 2)
	oldest := vx.U64("oldest")
	vx.Assume(oldest >= 1 && oldest < 1<<62)
	s := vxBuild(n, oldest)
	tip := oldest + uint64(n) - 1
	want := oldest + uint64(vx.Choice("readerAsksFor", 2))
	got := make(chan ChainReader, 1)
	vx.Preemptions(2)
	go func() {
		got <- s.SnapshotForBlock(want)
	}()
	switch vx.Choice("writerStep", 4) {
	case 0:
		s.AdvanceTo(oldest + 1)
		vx.Cover("writer-advances-by-one")
	case 1:
		s.AdvanceTo(tip + 5)
		vx.Cover("writer-drops-the-chain")
	case 2:
		_, _ = s.ApplyUpdate(vxBlockUpdate("u"), tip+1, 0, oldest, nil)
		vx.Cover("writer-appends-a-tip")
	default:
		_, _ = s.ApplyUpdate(vxBlockUpdate("u"), tip, 0, oldest, nil)
		vx.Cover("writer-replaces-the-tip-slot")
	}
	view := <-got
	vx.Assert(view.length >= 0, "engine:view-length-never-negative")
	if view.length <= 0 {
		vx.Assert(view.head == nil, "engine:empty-view-has-no-head")
		vx.Cover("sched:reader-got-an-empty-view")
		return
	}
	vx.Cover("sched:reader-got-a-view")
	vx.Assert(vxInvariantPrefix(&view), "engine:view-is-a-contiguous-run-of-its-length")
	if vxInvariantPrefix(&view) {
		vx.Assert(view.head.preconfirmed.Block.Number-uint64(view.length)+1 == want, "engine:view-starts-at-the-requested-block")
	}
}

// vxInvariantPrefix: the first `length` nodes from the head exist and are numbered contiguously
// downwards (a view may be a proper prefix of the stored chain).
func vxInvariantPrefix(c *ChainReader) bool {
	cur := c.head
	if cur == nil || cur.preconfirmed == nil {
		return false
	}
	tip := cur.preconfirmed.Block.Number
	for i := 0; i < c.length; i++ {
		if cur == nil || cur.preconfirmed == nil || cur.preconfirmed.Block.Number != tip-uint64(i) {
			return false
		}
		cur = cur.parent
	}
	return true
}
