//vx:pkg sync/preconfirmed
//vx:include chain.go
package preconfirmed

import (
	"github.com/NethermindEth/juno/core"
	"github.com/NethermindEth/juno/core/felt"
	"github.com/NethermindEth/juno/starknet"
	"github.com/NethermindEth/juno/zzverif/vx"
)

// C20-H6: a view never changes after it was handed out, across a same-round delta update of the tip.
// Stored chain of 1..2 blocks whose tip already declares 0..1 class; a reader takes a view; a delta
// (one transaction, 0..1 newly declared class) is applied to the tip. The entry the old view points at
// keeps its transactions and its declared-class overlay (vx.Freeze also reports any write into an
// object reachable from the old view), while the published tip carries old + new classes.
func VxC20DeltaUpdateKeepsOldViews() {
	vx.Bound("stored chain of 1..2 blocks, tip with 0..1 declared class and no transactions; one PreConfirmedDeltaUpdate of the tip with one L1-handler transaction and 0..1 new class; the tip may already hold a storage slot and the nonce of one contract, the appended transaction may write that contract (same slot / other slot / nonce), values symbolic")
	n := 1 + vx.Choice("len", 2)
	oldest := uint64(5)
	s := vxBuild(n, oldest)
	before := s.inner.Load()
	tipEntry := before.head.preconfirmed
	tipEntry.Block.Header.EventsBloom = core.EventsBloom(nil)
	tipEntry.Block.Header.TransactionCount = 0
	k7 := felt.FromUint64[felt.Felt](7)
	k9 := felt.FromUint64[felt.Felt](9)
	if vx.Choice("tip-classes", 2) == 1 {
		tipEntry.NewClasses = map[felt.Felt]core.ClassDefinition{k7: nil}
		vx.Cover("tip-already-declares-a-class")
	}
	// the tip's squashed state diff may already hold a slot of contract 0xc0 (written by an earlier transaction)
	c0 := felt.FromUint64[felt.Felt](0xc0)
	slot1 := felt.FromUint64[felt.Felt](1)
	tipWrote := vx.Choice("tip-wrote-the-contract", 2) == 1
	oldVal := felt.FromUint64[felt.Felt](uint64(vx.U8("tip.value")))
	if tipWrote {
		tipEntry.StateUpdate.StateDiff.StorageDiffs[c0] = map[felt.Felt]*felt.Felt{slot1: &oldVal}
		tipEntry.StateUpdate.StateDiff.Nonces[c0] = &oldVal
		vx.Cover("tip-already-wrote-the-contract")
	}
	had := len(tipEntry.NewClasses)
	tip := oldest + uint64(n) - 1
	view := s.SnapshotForBlock(oldest)
	vx.Assert(view.Length() == n && view.Head() == tipEntry, "view-covers-chain")
	vx.Freeze(view.head)

	var newClasses map[felt.Felt]core.ClassDefinition
	if vx.Choice("new-classes", 2) == 1 {
		newClasses = map[felt.Felt]core.ClassDefinition{k9: nil}
		vx.Cover("delta-declares-a-class")
	}
	h := felt.FromUint64[felt.Felt](77)
	zero := felt.Felt{}
	cd := []felt.Felt{}
	delta := starknet.PreConfirmedDeltaUpdate{
		BlockIdentifier: tipEntry.BlockIdentifier,
		Transactions: []starknet.Transaction{{
			Hash: &h, Type: starknet.TxnL1Handler, ContractAddress: &zero, EntryPointSelector: &zero, Nonce: &zero, CallData: &cd, Version: &zero,
		}},
		Receipts:              []*starknet.TransactionReceipt{{TransactionHash: &h}},
		TransactionStateDiffs: []*starknet.StateDiff{{}},
	}
	// the appended transaction may emit an event (the tip's header carries the bloom filter of its events)
	emits := vx.Choice("delta-emits-an-event", 2) == 1
	if emits {
		from := felt.FromUint64[felt.Felt](0xe1)
		delta.Receipts[0].Events = []*starknet.Event{{From: &from, Keys: []felt.Felt{felt.FromUint64[felt.Felt](0x77)}}}
		vx.Cover("delta-emits-an-event")
	}
	// the appended transaction may write the same contract: the same slot, another slot, its nonce
	newVal := felt.FromUint64[felt.Felt](1000 + uint64(vx.U8("delta.value")))
	deltaSlot := felt.FromUint64[felt.Felt](uint64(1 + vx.Choice("delta.slot", 2)))
	deltaWrites := vx.Choice("delta-writes-the-contract", 2) == 1
	if deltaWrites {
		delta.TransactionStateDiffs[0].StorageDiffs = map[string][]struct {
			Key   *felt.Felt `json:"key"`
			Value *felt.Felt `json:"value"`
		}{"0xc0": {{Key: &deltaSlot, Value: &newVal}}}
		delta.TransactionStateDiffs[0].Nonces = map[string]*felt.Felt{"0xc0": &newVal}
		vx.Cover("delta-writes-the-contract")
	}
	affected, err := s.ApplyUpdate(delta, tip, 0, oldest, newClasses)
	vx.Thaw()
	vx.Assert(err == nil && affected != nil, "delta-applied")
	if err != nil || affected == nil {
		return
	}
	after := s.inner.Load()
	vx.Assert(after != before && after.head.preconfirmed == affected, "delta-publishes-new-tip")
	vx.Assert(len(affected.Block.Transactions) == 1, "new-tip-has-the-transaction")
	vx.Assert(len(affected.NewClasses) == had+len(newClasses), "new-tip-carries-old-and-new-classes")
	// the old view still shows what it showed when it was taken
	vx.Assert(view.Head() == tipEntry && view.Length() == n, "old-view-still-points-at-old-entry")
	vx.Assert(len(tipEntry.Block.Transactions) == 0, "old-view-transactions-unchanged")
	vx.Assert(len(tipEntry.NewClasses) == had, "old-view-declared-classes-unchanged")
	// ... its header still describes the events of ITS transactions (none): the bloom filter object must not be
	// shared with the new tip, whose filter now covers the appended transaction's event
	vx.Assert(tipEntry.Block.Header.EventsBloom != nil && tipEntry.Block.Header.EventsBloom.BitSet().Count() == 0, "old-view-events-bloom-unchanged")
	vx.Assert(tipEntry.Block.Header.EventCount == 0, "old-view-event-count-unchanged")
	if emits {
		vx.Assert(affected.Block.Header.EventCount == 1 && affected.Block.Header.EventsBloom != nil &&
			affected.Block.Header.EventsBloom.BitSet().Count() > 0, "new-tip-bloom-covers-the-appended-event")
	}
	// ... and the old view's state diff is the one it had: the slot and nonce the earlier transaction wrote
	oldSD := tipEntry.StateUpdate.StateDiff
	if tipWrote {
		m := oldSD.StorageDiffs[c0]
		vx.Assert(len(m) == 1 && m[slot1] != nil && m[slot1].Equal(&oldVal), "old-view-storage-diff-unchanged")
		vx.Assert(oldSD.Nonces[c0] != nil && oldSD.Nonces[c0].Equal(&oldVal), "old-view-nonce-diff-unchanged")
	} else {
		vx.Assert(len(oldSD.StorageDiffs) == 0 && len(oldSD.Nonces) == 0, "old-view-state-diff-still-empty")
	}
	// while the new tip's squashed diff is old overlaid with new
	newSD := affected.StateUpdate.StateDiff
	if deltaWrites {
		m := newSD.StorageDiffs[c0]
		vx.Assert(m[deltaSlot] != nil && m[deltaSlot].Equal(&newVal), "new-tip-has-the-appended-write")
		vx.Assert(newSD.Nonces[c0] != nil && newSD.Nonces[c0].Equal(&newVal), "new-tip-has-the-appended-nonce")
		if tipWrote && !deltaSlot.Equal(&slot1) {
			vx.Assert(m[slot1] != nil && m[slot1].Equal(&oldVal), "new-tip-keeps-the-earlier-write")
		}
	} else if tipWrote {
		m := newSD.StorageDiffs[c0]
		vx.Assert(m[slot1] != nil && m[slot1].Equal(&oldVal), "new-tip-keeps-the-earlier-write")
	}
}
