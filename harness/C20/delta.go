//vx:pkg sync/preconfirmed
//vx:include chain.go
package preconfirmed

import (
	"github.com/NethermindEth/juno/core"
	"github.com/NethermindEth/juno/core/felt"
	"github.com/NethermindEth/juno/starknet"
	"github.com/NethermindEth/juno/zzverif/vx"
)

// C20-H6: a view never changes after it was handed out, across a same-round delta update of the tip.
// Stored chain of 1..2 blocks whose tip already declares 0..1 class; a reader takes a view; a delta
// (one transaction, 0..1 newly declared class) is applied to the tip. The entry the old view points at
// keeps its transactions and its declared-class overlay (vx.Freeze also reports any write into an
// object reachable from the old view), while the published tip carries old + new classes.
func VxC20DeltaUpdateKeepsOldViews() {
	vx.Bound("stored chain of 1..2 blocks, tip with 0..1 declared class and no transactions; one PreConfirmedDeltaUpdate of the tip with one L1-handler transaction and 0..1 new class")
	n := 1 + vx.Choice("len", 2)
	oldest := uint64(5)
	s := vxBuild(n, oldest)
	before := s.inner.Load()
	tipEntry := before.head.preconfirmed
	tipEntry.Block.Header.EventsBloom = core.EventsBloom(nil)
	tipEntry.Block.Header.TransactionCount = 0
	k7 := felt.FromUint64[felt.Felt](7)
	k9 := felt.FromUint64[felt.Felt](9)
	if vx.Choice("tip-classes", 2) == 1 {
		tipEntry.NewClasses = map[felt.Felt]core.ClassDefinition{k7: nil}
		vx.Cover("tip-already-declares-a-class")
	}
	had := len(tipEntry.NewClasses)
	tip := oldest + uint64(n) - 1
	view := s.SnapshotForBlock(oldest)
	vx.Assert(view.Length() == n && view.Head() == tipEntry, "view-covers-chain")
	vx.Freeze(view.head)

	var newClasses map[felt.Felt]core.ClassDefinition
	if vx.Choice("new-classes", 2) == 1 {
		newClasses = map[felt.Felt]core.ClassDefinition{k9: nil}
		vx.Cover("delta-declares-a-class")
	}
	h := felt.FromUint64[felt.Felt](77)
	zero := felt.Felt{}
	cd := []felt.Felt{}
	delta := starknet.PreConfirmedDeltaUpdate{
		BlockIdentifier: tipEntry.BlockIdentifier,
		Transactions: []starknet.Transaction{{
			Hash: &h, Type: starknet.TxnL1Handler, ContractAddress: &zero, EntryPointSelector: &zero, Nonce: &zero, CallData: &cd, Version: &zero,
		}},
		Receipts:              []*starknet.TransactionReceipt{{TransactionHash: &h}},
		TransactionStateDiffs: []*starknet.StateDiff{{}},
	}
	affected, err := s.ApplyUpdate(delta, tip, 0, oldest, newClasses)
	vx.Thaw()
	vx.Assert(err == nil && affected != nil, "delta-applied")
	if err != nil || affected == nil {
		return
	}
	after := s.inner.Load()
	vx.Assert(after != before && after.head.preconfirmed == affected, "delta-publishes-new-tip")
	vx.Assert(len(affected.Block.Transactions) == 1, "new-tip-has-the-transaction")
	vx.Assert(len(affected.NewClasses) == had+len(newClasses), "new-tip-carries-old-and-new-classes")
	// the old view still shows what it showed when it was taken
	vx.Assert(view.Head() == tipEntry && view.Length() == n, "old-view-still-points-at-old-entry")
	vx.Assert(len(tipEntry.Block.Transactions) == 0, "old-view-transactions-unchanged")
	vx.Assert(len(tipEntry.NewClasses) == had, "old-view-declared-classes-unchanged")
}
