//vx:pkg sync/preconfirmed
//vx:include chain.go
//vx:include stateview.go
package preconfirmed

import (
	"github.com/NethermindEth/juno/core"
	"github.com/NethermindEth/juno/core/felt"
	"github.com/NethermindEth/juno/core/pending"
	"github.com/NethermindEth/juno/db"
	"github.com/NethermindEth/juno/zzverif/vx"
)

// C20-H7: the state read through a view is the base state overlaid with the view's state diffs IN ORDER.
// Two or three pre-confirmed blocks act on one contract X and one storage slot / nonce of it: a block may
// deploy X (class c_i), replace X's class, write the slot, bump the nonce (each present or absent, values
// symbolic). A read at block b must answer, for class hash, slot and nonce, the value written by the last
// block <= b that wrote it (a replacement after a deployment wins, a later deployment-less block does not
// hide an earlier write), and the base state's answer when no block up to b wrote it.

type vxBaseState2 struct{ core.StateReader }

var vxBaseMissing = db.ErrKeyNotFound

func (vxBaseState2) ContractClassHash(*felt.Felt) (felt.Felt, error) { return felt.Felt{}, vxBaseMissing }
func (vxBaseState2) ContractNonce(*felt.Felt) (felt.Felt, error)     { return felt.Felt{}, vxBaseMissing }
func (vxBaseState2) ContractStorage(*felt.Felt, *felt.Felt) (felt.Felt, error) {
	return felt.Felt{}, vxBaseMissing
}
func (vxBaseState2) Class(*felt.Felt) (*core.DeclaredClassDefinition, error) {
	return nil, vxBaseMissing
}

type vxBaseReader2 struct{ vxBaseReader }

func (vxBaseReader2) StateAtBlockNumber(uint64) (core.StateReader, func() error, error) {
	return vxBaseState2{}, func() error { return nil }, nil
}

func VxC20OverlayAppliesDiffsInOrder() {
	vx.Bound("stored chain of 2..3 pre-confirmed blocks over a base without contract X; per block: deploy X | replace X's class | neither, optional slot write, optional nonce write, values symbolic; read at an arbitrary block of the chain")
	n := 2 + vx.Choice("blocks", 2)
	oldest := uint64(10)
	x := felt.NewFromUint64[felt.Felt](0x77)
	slot := felt.NewFromUint64[felt.Felt](0x5)
	var entries []*pending.PreConfirmed
	type w struct {
		class, val, nonce *felt.Felt
	}
	writes := make([]w, n)
	deployed := false
	for i := 0; i < n; i++ {
		e := vxEntry(oldest+uint64(i), "e")
		sd := e.StateUpdate.StateDiff
		switch vx.Choice("class-op", 3) {
		case 1:
			if !deployed {
				c := vxFeltSym("deployclass")
				sd.DeployedContracts[*x] = c
				writes[i].class = c
				deployed = true
				vx.Cover("deploys")
			}
		case 2:
			if deployed {
				c := vxFeltSym("replaceclass")
				sd.ReplacedClasses[*x] = c
				writes[i].class = c
				vx.Cover("replaces-after-deployment")
			}
		}
		if vx.Bool("writes-slot") {
			v := vxFeltSym("val")
			sd.StorageDiffs[*x] = map[felt.Felt]*felt.Felt{*slot: v}
			writes[i].val = v
		}
		if vx.Bool("writes-nonce") {
			v := vxFeltSym("nonce")
			sd.Nonces[*x] = v
			writes[i].nonce = v
		}
		entries = append(entries, e)
	}
	c, err := NewChain(entries...)
	vx.Assert(err == nil, "newchain-accepts-contiguous")
	s := NewChainStorage()
	s.inner.Store(&c)
	view := s.inner.Load()
	at := vx.Choice("at", n)
	st, _, serr := view.PreConfirmedStateAt(oldest+uint64(at), vxBaseReader2{})
	vx.Assert(serr == nil, "state-opens")
	if serr != nil {
		return
	}
	var wantClass, wantVal, wantNonce *felt.Felt
	for i := 0; i <= at; i++ {
		if writes[i].class != nil {
			wantClass = writes[i].class
		}
		if writes[i].val != nil {
			wantVal = writes[i].val
		}
		if writes[i].nonce != nil {
			wantNonce = writes[i].nonce
		}
	}
	gc, cerr := st.ContractClassHash(x)
	if wantClass != nil {
		vx.Assert(cerr == nil && gc.Equal(wantClass), "class-hash-is-the-last-write-up-to-the-block")
	} else {
		vx.Assert(cerr != nil, "class-hash-falls-through-to-the-base")
	}
	gv, verr := st.ContractStorage(x, slot)
	if wantVal != nil {
		vx.Assert(verr == nil && gv.Equal(wantVal), "slot-is-the-last-write-up-to-the-block")
	}
	gn, nerr := st.ContractNonce(x)
	if wantNonce != nil {
		vx.Assert(nerr == nil && gn.Equal(wantNonce), "nonce-is-the-last-write-up-to-the-block")
	}
}

func vxFeltSym(name string) *felt.Felt {
	b := vx.FeltBytes(name)
	return new(felt.Felt).SetBytes(b[:])
}

// C20-H8: two views of different length over ONE stored chain - an older reader's view aligned to head h
// ([h+1 .. tip]) and a newer reader's view trimmed to head h+1 ([h+2 .. tip]) while the poller has not
// advanced the stored chain yet - share their nodes. Each reads the state at the tip; in either order, and
// twice, each gets the base overlaid with ITS OWN blocks only: the short view never sees the block below its
// range (that block is final now, possibly with other content), the long view never loses it. Whatever a
// node memoises about merged diffs must not leak between views.
func VxC20ViewsOfDifferentLengthDoNotShareOverlays() {
	vx.Bound("stored chain of 3 pre-confirmed blocks writing one slot of contract X each (symbolic values) or not; views aligned to the stored oldest block and to the next one; state at the tip read through both, in either order, each twice")
	oldest := uint64(10)
	x := felt.NewFromUint64[felt.Felt](0x77)
	slot := felt.NewFromUint64[felt.Felt](0x5)
	var entries []*pending.PreConfirmed
	vals := make([]*felt.Felt, 3)
	for i := 0; i < 3; i++ {
		e := vxEntry(oldest+uint64(i), "e")
		if i == 0 || vx.Bool("writes-slot") {
			vals[i] = vxFeltSym("val")
			e.StateUpdate.StateDiff.StorageDiffs[*x] = map[felt.Felt]*felt.Felt{*slot: vals[i]}
		}
		entries = append(entries, e)
	}
	c, err := NewChain(entries...)
	vx.Assert(err == nil, "newchain-accepts-contiguous")
	s := NewChainStorage()
	s.inner.Store(&c)
	long := s.SnapshotForBlock(oldest)
	short := s.SnapshotForBlock(oldest + 1)
	vx.Assert(long.Length() == 3 && short.Length() == 2, "views-cover-their-ranges")
	tip := oldest + 2
	read := func(v *ChainReader, from int, label string) {
		st, _, serr := v.PreConfirmedStateAt(tip, vxBaseReader2{})
		vx.Assert(serr == nil, "state-opens")
		if serr != nil {
			return
		}
		var want *felt.Felt
		for i := from; i < 3; i++ {
			if vals[i] != nil {
				want = vals[i]
			}
		}
		got, gerr := st.ContractStorage(x, slot)
		if want != nil {
			vx.Assert(gerr == nil && got.Equal(want), label)
		} else {
			vx.Cover("short-view-falls-through-to-the-base")
			vx.Assert(gerr != nil, label)
		}
	}
	if vx.Choice("long-view-reads-first", 2) == 1 {
		read(&long, 0, "long-view-is-the-base-overlaid-with-its-own-blocks")
		read(&short, 1, "short-view-is-the-base-overlaid-with-its-own-blocks")
	} else {
		read(&short, 1, "short-view-is-the-base-overlaid-with-its-own-blocks")
		read(&long, 0, "long-view-is-the-base-overlaid-with-its-own-blocks")
	}
	read(&long, 0, "long-view-is-the-base-overlaid-with-its-own-blocks")
	read(&short, 1, "short-view-is-the-base-overlaid-with-its-own-blocks")
}
