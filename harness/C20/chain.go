//vx:pkg sync/preconfirmed
package preconfirmed

import (
	"github.com/NethermindEth/juno/core"
	"github.com/NethermindEth/juno/core/felt"
	"github.com/NethermindEth/juno/core/pending"
	"github.com/NethermindEth/juno/starknet"
	"github.com/NethermindEth/juno/zzverif/vx"
)

// C20-H1/H2/H3: one writer step from an arbitrary valid stored chain.
// Pre-state: a stored chain of length 0..3 whose i-th node from the head has number tip-i and
// whose oldest node has a nil parent (the representation invariant ApplyUpdate/AdvanceTo must
// preserve); tip, transaction counts symbolic. Step: one ApplyUpdate (full block / no-change with
// classes) or one AdvanceTo with symbolic arguments.
// Asserted: the published chain satisfies the invariant, is aligned to the requested oldest slot,
// rejected updates leave the published pointer untouched, no object reachable from a view taken
// before the step is written to (vx.Freeze), and views are exactly [b, tip].

var vxIdents = []string{"0xa", "0xb", "0x0"}

func vxEntry(n uint64, tag string) *pending.PreConfirmed {
	sd := core.EmptyStateDiff()
	return &pending.PreConfirmed{
		Block:           &core.Block{Header: &core.Header{Number: n, TransactionCount: uint64(vx.U8(tag + "txc"))}},
		StateUpdate:     &core.StateUpdate{StateDiff: &sd},
		BlockIdentifier: vxIdents[vx.Choice(tag+"ident", 2)],
	}
}

// vxBuild stores a valid chain [oldest, oldest+n-1] and returns the storage.
func vxBuild(n int, oldest uint64) *ChainStorage {
	s := NewChainStorage()
	if n == 0 {
		return s
	}
	var entries []*pending.PreConfirmed
	for i := 0; i < n; i++ {
		entries = append(entries, vxEntry(oldest+uint64(i), "e"))
	}
	c, err := NewChain(entries...)
	vx.Assert(err == nil, "newchain-accepts-contiguous")
	s.inner.Store(&c)
	return s
}

// vxInvariant: contiguous numbers from the head down, exactly `length` nodes, oldest has nil parent.
func vxInvariant(c *ChainReader) bool {
	if c == nil {
		return true
	}
	if c.length == 0 {
		return c.head == nil
	}
	cur := c.head
	tip := c.head.preconfirmed.Block.Number
	for i := 0; i < c.length; i++ {
		if cur == nil || cur.preconfirmed == nil || cur.preconfirmed.Block.Number != tip-uint64(i) {
			return false
		}
		cur = cur.parent
	}
	return cur == nil
}

func vxBlockUpdate(tag string) starknet.PreConfirmedBlock {
	one := felt.FromUint64[felt.Felt](1)
	gp := &starknet.GasPrice{PriceInWei: &one, PriceInFri: &one}
	return starknet.PreConfirmedBlock{
		BlockIdentifier: vxIdents[vx.Choice(tag+"ident", 3)],
		Status:          "PRE_CONFIRMED",
		Timestamp:       1,
		Version:         "0.14.0",
		SequencerAddress: &one,
		L1GasPrice:      gp, L2GasPrice: gp, L1DataGasPrice: gp,
	}
}

func vxClasses(tag string) map[felt.Felt]core.ClassDefinition {
	switch vx.Choice(tag+"classes", 2) {
	case 0:
		return nil
	}
	k := felt.FromUint64[felt.Felt](7)
	return map[felt.Felt]core.ClassDefinition{k: nil}
}

func VxC20ApplyUpdate() {
	vx.Bound("stored chain length 0..3; tip < 2^62; one ApplyUpdate (block | no-change) with symbolic blockNumber/oldestPreConf; blocks without transactions")
	n := vx.Choice("len", 4)
	oldest := vx.U64("oldest")
	vx.Assume(oldest >= 1 && oldest < 1<<62)
	s := vxBuild(n, oldest)
	before := s.inner.Load()
	vx.Assert(vxInvariant(before), "pre-state-valid")
	// a reader took a view before the step: nothing reachable from it may be written
	view := s.SnapshotForBlock(oldest)
	vx.Freeze(view.head)

	blockNumber := vx.U64("blockNumber")
	wantOldest := vx.U64("oldestPreConf")
	vx.Assume(blockNumber < 1<<62 && wantOldest < 1<<62)
	var upd starknet.PreConfirmedUpdate
	if vx.Choice("kind", 2) == 0 {
		upd = vxBlockUpdate("u")
		vx.Cover("block-update")
	} else {
		upd = starknet.PreConfirmedNoChange{}
		vx.Cover("no-change-update")
	}
	affected, err := s.ApplyUpdate(upd, blockNumber, 0, wantOldest, vxClasses("u"))
	vx.Thaw()
	after := s.inner.Load()
	if err != nil {
		vx.Cover("rejected")
		vx.Assert(after == before, "rejected-update-leaves-chain")
		return
	}
	if affected == nil {
		vx.Cover("no-op")
		vx.Assert(after == before, "no-op-leaves-chain")
		return
	}
	vx.Cover("applied")
	vx.Assert(after != nil && after != before, "applied-publishes-new-chain")
	vx.Assert(vxInvariant(after), "published-chain-contiguous")
	vx.Assert(after.length >= 1 && after.oldestPreConf() == wantOldest, "published-chain-starts-at-oldest-preconf")
	vx.Assert(blockNumber >= wantOldest && blockNumber <= after.tip(), "target-inside-chain")
	if n > 0 {
		vx.Assert(blockNumber <= before.tip()+1, "no-gap-above-tip")
		vx.Assert(after.oldestPreConf() == before.oldestPreConf(), "oldest-slot-unchanged-by-update")
	}
	// the affected entry is the one stored at blockNumber
	cur := after.head
	for cur != nil && cur.preconfirmed.Block.Number != blockNumber {
		cur = cur.parent
	}
	vx.Assert(cur != nil && cur.preconfirmed == affected, "affected-is-stored-entry")
	// the earlier view is unchanged (length/head are values; nodes are frozen above)
	vx.Assert(view.Length() == n, "old-view-length-unchanged")

	// H3: head-aligned views of the new chain
	b := vx.U64("viewAt")
	v := s.SnapshotForBlock(b)
	if b < after.oldestPreConf() || b > after.tip() {
		vx.Assert(v.Length() == 0 && v.Head() == nil, "view-outside-range-empty")
	} else {
		vx.Cover("view-inside")
		vx.Assert(uint64(v.Length()) == after.tip()-b+1, "view-length")
		cnt := 0
		prev := uint64(0)
		for e := range v.OldestFirst() {
			if cnt == 0 {
				vx.Assert(e.Block.Number == b, "view-starts-at-requested-block")
			} else {
				vx.Assert(e.Block.Number == prev+1, "view-contiguous")
			}
			prev = e.Block.Number
			cnt++
		}
		vx.Assert(cnt == v.Length() && prev == after.tip(), "view-ends-at-tip")
	}
}

func VxC20AdvanceTo() {
	vx.Bound("stored chain length 0..3; tip < 2^62; one AdvanceTo with symbolic target")
	n := vx.Choice("len", 4)
	oldest := vx.U64("oldest")
	vx.Assume(oldest >= 1 && oldest < 1<<62)
	s := vxBuild(n, oldest)
	before := s.inner.Load()
	view := s.SnapshotForBlock(oldest)
	vx.Freeze(view.head)
	target := vx.U64("target")
	vx.Assume(target < 1<<62)
	changed := s.AdvanceTo(target)
	vx.Thaw()
	after := s.inner.Load()
	if !changed {
		vx.Cover("unchanged")
		vx.Assert(after == before, "no-change-keeps-pointer")
		vx.Assert(n == 0 || target == oldest, "unchanged-only-if-aligned-or-empty")
		return
	}
	vx.Cover("changed")
	if after == nil {
		vx.Cover("dropped")
		vx.Assert(target < oldest || target > oldest+uint64(n)-1, "drop-only-when-target-outside")
		return
	}
	vx.Cover("trimmed")
	vx.Assert(vxInvariant(after), "advanced-chain-contiguous")
	vx.Assert(after.oldestPreConf() == target && after.tip() == before.tip(), "advanced-chain-range")
	// fresh nodes only: the old nodes are not shared (so the dropped tail is unreachable)
	for a := after.head; a != nil; a = a.parent {
		for o := before.head; o != nil; o = o.parent {
			vx.Assert(a != o, "rebuild-uses-fresh-nodes")
		}
	}
	// entries themselves are shared, in order
	a, o := after.head, before.head
	for a != nil {
		vx.Assert(a.preconfirmed == o.preconfirmed, "rebuild-keeps-entries")
		a, o = a.parent, o.parent
	}
	vx.Assert(view.Length() == n, "old-view-length-unchanged")
}

// Lookup by hash finds exactly the items of the view's blocks.
func VxC20Lookups() {
	vx.Bound("stored chain of 1..3 blocks with 0..1 transactions each, hashes symbolic; view = the whole chain or the head-aligned snapshot SnapshotForBlock(b) for a stored b (a trimmed view over [b, tip]); lookups by symbolic hash")
	oldest := uint64(10)
	n := 1 + vx.Choice("len", 3)
	var entries []*pending.PreConfirmed
	var hashes []*felt.Felt
	for i := 0; i < n; i++ {
		e := vxEntry(oldest+uint64(i), "e")
		if vx.Choice("hastx", 2) == 1 {
			hb := vx.FeltBytes("txhash")
			h := new(felt.Felt).SetBytes(hb[:])
			e.Block.Transactions = []core.Transaction{&core.InvokeTransaction{TransactionHash: h}}
			e.Block.Receipts = []*core.TransactionReceipt{{TransactionHash: h}}
			hashes = append(hashes, h)
		}
		entries = append(entries, e)
	}
	full, err := NewChain(entries...)
	vx.Assert(err == nil, "newchain")
	c := &full
	lo := oldest // lowest block of the view
	if vx.Bool("snapshot") {
		st := NewChainStorage()
		st.inner.Store(&full)
		lo = oldest + uint64(vx.Choice("from", n))
		snap := st.SnapshotForBlock(lo)
		c = &snap
		if lo > oldest {
			vx.Cover("trimmed-view")
		}
	}
	qb := vx.FeltBytes("query")
	q := new(felt.Felt).SetBytes(qb[:])
	want := false
	for _, e := range entries {
		if e.Block.Number >= lo && len(e.Block.Transactions) == 1 && e.Block.Transactions[0].Hash().Equal(q) {
			want = true
		}
	}
	_ = hashes
	tx, terr := c.TransactionByHash(q)
	vx.Assert((terr == nil) == want, "tx-found-iff-in-view")
	if terr == nil {
		vx.Cover("found")
		vx.Assert(tx.Hash().Equal(q), "tx-has-queried-hash")
	}
	r, num, rerr := c.ReceiptByHash(q)
	vx.Assert((rerr == nil) == want, "receipt-found-iff-in-view")
	if rerr == nil {
		vx.Assert(r.TransactionHash.Equal(q) && num >= lo && num < oldest+uint64(n), "receipt-block-inside-view")
	}
}
