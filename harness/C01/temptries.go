//vx:pkg core
package core

import (
	"github.com/NethermindEth/juno/core/crypto"
	"github.com/NethermindEth/juno/core/felt"
	"github.com/NethermindEth/juno/zzverif/vx"
)

// C01-H6: "...both temporary-trie backends used for transaction/event/receipt commitments". The commitments
// of a block's transactions and receipts are roots of height-64 tries keyed by position, built on a temporary
// trie of the selected implementation (core.TrieBackend = trie2, core.DeprecatedTrieBackend = the legacy trie).
// For 0..3 items with symbolic content both backends must give the same root, and that root must be the
// protocol's sparse Merkle-Patricia commitment of {i -> leaf_i} at height 64, written out by hand for the
// key sets {}, {0}, {0,1}, {0,1,2} (edge = H(child, path) + length, binary = H(left, right); hashes
// uninterpreted). The leaf functions themselves (what a transaction / receipt leaf commits to) are C02's subject.

func vxEdge64(h crypto.HashFn, child felt.Felt, length uint64) felt.Felt {
	zero := felt.Zero // every path below is all zero bits
	inner := h(&child, &zero)
	l := felt.FromUint64[felt.Felt](length)
	var r felt.Felt
	r.Add(&inner, &l)
	return r
}

// vxSpecRoot64: commitment of leaves at keys 0..n-1 (n <= 3) in a trie of height 64.
func vxSpecRoot64(h crypto.HashFn, leaves []felt.Felt) felt.Felt {
	switch len(leaves) {
	case 0:
		return felt.Zero
	case 1:
		return vxEdge64(h, leaves[0], 64)
	case 2:
		return vxEdge64(h, h(&leaves[0], &leaves[1]), 63)
	default:
		left := h(&leaves[0], &leaves[1])   // keys ..00 and ..01 split at the last bit
		right := vxEdge64(h, leaves[2], 1) // key ..10: one more (zero) bit below the split
		return vxEdge64(h, h(&left, &right), 62)
	}
}

func vxSymFelt(name string) *felt.Felt {
	b := vx.FeltBytes(name)
	return new(felt.Felt).SetBytes(b[:])
}

func VxC01TempTrieCommitments() {
	vx.Bound("0..3 transactions (invoke v1, symbolic hash, signature of 0..1 symbolic element) and their receipts (symbolic hash and fee, no events or messages); transaction commitment of 0.13.1 (Pedersen), 0.13.2 and 0.13.4 (Poseidon), receipt commitment; both temporary-trie backends; ideal hashes (a leaf hash is never zero)")
	vx.CollisionFree()
	n := vx.Choice("items", 4)
	txs := make([]Transaction, n)
	rcs := make([]*TransactionReceipt, n)
	for i := 0; i < n; i++ {
		var sig []felt.Felt
		if vx.Choice("sig", 2) == 1 {
			sig = []felt.Felt{*vxSymFelt("sigelem")}
		}
		hsh := vxSymFelt("txhash")
		txs[i] = &InvokeTransaction{TransactionHash: hsh, TransactionSignature: sig, Version: new(TransactionVersion).SetUint64(1)}
		rcs[i] = &TransactionReceipt{TransactionHash: hsh, Fee: vxSymFelt("fee")}
	}
	type variant struct {
		name string
		run  func(b TempTrieBackend) (felt.Felt, error)
		leaf func(i int) felt.Felt
		h    crypto.HashFn
	}
	variants := []variant{
		{"receipts", func(b TempTrieBackend) (felt.Felt, error) { return receiptCommitment(rcs, b) },
			func(i int) felt.Felt { return rcs[i].hash() }, crypto.Poseidon},
		{"transactions-0.13.4", func(b TempTrieBackend) (felt.Felt, error) { return transactionCommitmentPoseidon0134(txs, b) },
			func(i int) felt.Felt {
				var d crypto.PoseidonDigest
				d.Update(txs[i].Hash())
				if s := txs[i].Signature(); len(s) > 0 {
					d.UpdateArray(s)
				}
				return d.Finish()
			}, crypto.Poseidon},
		{"transactions-0.13.2", func(b TempTrieBackend) (felt.Felt, error) { return transactionCommitmentPoseidon0132(txs, b) },
			func(i int) felt.Felt {
				var d crypto.PoseidonDigest
				d.Update(txs[i].Hash())
				if s := txs[i].Signature(); len(s) > 0 {
					d.UpdateArray(s)
				} else {
					d.Update(&felt.Zero)
				}
				return d.Finish()
			}, crypto.Poseidon},
		{"transactions-0.13.1", func(b TempTrieBackend) (felt.Felt, error) { return transactionCommitmentPedersen(txs, "0.13.1", b) },
			func(i int) felt.Felt {
				sh := crypto.PedersenArray(txs[i].Signature())
				return crypto.Pedersen(txs[i].Hash(), &sh)
			}, crypto.Pedersen},
	}
	v := variants[vx.Choice("commitment", len(variants))]
	got2, err2 := v.run(TrieBackend)
	got1, err1 := v.run(DeprecatedTrieBackend)
	vx.Assert(err1 == nil && err2 == nil, "commitment-computed")
	if err1 != nil || err2 != nil {
		return
	}
	leaves := make([]felt.Felt, n)
	for i := range leaves {
		leaves[i] = v.leaf(i)
	}
	want := vxSpecRoot64(v.h, leaves)
	switch n {
	case 0:
		vx.Cover("no-items")
	case 3:
		vx.Cover("three-items")
	}
	vx.Assert(got1.Equal(&got2), "both-temporary-trie-backends-give-the-same-commitment")
	vx.Assert(got2.Equal(&want), "trie2-backend-commitment-is-the-protocol-root")
	vx.Assert(got1.Equal(&want), "legacy-backend-commitment-is-the-protocol-root")
}
