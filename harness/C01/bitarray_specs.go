//vx:pkg core/trie
//vx:also core/trie2/trieutils trieutils
package trie

import (
	"github.com/NethermindEth/juno/zzverif/vx"
)

// Specifications of the bit-array primitives as single 256-bit operations. Each of them is checked
// against the real implementation at full width in bitarray.go (Rsh, Lsh, LSBsFromLSB, Ones,
// truncateToLength, findFirstSetBit). Harnesses of code built ON TOP of the primitives (composite
// bit-array operations, the tries) may replace the primitives by these specifications inside the
// engine (assume-guarantee; vx.Stub is a no-op natively, where the real primitives run).

const vxPkgPath = "github.com/NethermindEth/juno/core/trie"

func vxSpecRsh(b, x *BitArray, n uint8) *BitArray {
	lx, xv := uint(x.len), vxVal(x)
	if lx == 0 {
		b.len, b.words = x.len, x.words
		return b
	}
	if uint(n) >= lx {
		b.len, b.words = 0, [4]uint64{}
		return b
	}
	b.len, b.words = uint8(lx-uint(n)), [4]uint64(xv.Shr(uint(n)))
	return b
}

func vxSpecLsh(b, x *BitArray, n uint8) *BitArray {
	lx, xv := uint(x.len), vxVal(x)
	if lx == 0 || n == 0 {
		b.len, b.words = x.len, x.words
		return b
	}
	want := lx + uint(n)
	if want > 255 {
		want = 255
	}
	b.len, b.words = uint8(want), [4]uint64(xv.Shl(uint(n)).And(vx.W256Mask(want)))
	return b
}

func vxSpecLSBsFromLSB(b, x *BitArray, n uint8) *BitArray {
	lx, xv := uint(x.len), vxVal(x)
	if uint(n) >= lx {
		b.len, b.words = x.len, x.words
		return b
	}
	b.len, b.words = n, [4]uint64(xv.And(vx.W256Mask(uint(n))))
	return b
}

func vxSpecOnes(b *BitArray, length uint8) *BitArray {
	b.len, b.words = length, [4]uint64(vx.W256Mask(uint(length)))
	return b
}

func vxStubPrimitives(pkg string) {
	vx.Stub("(*"+pkg+".BitArray).Rsh", vxSpecRsh)
	vx.Stub("(*"+pkg+".BitArray).Lsh", vxSpecLsh)
	vx.Stub("(*"+pkg+".BitArray).LSBsFromLSB", vxSpecLSBsFromLSB)
	vx.Stub("(*"+pkg+".BitArray).Ones", vxSpecOnes)
}


func vxSpecTruncate(b *BitArray) {
	b.words = [4]uint64(vxVal(b).And(vx.W256Mask(uint(b.len))))
}

func vxSpecFindFirstSetBit(b *BitArray) uint8 {
	if b.len == 0 {
		return 0
	}
	return uint8(vxVal(b).BitLen())
}

// VxUseBitArraySpecs redirects the primitives of this package to their specifications (engine only).
func VxUseBitArraySpecs() {
	vxStubPrimitives(vxPkgPath)
	vx.Stub("(*"+vxPkgPath+".BitArray).truncateToLength", vxSpecTruncate)
	vx.Stub(vxPkgPath+".findFirstSetBit", vxSpecFindFirstSetBit)
	vx.Merge("vxSpec")
}

func vxConcreteFindFirstSetBit(b *BitArray) uint8 {
	if b.len == 0 {
		return 0
	}
	return uint8(vx.Concrete(uint64(vxVal(b).BitLen())))
}

// VxCaseSplitFirstSetBit redirects findFirstSetBit to its specification (checked at full width by
// VxC01BitArrayFindFirstSetBit) with the result case-split: the engine forks over every feasible
// divergence position, so that all path lengths and shift amounts in the code above are constants
// and every other bit-array method runs from its real source with concrete control flow.
func VxCaseSplitFirstSetBit() {
	vx.Stub(vxPkgPath+".findFirstSetBit", vxConcreteFindFirstSetBit)
	vx.NoMerge(true)
}
