//vx:pkg core/trie2
package trie2

import (
	"github.com/NethermindEth/juno/core/crypto"
	"github.com/NethermindEth/juno/core/felt"
	"github.com/NethermindEth/juno/core/trie2/triedb/rawdb"
	"github.com/NethermindEth/juno/core/trie2/trienode"
	"github.com/NethermindEth/juno/core/trie2/trieutils"
	"github.com/NethermindEth/juno/db/memory"
	"github.com/NethermindEth/juno/zzverif/vx"
)

// C01-H3: "the result does not depend on ... batching ... or on process restarts between
// updates". The trie is committed through the real path-keyed node database (rawdb over the
// in-memory key/value store) after every block, dropped, and re-opened from the database alone.
// After every re-open the root must equal the protocol commitment of the model and every key must
// read back the model value.
// Commit collects dirty nodes with a goroutine-per-child collector when more than 100 updates are
// pending; largeBatch puts the trie's update counter past that threshold instead of performing 101
// updates, so both collectors are covered (the goroutines run on the engine's scheduler).
func vxCommitAndReopen(t *Trie, rdb *rawdb.Database, disk *memory.Database, id trieutils.TrieID, height uint8, largeBatch bool) (*Trie, felt.Felt) {
	if largeBatch {
		t.pendingUpdates = 101
	}
	root, nodes := t.Commit()
	if nodes != nil {
		batch := disk.NewBatch()
		r := felt.StateRootHash(root)
		err := rdb.Update(&r, &r, 0, nil, trienode.NewMergeNodeSet(nodes), batch)
		vx.Assert(err == nil, "triedb-update-ok")
		vx.Assert(batch.Write() == nil, "batch-write-ok")
	}
	t2, err := New(id, height, crypto.Pedersen, rdb)
	vx.Assert(err == nil, "reopen-ok")
	return t2, root
}

func VxC01Trie2CommitReopen() {
	height := uint(4)
	nkeys, blocks := 2, 2
	if vx.Thorough() {
		blocks, height = 3, 8
		vx.Bound("height 8; 2 distinct arbitrary keys; 3 blocks: block 1 = 2 operations, blocks 2..3 = 1 operation each (Update(k_i, v), v arbitrary non-zero or zero); commit (block 1: sequential or parallel node collector) through rawdb+memory store and re-open after every block; Hash and Get after every re-open")
	} else {
		vx.Bound("height 4; 2 distinct arbitrary keys; 2 blocks: block 1 = 2 operations, block 2 = 1 operation (Update(k_i, v), v arbitrary non-zero or zero); commit (block 1: sequential or parallel node collector) through rawdb+memory store and re-open after every block; Hash and Get after every re-open")
	}
	trieutils.VxCaseSplitFirstSetBit()
	keysF := make([]felt.Felt, nkeys)
	keysW := make([]vx.W256, nkeys)
	for i := range keysF {
		keysF[i], keysW[i] = vxKey("key", height)
		for j := 0; j < i; j++ {
			vx.Assume(!keysW[i].Eq(keysW[j]))
		}
	}
	disk := memory.New()
	rdb := rawdb.New(disk)
	one := felt.FromUint64[felt.Felt](1)
	id := trieutils.NewContractTrieID(felt.StateRootHash(one))
	t, err := New(id, uint8(height), crypto.Pedersen, rdb)
	vx.Assert(err == nil && t.root == nil, "fresh-database-opens-empty")
	var model []vxLeaf
	for b := 0; b < blocks; b++ {
		nops := 1
		if b == 0 {
			nops = 2
		}
		for op := 0; op < nops; op++ {
			ki := vx.Choice("which", nkeys)
			var v felt.Felt
			if vx.Choice("zero", 2) == 0 {
				vb := vx.FeltBytes("val")
				v.SetBytes(vb[:])
				vx.Assume(!v.IsZero())
			}
			present := false
			for _, e := range model {
				if e.k.Eq(keysW[ki]) {
					present = true
				}
			}
			if b > 0 {
				switch {
				case v.IsZero() && present && len(model) == 2:
					vx.Cover("delete-one-of-two-after-reopen")
				case v.IsZero() && present:
					vx.Cover("delete-last-after-reopen")
				case !v.IsZero() && present:
					vx.Cover("overwrite-after-reopen")
				case !v.IsZero():
					vx.Cover("insert-after-reopen")
				}
			}
			vx.Assert(t.Update(&keysF[ki], &v) == nil, "update-no-error")
			model = vxModelSet(model, keysW[ki], v)
		}
		// shape first (pure bit-vector obligations); root equality then follows by congruence
		if _, herr := t.Hash(); herr == nil && len(model) > 0 {
			vxCheckShape(t.root, model, height)
		}
		var committed felt.Felt
		large := false
		if b == 0 && vx.Choice("large-batch", 2) == 1 {
			large = true
			vx.Cover("parallel-collector")
		}
		t, committed = vxCommitAndReopen(t, rdb, disk, id, uint8(height), large)
		want := vxSpecRoot(model, height)
		vx.Assert(committed.Equal(&want), "committed-root-equals-protocol-commitment")
		for i := range keysF {
			gv, gerr := t.Get(&keysF[i])
			wantV := felt.Zero
			for _, e := range model {
				if e.k.Eq(keysW[i]) {
					wantV = e.v
				}
			}
			vx.Assert(gerr == nil && gv.Equal(&wantV), "reopened-get-returns-model-value")
		}
		// every key has been read, so the whole tree is resolved from the database: compare its
		// shape with the specification (pure bit-vector obligations), then the root hash
		if len(model) == 0 {
			vx.Assert(t.root == nil, "reopened-empty")
		} else {
			vxCheckShape(t.root, model, height)
		}
		got, herr := t.Hash()
		vx.Assert(herr == nil && got.Equal(&want), "reopened-root-equals-protocol-commitment")
	}
}
