//vx:pkg core/trie
//vx:tier thorough
//vx:also core/trie2/trieutils trieutils
package trie

import (
	"github.com/NethermindEth/juno/zzverif/vx"
)

// Composite bit-array operations (EqualMSBs, CommonMSBs, Subset). They are compositions of the
// primitives Rsh / Lsh / LSBsFromLSB, each of which is checked against its specification at full
// width in bitarray.go. Here the primitives are replaced by those specifications (assume-guarantee:
// vx.Stub, engine only; the native replay runs the real primitives), so that what is decided is
// the composition logic: operand order, lengths, masks, clamping.

func VxC01BitArrayEqualMSBs() {
	vxStubPrimitives(vxPkgPath)
	x, lx, xv := vxBA("x")
	y, ly, yv := vxBA("y")
	got := x.EqualMSBs(&y)
	m := lx
	if ly < m {
		m = ly
	}
	want := xv.Shr(lx - m).Eq(yv.Shr(ly - m))
	if lx == ly {
		vx.Cover("same-length")
	}
	vx.Assert(got == want, "equalmsbs-is-prefix-test")
}

func VxC01BitArrayCommonMSBs() {
	vxStubPrimitives(vxPkgPath)
	x, lx, xv := vxBA("x")
	y, ly, yv := vxBA("y")
	var b BitArray
	b.CommonMSBs(&x, &y)
	l := uint(b.len)
	m := lx
	if ly < m {
		m = ly
	}
	vx.Assert(l <= m, "common-not-longer-than-shorter")
	vx.Assert(vxVal(&b).Eq(xv.Shr(lx-l)) && vxVal(&b).Eq(yv.Shr(ly-l)), "common-is-prefix-of-both")
	if l < m {
		vx.Cover("diverge-inside")
		// maximal: the next bit differs
		vx.Assert(xv.Bit(lx-l-1) != yv.Bit(ly-l-1), "common-is-longest")
	} else {
		vx.Cover("one-is-prefix")
	}
	vx.Assert(vxInv(&b), "common-invariant")
}

func VxC01BitArraySubset() {
	vxStubPrimitives(vxPkgPath)
	x, lx, xv := vxBA("x")
	s, e := vx.U8("start"), vx.U8("end")
	var b BitArray
	b.Subset(&x, s, e)
	if s >= e || uint(s) >= lx {
		vx.Cover("subset-empty")
		vx.Assert(b.len == 0 && vxVal(&b).IsZero(), "subset-empty")
		return
	}
	ee := uint(e)
	if ee > lx {
		vx.Cover("subset-clamped")
		ee = lx
	}
	l := ee - uint(s)
	vx.Assert(uint(b.len) == l, "subset-len")
	vx.Assert(vxVal(&b).Eq(xv.Shr(lx-ee).And(vx.W256Mask(l))), "subset-value")
	vx.Assert(vxInv(&b), "subset-invariant")
}

