//vx:pkg blockchain/statebackend
package statebackend

import (
	"github.com/NethermindEth/juno/core"
	"github.com/NethermindEth/juno/core/crypto"
	"github.com/NethermindEth/juno/core/deprecatedstate"
	"github.com/NethermindEth/juno/core/felt"
	"github.com/NethermindEth/juno/core/state"
	"github.com/NethermindEth/juno/core/trie2/triedb"
	"github.com/NethermindEth/juno/db/memory"
	"github.com/NethermindEth/juno/zzverif/vx"
)

// C01-H5: the state commitment formulas and "...or on which of the two state/trie implementations
// is selected". The same two state updates (deploy a contract with a storage slot and a nonce,
// declare a Sierra class; then an arbitrary second diff) are applied to the legacy backend
// (core/deprecatedstate over core/trie) and to the new backend (core/state over core/trie2); after
// each block both must report the same state commitment, and that commitment must be the protocol
// formula over the backend's own tries:
//   contract leaf  = H(H(H(class_hash, storage_root), nonce), 0)            (Pedersen)
//   class leaf     = Poseidon("CONTRACT_CLASS_LEAF_V0", compiled_class_hash)
//   commitment     = contracts_root                         if classes_root = 0 and version < 0.14.0
//                  = Poseidon("STARKNET_STATE_V0", contracts_root, classes_root)   otherwise
// Addresses, slots and class hashes are fixed values (trie paths concrete), every stored value is
// symbolic; the protocol version is one of {0.13.2, 0.14.0}.

func vxF(name string) *felt.Felt {
	b := vx.FeltBytes(name)
	return new(felt.Felt).SetBytes(b[:])
}

func vxCheckFormulas(r core.StateReader, addr *felt.Felt, class, nonce *felt.Felt, ver string, got *felt.Felt, tag string) {
	ct, err := r.ContractTrie()
	vx.Assert(err == nil, "tries-open")
	cls, err := r.ClassTrie()
	vx.Assert(err == nil, "tries-open")
	st, err := r.ContractStorageTrie(addr)
	vx.Assert(err == nil, "tries-open")
	sroot, _ := st.Hash()
	h1 := crypto.Pedersen(class, &sroot)
	h2 := crypto.Pedersen(&h1, nonce)
	leaf := crypto.Pedersen(&h2, &felt.Zero)
	gotLeaf, err := ct.Get(addr)
	vx.Assert(err == nil && gotLeaf.Equal(&leaf), "contract-leaf-is-the-protocol-formula")
	croot, _ := ct.Hash()
	kroot, _ := cls.Hash()
	var want felt.Felt
	v, _ := core.ParseBlockVersion(ver)
	switch {
	case croot.IsZero() && kroot.IsZero():
		want = felt.Zero
	case kroot.IsZero() && v.LessThan(core.Ver0_14_0):
		want = croot
	default:
		want = crypto.PoseidonElems(felt.NewFromBytes[felt.Felt]([]byte(`STARKNET_STATE_V0`)), &croot, &kroot)
	}
	vx.Assert(got.Equal(&want), "state-commitment-is-the-protocol-formula")
}

func VxC01BackendsAgreeOnCommitment() {
	vx.Bound("two blocks over one contract (fixed address, two fixed slots) and one Sierra class (fixed hash): block 0 deploys, writes a slot and the nonce, optionally declares the class; block 1 = arbitrary storage writes (zero included), nonce, optional class replacement, optional declaration; all values symbolic; protocol version 0.13.2 | 0.14.0")
	vx.CollisionFree()
	ver := []string{"0.13.2", "0.14.0"}[vx.Choice("version", 2)]
	addr := felt.NewFromUint64[felt.Felt](0x1000)
	slotA, slotB := felt.NewFromUint64[felt.Felt](0x20), felt.NewFromUint64[felt.Felt](0x21)
	sierra := felt.NewFromUint64[felt.Felt](0x5151)

	c0, v0, n0 := vxF("class0"), vxF("val0"), vxF("nonce0")
	vx.Assume(!c0.IsZero() && !v0.IsZero())
	mk0 := func() core.StateDiff {
		d := core.EmptyStateDiff()
		d.DeployedContracts[*addr] = c0
		d.StorageDiffs[*addr] = map[felt.Felt]*felt.Felt{*slotA: v0}
		d.Nonces[*addr] = n0
		return d
	}
	declare0 := vx.Bool("declareInBlock0")
	casm := vxF("casm")
	vx.Assume(!casm.IsZero())
	d0 := mk0()
	if declare0 {
		d0.DeclaredV1Classes[*sierra] = casm
		vx.Cover("class-declared")
	}
	d1 := core.EmptyStateDiff()
	m := map[felt.Felt]*felt.Felt{}
	if vx.Bool("writeA") {
		m[*slotA] = vxF("a1")
	}
	if vx.Bool("writeB") {
		m[*slotB] = vxF("b1")
	}
	if len(m) > 0 {
		d1.StorageDiffs[*addr] = m
	}
	n1, c1 := n0, c0
	if vx.Bool("nonce1") {
		n1 = vxF("nonce1v")
		d1.Nonces[*addr] = n1
	}
	if vx.Bool("replace1") {
		c1 = vxF("class1")
		d1.ReplacedClasses[*addr] = c1
	}
	if !declare0 && vx.Bool("declareInBlock1") {
		d1.DeclaredV1Classes[*sierra] = casm
		vx.Cover("class-declared")
	}

	// legacy backend
	ltxn := memory.New().NewIndexedBatch()
	legacy := deprecatedstate.New(ltxn)
	// new backend
	nd := memory.New()
	sdb := state.NewStateDB(nd, triedb.New(nd, nil))

	hdr := func(n uint64) *core.Header { return &core.Header{Number: n, ProtocolVersion: ver} }
	var newRoot felt.Felt
	for blk, diff := range []*core.StateDiff{&d0, &d1} {
		// a synced block carries the definitions of the classes it declares (without them the class trie
		// is not touched)
		var defs map[felt.Felt]core.ClassDefinition
		for h := range diff.DeclaredV1Classes {
			if defs == nil {
				defs = map[felt.Felt]core.ClassDefinition{}
			}
			defs[h] = &core.SierraClass{}
		}
		// legacy
		lold, err := legacy.Commitment(ver)
		vx.Assert(err == nil, "legacy-commitment-readable")
		vx.Assert(legacy.Update(hdr(uint64(blk)), &core.StateUpdate{OldRoot: &lold, StateDiff: diff}, defs, true) == nil, "legacy-update-ok")
		lnew, err := legacy.Commitment(ver)
		vx.Assert(err == nil, "legacy-commitment-readable")
		// new
		batch := nd.NewBatch()
		st, err := state.New(&newRoot, sdb, batch)
		vx.Assert(err == nil, "new-state-opens")
		old := newRoot
		vx.Assert(st.Update(hdr(uint64(blk)), &core.StateUpdate{OldRoot: &old, StateDiff: diff}, defs, true) == nil, "new-update-ok")
		vx.Assert(batch.Write() == nil, "commit")
		// the committed state is re-opened from the database (any non-zero root opens the stored tries)
		one := felt.FromUint64[felt.Felt](1)
		rd, err := state.NewStateReader(&one, sdb)
		vx.Assert(err == nil, "new-state-reopens")
		nnew, err := rd.Commitment(ver)
		vx.Assert(err == nil, "new-commitment-readable")
		vx.Assert(lnew.Equal(&nnew), "both-backends-report-the-same-state-commitment")
		class, nonce := c0, n0
		if blk == 1 {
			class, nonce = c1, n1
		}
		vxCheckFormulas(legacy, addr, class, nonce, ver, &lnew, "legacy")
		vxCheckFormulas(rd, addr, class, nonce, ver, &nnew, "new")
		newRoot = nnew
	}
}
