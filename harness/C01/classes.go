//vx:pkg blockchain/statebackend
//vx:include backends.go
package statebackend

import (
	"github.com/NethermindEth/juno/core"
	"github.com/NethermindEth/juno/core/crypto"
	"github.com/NethermindEth/juno/core/deprecatedstate"
	"github.com/NethermindEth/juno/core/felt"
	"github.com/NethermindEth/juno/core/state"
	"github.com/NethermindEth/juno/core/trie2/triedb"
	"github.com/NethermindEth/juno/db/memory"
	"github.com/NethermindEth/juno/zzverif/vx"
)

// C01-H8: the class commitment. A block may declare SEVERAL Sierra classes (and migrate the compiled class
// hash of classes declared earlier); every class gets its own leaf Poseidon("CONTRACT_CLASS_LEAF_V0",
// compiled_class_hash) in the class trie. Block 0 declares 1..3 classes (with their definitions, as a synced
// block carries them), block 1 declares the remaining ones and / or migrates the compiled class hash of one
// declared in block 0. After each block, in BOTH backends: each declared class's leaf is the formula over
// ITS OWN compiled class hash (symbolic, pairwise different), the two backends report the same commitment,
// and the commitment is the same as that of a node which received the same classes one block each
// (batching independence).
func VxC01ClassLeavesAreTheProtocolFormula() {
	vx.Bound("3 Sierra classes (fixed hashes) with symbolic, pairwise different compiled class hashes; block 0 declares the first 1..3 of them, block 1 the rest and optionally migrates the compiled class hash of the first; one contract deployed in block 0; protocol version 0.13.2 | 0.14.0; both backends; compared with one-class-per-block application on the new backend")
	vx.CollisionFree()
	ver := []string{"0.13.2", "0.14.0"}[vx.Choice("version", 2)]
	addr := felt.NewFromUint64[felt.Felt](0x1000)
	sierra := []*felt.Felt{felt.NewFromUint64[felt.Felt](0x5151), felt.NewFromUint64[felt.Felt](0x6262), felt.NewFromUint64[felt.Felt](0x40000000007373)}
	casm := []*felt.Felt{vxF("casm0"), vxF("casm1"), vxF("casm2")}
	vx.Assume(!casm[0].IsZero() && !casm[1].IsZero() && !casm[2].IsZero())
	vx.Assume(!casm[0].Equal(casm[1]) && !casm[0].Equal(casm[2]) && !casm[1].Equal(casm[2]))
	first := 1 + vx.Choice("declared-in-block-0", 3)
	if first >= 2 {
		vx.Cover("several-classes-declared-in-one-block")
	}
	d0 := core.EmptyStateDiff()
	d0.DeployedContracts[*addr] = vxF("class0")
	defs0 := map[felt.Felt]core.ClassDefinition{}
	for i := 0; i < first; i++ {
		d0.DeclaredV1Classes[*sierra[i]] = casm[i]
		defs0[*sierra[i]] = &core.SierraClass{}
	}
	d1 := core.EmptyStateDiff()
	defs1 := map[felt.Felt]core.ClassDefinition{}
	for i := first; i < 3; i++ {
		d1.DeclaredV1Classes[*sierra[i]] = casm[i]
		defs1[*sierra[i]] = &core.SierraClass{}
	}
	cur := []*felt.Felt{casm[0], casm[1], casm[2]}
	migrated := vx.Bool("migrate-first-class-in-block-1")
	var newCasm *felt.Felt
	if migrated {
		newCasm = vxF("casm0.v2")
		vx.Assume(!newCasm.IsZero() && !newCasm.Equal(casm[1]) && !newCasm.Equal(casm[2]))
		d1.MigratedClasses[felt.SierraClassHash(*sierra[0])] = felt.CasmClassHash(*newCasm)
		vx.Cover("compiled-class-hash-migrated")
	}
	if len(d1.DeclaredV1Classes)+len(d1.MigratedClasses) >= 2 {
		vx.Cover("several-class-leaves-written-in-block-1")
	}
	leafTag := felt.NewFromBytes[felt.Felt]([]byte(`CONTRACT_CLASS_LEAF_V0`))
	checkLeaves := func(r core.StateReader, declared int, label string) {
		cls, err := r.ClassTrie()
		vx.Assert(err == nil, "tries-open")
		for i := 0; i < declared; i++ {
			want := crypto.Poseidon(leafTag, cur[i])
			got, err := cls.Get(sierra[i])
			vx.Assert(err == nil && got.Equal(&want), label)
		}
	}

	ltxn := memory.New().NewIndexedBatch()
	legacy := deprecatedstate.New(ltxn)
	nd := memory.New()
	sdb := state.NewStateDB(nd, triedb.New(nd, nil))
	hdr := func(n uint64) *core.Header { return &core.Header{Number: n, ProtocolVersion: ver} }
	var newRoot felt.Felt
	one := felt.FromUint64[felt.Felt](1)
	diffs := []*core.StateDiff{&d0, &d1}
	defs := []map[felt.Felt]core.ClassDefinition{defs0, defs1}
	var final felt.Felt
	for blk := range diffs {
		lold, err := legacy.Commitment(ver)
		vx.Assert(err == nil, "legacy-commitment-readable")
		vx.Assert(legacy.Update(hdr(uint64(blk)), &core.StateUpdate{OldRoot: &lold, StateDiff: diffs[blk]}, defs[blk], true) == nil, "legacy-update-ok")
		lnew, err := legacy.Commitment(ver)
		vx.Assert(err == nil, "legacy-commitment-readable")
		batch := nd.NewBatch()
		st, err := state.New(&newRoot, sdb, batch)
		vx.Assert(err == nil, "new-state-opens")
		old := newRoot
		vx.Assert(st.Update(hdr(uint64(blk)), &core.StateUpdate{OldRoot: &old, StateDiff: diffs[blk]}, defs[blk], true) == nil, "new-update-ok")
		vx.Assert(batch.Write() == nil, "commit")
		rd, err := state.NewStateReader(&one, sdb)
		vx.Assert(err == nil, "new-state-reopens")
		nnew, err := rd.Commitment(ver)
		vx.Assert(err == nil, "new-commitment-readable")
		declared := first
		if blk == 1 {
			declared = 3
			if migrated {
				cur[0] = newCasm
			}
		}
		checkLeaves(legacy, declared, "legacy-class-leaf-is-the-formula-over-its-own-compiled-class-hash")
		checkLeaves(rd, declared, "new-class-leaf-is-the-formula-over-its-own-compiled-class-hash")
		vx.Assert(lnew.Equal(&nnew), "both-backends-report-the-same-state-commitment")
		newRoot, final = nnew, nnew
	}

	// batching independence: the same end state, one class per block
	nd2 := memory.New()
	sdb2 := state.NewStateDB(nd2, triedb.New(nd2, nil))
	var root2 felt.Felt
	step := func(n uint64, diff *core.StateDiff, df map[felt.Felt]core.ClassDefinition) {
		batch := nd2.NewBatch()
		st, err := state.New(&root2, sdb2, batch)
		vx.Assert(err == nil, "new-state-opens")
		old := root2
		vx.Assert(st.Update(hdr(n), &core.StateUpdate{OldRoot: &old, StateDiff: diff}, df, true) == nil, "new-update-ok")
		vx.Assert(batch.Write() == nil, "commit")
		rd, err := state.NewStateReader(&one, sdb2)
		vx.Assert(err == nil, "new-state-reopens")
		r, err := rd.Commitment(ver)
		vx.Assert(err == nil, "new-commitment-readable")
		root2 = r
	}
	s0 := core.EmptyStateDiff()
	s0.DeployedContracts[*addr] = d0.DeployedContracts[*addr]
	step(0, &s0, nil)
	for i := 0; i < 3; i++ {
		si := core.EmptyStateDiff()
		si.DeclaredV1Classes[*sierra[i]] = casm[i]
		step(uint64(1+i), &si, map[felt.Felt]core.ClassDefinition{*sierra[i]: &core.SierraClass{}})
	}
	if migrated {
		sm := core.EmptyStateDiff()
		sm.MigratedClasses[felt.SierraClassHash(*sierra[0])] = felt.CasmClassHash(*newCasm)
		step(4, &sm, nil)
	}
	vx.Assert(root2.Equal(&final), "same-commitment-as-one-class-per-block")
}
