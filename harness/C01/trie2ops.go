//vx:pkg core/trie2
package trie2

import (
	"github.com/NethermindEth/juno/core/crypto"
	"github.com/NethermindEth/juno/core/felt"
	"github.com/NethermindEth/juno/core/trie2/trienode"
	"github.com/NethermindEth/juno/core/trie2/trieutils"
	"github.com/NethermindEth/juno/zzverif/vx"
)

// C01-H2: trie2 operations against the protocol's sparse Merkle-Patricia
// specification (DESIGN.md appendix C.1), hashes uninterpreted (Pedersen cut at the 2-ary
// primitive). Keys are arbitrary 251-bit values (all bits symbolic), values arbitrary felts
// (zero = delete). After every operation Hash() must equal SpecRoot(model) and Get(probe) must
// equal model[probe].

type vxLeaf struct {
	k vx.W256 // the 251-bit key
	v felt.Felt
}

func vxFeltOfW(w vx.W256) felt.Felt {
	b := w.Bytes()
	var f felt.Felt
	f.SetBytes(b[:])
	return f
}

func vxH(a, b *felt.Felt) felt.Felt { return crypto.Pedersen(a, b) }

// vxEdge wraps `bottom` in an edge of `length` bits whose path value is `path`.
func vxEdge(bottom felt.Felt, path vx.W256, length uint) felt.Felt {
	if length == 0 {
		return bottom
	}
	pf := vxFeltOfW(path)
	inner := vxH(&bottom, &pf)
	lf := felt.FromUint64[felt.Felt](uint64(length))
	var res felt.Felt
	res.Add(&inner, &lf)
	return res
}

// vxSpecNode: hash of the subtree holding the leaves S, all of which agree above their low r bits.
func vxSpecNode(S []vxLeaf, r uint) felt.Felt {
	if len(S) == 1 {
		return vxEdge(S[0].v, S[0].k.And(vx.W256Mask(r)), r)
	}
	var x vx.W256
	for i := 1; i < len(S); i++ {
		x = x.Or(S[0].k.Xor(S[i].k))
	}
	x = x.And(vx.W256Mask(r))
	bl := uint(vx.Concrete(uint64(x.BitLen()))) // highest differing bit is bl-1 (keys are distinct, so bl >= 1)
	l := r - bl
	var S0, S1 []vxLeaf
	for _, s := range S {
		if s.k.Bit(bl-1) == 0 {
			S0 = append(S0, s)
		} else {
			S1 = append(S1, s)
		}
	}
	left := vxSpecNode(S0, bl-1)
	right := vxSpecNode(S1, bl-1)
	bottom := vxH(&left, &right)
	return vxEdge(bottom, S[0].k.Shr(bl).And(vx.W256Mask(l)), l)
}

// vxCheckShape walks the implementation's in-memory tree next to the specification recursion and
// asserts, node by node, kind, edge length and edge path (pure bit-vector obligations without
// hashes). Once these hold, equality of the root hashes follows by congruence.
func vxCheckShape(n trienode.Node, S []vxLeaf, r uint) {
	if len(S) == 1 {
		if r == 0 {
			v, ok := n.(*trienode.ValueNode)
			vx.Assert(ok && felt.Felt(*v) == S[0].v, "shape-leaf-value")
			return
		}
		e, ok := n.(*trienode.EdgeNode)
		vx.Assert(ok, "shape-single-key-is-edge")
		if !ok {
			return
		}
		vx.Assert(uint(e.Path.Len()) == r, "shape-leaf-edge-length")
		vx.Assert(vx.W256FromBytes(e.Path.Bytes()).Eq(S[0].k.And(vx.W256Mask(r))), "shape-leaf-edge-path")
		v, ok := e.Child.(*trienode.ValueNode)
		vx.Assert(ok && felt.Felt(*v) == S[0].v, "shape-leaf-value")
		return
	}
	var x vx.W256
	for i := 1; i < len(S); i++ {
		x = x.Or(S[0].k.Xor(S[i].k))
	}
	x = x.And(vx.W256Mask(r))
	bl := uint(vx.Concrete(uint64(x.BitLen())))
	l := r - bl
	var S0, S1 []vxLeaf
	for _, s := range S {
		if s.k.Bit(bl-1) == 0 {
			S0 = append(S0, s)
		} else {
			S1 = append(S1, s)
		}
	}
	inner := n
	if l > 0 {
		e, ok := n.(*trienode.EdgeNode)
		vx.Assert(ok, "shape-common-prefix-is-edge")
		if !ok {
			return
		}
		vx.Assert(uint(e.Path.Len()) == l, "shape-inner-edge-length")
		vx.Assert(vx.W256FromBytes(e.Path.Bytes()).Eq(S[0].k.Shr(bl).And(vx.W256Mask(l))), "shape-inner-edge-path")
		inner = e.Child
	}
	b, ok := inner.(*trienode.BinaryNode)
	vx.Assert(ok, "shape-divergence-is-binary")
	if !ok {
		return
	}
	vxCheckShape(b.Children[0], S0, bl-1)
	vxCheckShape(b.Children[1], S1, bl-1)
}

func vxSpecRoot(S []vxLeaf, height uint) felt.Felt {
	if len(S) == 0 {
		return felt.Zero
	}
	return vxSpecNode(S, height)
}

// vxKey returns an arbitrary key of `height` bits (height <= 64): syntactically narrow, so that the
// 256-bit path arithmetic folds to the key's width.
func vxKey(name string, height uint) (felt.Felt, vx.W256) {
	k := vx.U64(name)
	if height < 64 {
		vx.Assume(k>>height == 0)
	}
	return felt.FromUint64[felt.Felt](k), vx.W256From64(k)
}

func vxModelSet(m []vxLeaf, k vx.W256, v felt.Felt) []vxLeaf {
	out := m[:0:0]
	for _, e := range m {
		if !e.k.Eq(k) {
			out = append(out, e)
		}
	}
	if !v.IsZero() {
		out = append(out, vxLeaf{k, v})
	}
	return out
}

func VxC01Trie2Operations() {
	nkeys, nops := 2, 3
	height := uint(8)
	if vx.Thorough() {
		nkeys, nops, height = 3, 3, 8
		vx.Bound("height 8; 3 distinct arbitrary keys; 3 operations Update(k_i, v) with v arbitrary or zero (delete); Hash after every operation; symbolic probe. (Width-specific path arithmetic is decided at full 256-bit width by the VxC01BitArray* harnesses; the trie logic itself is height-generic.)")
	} else {
		vx.Bound("height 8; 2 distinct arbitrary keys; 3 operations Update(k_i, v) with v arbitrary or zero (delete); Hash after every operation; symbolic probe. (Width-specific path arithmetic is decided at full 256-bit width by the VxC01BitArray* harnesses; the trie logic itself is height-generic.)")
	}
	// the divergence position (findFirstSetBit) is case-split, so every path length is a constant
	// and all other bit-array code runs from its real source
	trieutils.VxCaseSplitFirstSetBit()
	keysF := make([]felt.Felt, nkeys)
	keysW := make([]vx.W256, nkeys)
	for i := range keysF {
		keysF[i], keysW[i] = vxKey("key", height)
		for j := 0; j < i; j++ {
			vx.Assume(!keysW[i].Eq(keysW[j]))
		}
	}
	t := NewEmpty(uint8(height), crypto.Pedersen)
	var model []vxLeaf
	for op := 0; op < nops; op++ {
		ki := vx.Choice("which", nkeys)
		var v felt.Felt
		if vx.Choice("zero", 2) == 1 {
			vx.Cover("write-zero")
		} else {
			vb := vx.FeltBytes("val")
			v.SetBytes(vb[:])
			vx.Assume(!v.IsZero())
		}
		present := false
		for _, e := range model {
			if e.k.Eq(keysW[ki]) {
				present = true
			}
		}
		switch {
		case v.IsZero() && present:
			vx.Cover("delete-present")
		case v.IsZero():
			vx.Cover("delete-absent")
		case present:
			vx.Cover("overwrite")
		default:
			vx.Cover("insert")
		}
		vx.Assert(t.Update(&keysF[ki], &v) == nil, "update-no-error")
		model = vxModelSet(model, keysW[ki], v)
		got, herr := t.Hash()
		if len(model) == 0 {
			vx.Assert(t.root == nil, "shape-empty")
		} else {
			vxCheckShape(t.root, model, height)
		}
		want := vxSpecRoot(model, height)
		vx.Assert(herr == nil && got.Equal(&want), "root-equals-protocol-commitment")
	}
	// reads
	pi := vx.Choice("probe", nkeys)
	gv, gerr := t.Get(&keysF[pi])
	wantV := felt.Zero
	for _, e := range model {
		if e.k.Eq(keysW[pi]) {
			wantV = e.v
		}
	}
	vx.Assert(gerr == nil && gv.Equal(&wantV), "get-returns-model-value")
}
