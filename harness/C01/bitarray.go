//vx:pkg core/trie
//vx:also core/trie2/trieutils trieutils
package trie

import (
	"bytes"

	"github.com/NethermindEth/juno/core/felt"
	"github.com/NethermindEth/juno/zzverif/vx"
)

// C01-H1: bit-array algebra at full width. Every method is compared with a three-line
// specification over (len: 0..255, val: 256-bit word), the representation invariant
// val < 2^len is assumed on inputs and asserted on outputs. No bound beyond the types:
// all 256 value bits, both lengths and the shift/position operands are symbolic.

func vxBA(name string) (BitArray, uint, vx.W256) {
	// each method is explored case by case (no callee summarisation): the per-case queries are much
	// easier for the solvers than one merged ite term
	vx.NoMerge(true)
	var b BitArray
	b.len = vx.U8(name + ".len")
	w := vx.W256Input(name + ".val")
	b.words = [4]uint64(w)
	vx.Assume(w.Shr(uint(b.len)).IsZero())
	return b, uint(b.len), w
}

func vxVal(b *BitArray) vx.W256 { return vx.W256(b.words) }
func vxInv(b *BitArray) bool    { return vxVal(b).Shr(uint(b.len)).IsZero() }

func VxC01BitArrayRsh() {
	x, lx, vx_ := vxBA("x")
	n := vx.U8("n")
	var b BitArray
	r := b.Rsh(&x, n)
	vx.Assert(r == &b, "returns-receiver")
	if lx == 0 || uint(n) >= lx {
		vx.Cover("shift-out-everything")
		vx.Assert(b.len == 0 && vxVal(&b).IsZero(), "rsh-clears")
		return
	}
	vx.Cover("shift-partial")
	vx.Assert(uint(b.len) == lx-uint(n), "rsh-len")
	vx.Assert(vxVal(&b).Eq(vx_.Shr(uint(n))), "rsh-value")
	vx.Assert(vxInv(&b), "rsh-invariant")
	vx.Assert(x.len == uint8(lx) && vxVal(&x).Eq(vx_), "rsh-input-unchanged")
}

func VxC01BitArrayRshInPlace() {
	x, lx, vx_ := vxBA("x")
	n := vx.U8("n")
	x.Rsh(&x, n)
	if lx == 0 || uint(n) >= lx {
		vx.Assert(x.len == 0 && vxVal(&x).IsZero(), "rsh-inplace-clears")
		return
	}
	vx.Assert(uint(x.len) == lx-uint(n) && vxVal(&x).Eq(vx_.Shr(uint(n))), "rsh-inplace")
}

func VxC01BitArrayLsh() {
	x, lx, vx_ := vxBA("x")
	n := vx.U8("n")
	var b BitArray
	b.Lsh(&x, n)
	if lx == 0 || n == 0 {
		vx.Cover("lsh-copy")
		vx.Assert(uint(b.len) == lx && vxVal(&b).Eq(vx_), "lsh-copy")
		return
	}
	want := lx + uint(n)
	if want > 255 {
		vx.Cover("lsh-saturates")
		want = 255
	}
	vx.Assert(uint(b.len) == want, "lsh-len")
	vx.Assert(vxVal(&b).Eq(vx_.Shl(uint(n)).And(vx.W256Mask(want))), "lsh-value")
	vx.Assert(vxInv(&b), "lsh-invariant")
}

func VxC01BitArrayLSBs() {
	x, lx, vx_ := vxBA("x")
	n := vx.U8("n")
	var b BitArray
	b.LSBsFromLSB(&x, n)
	if uint(n) >= lx {
		vx.Assert(uint(b.len) == lx && vxVal(&b).Eq(vx_), "lsbsfromlsb-copy")
	} else {
		vx.Assert(b.len == n && vxVal(&b).Eq(vx_.And(vx.W256Mask(uint(n)))), "lsbsfromlsb-value")
	}
	var c BitArray
	c.LSBs(&x, n)
	switch {
	case n == 0:
		vx.Assert(uint(c.len) == lx && vxVal(&c).Eq(vx_), "lsbs-zero-copy")
	case uint(n) > lx:
		vx.Assert(c.len == 0 && vxVal(&c).IsZero(), "lsbs-past-end-empty")
	default:
		vx.Assert(uint(c.len) == lx-uint(n) && vxVal(&c).Eq(vx_.And(vx.W256Mask(lx-uint(n)))), "lsbs-value")
	}
	vx.Assert(vxInv(&b) && vxInv(&c), "lsbs-invariant")
}

func VxC01BitArrayMSBs() {
	x, lx, vx_ := vxBA("x")
	n := vx.U8("n")
	var b BitArray
	b.MSBs(&x, n)
	if uint(n) >= lx {
		vx.Assert(uint(b.len) == lx && vxVal(&b).Eq(vx_), "msbs-copy")
	} else {
		vx.Assert(b.len == n && vxVal(&b).Eq(vx_.Shr(lx-uint(n))), "msbs-value")
	}
	vx.Assert(vxInv(&b), "msbs-invariant")
}

func VxC01BitArrayAppend() {
	x, lx, xv := vxBA("x")
	y, ly, yv := vxBA("y")
	var b BitArray
	b.Append(&x, &y)
	switch {
	case lx == 0 || ly == 255:
		vx.Assert(uint(b.len) == ly && vxVal(&b).Eq(yv), "append-empty-left")
	case ly == 0:
		vx.Assert(uint(b.len) == lx && vxVal(&b).Eq(xv), "append-empty-right")
	default:
		want := lx + ly
		if want > 255 {
			vx.Cover("append-saturates")
			want = 255
		}
		vx.Assert(uint(b.len) == want, "append-len")
		vx.Assert(vxVal(&b).Eq(xv.Shl(ly).And(vx.W256Mask(want)).Or(yv)), "append-value")
	}
	vx.Assert(vxInv(&b), "append-invariant")
}

func VxC01BitArrayAppendBitZeros() {
	x, lx, xv := vxBA("x")
	vx.Assume(lx > 0 && lx < 255)
	bit := vx.U8("bit")
	var b BitArray
	b.AppendBit(&x, bit)
	vx.Assert(uint(b.len) == lx+1 && vxVal(&b).Eq(xv.Shl(1).Or(vx.W256From64(uint64(bit&1)))), "appendbit")
	n := vx.U8("n")
	vx.Assume(n > 0 && lx+uint(n) <= 255)
	var c BitArray
	c.AppendZeros(&x, n)
	vx.Assert(uint(c.len) == lx+uint(n) && vxVal(&c).Eq(xv.Shl(uint(n))), "appendzeros")
}

func VxC01BitArrayBits() {
	x, lx, xv := vxBA("x")
	n := vx.U8("n")
	wantLSB := uint8(0)
	if uint(n) < lx {
		wantLSB = xv.Bit(uint(n))
	}
	vx.Assert(x.BitFromLSB(n) == wantLSB, "bitfromlsb")
	vx.Assert(x.IsBitSetFromLSB(n) == (wantLSB == 1), "isbitsetfromlsb")
	want := uint8(0)
	if uint(n) < lx {
		want = xv.Bit(lx - 1 - uint(n))
	}
	vx.Assert(x.Bit(n) == want, "bit-from-msb")
	vx.Assert(x.IsBitSet(n) == (want == 1), "isbitset")
	if lx > 0 {
		vx.Assert(x.MSB() == xv.Bit(lx-1), "msb")
		vx.Assert(x.LSB() == xv.Bit(0), "lsb")
	}
	vx.Assert(x.IsEmpty() == (lx == 0), "isempty")
	vx.Assert(x.Len() == uint8(lx), "len")
}

func VxC01BitArrayCmpEqual() {
	x, lx, xv := vxBA("x")
	y, ly, yv := vxBA("y")
	c := x.Cmp(&y)
	switch {
	case lx < ly:
		vx.Assert(c == -1, "cmp-shorter-first")
	case lx > ly:
		vx.Assert(c == 1, "cmp-longer-last")
	case xv.Lt(yv):
		vx.Assert(c == -1, "cmp-less")
	case yv.Lt(xv):
		vx.Assert(c == 1, "cmp-greater")
	default:
		vx.Assert(c == 0, "cmp-equal")
	}
	vx.Assert(x.Equal(&y) == (lx == ly && xv.Eq(yv)), "equal")
	cp := x.Copy()
	vx.Assert(cp.Equal(&x), "copy-equal")
	var z BitArray
	z.Set(&y)
	vx.Assert(z.Equal(&y), "set-equal")
}

func VxC01BitArraySetters() {
	length := vx.U8("length")
	v := vx.U64("v")
	var b BitArray
	b.SetUint64(length, v)
	vx.Assert(b.len == length && vxVal(&b).Eq(vx.W256From64(v).And(vx.W256Mask(uint(length)))), "setuint64")
	nb := NewBitArray(length, v)
	vx.Assert(nb.Equal(&b), "newbitarray")
	var o BitArray
	o.Ones(length)
	vx.Assert(o.len == length && vxVal(&o).Eq(vx.W256Mask(uint(length))), "ones")
	var z BitArray
	z.words[2] = v
	z.Zeros(length)
	vx.Assert(z.len == length && vxVal(&z).IsZero(), "zeros")
	bit := vx.U8("bit")
	var s BitArray
	s.words[3] = v
	s.SetBit(bit)
	vx.Assert(s.len == 1 && vxVal(&s).Eq(vx.W256From64(uint64(bit&1))), "setbit")
	// truncateToLength on arbitrary words
	var t BitArray
	w := vx.W256Input("w")
	t.words = [4]uint64(w)
	t.len = length
	t.truncateToLength()
	vx.Assert(vxVal(&t).Eq(w.And(vx.W256Mask(uint(length)))) && t.len == length, "truncate")
}

func VxC01BitArrayFindFirstSetBit() {
	x, lx, xv := vxBA("x")
	r := uint(findFirstSetBit(&x))
	if lx == 0 || xv.IsZero() {
		vx.Assert(r == 0, "ffs-zero")
		return
	}
	// r is one above the index of the highest set bit
	vx.Assert(r >= 1 && r <= 256 && xv.Bit(r-1) == 1 && xv.Shr(r).IsZero(), "ffs-highest-set-bit")
}

func VxC01BitArrayFelt() {
	fb := vx.FeltBytes("f")
	var f felt.Felt
	f.SetBytes(fb[:])
	fv := vx.W256FromBytes(fb)
	length := vx.U8("length")
	var b BitArray
	b.SetFelt(length, &f)
	vx.Assert(b.len == length && vxVal(&b).Eq(fv.And(vx.W256Mask(uint(length)))), "setfelt")
	var c BitArray
	c.SetFelt251(&f)
	vx.Assert(c.len == 251 && vxVal(&c).Eq(fv.And(vx.W256Mask(251))), "setfelt251")
	// Felt() of a key-sized array gives back the value
	x, lx, xv := vxBA("x")
	vx.Assume(lx <= 251)
	g := x.Felt()
	gb := g.Bytes()
	vx.Assert(vx.W256FromBytes(gb).Eq(xv), "felt-roundtrip")
	bt := x.Bytes()
	vx.Assert(vx.W256FromBytes(bt).Eq(xv), "bytes-big-endian")
}

// SetBytes: one path per data length 0..33 (case split), bytes symbolic.
func VxC01BitArraySetBytes() {
	n := vx.Choice("n", 35)
	data := vx.Bytes("data", n)
	length := vx.U8("length")
	var b BitArray
	b.words = [4]uint64(vx.W256Input("garbage"))
	b.SetBytes(length, data)
	// big-endian value of the first min(n,32) bytes
	var be [32]byte
	k := n
	if k > 32 {
		k = 32
	}
	copy(be[32-k:], data[:k])
	want := vx.W256FromBytes(be).And(vx.W256Mask(uint(length)))
	vx.Assert(b.len == length, "setbytes-len")
	vx.Assert(vxVal(&b).Eq(want), "setbytes-value")
}

// Write / UnmarshalBinary / EncodedLen: case split on the byte count.
func VxC01BitArrayEncoding() {
	x, lx, xv := vxBA("x")
	var buf bytes.Buffer
	n, err := x.Write(&buf)
	vx.Assert(err == nil, "write-no-error")
	bc := (lx + 7) / 8
	vx.Assert(uint(n) == bc+1 && uint(buf.Len()) == bc+1, "write-length")
	vx.Assert(x.EncodedLen() == bc+1, "encodedlen")
	enc := buf.Bytes()
	vx.Assert(enc[0] == uint8(lx) || enc[len(enc)-1] == uint8(lx), "write-length-byte")
	var y BitArray
	y.words = [4]uint64(vx.W256Input("garbage"))
	err = y.UnmarshalBinary(enc)
	vx.Assert(err == nil, "unmarshal-own-encoding")
	vx.Assert(uint(y.len) == lx && vxVal(&y).Eq(xv), "encoding-round-trip")
}

func VxC01BitArrayUnmarshalArbitrary() {
	// arbitrary input: never panics; whatever is accepted re-encodes to something that decodes to
	// the same (len, value restricted to len) - the two packages use different layouts (length byte
	// first vs. last), so nothing layout-specific is asserted here.
	n := vx.Choice("n", 36)
	data := vx.Bytes("data", n)
	var y BitArray
	err := y.UnmarshalBinary(data)
	if err != nil {
		vx.Cover("rejected")
		return
	}
	vx.Cover("accepted")
	var buf bytes.Buffer
	_, werr := y.Write(&buf)
	vx.Assert(werr == nil, "rewrite-no-error")
	var z BitArray
	vx.Assert(z.UnmarshalBinary(buf.Bytes()) == nil, "reencoded-accepted")
	m := vx.W256Mask(uint(y.len))
	vx.Assert(z.len == y.len && vxVal(&z).And(m).Eq(vxVal(&y).And(m)), "reencode-stable")
}
