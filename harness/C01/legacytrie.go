//vx:pkg core/trie
package trie

import (
	"github.com/NethermindEth/juno/core/crypto"
	"github.com/NethermindEth/juno/core/felt"
	"github.com/NethermindEth/juno/db/memory"
	"github.com/NethermindEth/juno/zzverif/vx"
)

// C01-H4: the legacy (dense, path-keyed) trie - the default state backend and one of the two
// temporary-trie backends - against the same sparse Merkle-Patricia specification as trie2
// (trie2ops.go): after every Put (zero = delete) the root equals SpecRoot(model) and reads return
// the model; after Commit and re-opening the trie on the same store the root is unchanged.
// Keys are arbitrary (all bits symbolic, narrow height so that path arithmetic folds); the
// full-width path arithmetic is decided by the VxC01BitArray* harnesses of this package.

type vxLLeaf struct {
	k vx.W256
	v felt.Felt
}

func vxLFeltOfW(w vx.W256) felt.Felt {
	b := w.Bytes()
	var f felt.Felt
	f.SetBytes(b[:])
	return f
}

func vxLH(a, b *felt.Felt) felt.Felt { return crypto.Pedersen(a, b) }

func vxLEdge(bottom felt.Felt, path vx.W256, length uint) felt.Felt {
	if length == 0 {
		return bottom
	}
	pf := vxLFeltOfW(path)
	inner := vxLH(&bottom, &pf)
	lf := felt.FromUint64[felt.Felt](uint64(length))
	var res felt.Felt
	res.Add(&inner, &lf)
	return res
}

func vxLSpecNode(S []vxLLeaf, r uint) felt.Felt {
	if len(S) == 1 {
		return vxLEdge(S[0].v, S[0].k.And(vx.W256Mask(r)), r)
	}
	var x vx.W256
	for i := 1; i < len(S); i++ {
		x = x.Or(S[0].k.Xor(S[i].k))
	}
	x = x.And(vx.W256Mask(r))
	bl := uint(vx.Concrete(uint64(x.BitLen())))
	l := r - bl
	var S0, S1 []vxLLeaf
	for _, s := range S {
		if s.k.Bit(bl-1) == 0 {
			S0 = append(S0, s)
		} else {
			S1 = append(S1, s)
		}
	}
	left := vxLSpecNode(S0, bl-1)
	right := vxLSpecNode(S1, bl-1)
	bottom := vxLH(&left, &right)
	return vxLEdge(bottom, S[0].k.Shr(bl).And(vx.W256Mask(l)), l)
}

func vxLSpecRoot(S []vxLLeaf, height uint) felt.Felt {
	if len(S) == 0 {
		return felt.Zero
	}
	return vxLSpecNode(S, height)
}

func vxLKey(name string, height uint) (felt.Felt, vx.W256) {
	k := vx.U64(name)
	if height < 64 {
		vx.Assume(k>>height == 0)
	}
	return felt.FromUint64[felt.Felt](k), vx.W256From64(k)
}

func vxLModelSet(m []vxLLeaf, k vx.W256, v felt.Felt) []vxLLeaf {
	out := m[:0:0]
	for _, e := range m {
		if !e.k.Eq(k) {
			out = append(out, e)
		}
	}
	if !v.IsZero() {
		out = append(out, vxLLeaf{k, v})
	}
	return out
}

func VxC01LegacyTrieOperations() {
	nkeys, nops := 2, 3
	height := uint(8)
	if vx.Thorough() {
		nkeys, nops = 3, 3
		vx.Bound("legacy trie, height 8; 3 distinct arbitrary keys; 3 operations Put(k_i, v) with v arbitrary or zero; root after every operation, Get, then Commit and re-open")
	} else {
		vx.Bound("legacy trie, height 8; 2 distinct arbitrary keys; 3 operations Put(k_i, v) with v arbitrary or zero; root after every operation, Get, then Commit and re-open")
	}
	vx.CollisionFree()
	VxCaseSplitFirstSetBit()
	keysF := make([]felt.Felt, nkeys)
	keysW := make([]vx.W256, nkeys)
	for i := range keysF {
		keysF[i], keysW[i] = vxLKey("key", height)
		for j := 0; j < i; j++ {
			vx.Assume(!keysW[i].Eq(keysW[j]))
		}
	}
	txn := memory.New().NewIndexedBatch()
	prefix := []byte{0x77}
	t, err := NewTriePedersen(txn, prefix, uint8(height))
	vx.Assert(err == nil, "trie-opens")
	var model []vxLLeaf
	for op := 0; op < nops; op++ {
		ki := vx.Choice("which", nkeys)
		var v felt.Felt
		if vx.Choice("zero", 2) == 1 {
			vx.Cover("write-zero")
		} else {
			vb := vx.FeltBytes("val")
			v.SetBytes(vb[:])
			vx.Assume(!v.IsZero())
		}
		present := false
		var oldV felt.Felt
		for _, e := range model {
			if e.k.Eq(keysW[ki]) {
				present, oldV = true, e.v
			}
		}
		switch {
		case v.IsZero() && present:
			vx.Cover("delete-present")
		case v.IsZero():
			vx.Cover("delete-absent")
		case present:
			vx.Cover("overwrite")
		default:
			vx.Cover("insert")
		}
		old, perr := t.Put(&keysF[ki], &v)
		vx.Assert(perr == nil, "put-no-error")
		// Put reports the previous value (nil only for the no-op "zero to an absent key")
		if present {
			vx.Assert(old != nil && old.Equal(&oldV), "put-returns-the-previous-value")
		} else if v.IsZero() {
			vx.Assert(old == nil, "zero-to-absent-key-is-a-no-op")
		} else {
			vx.Assert(old != nil && old.IsZero(), "put-returns-the-previous-value")
		}
		model = vxLModelSet(model, keysW[ki], v)
		got, herr := t.Hash()
		want := vxLSpecRoot(model, height)
		vx.Assert(herr == nil && got.Equal(&want), "root-equals-protocol-commitment")
	}
	pi := vx.Choice("probe", nkeys)
	gv, gerr := t.Get(&keysF[pi])
	wantV := felt.Zero
	for _, e := range model {
		if e.k.Eq(keysW[pi]) {
			wantV = e.v
		}
	}
	vx.Assert(gerr == nil && gv.Equal(&wantV), "get-returns-model-value")
	// persistence: commit, re-open on the same store
	vx.Assert(t.Commit() == nil, "commit-ok")
	t2, err := NewTriePedersen(txn, prefix, uint8(height))
	vx.Assert(err == nil, "reopen-ok")
	got2, herr := t2.Hash()
	want := vxLSpecRoot(model, height)
	vx.Assert(herr == nil && got2.Equal(&want), "reopened-root-equals-protocol-commitment")
	gv2, gerr := t2.Get(&keysF[pi])
	vx.Assert(gerr == nil && gv2.Equal(&wantV), "reopened-get-returns-model-value")
}
