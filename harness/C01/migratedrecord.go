//vx:pkg core/state
//vx:include ../C04/newstate.go
package state

import (
	"github.com/NethermindEth/juno/core"
	"github.com/NethermindEth/juno/core/felt"
	"github.com/NethermindEth/juno/core/trie2/triedb"
	"github.com/NethermindEth/juno/db/memory"
	"github.com/NethermindEth/juno/zzverif/vx"
)

// C01-H7 (new backend): "the root is a pure function of the resulting state, independent of how the
// database got there". The head-state migration rewrites every contract record through
// state.WriteContract, which leaves the record's cached storage root at zero ("backfilled lazily on the
// first storage write") while the contract's storage-trie nodes stay where they are. A block applied on
// top of such a record must give exactly the root a node computes whose records were written by the
// blocks themselves: the existing storage must still be part of the commitment, for a storage write, a
// zero write, a nonce-only and a class-only update of the migrated contract.
func VxC01MigratedContractRecordKeepsItsStorage() {
	vx.Bound("block 0 deploys contract A (class, nonce, one storage slot: symbolic non-zero values) and contract B; node 1 then has A's record rewritten by state.WriteContract (cached storage root zero, as the head-state migration leaves it), node 2 not; block 1 = one of {write another slot of A, overwrite the slot, write zero to the slot, nonce only, class replacement only, touch only B}; the two nodes must report the same root for block 1, and head reads of A's storage agree")
	vx.CollisionFree()
	a1 := felt.NewFromUint64[felt.Felt](0x1000)
	a2 := felt.NewFromUint64[felt.Felt](0x2000)
	slotW := felt.NewFromUint64[felt.Felt](0x20)
	slotN := felt.NewFromUint64[felt.Felt](0x21)
	c0, v0, n0 := vxFeltIn("class0"), vxFeltIn("val0"), vxFeltIn("nonce0")
	vx.Assume(!v0.IsZero() && !c0.IsZero())
	mk0 := func() core.StateDiff {
		diff0 := core.EmptyStateDiff()
		diff0.DeployedContracts[*a1] = c0
		diff0.StorageDiffs[*a1] = map[felt.Felt]*felt.Felt{*slotW: v0}
		diff0.Nonces[*a1] = n0
		diff0.DeployedContracts[*a2] = c0
		return diff0
	}
	diff1 := core.EmptyStateDiff()
	switch vx.Choice("block1", 6) {
	case 0:
		w := vxFeltIn("b1.n")
		vx.Assume(!w.IsZero())
		diff1.StorageDiffs[*a1] = map[felt.Felt]*felt.Felt{*slotN: w}
		vx.Cover("writes-another-slot")
	case 1:
		diff1.StorageDiffs[*a1] = map[felt.Felt]*felt.Felt{*slotW: vxFeltIn("b1.w")}
		vx.Cover("overwrites-the-slot")
	case 2:
		diff1.StorageDiffs[*a1] = map[felt.Felt]*felt.Felt{*slotW: new(felt.Felt)}
		vx.Cover("writes-zero-to-the-slot")
	case 3:
		diff1.Nonces[*a1] = vxFeltIn("b1.nonce")
		vx.Cover("nonce-only")
	case 4:
		diff1.ReplacedClasses[*a1] = vxFeltIn("b1.class")
		vx.Cover("class-only")
	default:
		diff1.Nonces[*a2] = vxFeltIn("b1.nonceB")
		vx.Cover("other-contract-only")
	}

	// node 2: never migrated
	d2 := memory.New()
	sdb2 := NewStateDB(d2, triedb.New(d2, nil))
	diff02 := mk0()
	r02, err := vxApply(sdb2, d2, &felt.Zero, 0, &diff02)
	vx.Assert(err == nil, "block-0-stores")
	want, err := vxApply(sdb2, d2, &r02, 1, &diff1)
	vx.Assert(err == nil, "block-1-stores-on-the-native-node")
	if err != nil {
		return
	}

	// node 1: record of A rewritten the way the head-state migration writes it
	d := memory.New()
	sdb := NewStateDB(d, triedb.New(d, nil))
	diff0 := mk0()
	r0, err := vxApply(sdb, d, &felt.Zero, 0, &diff0)
	vx.Assert(err == nil && r0.Equal(&r02), "block-0-stores")
	vx.Assert(WriteContract(d, a1, *n0, *c0, 0) == nil, "record-rewritten")
	sdbM := NewStateDB(d, triedb.New(d, nil)) // the node restarts after a migration
	got, err := vxApply(sdbM, d, &r0, 1, &diff1)
	vx.Assert(err == nil, "block-1-stores-on-the-migrated-node")
	if err != nil {
		return
	}
	vx.Assert(got.Equal(&want), "same-root-as-a-node-whose-records-were-never-rewritten")
	sr, err := NewStateReader(&got, sdbM)
	vx.Assert(err == nil, "reader-opens")
	if err == nil {
		gv, e1 := sr.ContractStorage(a1, slotW)
		exp := *v0
		if w, ok := diff1.StorageDiffs[*a1][*slotW]; ok {
			exp = *w
		}
		vx.Assert(e1 == nil && gv.Equal(&exp), "existing-storage-still-readable-after-the-block")
	}
}
