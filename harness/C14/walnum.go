//vx:pkg consensus/walstore
package walstore

import (
	pebblewal "github.com/cockroachdb/pebble/v2/wal"
	"github.com/NethermindEth/juno/zzverif/vx"
)

// C14-H10 / C13: a log file the store opens after a restart never takes the number of a file that is still
// in the directory. Obsolete low-numbered files are deleted by the periodic cleanup, so the files found on
// restart are an arbitrary set of numbers - not 1..n. Creating a log under an existing number truncates that
// file (the manager opens with O_TRUNC) and with it flushed, un-pruned entries of the height in progress
// (C13: the proposal and votes the validator already sent).
func VxC14NewLogNeverReusesAnExistingNumber() {
	vx.Bound("0..3 log files found on restart with arbitrary distinct 64-bit numbers >= 1 (below 2^62); number chosen for the next file")
	n := vx.Choice("logs", 4)
	var logs pebblewal.Logs
	for i := 0; i < n; i++ {
		num := vx.U64("num")
		vx.Assume(num >= initialWALNum && num < 1<<62)
		for _, l := range logs {
			vx.Assume(uint64(l.Num) != num)
		}
		logs = append(logs, pebblewal.LogicalLog{Num: pebblewal.NumWAL(num)})
	}
	next := nextWALNum(logs)
	vx.Assert(uint64(next) >= initialWALNum, "first-log-number-respected")
	for _, l := range logs {
		vx.Assert(next > l.Num, "next-log-number-is-above-every-existing-file")
	}
	if n > 0 && uint64(logs[0].Num) > uint64(n) {
		vx.Cover("directory-with-a-gap-below-the-oldest-file")
	}
}
