//vx:pkg consensus/walstore
//vx:noreplay
//vx:include codec.go
package walstore

import (
	"errors"

	"github.com/NethermindEth/juno/consensus/types"
	"github.com/cockroachdb/pebble/v2/vfs"
	pebblewal "github.com/cockroachdb/pebble/v2/wal"

	"github.com/NethermindEth/juno/zzverif/vx"
)

// C14-H5 (engine only): the prune watermark is durable before any log file is removed. A removed file
// may hold the prune markers that hide entries still present in surviving files; if the process dies
// between the removal and the watermark write, those entries come back on restart. removeObsoleteWALFiles
// runs from source with the file-system effects replaced by recording models (the watermark writer, the
// file rotation and the log manager's obsolete list; natively they touch real files, which is why this
// harness is not replayed): in the recorded order no file is removed unless a watermark write succeeded
// before it, and when the watermark cannot be written nothing is removed.

var vxFsEvents []string
var vxWatermarkFails bool

func vxWatermarkModel(_ string, _ types.Height) error {
	if vxWatermarkFails {
		vxFsEvents = append(vxFsEvents, "watermark-failed")
		return errors.New("watermark write failed")
	}
	vxFsEvents = append(vxFsEvents, "watermark")
	return nil
}

func vxRotateModel(*walWriter) error {
	vxFsEvents = append(vxFsEvents, "rotate")
	return nil
}

type vxRecordingFS struct{ vfs.FS }

func (vxRecordingFS) Remove(string) error {
	vxFsEvents = append(vxFsEvents, "remove")
	return nil
}

func vxObsoleteModel(*walWriter, pebblewal.NumWAL) ([]pebblewal.DeletableLog, error) {
	return []pebblewal.DeletableLog{{FS: vxRecordingFS{}, Path: "000001.log", NumWAL: 1}}, nil
}

func VxC14WatermarkDurableBeforeFileRemoval() {
	vx.Bound("one removeObsoleteWALFiles call with a symbolic number of prune records (0..3) and a symbolic backlog counter around the cleanup interval; one obsolete log file; the watermark write succeeds or fails")
	vx.Stub("github.com/NethermindEth/juno/consensus/walstore.writePruneWatermark", vxWatermarkModel)
	vx.Stub("(*github.com/NethermindEth/juno/consensus/walstore.walWriter).rotateAfterSynced", vxRotateModel)
	vx.Stub("(*github.com/NethermindEth/juno/consensus/walstore.walWriter).obsolete", vxObsoleteModel)
	vxFsEvents = nil
	vxWatermarkFails = vx.Bool("watermark-fails")
	s := vxNewStore(types.Height(vx.U64("watermark")))
	s.wal = newWALWriter(nil, "", 3)
	s.wal.currentWALNum = 2
	backlog := vx.U64("backlog")
	vx.Assume(backlog <= cleanupPruneRecordInterval)
	s.pruneRecordsSinceCleanup = backlog
	n := uint64(vx.Choice("prune-records", 4))
	err := s.removeObsoleteWALFiles(n)
	written := false
	removed := false
	for _, e := range vxFsEvents {
		switch e {
		case "watermark":
			written = true
		case "remove":
			removed = true
			vx.Cover("file-removed")
			vx.Assert(written, "engine:watermark-durable-before-any-file-is-removed")
		}
	}
	if vxWatermarkFails && len(vxFsEvents) > 0 {
		vx.Cover("watermark-write-failed")
		vx.Assert(!removed, "engine:no-file-removed-when-the-watermark-cannot-be-written")
		vx.Assert(err != nil, "engine:watermark-failure-reported")
	}
	if n == 0 || backlog+n < cleanupPruneRecordInterval {
		vx.Assert(len(vxFsEvents) == 0 && err == nil, "engine:no-cleanup-below-the-interval")
	}
}
