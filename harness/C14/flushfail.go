//vx:pkg consensus/walstore
package walstore

import (
	"errors"
	"os"
	"path/filepath"

	"github.com/NethermindEth/juno/consensus/types"
	"github.com/NethermindEth/juno/consensus/types/wal"
	"github.com/cockroachdb/pebble/v2/record"
	pebblewal "github.com/cockroachdb/pebble/v2/wal"

	"github.com/NethermindEth/juno/zzverif/vx"
)

// C14-H3: a flush that reports failure never leaves part of that batch durable, does not touch the
// indexes and keeps the pending records. flushLocked and walWriter.appendSync run from source against
// a model pebblewal.Writer (interface) whose write or fsync of the k-th record fails; the log file is a
// byte counter inside the engine (repairWALTail redirected to truncate it) and a real temporary file
// natively (the real repairWALTail truncates it).

type vxLogFile struct {
	size int64
	path string
}

func (f *vxLogFile) grow(n int64) {
	f.size += n
	if !vx.InEngine() {
		fh, err := os.OpenFile(f.path, os.O_CREATE|os.O_WRONLY|os.O_APPEND, 0o644)
		if err == nil {
			_, _ = fh.Write(make([]byte, n))
			_ = fh.Close()
		}
	}
}

func (f *vxLogFile) durable() int64 {
	if vx.InEngine() {
		return f.size
	}
	st, err := os.Stat(f.path)
	if err != nil {
		return 0
	}
	return st.Size()
}

var vxTheFile *vxLogFile

func vxRepairStub(_ string, off int64) error {
	if off < vxTheFile.size {
		vxTheFile.size = off
	}
	return nil
}

type vxModelWriter struct {
	f           *vxLogFile
	failWriteAt int
	failSyncAt  int
	calls       int
}

func (w *vxModelWriter) WriteRecord(p []byte, o pebblewal.SyncOptions, _ pebblewal.RefCount) (int64, error) {
	k := w.calls
	w.calls++
	if k == w.failWriteAt {
		w.f.grow(3) // a torn prefix reached the file
		return 0, errors.New("write failed")
	}
	w.f.grow(int64(len(p)) + 11)
	if k == w.failSyncAt {
		*o.Err = errors.New("fsync failed")
	}
	o.Done.Done()
	return w.f.size, nil
}
func (w *vxModelWriter) Close() (int64, error)            { return w.f.size, nil }
func (w *vxModelWriter) Metrics() record.LogWriterMetrics { return record.LogWriterMetrics{} }

func VxC14FlushFailure() {
	vx.Bound("two flushes of one start entry each (heights symbolic); the write or the fsync of the first or second record fails, or none")
	dir := ""
	file := &vxLogFile{}
	if vx.InEngine() {
		vx.Stub("github.com/NethermindEth/juno/consensus/walstore.repairWALTail", vxRepairStub)
	} else {
		d, err := os.MkdirTemp("", "vxwal")
		if err != nil {
			panic(err)
		}
		defer os.RemoveAll(d)
		dir = d
		file.path = filepath.Join(d, pebblewal.NumWAL(1).String()+".log")
	}
	vxTheFile = file
	mw := &vxModelWriter{f: file, failWriteAt: vx.Choice("failWriteAt", 3) - 1, failSyncAt: vx.Choice("failSyncAt", 3) - 1}
	s := vxNewStore(0)
	s.wal = &walWriter{dir: dir, writer: mw, currentWALNum: 1, nextWALNum: 2}
	h1, h2 := types.Height(vx.U64("h1")), types.Height(vx.U64("h2"))
	vx.Assume(h1 >= 1 && h2 >= 1)

	st1 := wal.Start(h1)
	vx.Assert(s.SetWALEntry(&st1) == nil, "set-1")
	err1 := s.Flush()
	if err1 != nil {
		vx.Cover("first-flush-fails")
		vx.Assert(mw.failWriteAt == 0 || mw.failSyncAt == 0, "failure-only-when-injected")
		vx.Assert(file.durable() == 0, "failed-flush-leaves-nothing-durable")
		vx.Assert(len(s.pendingRecords) == 1, "failed-flush-keeps-pending")
		cnt := 0
		for range s.LoadAllEntries() {
			cnt++
		}
		vx.Assert(cnt == 0, "failed-flush-leaves-indexes")
		return
	}
	d1 := file.durable()
	vx.Assert(d1 > 0 && len(s.pendingRecords) == 0, "successful-flush-durable-and-cleared")
	st2 := wal.Start(h2)
	vx.Assert(s.SetWALEntry(&st2) == nil, "set-2")
	err2 := s.Flush()
	if err2 == nil {
		vx.Cover("both-flushes-succeed")
		vx.Assert(file.durable() > d1, "second-batch-durable")
		return
	}
	vx.Cover("second-flush-fails")
	vx.Assert(file.durable() == d1, "failed-flush-leaves-nothing-durable")
	vx.Assert(len(s.pendingRecords) == 1, "failed-flush-keeps-pending")
	cnt := 0
	for e := range s.LoadAllEntries() {
		vx.Assert(e.GetHeight() == h1, "failed-flush-leaves-indexes")
		cnt++
	}
	vx.Assert(cnt == 1, "only-flushed-entries-visible")
}
