//vx:pkg consensus/walstore
package walstore

import (
	"errors"
	"os"
	"path/filepath"

	"github.com/NethermindEth/juno/consensus/types"
	"github.com/NethermindEth/juno/consensus/types/wal"
	"github.com/cockroachdb/pebble/v2/record"
	pebblewal "github.com/cockroachdb/pebble/v2/wal"

	"github.com/NethermindEth/juno/zzverif/vx"
)

// C14-H3: a flush that reports failure never leaves part of that batch durable, does not touch the
// indexes and keeps the pending records. flushLocked and walWriter.appendSync run from source against
// a model pebblewal.Writer (interface) whose write or fsync of the k-th record fails; the log file is a
// byte counter inside the engine (repairWALTail redirected to truncate it) and a real temporary file
// natively (the real repairWALTail truncates it).

type vxLogFile struct {
	size int64
	path string
}

func (f *vxLogFile) grow(n int64) {
	f.size += n
	if !vx.InEngine() {
		fh, err := os.OpenFile(f.path, os.O_CREATE|os.O_WRONLY|os.O_APPEND, 0o644)
		if err == nil {
			_, _ = fh.Write(make([]byte, n))
			_ = fh.Close()
		}
	}
}

func (f *vxLogFile) durable() int64 {
	if vx.InEngine() {
		return f.size
	}
	st, err := os.Stat(f.path)
	if err != nil {
		return 0
	}
	return st.Size()
}

var vxTheFile *vxLogFile

func vxRepairStub(_ string, off int64) error {
	if off < vxTheFile.size {
		vxTheFile.size = off
	}
	return nil
}

type vxModelWriter struct {
	f           *vxLogFile
	failWriteAt int
	failSyncAt  int
	calls       int
}

func (w *vxModelWriter) WriteRecord(p []byte, o pebblewal.SyncOptions, _ pebblewal.RefCount) (int64, error) {
	k := w.calls
	w.calls++
	if k == w.failWriteAt {
		w.f.grow(3) // a torn prefix reached the file
		return 0, errors.New("write failed")
	}
	w.f.grow(int64(len(p)) + 11)
	if k == w.failSyncAt {
		*o.Err = errors.New("fsync failed")
	}
	o.Done.Done()
	return w.f.size, nil
}
func (w *vxModelWriter) Close() (int64, error)            { return w.f.size, nil }
func (w *vxModelWriter) Metrics() record.LogWriterMetrics { return record.LogWriterMetrics{} }

func VxC14FlushFailure() {
	vx.Bound("two flushes of one start entry each (heights symbolic); the write or the fsync of the first or second record fails, or none")
	dir := ""
	file := &vxLogFile{}
	if vx.InEngine() {
		vx.Stub("github.com/NethermindEth/juno/consensus/walstore.repairWALTail", vxRepairStub)
	} else {
		d, err := os.MkdirTemp("", "vxwal")
		if err != nil {
			panic(err)
		}
		defer os.RemoveAll(d)
		dir = d
		file.path = filepath.Join(d, pebblewal.NumWAL(1).String()+".log")
	}
	vxTheFile = file
	mw := &vxModelWriter{f: file, failWriteAt: vx.Choice("failWriteAt", 3) - 1, failSyncAt: vx.Choice("failSyncAt", 3) - 1}
	s := vxNewStore(0)
	s.wal = newWALWriter(nil, dir, 2)
	s.wal.writer, s.wal.currentWALNum = mw, 1
	h1, h2 := types.Height(vx.U64("h1")), types.Height(vx.U64("h2"))
	vx.Assume(h1 >= 1 && h2 >= 1)

	st1 := wal.Start(h1)
	vx.Assert(s.SetWALEntry(&st1) == nil, "set-1")
	err1 := s.Flush()
	if err1 != nil {
		vx.Cover("first-flush-fails")
		vx.Assert(mw.failWriteAt == 0 || mw.failSyncAt == 0, "failure-only-when-injected")
		vx.Assert(file.durable() == 0, "failed-flush-leaves-nothing-durable")
		vx.Assert(len(s.pendingRecords) == 1, "failed-flush-keeps-pending")
		cnt := 0
		for range s.LoadAllEntries() {
			cnt++
		}
		vx.Assert(cnt == 0, "failed-flush-leaves-indexes")
		return
	}
	d1 := file.durable()
	vx.Assert(d1 > 0 && len(s.pendingRecords) == 0, "successful-flush-durable-and-cleared")
	st2 := wal.Start(h2)
	vx.Assert(s.SetWALEntry(&st2) == nil, "set-2")
	err2 := s.Flush()
	if err2 == nil {
		vx.Cover("both-flushes-succeed")
		vx.Assert(file.durable() > d1, "second-batch-durable")
		return
	}
	vx.Cover("second-flush-fails")
	vx.Assert(file.durable() == d1, "failed-flush-leaves-nothing-durable")
	vx.Assert(len(s.pendingRecords) == 1, "failed-flush-keeps-pending")
	cnt := 0
	for e := range s.LoadAllEntries() {
		vx.Assert(e.GetHeight() == h1, "failed-flush-leaves-indexes")
		cnt++
	}
	vx.Assert(cnt == 1, "only-flushed-entries-visible")
}

// C14-H4: the batch headers a sequence of flushes writes satisfy the contract of the record reader
// the store is replayed through (Pebble's WAL reader returns a batch only if its sequence number is
// greater than that of the last batch it returned, and a batch occupies Count sequence numbers):
// every flushed batch starts at or after the end of the previous one, with a strictly greater
// sequence number, whatever mix of entry and prune records the batches hold. Otherwise a batch that
// was flushed and fsynced is silently skipped when the store is re-opened.
type vxCaptureWriter struct {
	batches [][]byte
	size    int64
}

func (w *vxCaptureWriter) WriteRecord(p []byte, o pebblewal.SyncOptions, _ pebblewal.RefCount) (int64, error) {
	w.batches = append(w.batches, append([]byte(nil), p...))
	w.size += int64(len(p)) + 11
	o.Done.Done()
	return w.size, nil
}
func (w *vxCaptureWriter) Close() (int64, error)            { return w.size, nil }
func (w *vxCaptureWriter) Metrics() record.LogWriterMetrics { return record.LogWriterMetrics{} }

func VxC14BatchHeadersFollowReaderContract() {
	vx.Bound("2..3 flushes in one WAL file; each batch holds 1..2 records, each an entry (start of a symbolic height) or a prune marker (symbolic height); headers decoded from the bytes handed to the writer")
	cw := &vxCaptureWriter{}
	s := vxNewStore(0)
	s.wal = newWALWriter(nil, "", 2)
	s.wal.writer, s.wal.currentWALNum = cw, 1
	flushes := 2 + vx.Choice("flushes", 2)
	for f := 0; f < flushes; f++ {
		n := 1 + vx.Choice("records", 2)
		prunesOnly := true
		for r := 0; r < n; r++ {
			h := types.Height(vx.U64("h"))
			vx.Assume(h >= 1 && h < 1<<40)
			if vx.Choice("kind", 2) == 0 {
				st := wal.Start(h)
				vx.Assert(s.SetWALEntry(&st) == nil, "set-entry")
				prunesOnly = false
			} else {
				vx.Assert(s.DeleteWALEntries(h) == nil, "queue-prune")
			}
		}
		if prunesOnly {
			vx.Cover("prune-only-batch")
		}
		before := len(cw.batches)
		vx.Assert(s.Flush() == nil, "flush-ok")
		if len(cw.batches) == before {
			// nothing was pending (prunes coalesced away): no batch, nothing to check
			vx.Cover("opt:empty-flush")
		}
	}
	var lastSeq, lastEnd uint64
	for i, b := range cw.batches {
		vx.Assert(len(b) >= 12, "batch-has-a-header")
		seq := uint64(b[0]) | uint64(b[1])<<8 | uint64(b[2])<<16 | uint64(b[3])<<24 | uint64(b[4])<<32 | uint64(b[5])<<40 | uint64(b[6])<<48 | uint64(b[7])<<56
		cnt := uint64(b[8]) | uint64(b[9])<<8 | uint64(b[10])<<16 | uint64(b[11])<<24
		vx.Assert(cnt >= 1, "batch-counts-its-records")
		if i > 0 {
			vx.Assert(seq > lastSeq, "sequence-number-greater-than-the-previous-batch")
			vx.Assert(seq >= lastEnd, "sequence-ranges-do-not-overlap")
		}
		lastSeq, lastEnd = seq, seq+cnt
	}
}

// C14-H11 / C13-H10: the batch boundaries are the caller's. Whatever the number of entries buffered between
// two Flush calls - one, a few hundred, a few thousand (a burst of logged-but-unanswered messages) - nothing
// reaches the log file before Flush is called (no partial batch can survive a crash before it), and ONE Flush
// that reports success has written them ALL, in one record that counts them all, and left nothing pending:
// the driver broadcasts right after Flush returns, and the input that caused the broadcast is the newest
// buffered entry.
func VxC14BatchBoundariesAreTheCallers() {
	vx.Bound("one batch of n in {1, 3, 520, 2060} (thorough: {1, 3, 300, 520, 1030, 2060, 4100}) entries (start markers of distinct heights; sizes around powers of two a buffer bound might use) buffered on a store with an empty log; then one Flush")
	cw := &vxCaptureWriter{}
	s := vxNewStore(0)
	s.wal = newWALWriter(nil, "", 2)
	s.wal.writer, s.wal.currentWALNum = cw, 1
	sizes := []int{1, 3, 520, 2060}
	if vx.Thorough() {
		sizes = []int{1, 3, 300, 520, 1030, 2060, 4100}
	}
	n := sizes[vx.Choice("entries-in-the-batch", len(sizes))]
	for i := 0; i < n; i++ {
		st := wal.Start(types.Height(1 + i))
		vx.Assert(s.SetWALEntry(&st) == nil, "set-entry")
	}
	vx.Assert(len(cw.batches) == 0, "nothing-reaches-the-log-before-flush")
	seen := 0
	for range s.LoadAllEntries() {
		seen++
	}
	vx.Assert(seen == 0, "unflushed-entries-are-not-served-as-logged")
	vx.Assert(s.Flush() == nil, "flush-ok")
	vx.Assert(len(s.pendingRecords) == 0, "successful-flush-leaves-nothing-pending")
	vx.Assert(len(cw.batches) == 1, "one-flush-writes-one-record")
	total := uint64(0)
	for _, b := range cw.batches {
		vx.Assert(len(b) >= 12, "batch-has-a-header")
		total += uint64(b[8]) | uint64(b[9])<<8 | uint64(b[10])<<16 | uint64(b[11])<<24
	}
	vx.Assert(total == uint64(n), "flushed-records-count-every-buffered-entry")
	seen = 0
	for range s.LoadAllEntries() {
		seen++
	}
	vx.Assert(seen == n, "every-flushed-entry-is-served")
}
