//vx:pkg consensus/walstore
//vx:noreplay
package walstore

import (
	"encoding/binary"
	"os"

	"github.com/NethermindEth/juno/consensus/types"
	"github.com/NethermindEth/juno/zzverif/vx"
)

// C14-H9 (engine only; the file system is a model): "for every intermediate state of the prune-watermark
// write ... reopening yields exactly the flushed, un-pruned entries, never an error that prevents the
// validator from starting". The real writePruneWatermark runs against a model of the file-system calls it
// makes (create/truncate, write, fsync, close, rename, directory fsync); the process dies after the k-th of
// them (k symbolic) and the crash image is what a POSIX file system may hold at that point: an unsynced
// temporary file holds any prefix of what was written (or is missing), a rename not followed by a directory
// sync is either done or not. The real loadPruneWatermark then runs on that image. It must not fail, and it
// must return the old watermark or the new one - the new one once the write reported success. The directory
// starts with no watermark, or with a valid older one; a temporary file left by an earlier crash may be
// lying around (any length).

const (
	vxWmMain = "wal/prune-watermark"
	vxWmTmp  = "wal/prune-watermark.tmp"
)

type vxWmFS struct {
	files   map[string][]byte // what the running process sees
	ops     int
	crashAt int  // the process dies before its crashAt-th file-system call (0-based); -1 never
	dead    bool
	tmpSynced bool
	renamedNotSynced bool
	oldMain []byte
	oldMainPresent bool
}

var vxWm *vxWmFS

func (f *vxWmFS) step() bool {
	if f.dead {
		return false
	}
	if f.ops == f.crashAt {
		f.dead = true
		return false
	}
	f.ops++
	return true
}

func vxWmOpenFile(name string, flag int, _ os.FileMode) (*os.File, error) {
	if vxWm.step() {
		if flag&os.O_TRUNC != 0 || vxWm.files[name] == nil {
			vxWm.files[name] = []byte{}
		}
		vxWm.tmpSynced = false
	}
	return new(os.File), nil
}
func vxWmWrite(_ *os.File, b []byte) (int, error) {
	if vxWm.step() {
		vxWm.files[vxWmTmp] = append(vxWm.files[vxWmTmp], b...)
	}
	return len(b), nil
}
func vxWmSync(*os.File) error {
	if vxWm.step() {
		vxWm.tmpSynced = true
	}
	return nil
}
func vxWmClose(*os.File) error { vxWm.step(); return nil }
func vxWmRename(from, to string) error {
	if vxWm.step() {
		vxWm.files[to] = vxWm.files[from]
		delete(vxWm.files, from)
		vxWm.renamedNotSynced = true
	}
	return nil
}
func vxWmRemove(name string) error {
	if vxWm.step() {
		delete(vxWm.files, name)
	}
	return nil
}
func vxWmSyncDir(string) error {
	if vxWm.step() {
		vxWm.renamedNotSynced = false
	}
	return nil
}
func vxWmReadFile(name string) ([]byte, error) {
	b, ok := vxWm.files[name]
	if !ok {
		return nil, &os.PathError{Op: "open", Path: name, Err: os.ErrNotExist}
	}
	return append([]byte(nil), b...), nil
}

func vxWmJoin(parts ...string) string { return parts[0] + "/" + parts[1] }

func vxWmEncode(h uint64) []byte {
	out := append([]byte(pruneWatermarkHeader), make([]byte, 8)...)
	binary.BigEndian.PutUint64(out[len(pruneWatermarkHeader):], h)
	return out
}

func VxC14WatermarkWriteSurvivesACrashAtAnyPoint() {
	vx.Bound("one writePruneWatermark(new height, symbolic) on a directory with no watermark or a valid older one (symbolic height), optionally a temporary file left by an earlier crash (length 0, 1, 27, 34 or 35 bytes); process death before the k-th file-system call for k in 0..6 or never; unsynced temporary file = prefix of length 0, 1, 27, 34, 35 or missing; unsynced rename done or not; then loadPruneWatermark on the image")
	for _, t := range []struct {
		n string
		f any
	}{{"os.OpenFile", vxWmOpenFile}, {"(*os.File).Write", vxWmWrite}, {"(*os.File).Sync", vxWmSync}, {"(*os.File).Close", vxWmClose},
		{"os.Rename", vxWmRename}, {"path/filepath.Join", vxWmJoin}, {"os.Remove", vxWmRemove}, {"os.ReadFile", vxWmReadFile},
		{"github.com/NethermindEth/juno/consensus/walstore.syncDir", vxWmSyncDir}} {
		vx.Stub(t.n, t.f)
	}
	fs := &vxWmFS{files: map[string][]byte{}, crashAt: vx.Choice("dies-before-fs-call", 8) - 1}
	vxWm = fs
	oldH := uint64(0)
	if vx.Choice("older-watermark-present", 2) == 1 {
		oldH = vx.U64("old-height")
		fs.files[vxWmMain] = vxWmEncode(oldH)
		fs.oldMainPresent = true
		vx.Cover("older-watermark-present")
	} else {
		vx.Cover("first-watermark-write")
	}
	fs.oldMain = fs.files[vxWmMain]
	lens := []int{0, 1, 27, 34, 35}
	if vx.Choice("stale-temporary-file", 2) == 1 {
		fs.files[vxWmTmp] = make([]byte, lens[vx.Choice("stale-length", 5)])
	}
	staleTmp, staleTmpPresent := fs.files[vxWmTmp]
	newH := vx.U64("new-height")
	werr := writePruneWatermark("wal", types.Height(newH))
	vx.Assert(werr == nil, "write-reports-success-on-a-healthy-file-system")

	// the crash image
	img := map[string][]byte{}
	if !fs.dead {
		vx.Cover("write-completed")
		for k, v := range fs.files {
			img[k] = v
		}
	} else {
		vx.Cover("process-died-during-the-write")
		// main file: the new one only if the rename happened (and, unsynced, was applied)
		renamed := fs.renamedNotSynced && vx.Choice("unsynced-rename-applied", 2) == 1
		if _, has := fs.files[vxWmMain]; has && (!fs.renamedNotSynced || renamed) {
			img[vxWmMain] = fs.files[vxWmMain]
		} else if fs.oldMainPresent {
			img[vxWmMain] = fs.oldMain
		}
		// temporary file
		if cur, has := fs.files[vxWmTmp]; has || (fs.renamedNotSynced && !renamed) {
			if !has {
				cur = vxWmEncode(newH) // rename not applied: the synced temporary file is still there
			}
			if fs.tmpSynced || (fs.renamedNotSynced && !renamed) {
				img[vxWmTmp] = cur
			} else {
				switch n := vx.Choice("unsynced-prefix", 6); {
				case n == 5:
					// creation itself not durable: whatever was there before (possibly nothing)
					if staleTmpPresent {
						img[vxWmTmp] = staleTmp
					}
				case lens[n] <= len(cur):
					img[vxWmTmp] = cur[:lens[n]]
					if lens[n] > 0 && lens[n] < len(cur) {
						vx.Cover("torn-temporary-file")
					}
				default:
					img[vxWmTmp] = cur
				}
			}
		}
	}
	fs2 := &vxWmFS{files: img, crashAt: -1}
	vxWm = fs2
	got, lerr := loadPruneWatermark("wal")
	vx.Assert(lerr == nil, "engine:restart-after-a-crash-during-the-watermark-write-does-not-fail")
	if lerr != nil {
		return
	}
	if !fs.dead {
		vx.Assert(uint64(got) == newH, "engine:completed-write-is-what-a-restart-reads")
	} else {
		vx.Assert(uint64(got) == newH || uint64(got) == oldH, "engine:restart-reads-the-old-or-the-new-watermark")
	}
}
