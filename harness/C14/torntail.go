//vx:pkg consensus/walstore
//vx:noreplay
//vx:include codec.go
package walstore

import (
	"errors"
	"io"
	"io/fs"
	"os"
	"time"

	"github.com/cockroachdb/pebble/v2/record"
	pebblewal "github.com/cockroachdb/pebble/v2/wal"

	"github.com/NethermindEth/juno/zzverif/vx"
)

// C14-H6 (engine only): a torn tail is cut off when the log is opened. After a crash the newest log file may
// end in a partially written record of any length (a few bytes of a chunk header up to most of a batch).
// Replay tolerates such a tail in memory, but it has to be removed from the file: the next successful flush
// rotates to a new file, the torn file stops being "the latest", and on the following start Pebble's reader
// treats a torn record in a non-latest file as corruption - the validator cannot start. recoverLatestWALTail
// runs from source against a model of Pebble's WAL reader (k valid records ending at offset S, then the
// terminal condition: clean end of file, or an invalid / torn record) and models of the file-system calls
// (os.Stat reporting S + tail bytes, the truncation recorded). Asserted: whenever the file is longer than
// the last valid record - by ANY number of bytes - it is truncated to exactly S, and a file that ends at S
// is left alone.

type vxWalReader struct {
	valid    int
	end      int64
	terminal error
	path     string
	reads    int
}

func (r *vxWalReader) NextRecord() (io.Reader, pebblewal.Offset, error) {
	r.reads++
	if r.reads <= r.valid {
		return nil, pebblewal.Offset{PhysicalFile: r.path, Physical: int64(r.reads-1) * 10}, nil
	}
	return nil, pebblewal.Offset{PhysicalFile: r.path, Physical: r.end}, r.terminal
}
func (r *vxWalReader) Close() error { return nil }

var vxTheReader *vxWalReader

func vxOpenForRead(pebblewal.LogicalLog) pebblewal.Reader { return vxTheReader }

type vxFileInfo struct{ size int64 }

func (f vxFileInfo) Name() string       { return "000001.log" }
func (f vxFileInfo) Size() int64        { return f.size }
func (f vxFileInfo) Mode() fs.FileMode  { return 0 }
func (f vxFileInfo) ModTime() time.Time { return time.Time{} }
func (f vxFileInfo) IsDir() bool        { return false }
func (f vxFileInfo) Sys() any           { return nil }

// Pebble's invalid-record errors (zeroed chunk, invalid chunk, unexpected EOF) are values of a package whose
// initialiser the engine does not execute; the classification function is replaced by a model over one
// stand-in error value.
var vxErrTorn = errors.New("model: invalid or torn record")

func vxIsInvalidRecord(err error) bool { return err == vxErrTorn }

var vxFileSize int64
var vxTruncatedTo []int64

var vxStatCalls int

func vxStat(string) (fs.FileInfo, error) { vxStatCalls++; return vxFileInfo{vxFileSize}, nil }

func vxRepairModel(_ string, syncedOffset int64) error {
	if syncedOffset > vxFileSize {
		syncedOffset = vxFileSize
	}
	vxTruncatedTo = append(vxTruncatedTo, syncedOffset)
	vxFileSize = syncedOffset
	return nil
}

func VxC14TornTailIsCutOffOnOpen() {
	vx.Bound("latest log file with 0..2 valid records ending at a symbolic offset S < 2^40, followed by a symbolic number of further bytes 0..2^20 (any torn-tail length); the reader ends with a clean end of file or with an invalid-record error (one stand-in value for zeroed chunk / invalid chunk / unexpected EOF, classified by a model of record.IsInvalidRecord); Pebble's reader and the file system replaced by models")
	vx.Stub("(github.com/cockroachdb/pebble/v2/wal.LogicalLog).OpenForRead", vxOpenForRead)
	vx.Stub("os.Stat", vxStat)
	vx.Stub("github.com/cockroachdb/pebble/v2/record.IsInvalidRecord", vxIsInvalidRecord)
	vx.Stub("github.com/NethermindEth/juno/consensus/walstore.repairWALTail", vxRepairModel)
	s := int64(vx.U64("end-of-last-valid-record"))
	tail := int64(vx.U64("bytes-after-it"))
	vx.Assume(s >= 0 && s < 1<<40 && tail >= 0 && tail <= 1<<20)
	var term error
	switch vx.Choice("reader-ends-with", 2) {
	case 0:
		term = io.EOF
		vx.Cover("clean-end-of-file")
	default:
		term = vxErrTorn
		vx.Cover("torn-record")
	}
	vxTheReader = &vxWalReader{valid: vx.Choice("valid-records", 3), end: s, terminal: term, path: "000001.log"}
	vxFileSize = s + tail
	vxTruncatedTo = nil
	err := recoverLatestWALTail(pebblewal.Logs{{Num: 1}})
	vx.Assert(err == nil, "engine:recovery-succeeds")
	if tail > 0 {
		vx.Cover("bytes-beyond-the-last-valid-record")
		vx.Assert(vxFileSize == s, "engine:file-ends-at-the-last-valid-record-after-recovery")
	} else {
		vx.Assert(vxFileSize == s, "engine:intact-file-keeps-its-length")
	}
	for _, t := range vxTruncatedTo {
		vx.Assert(t == s, "engine:truncation-only-at-the-last-valid-record")
	}
	_ = os.ErrNotExist
	_ = record.IsInvalidRecord
}
