//vx:pkg consensus/walstore
package walstore

import (
	"bytes"

	"github.com/NethermindEth/juno/consensus/types"
	"github.com/NethermindEth/juno/consensus/types/wal"
	"github.com/cockroachdb/pebble/v2"
	"github.com/cockroachdb/pebble/v2/batchrepr"
	pebblewal "github.com/cockroachdb/pebble/v2/wal"

	"github.com/NethermindEth/juno/zzverif/vx"
)

// Instantiation used by the harnesses: plain limb containers.
type (
	vxH [4]uint64
	vxA [4]uint64
	vxV [4]uint64
)

func (v vxV) Hash() vxH { return vxH(v) }

type vxEnv = walRecordEnvelope[vxV, vxH, vxA]

// engine-only replacement of the two reflect helpers by their obvious array copy (listed stub)
func vxValueToArr(v *vxV) ([4]uint64, error) { return [4]uint64(*v), nil }
func vxArrToValue(a [4]uint64) (vxV, error)  { return vxV(a), nil }

func vxStubReflect() {
	vx.Stub("github.com/NethermindEth/juno/consensus/walstore.valueToUint64Array", vxValueToArr)
	vx.Stub("github.com/NethermindEth/juno/consensus/walstore.uint64ArrayToValue", vxArrToValue)
}

func vxLimbs(tag string) [4]uint64 {
	return [4]uint64{vx.U64(tag + "0"), vx.U64(tag + "1"), vx.U64(tag + "2"), vx.U64(tag + "3")}
}

func vxHeaderIn(tag string) types.MessageHeader[vxA] {
	return types.MessageHeader[vxA]{Height: types.Height(vx.U64(tag + "h")), Round: types.Round(vx.I64(tag + "r")), Sender: vxA(vxLimbs(tag + "s"))}
}

// vxRecord returns an arbitrary record of the chosen kind.
func vxRecord(tag string) vxEnv {
	switch vx.Choice(tag+"kind", 8) {
	case 0:
		vx.Cover("start")
		return vxEnv{Kind: walRecordEntry, EntryKind: walEntryStart, StartHeight: types.Height(vx.U64(tag + "start"))}
	case 1:
		vx.Cover("proposal-with-value")
		v := vxV(vxLimbs(tag + "v"))
		p := wal.Proposal[vxV, vxH, vxA]{MessageHeader: vxHeaderIn(tag), ValidRound: types.Round(vx.I64(tag + "vr")), Value: &v}
		return vxEnv{Kind: walRecordEntry, EntryKind: walEntryProposal, ProposalEntry: &p}
	case 2:
		vx.Cover("proposal-nil-value")
		p := wal.Proposal[vxV, vxH, vxA]{MessageHeader: vxHeaderIn(tag), ValidRound: types.Round(vx.I64(tag + "vr"))}
		return vxEnv{Kind: walRecordEntry, EntryKind: walEntryProposal, ProposalEntry: &p}
	case 3:
		vx.Cover("prevote-with-id")
		id := vxH(vxLimbs(tag + "id"))
		pv := wal.Prevote[vxH, vxA]{MessageHeader: vxHeaderIn(tag), ID: &id}
		return vxEnv{Kind: walRecordEntry, EntryKind: walEntryPrevote, PrevoteEntry: &pv}
	case 4:
		vx.Cover("prevote-nil")
		pv := wal.Prevote[vxH, vxA]{MessageHeader: vxHeaderIn(tag)}
		return vxEnv{Kind: walRecordEntry, EntryKind: walEntryPrevote, PrevoteEntry: &pv}
	case 5:
		vx.Cover("precommit")
		id := vxH(vxLimbs(tag + "id"))
		pc := wal.Precommit[vxH, vxA]{MessageHeader: vxHeaderIn(tag), ID: &id}
		return vxEnv{Kind: walRecordEntry, EntryKind: walEntryPrecommit, PrecommitEntry: &pc}
	case 6:
		vx.Cover("timeout")
		t := wal.Timeout(types.Timeout{Step: types.Step(vx.U8(tag + "step")), Height: types.Height(vx.U64(tag + "h")), Round: types.Round(vx.I64(tag + "r"))})
		return vxEnv{Kind: walRecordEntry, EntryKind: walEntryTimeout, TimeoutEntry: &t}
	}
	vx.Cover("prune")
	return vxEnv{Kind: walRecordPruneUpToHeight, Height: types.Height(vx.U64(tag + "prune"))}
}

func vxVoteEq(a, b *types.Vote[vxH, vxA]) bool {
	if a.MessageHeader != b.MessageHeader || (a.ID == nil) != (b.ID == nil) {
		return false
	}
	return a.ID == nil || *a.ID == *b.ID
}

func vxRecordEq(a, b *vxEnv) bool {
	if a.Kind != b.Kind || a.EntryKind != b.EntryKind || a.StartHeight != b.StartHeight || a.Height != b.Height {
		return false
	}
	if (a.ProposalEntry == nil) != (b.ProposalEntry == nil) || (a.PrevoteEntry == nil) != (b.PrevoteEntry == nil) ||
		(a.PrecommitEntry == nil) != (b.PrecommitEntry == nil) || (a.TimeoutEntry == nil) != (b.TimeoutEntry == nil) {
		return false
	}
	if a.ProposalEntry != nil {
		p, q := a.ProposalEntry, b.ProposalEntry
		if p.MessageHeader != q.MessageHeader || p.ValidRound != q.ValidRound || (p.Value == nil) != (q.Value == nil) {
			return false
		}
		if p.Value != nil && *p.Value != *q.Value {
			return false
		}
	}
	if a.PrevoteEntry != nil && !vxVoteEq((*types.Vote[vxH, vxA])(a.PrevoteEntry), (*types.Vote[vxH, vxA])(b.PrevoteEntry)) {
		return false
	}
	if a.PrecommitEntry != nil && !vxVoteEq((*types.Vote[vxH, vxA])(a.PrecommitEntry), (*types.Vote[vxH, vxA])(b.PrecommitEntry)) {
		return false
	}
	if a.TimeoutEntry != nil {
		x, y := a.TimeoutEntry, b.TimeoutEntry
		if x.Step != y.Step || x.Height != y.Height || x.Round != y.Round {
			return false
		}
	}
	return true
}

// C14-H1a: encodeBatch -> batchrepr.ReadHeader/Read (Pebble's own reader) -> decodeWALRecord is the
// identity on batches of 1..2 arbitrary records of every kind; header carries sequence and count.
func VxC14CodecRoundTrip() {
	vx.Bound("batches of 1..2 records, every record kind, nil / non-nil id and value, all fields 64-bit symbolic")
	vxStubReflect()
	n := 1 + vx.Choice("n", 2)
	recs := make([]vxEnv, n)
	for i := range recs {
		tag := "r0."
		if i == 1 {
			tag = "r1."
		}
		recs[i] = vxRecord(tag)
	}
	seq := vx.U64("seq")
	var scratch []byte
	if vx.Choice("scratch", 2) == 1 {
		scratch = make([]byte, 3, 400) // a reused, dirty buffer
		scratch[0], scratch[1], scratch[2] = 0xaa, 0xbb, 0xcc
	}
	enc, err := encodeBatch(recs, seq, scratch)
	vx.Assert(err == nil, "encode-no-error")
	hdr, ok := batchrepr.ReadHeader(enc)
	vx.Assert(ok && uint64(hdr.SeqNum) == seq && int(hdr.Count) == n, "header-seq-and-count")
	rd := batchrepr.Read(enc)
	for i := 0; i < n; i++ {
		kind, key, value, ok, rerr := rd.Next()
		vx.Assert(rerr == nil && ok && kind == pebble.InternalKeyKindSet && len(key) == 4, "pebble-reader-accepts-entry")
		dec, derr := decodeWALRecord[vxV, vxH, vxA](value)
		vx.Assert(derr == nil, "decode-own-encoding")
		vx.Assert(vxRecordEq(&dec, &recs[i]), "decode-is-inverse-of-encode")
	}
	_, _, _, ok, rerr := rd.Next()
	vx.Assert(!ok && rerr == nil, "no-trailing-entries")
}

// C14-H1b: decodeWALRecord on arbitrary bytes never panics; whatever it accepts re-encodes to
// exactly the bytes it was given (so no trailing or ignored bytes, presence bytes are 0/1).
func VxC14DecodeArbitrary() {
	vx.Bound("arbitrary payloads of every length 0..100, all bytes symbolic")
	vxStubReflect()
	n := vx.Choice("n", 101)
	data := vx.Bytes("data", n)
	rec, err := decodeWALRecord[vxV, vxH, vxA](data)
	if err != nil {
		vx.Cover("rejected")
		return
	}
	vx.Cover("accepted")
	out, eerr := appendWALRecordPayload(nil, &rec)
	vx.Assert(eerr == nil, "accepted-record-re-encodes")
	vx.Assert(bytes.Equal(out, data), "accepted-bytes-are-canonical")
}

// putFixedUvarint32 decodes (with Pebble's varint reader) to the same value.
func VxC14FixedUvarint() {
	vx.Bound("all 32-bit values; 0..3 payload bytes following")
	v := vx.U32("v")
	k := vx.Choice("extra", 4)
	buf := make([]byte, valueLenBytes+k)
	putFixedUvarint32(buf[:valueLenBytes], v)
	if uint64(v) > uint64(k) {
		// DecodeStr requires the announced length to be available
		rest, s, ok := batchrepr.DecodeStr(buf)
		vx.Assert(!ok && rest == nil && s == nil, "short-input-rejected")
		return
	}
	rest, s, ok := batchrepr.DecodeStr(buf)
	vx.Assert(ok && len(s) == int(v) && len(rest) == k-int(v), "fixed-uvarint-decodes-to-value")
}

// ---------------------------------------------------------------------------------------------
// C14-H2: index semantics. A sequence of committed records (entries at symbolic heights, prunes up
// to symbolic heights) across up to 2 WAL files, on top of a symbolic prune watermark W.
// LoadAllEntries must yield exactly the entries whose height is above every prune that was
// committed after them (and above W), grouped by ascending height, original order inside a
// height; live application and replay after reopen must agree; per-file reference counts equal
// the number of live heights that reference the file.

func vxNewStore(w types.Height) *tendermintWALStore[vxV, vxH, vxA] {
	return &tendermintWALStore[vxV, vxH, vxA]{
		nextBatchSeqNum:  initialSeqNum,
		entriesByHeight:  make(map[types.Height][]wal.Entry[vxV, vxH, vxA]),
		walFilesByHeight: make(map[types.Height]walNumSet),
		walHeightRefs:    make(map[pebblewal.NumWAL]int),
		prunedUpToHeight: w,
	}
}

type vxOp struct {
	prune  bool
	height types.Height
	file   pebblewal.NumWAL
	rec    vxEnv
	alive  uint64 // 0/1, kept as a number so that the specification does not fork paths
}

// The thorough tier (permuted map orders) needs more than the default 900 s budget on a loaded machine.
//vx:max-seconds 2700
func VxC14IndexSemantics() {
	steps := 3
	if vx.Thorough() {
		// 3 records with every map iteration order exceed the path budget (200000): the thorough tier
		// explores 3 records in insertion order and, separately, 2 records under every map order
		vx.Bound("<= 3 committed records (entry | prune) with 64-bit symbolic heights over 2 WAL files, symbolic watermark; and <= 2 records with map iteration orders permuted")
		if vx.Choice("variant", 2) == 1 {
			steps = 2
			vx.MapOrders(true)
		}
	} else {
		vx.Bound("<= 3 committed records (entry | prune) with 64-bit symbolic heights over 2 WAL files, symbolic watermark")
	}
	vxStubReflect()
	w := types.Height(vx.U64("W"))
	live := vxNewStore(w)
	replay := vxNewStore(w)
	ops := make([]vxOp, 0, steps)
	file := pebblewal.NumWAL(1)
	pruned := w
	for i := 0; i < steps; i++ {
		if file == 1 && vx.Choice("rotate", 2) == 1 {
			file = 2
			vx.Cover("second-file")
		}
		var op vxOp
		op.file = file
		if vx.Choice("op", 2) == 0 {
			op.height = types.Height(vx.U64("h"))
			op.rec = vxEnv{Kind: walRecordEntry, EntryKind: walEntryStart, StartHeight: op.height}
			op.alive = vx.B2U(op.height > pruned)
			vx.Cover("entry")
		} else {
			op.prune = true
			op.height = types.Height(vx.U64("p"))
			op.rec = vxEnv{Kind: walRecordPruneUpToHeight, Height: op.height}
			pruned = max(pruned, op.height)
			for j := range ops {
				if !ops[j].prune {
					ops[j].alive &= vx.B2U(ops[j].height > op.height)
				}
			}
			vx.Cover("prune")
		}
		ops = append(ops, op)
		// live path: one flushed batch per record
		live.updateIndexesFromCommittedRecords(op.file, []vxEnv{op.rec})
		// replay path: the encoded record as read back from the file
		payload, err := appendWALRecordPayload(nil, &op.rec)
		vx.Assert(err == nil, "record-encodes")
		vx.Assert(replay.applyEncodedRecord(op.file, payload) == nil, "replay-accepts-record")
	}
	var wantCount uint64
	for _, op := range ops {
		if !op.prune {
			wantCount += op.alive
		}
	}
	for _, s := range []*tendermintWALStore[vxV, vxH, vxA]{live, replay} {
		var got []types.Height
		for e, err := range s.LoadAllEntries() {
			vx.Assert(err == nil, "load-no-error")
			got = append(got, e.GetHeight())
		}
		vx.Assert(uint64(len(got)) == wantCount, "exactly-the-unpruned-entries")
		for i := 1; i < len(got); i++ {
			vx.Assert(got[i-1] <= got[i], "entries-ascending-by-height")
		}
		// multiset equality: every height occurs as often as it is alive in the specification
		for _, op := range ops {
			if op.prune {
				continue
			}
			var inGot, inSpec uint64
			for _, g := range got {
				inGot += vx.B2U(g == op.height)
			}
			for _, o2 := range ops {
				if !o2.prune {
					inSpec += o2.alive & vx.B2U(o2.height == op.height)
				}
			}
			vx.Assert(op.alive == 0 || inGot == inSpec, "alive-entry-present-with-multiplicity")
			vx.Assert(op.alive == 1 || inGot == inSpec, "pruned-entry-absent")
		}
		vx.Assert(s.prunedUpToHeight == pruned, "watermark-is-max-prune")
		for _, f := range []pebblewal.NumWAL{1, 2} {
			cnt := 0
			for _, set := range s.walFilesByHeight {
				set.rangeOver(func(n pebblewal.NumWAL) {
					if n == f {
						cnt++
					}
				})
			}
			vx.Assert(s.walHeightRefs[f] == cnt, "file-refcount-equals-live-heights")
			var need uint64
			for _, op := range ops {
				if !op.prune && op.file == f {
					need |= op.alive
				}
			}
			vx.Assert(need == 0 || s.walHeightRefs[f] > 0, "file-with-live-entry-is-referenced")
		}
	}
}

// C14-H4: SetWALEntry / DeleteWALEntries coalescing: at most one pending prune record whose height
// is the maximum requested; entries at or below the watermark are dropped; nothing is visible
// before a flush.
func VxC14PendingCoalescing() {
	vx.Bound("<= 3 calls from {SetWALEntry(start h), DeleteWALEntries(h)}, heights and watermark 64-bit symbolic")
	w := types.Height(vx.U64("W"))
	s := vxNewStore(w)
	var maxPrune types.Height
	prunes, entries := 0, 0
	for i := 0; i < 3; i++ {
		if vx.Choice("op", 2) == 0 {
			h := types.Height(vx.U64("h"))
			st := wal.Start(h)
			vx.Assert(s.SetWALEntry(&st) == nil, "set-no-error")
			if h > w {
				entries++
			}
		} else {
			h := types.Height(vx.U64("p"))
			vx.Assert(s.DeleteWALEntries(h) == nil, "delete-no-error")
			if h > w {
				prunes++
				if h > maxPrune {
					maxPrune = h
				}
			}
		}
	}
	np, ne := 0, 0
	for _, r := range s.pendingRecords {
		if r.Kind == walRecordPruneUpToHeight {
			np++
			vx.Assert(r.Height == maxPrune, "pending-prune-is-max-requested")
		} else {
			ne++
		}
	}
	if prunes > 0 {
		vx.Cover("has-prune")
	}
	vx.Assert((np == 1) == (prunes > 0) && np <= 1, "at-most-one-pending-prune")
	vx.Assert(ne == entries, "entries-above-watermark-buffered")
	cnt := 0
	for range s.LoadAllEntries() {
		cnt++
	}
	vx.Assert(cnt == 0, "nothing-visible-before-flush")
}
