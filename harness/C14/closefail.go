//vx:pkg consensus/walstore
//vx:noreplay
//vx:include codec.go
package walstore

import (
	"errors"

	"github.com/cockroachdb/pebble/v2/record"
	pebblewal "github.com/cockroachdb/pebble/v2/wal"

	"github.com/NethermindEth/juno/zzverif/vx"
)

// C14-H7 (engine only): closing a log file that cannot be closed cleanly. Pebble appends an end-of-file trailer
// when a WAL writer is closed; if that write fails half-way (rotation at a cleanup, shutdown), the file ends in a
// torn trailer after the last synced record. The next successful flush opens a new file, the damaged one stops
// being the latest, and on restart a torn record in a non-latest file is corruption: the validator cannot
// start. closeAndRepairCurrent therefore cuts the file back to the last synced offset whenever the close fails
// (and always after an aborted append). rotateAfterSynced / close / abortUncommitted run from source over a
// model writer whose Close succeeds or fails, with the truncation recorded, the synced offset symbolic:
// a failed close or an abort is followed by a truncation to exactly the synced offset; if the truncation fails
// too the writer refuses to open a new file; a clean close of a synced file is left alone.

type vxClosingWriter struct {
	closeFails bool
	closed     int
}

func (w *vxClosingWriter) WriteRecord([]byte, pebblewal.SyncOptions, pebblewal.RefCount) (int64, error) {
	return 0, errors.New("unused")
}
func (w *vxClosingWriter) Close() (int64, error) {
	w.closed++
	if w.closeFails {
		return 0, errors.New("close: write of the end-of-file trailer failed")
	}
	return 0, nil
}
func (w *vxClosingWriter) Metrics() record.LogWriterMetrics { return record.LogWriterMetrics{} }

var vxRepairs []int64
var vxRepairFails bool

func vxRepairRecorder(_ string, off int64) error {
	vxRepairs = append(vxRepairs, off)
	if vxRepairFails {
		return errors.New("truncate failed")
	}
	return nil
}

// the path of the damaged file is irrelevant to the models (string building is not executed by the engine)
func vxJoinModel(...string) string { return "wal/000001.log" }

func VxC14FailedCloseIsRepaired() {
	vx.Bound("one open log file with a symbolic synced offset; operation rotateAfterSynced | close | abortUncommitted; the writer's Close succeeds or fails; the truncation succeeds or fails; file-system effects replaced by recording models")
	vx.Stub("github.com/NethermindEth/juno/consensus/walstore.repairWALTail", vxRepairRecorder)
	vx.Stub("path/filepath.Join", vxJoinModel)
	vxRepairs = nil
	vxRepairFails = vx.Bool("truncation-fails")
	mw := &vxClosingWriter{closeFails: vx.Bool("close-fails")}
	synced := int64(vx.U64("synced-offset"))
	vx.Assume(synced >= 0)
	w := newWALWriter(nil, "wal", 2)
	w.writer, w.currentWALNum, w.currentWALSyncedOffset = mw, 1, synced
	op := vx.Choice("operation", 3)
	var err error
	switch op {
	case 0:
		err = w.rotateAfterSynced()
	case 1:
		err = w.close()
	default:
		err = w.abortUncommitted()
	}
	vx.Assert(mw.closed == 1 && w.writer == nil, "engine:writer-closed-once-and-dropped")
	mustRepair := mw.closeFails || op == 2
	if mustRepair {
		vx.Cover("close-failed-or-append-aborted")
		vx.Assert(len(vxRepairs) == 1 && vxRepairs[0] == synced, "engine:file-cut-back-to-the-last-synced-offset")
		if mw.closeFails {
			vx.Assert(err != nil, "engine:failed-close-is-reported")
		}
		if vxRepairFails {
			vx.Cover("truncation-failed-too")
			vx.Assert(err != nil && w.repairRequired, "engine:failed-repair-is-remembered")
			_, _, cerr := w.ensureWriter()
			vx.Assert(cerr != nil, "engine:no-new-log-file-while-the-damaged-one-is-unrepaired")
		} else {
			vx.Assert(!w.repairRequired, "engine:repaired-writer-is-usable")
		}
	} else {
		vx.Cover("clean-close-of-a-synced-file")
		vx.Assert(len(vxRepairs) == 0 && err == nil && !w.repairRequired, "engine:clean-close-leaves-the-file-alone")
	}
}
