//vx:pkg pruner
package pruner

import (
	"errors"

	"github.com/NethermindEth/juno/core"
	"github.com/NethermindEth/juno/core/felt"
	"github.com/NethermindEth/juno/db"
	"github.com/NethermindEth/juno/db/memory"
	"github.com/NethermindEth/juno/zzverif/vx"
)

// C03-H5: the retention gate in front of historical reads. "A request for a block whose state has been pruned
// is answered not-found, never with another block's state": on a pruning node state at block n is queryable
// exactly when floor <= n <= height. Chain of 4 stored blocks (headers of pruned blocks may linger in the lag
// window, so header existence alone must not decide), retention floor symbolic (seeded) or never seeded
// (non-pruning node: everything stored is retained), queried number 64-bit symbolic.
func VxC03RetentionGate() {
	vx.Bound("chain of 4 stored blocks (0..3); retention floor seeded with a symbolic 64-bit value raised in 1..2 steps, or never seeded; queried block number 64-bit symbolic")
	d := memory.New()
	const height = 3
	roots := make([]*felt.Felt, height+1)
	for b := uint64(0); b <= height; b++ {
		roots[b] = felt.NewFromUint64[felt.Felt](700 + b)
		h := &core.Header{Number: b, Hash: felt.NewFromUint64[felt.Felt](500 + b), GlobalStateRoot: roots[b]}
		if core.WriteBlockHeader(d, h) != nil {
			vx.Assume(false)
		}
	}
	if core.WriteChainHeight(d, height) != nil {
		vx.Assume(false)
	}
	fl := &RetentionFloor{}
	seeded := vx.Choice("floor-seeded", 2) == 1
	f := uint64(0)
	if seeded {
		f = vx.U64("floor")
		vx.Assume(f < 1<<63)
		first := vx.U64("floor-first-step")
		vx.Assume(first <= f)
		fl.raiseTo(first)
		fl.raiseTo(f)
		fl.raiseTo(first) // a lower value never lowers the floor
		got, ok := fl.floor()
		vx.Assert(ok && got == f, "floor-is-the-highest-value-it-was-raised-to")
	}
	n := vx.U64("queried")
	retained := n <= height && (!seeded || n >= f)
	err := RequireStateRetainedByBlockNumber(d, fl, n)
	root, rerr := StateRootIfStateRetainedByBlockNumber(d, fl, n)
	if retained {
		vx.Cover("state-retained")
		vx.Assert(err == nil, "retained-state-is-admitted")
		vx.Assert(rerr == nil && root != nil && root.Equal(roots[n%4]), "state-root-is-that-of-the-queried-block")
	} else {
		if seeded && n < f && n <= height {
			vx.Cover("below-the-floor-although-the-header-lingers")
		}
		vx.Assert(errors.Is(err, db.ErrKeyNotFound), "pruned-or-unknown-block-is-not-found")
		vx.Assert(errors.Is(rerr, db.ErrKeyNotFound), "no-state-root-for-a-pruned-or-unknown-block")
	}
}
