//vx:pkg core/state
//vx:include newstate.go
package state

import (
	"errors"

	"github.com/NethermindEth/juno/core/felt"
	"github.com/NethermindEth/juno/core/trie2/triedb"
	"github.com/NethermindEth/juno/db"
	"github.com/NethermindEth/juno/db/memory"
	"github.com/NethermindEth/juno/zzverif/vx"
)

// C03-H3 (new backend): the historical view of a contract that did not exist yet. A contract deployed at
// block d has a record (class hash, nonce, deployment height) and history entries from d on; a read through
// the state view at block n must answer "contract not found" for n < d and the value as of block n otherwise
// - never a value of the contract's later life, and never "not found" for a block at which it existed.
// Deployment height, the heights of 1..2 later nonce / class-hash / storage writes and the queried height
// are 64-bit symbolic; all three read kinds go through the stateHistory wrapper.
func VxC03ViewBeforeDeployment() {
	vx.Bound("one contract deployed at a symbolic 64-bit height d with a symbolic class hash (nonce 0), 1..2 later writes (storage slot | nonce | class replacement) at symbolic heights > d; queried height symbolic; stateHistory wrapper of the new backend")
	d := memory.New()
	addr := felt.NewFromUint64[felt.Felt](0x1000)
	slot := felt.NewFromUint64[felt.Felt](0x20)
	dep := vx.U64("deployed-at")
	class0 := vxFeltIn("class")
	vx.Assume(!class0.IsZero())
	kind := vx.Choice("kind", 3)
	// what the deployment block itself logs
	vx.Assert(WriteClassHashHistory(d, addr, dep, class0) == nil && WriteNonceHistory(d, addr, dep, &felt.Zero) == nil, "setup")
	var hs []uint64
	var vs []*felt.Felt
	last := dep
	n := 1 + vx.Choice("later-writes", 2)
	for i := 0; i < n; i++ {
		b := vx.U64("b")
		vx.Assume(b > last)
		last = b
		v := vxFeltIn("v")
		var err error
		switch kind {
		case 0:
			err = WriteStorageHistory(d, addr, slot, b, v)
		case 1:
			err = WriteNonceHistory(d, addr, b, v)
		default:
			err = WriteClassHashHistory(d, addr, b, v)
		}
		vx.Assert(err == nil, "setup")
		hs, vs = append(hs, b), append(vs, v)
	}
	// head record: the values after the last write
	headNonce, headClass := felt.Zero, *class0
	if kind == 1 {
		headNonce = *vs[len(vs)-1]
	}
	if kind == 2 {
		headClass = *vs[len(vs)-1]
	}
	vx.Assert(WriteContract(d, addr, headNonce, headClass, dep) == nil, "setup")

	q := vx.U64("queried")
	h, herr := NewStateHistory(q, &felt.Zero, NewStateDB(d, triedb.New(d, nil)))
	vx.Assert(herr == nil, "history-view-opens")
	var got felt.Felt
	var err error
	switch kind {
	case 0:
		got, err = h.ContractStorage(addr, slot)
	case 1:
		got, err = h.ContractNonce(addr)
	default:
		got, err = h.ContractClassHash(addr)
	}
	if q < dep {
		vx.Cover("queried-before-deployment")
		vx.Assert(errors.Is(err, db.ErrKeyNotFound), "contract-not-found-before-its-deployment")
		return
	}
	vx.Cover("queried-at-or-after-deployment")
	vx.Assert(err == nil, "contract-found-from-its-deployment-on")
	if err != nil {
		return
	}
	// value as of block q: the last later write at or below q, else the deployment value
	want := felt.Zero
	if kind == 2 {
		want = *class0
	}
	for i, b := range hs {
		if b <= q {
			want = *vs[i]
		}
	}
	if q == dep {
		vx.Cover("queried-at-the-deployment-block")
	}
	vx.Assert(got.Equal(&want), "value-is-that-of-the-queried-block")
}
