//vx:pkg core/deprecatedstate
//vx:include ../C04/legacy.go
package deprecatedstate

// C03-H4 (legacy backend): historical reads after a reorg. The legacy backend answers a read at block n from
// the first history entry strictly above n, so an entry that a reverted block leaves behind - e.g. the old value
// it logged when it cleared a slot - keeps answering for every lower block, also on the replacement chain.
// "Reverting a block removes exactly the history entries it wrote" is asserted by C04-H1
// (harness/C04/legacy.go: block 1 an arbitrary diff over one contract - writes to a written and to a
// never-written slot, zero and unchanged values included - then Revert; every keyed record restored, none left).
func VxC03LegacyRevertLeavesNoHistoryBehind() {
	VxC04LegacyUpdateRevert()
}
