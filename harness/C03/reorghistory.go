//vx:pkg core/state
//vx:include newstate.go
package state

import (
	"errors"

	"github.com/NethermindEth/juno/core"
	"github.com/NethermindEth/juno/core/felt"
	"github.com/NethermindEth/juno/core/trie2/triedb"
	"github.com/NethermindEth/juno/db"
	"github.com/NethermindEth/juno/db/memory"
	"github.com/NethermindEth/juno/zzverif/vx"
)

// C03-H6 (new backend, one running node across a reorg): "a historical read answers with the state as of
// the requested block OF THE CHAIN THE NODE HOLDS NOW". On one StateDB (the object a running node keeps -
// with whatever it caches) fork A brings a contract into existence at height hA - an ordinary deployment,
// or the first write to a system contract (0x1/0x2 are created implicitly and purged implicitly when a
// revert empties them) -, historical reads are served while fork A is the chain, fork A is reverted, and
// fork B brings the same contract into existence at another height hB. Historical reads through the
// history view must then follow fork B: not found below hB, the fork-B values from hB on.
func vxApplyOn(sdb *StateDB, d *memory.Database, root *felt.Felt, num uint64, diff *core.StateDiff) felt.Felt {
	batch := d.NewBatch()
	st, err := New(root, sdb, batch)
	vx.Assert(err == nil, "state-opens")
	su := &core.StateUpdate{OldRoot: root, StateDiff: diff}
	vx.Assert(st.Update(&core.Header{Number: num}, su, nil, true) == nil, "block-stores")
	vx.Assert(batch.Write() == nil, "commit")
	r, err := st.Commitment("")
	vx.Assert(err == nil, "commitment-readable")
	return r
}

func vxRevertOn(sdb *StateDB, d *memory.Database, root, old *felt.Felt, num uint64, diff *core.StateDiff) {
	batch := d.NewBatch()
	st, err := New(root, sdb, batch)
	vx.Assert(err == nil, "state-opens")
	vx.Assert(st.Revert(&core.Header{Number: num}, &core.StateUpdate{OldRoot: old, NewRoot: root, StateDiff: diff}) == nil, "revert-ok")
	vx.Assert(batch.Write() == nil, "commit")
}

func VxC03HistoryFollowsTheForkHeldNow() {
	vx.Bound("new backend, one StateDB; block 0 deploys contract A; fork A: blocks 1,2 - the subject (an ordinary contract deployed with a storage slot | system contract 0x1 first written) appears at height 1 or 2; historical reads of the subject at heights 1 and 2 (optional); both blocks reverted; fork B: blocks 1',2' - the subject appears at the other height with another value; historical reads at heights 1 and 2")
	vx.CollisionFree()
	d := memory.New()
	sdb := NewStateDB(d, triedb.New(d, nil))
	a := felt.NewFromUint64[felt.Felt](0x1000)
	slot := felt.NewFromUint64[felt.Felt](0x20)
	system := vx.Choice("subject-is-system-contract", 2) == 1
	subj := felt.NewFromUint64[felt.Felt](0x2000)
	if system {
		subj = felt.NewFromUint64[felt.Felt](1)
		vx.Cover("subject-is-a-system-contract")
	}
	d0 := core.EmptyStateDiff()
	d0.DeployedContracts[*a] = felt.NewFromUint64[felt.Felt](0xC1)
	r0 := vxApplyOn(sdb, d, &felt.Zero, 0, &d0)

	vA, vB := vxFeltIn("valueOnForkA"), vxFeltIn("valueOnForkB")
	vx.Assume(!vA.IsZero() && !vB.IsZero())
	appear := func(v *felt.Felt) core.StateDiff {
		df := core.EmptyStateDiff()
		if !system {
			df.DeployedContracts[*subj] = felt.NewFromUint64[felt.Felt](0xC2)
		}
		df.StorageDiffs[*subj] = map[felt.Felt]*felt.Felt{*slot: v}
		return df
	}
	filler := func(n uint64) core.StateDiff {
		df := core.EmptyStateDiff()
		df.Nonces[*a] = felt.NewFromUint64[felt.Felt](n)
		return df
	}
	hA := uint64(1 + vx.Choice("appears-on-fork-A-at", 2))
	hB := 3 - hA
	read := func(root *felt.Felt, q uint64) (felt.Felt, error) {
		h, err := NewStateHistory(q, root, sdb)
		vx.Assert(err == nil, "history-view-opens")
		return h.ContractStorage(subj, slot)
	}
	// fork A
	var dA [3]core.StateDiff
	var rA [3]felt.Felt
	rA[0] = r0
	for n := uint64(1); n <= 2; n++ {
		if n == hA {
			dA[n] = appear(vA)
		} else {
			dA[n] = filler(10 + n)
		}
		rA[n] = vxApplyOn(sdb, d, &rA[n-1], n, &dA[n])
	}
	if vx.Choice("reads-while-fork-A-is-the-chain", 2) == 1 {
		vx.Cover("history-read-before-the-reorg")
		for q := uint64(1); q <= 2; q++ {
			got, err := read(&rA[2], q)
			if q < hA {
				vx.Assert(errors.Is(err, db.ErrKeyNotFound), "contract-not-found-before-it-appears")
			} else {
				vx.Assert(err == nil && got.Equal(vA), "value-is-that-of-the-queried-block")
			}
		}
	}
	vxRevertOn(sdb, d, &rA[2], &rA[1], 2, &dA[2])
	vxRevertOn(sdb, d, &rA[1], &rA[0], 1, &dA[1])
	// fork B
	var rB [3]felt.Felt
	rB[0] = r0
	for n := uint64(1); n <= 2; n++ {
		var df core.StateDiff
		if n == hB {
			df = appear(vB)
		} else {
			df = filler(20 + n)
		}
		rB[n] = vxApplyOn(sdb, d, &rB[n-1], n, &df)
	}
	for q := uint64(1); q <= 2; q++ {
		got, err := read(&rB[2], q)
		if q < hB {
			vx.Cover("queried-below-the-height-it-appears-at-on-the-new-fork")
			vx.Assert(errors.Is(err, db.ErrKeyNotFound), "history-follows-the-new-fork-not-found-below-its-appearance")
		} else {
			vx.Assert(err == nil && got.Equal(vB), "history-follows-the-new-fork-value-from-its-appearance-on")
		}
	}
}

// C03-H7 (new backend, head reads after a contract's storage became EMPTY): "a read of the head state
// answers the value after applying all stored blocks". The head read of the new backend fetches the leaf by
// its path straight from the node store, so it depends on removed leaves really being removed. A contract
// that stays deployed has all its storage emptied - by a block that writes its only slot(s) back to zero, or
// by a revert of the block that gave it its first slot(s) -; the head read of every such slot is zero,
// agrees with the history view of the head block, and the commitment is that of a node that never held the
// values.
func VxC03HeadReadAfterStorageBecameEmpty() {
	vx.Bound("new backend; block 0 deploys contract A (optionally with one other contract holding storage); block 1 writes 1..2 slots of A (symbolic non-zero values); then block 2 writes them all back to zero, or block 1 is reverted; head reads and history reads of the slots")
	vx.CollisionFree()
	d := memory.New()
	sdb := NewStateDB(d, triedb.New(d, nil))
	a := felt.NewFromUint64[felt.Felt](0x1000)
	other := felt.NewFromUint64[felt.Felt](0x3000)
	slots := []*felt.Felt{felt.NewFromUint64[felt.Felt](0x20), felt.NewFromUint64[felt.Felt](0x21)}
	d0 := core.EmptyStateDiff()
	d0.DeployedContracts[*a] = felt.NewFromUint64[felt.Felt](0xC1)
	if vx.Bool("another-contract-holds-storage") {
		d0.DeployedContracts[*other] = felt.NewFromUint64[felt.Felt](0xC3)
		d0.StorageDiffs[*other] = map[felt.Felt]*felt.Felt{*slots[0]: felt.NewFromUint64[felt.Felt](9)}
	}
	r0 := vxApplyOn(sdb, d, &felt.Zero, 0, &d0)
	n := 1 + vx.Choice("slots-written", 2)
	d1 := core.EmptyStateDiff()
	d1.StorageDiffs[*a] = map[felt.Felt]*felt.Felt{}
	for i := 0; i < n; i++ {
		v := vxFeltIn("value")
		vx.Assume(!v.IsZero())
		d1.StorageDiffs[*a][*slots[i]] = v
	}
	r1 := vxApplyOn(sdb, d, &r0, 1, &d1)
	head, headNum := r1, uint64(1)
	if vx.Choice("emptied-by", 2) == 0 {
		d2 := core.EmptyStateDiff()
		d2.StorageDiffs[*a] = map[felt.Felt]*felt.Felt{}
		for i := 0; i < n; i++ {
			d2.StorageDiffs[*a][*slots[i]] = new(felt.Felt)
		}
		head, headNum = vxApplyOn(sdb, d, &r1, 2, &d2), 2
		vx.Cover("emptied-by-a-block-writing-zero")
		// the commitment does not remember the values: it is block 0's commitment with A's nonce/class unchanged
		vx.Assert(head.Equal(&r0), "commitment-is-that-of-the-state-without-the-values")
	} else {
		vxRevertOn(sdb, d, &r1, &r0, 1, &d1)
		head, headNum = r0, 0
		vx.Cover("emptied-by-a-revert")
	}
	sr, err := NewStateReader(&head, sdb)
	vx.Assert(err == nil, "reader-opens")
	hv, herr := NewStateHistory(headNum, &head, sdb)
	vx.Assert(herr == nil, "history-view-opens")
	for i := 0; i < n; i++ {
		got, e := sr.ContractStorage(a, slots[i])
		vx.Assert(e == nil && got.IsZero(), "head-read-of-an-emptied-slot-is-zero")
		if headNum > 0 {
			hg, he := hv.ContractStorage(a, slots[i])
			vx.Assert(he == nil && hg.Equal(&got), "head-read-agrees-with-the-history-view-of-the-head-block")
		}
	}
}
