//vx:pkg core/state
//vx:include newstate.go
package state

import (
	"errors"

	"github.com/NethermindEth/juno/core"
	"github.com/NethermindEth/juno/core/felt"
	"github.com/NethermindEth/juno/core/trie2/triedb"
	"github.com/NethermindEth/juno/db"
	"github.com/NethermindEth/juno/db/memory"
	"github.com/NethermindEth/juno/zzverif/vx"
)

// C03-H6 (new backend, one running node across a reorg): "a historical read answers with the state as of
// the requested block OF THE CHAIN THE NODE HOLDS NOW". On one StateDB (the object a running node keeps -
// with whatever it caches) fork A brings a contract into existence at height hA - an ordinary deployment,
// or the first write to a system contract (0x1/0x2 are created implicitly and purged implicitly when a
// revert empties them) -, historical reads are served while fork A is the chain, fork A is reverted, and
// fork B brings the same contract into existence at another height hB. Historical reads through the
// history view must then follow fork B: not found below hB, the fork-B values from hB on.
func vxApplyOn(sdb *StateDB, d *memory.Database, root *felt.Felt, num uint64, diff *core.StateDiff) felt.Felt {
	batch := d.NewBatch()
	st, err := New(root, sdb, batch)
	vx.Assert(err == nil, "state-opens")
	su := &core.StateUpdate{OldRoot: root, StateDiff: diff}
	vx.Assert(st.Update(&core.Header{Number: num}, su, nil, true) == nil, "block-stores")
	vx.Assert(batch.Write() == nil, "commit")
	r, err := st.Commitment("")
	vx.Assert(err == nil, "commitment-readable")
	return r
}

func vxRevertOn(sdb *StateDB, d *memory.Database, root, old *felt.Felt, num uint64, diff *core.StateDiff) {
	batch := d.NewBatch()
	st, err := New(root, sdb, batch)
	vx.Assert(err == nil, "state-opens")
	vx.Assert(st.Revert(&core.Header{Number: num}, &core.StateUpdate{OldRoot: old, NewRoot: root, StateDiff: diff}) == nil, "revert-ok")
	vx.Assert(batch.Write() == nil, "commit")
}

func VxC03HistoryFollowsTheForkHeldNow() {
	vx.Bound("new backend, one StateDB; block 0 deploys contract A; fork A: blocks 1,2 - the subject (an ordinary contract deployed with a storage slot | system contract 0x1 first written) appears at height 1 or 2; historical reads of the subject at heights 1 and 2 (optional); both blocks reverted; fork B: blocks 1',2' - the subject appears at the other height with another value; historical reads at heights 1 and 2")
	vx.CollisionFree()
	d := memory.New()
	sdb := NewStateDB(d, triedb.New(d, nil))
	a := felt.NewFromUint64[felt.Felt](0x1000)
	slot := felt.NewFromUint64[felt.Felt](0x20)
	system := vx.Choice("subject-is-system-contract", 2) == 1
	subj := felt.NewFromUint64[felt.Felt](0x2000)
	if system {
		subj = felt.NewFromUint64[felt.Felt](1)
		vx.Cover("subject-is-a-system-contract")
	}
	d0 := core.EmptyStateDiff()
	d0.DeployedContracts[*a] = felt.NewFromUint64[felt.Felt](0xC1)
	r0 := vxApplyOn(sdb, d, &felt.Zero, 0, &d0)

	vA, vB := vxFeltIn("valueOnForkA"), vxFeltIn("valueOnForkB")
	vx.Assume(!vA.IsZero() && !vB.IsZero())
	appear := func(v *felt.Felt) core.StateDiff {
		df := core.EmptyStateDiff()
		if !system {
			df.DeployedContracts[*subj] = felt.NewFromUint64[felt.Felt](0xC2)
		}
		df.StorageDiffs[*subj] = map[felt.Felt]*felt.Felt{*slot: v}
		return df
	}
	filler := func(n uint64) core.StateDiff {
		df := core.EmptyStateDiff()
		df.Nonces[*a] = felt.NewFromUint64[felt.Felt](n)
		return df
	}
	hA := uint64(1 + vx.Choice("appears-on-fork-A-at", 2))
	hB := 3 - hA
	read := func(root *felt.Felt, q uint64) (felt.Felt, error) {
		h, err := NewStateHistory(q, root, sdb)
		vx.Assert(err == nil, "history-view-opens")
		return h.ContractStorage(subj, slot)
	}
	// fork A
	var dA [3]core.StateDiff
	var rA [3]felt.Felt
	rA[0] = r0
	for n := uint64(1); n <= 2; n++ {
		if n == hA {
			dA[n] = appear(vA)
		} else {
			dA[n] = filler(10 + n)
		}
		rA[n] = vxApplyOn(sdb, d, &rA[n-1], n, &dA[n])
	}
	if vx.Choice("reads-while-fork-A-is-the-chain", 2) == 1 {
		vx.Cover("history-read-before-the-reorg")
		for q := uint64(1); q <= 2; q++ {
			got, err := read(&rA[2], q)
			if q < hA {
				vx.Assert(errors.Is(err, db.ErrKeyNotFound), "contract-not-found-before-it-appears")
			} else {
				vx.Assert(err == nil && got.Equal(vA), "value-is-that-of-the-queried-block")
			}
		}
	}
	vxRevertOn(sdb, d, &rA[2], &rA[1], 2, &dA[2])
	vxRevertOn(sdb, d, &rA[1], &rA[0], 1, &dA[1])
	// fork B
	var rB [3]felt.Felt
	rB[0] = r0
	for n := uint64(1); n <= 2; n++ {
		var df core.StateDiff
		if n == hB {
			df = appear(vB)
		} else {
			df = filler(20 + n)
		}
		rB[n] = vxApplyOn(sdb, d, &rB[n-1], n, &df)
	}
	for q := uint64(1); q <= 2; q++ {
		got, err := read(&rB[2], q)
		if q < hB {
			vx.Cover("queried-below-the-height-it-appears-at-on-the-new-fork")
			vx.Assert(errors.Is(err, db.ErrKeyNotFound), "history-follows-the-new-fork-not-found-below-its-appearance")
		} else {
			vx.Assert(err == nil && got.Equal(vB), "history-follows-the-new-fork-value-from-its-appearance-on")
		}
	}
}
