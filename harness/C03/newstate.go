//vx:pkg core/state
package state

import (
	"github.com/NethermindEth/juno/core"
	"github.com/NethermindEth/juno/core/felt"
	"github.com/NethermindEth/juno/core/trie2/triedb"
	"github.com/NethermindEth/juno/db"
	"github.com/NethermindEth/juno/db/memory"
	"github.com/NethermindEth/juno/zzverif/vx"
)

// C03-H1 (new state backend): historical reads equal "the value after applying the diffs up to and
// including block n". History entries (prefix, b) -> post-update value are written with the real
// accessors onto the real memory DB (whose agreement with Pebble is C15's subject); up to 3 entries
// at symbolic increasing heights for the probed slot / nonce / class hash, plus entries of the
// neighbouring slots and contracts on both sides of the prefix; the queried height is symbolic.

// The reader / state under test are built by the package's own constructors (whatever these initialise
// - caches included - is initialised); the state root is irrelevant to history reads and writes.
func vxReaderOn(d *memory.Database) *StateReader {
	sr, err := NewStateReader(&felt.Zero, NewStateDB(d, triedb.New(d, nil)))
	vx.Assert(err == nil, "reader-opens")
	return sr
}

func vxStateOn(d *memory.Database, batch db.Batch) *State {
	st, err := New(&felt.Zero, NewStateDB(d, triedb.New(d, nil)), batch)
	vx.Assert(err == nil, "state-opens")
	return st
}

func vxFeltIn(name string) *felt.Felt {
	b := vx.FeltBytes(name)
	return new(felt.Felt).SetBytes(b[:])
}

func VxC03NewBackendHistory() {
	vx.Bound("0..3 history entries at symbolic increasing 64-bit heights, symbolic values; neighbouring slot/contract entries on both sides; symbolic query height; storage | nonce | class hash")
	d := memory.New()
	sr := vxReaderOn(d)
	addr := felt.NewFromUint64[felt.Felt](0x1000)
	slot := felt.NewFromUint64[felt.Felt](0x20)
	kind := vx.Choice("kind", 3)
	write := func(a, s *felt.Felt, b uint64, v *felt.Felt) {
		var err error
		switch kind {
		case 0:
			err = WriteStorageHistory(d, a, s, b, v)
		case 1:
			err = WriteNonceHistory(d, a, b, v)
		default:
			err = WriteClassHashHistory(d, a, b, v)
		}
		vx.Assert(err == nil, "history-write-ok")
	}
	k := vx.Choice("entries", 4)
	var hs []uint64
	var vs []*felt.Felt
	var last uint64
	for i := 0; i < k; i++ {
		b := vx.U64("b")
		if i > 0 {
			vx.Assume(b > last)
		}
		last = b
		v := vxFeltIn("v")
		write(addr, slot, b, v)
		hs, vs = append(hs, b), append(vs, v)
	}
	// neighbours: adjacent slot / adjacent contract below and above, at arbitrary heights
	if vx.Bool("neighbours") {
		vx.Cover("neighbours-present")
		lo := felt.NewFromUint64[felt.Felt](0x1f)
		hi := felt.NewFromUint64[felt.Felt](0x21)
		alo := felt.NewFromUint64[felt.Felt](0xfff)
		ahi := felt.NewFromUint64[felt.Felt](0x1001)
		if kind == 0 {
			write(addr, lo, vx.U64("nb"), vxFeltIn("nv"))
			write(addr, hi, vx.U64("nb"), vxFeltIn("nv"))
		}
		write(alo, slot, vx.U64("nb"), vxFeltIn("nv"))
		write(ahi, slot, vx.U64("nb"), vxFeltIn("nv"))
	}
	n := vx.U64("n")
	var got felt.Felt
	var err error
	switch kind {
	case 0:
		got, err = sr.ContractStorageAt(addr, slot, n)
	case 1:
		got, err = sr.ContractNonceAt(addr, n)
	default:
		got, err = sr.ContractClassHashAt(addr, n)
	}
	vx.Assert(err == nil, "historical-read-no-error")
	// specification: value of the last entry at or below n, zero if none
	want := &felt.Zero
	idx := -1
	for i := range hs {
		if hs[i] <= n {
			want, idx = vs[i], i
		}
	}
	switch {
	case idx < 0:
		vx.Cover("no-entry-at-or-below")
	case hs[idx] == n:
		vx.Cover("exact-hit")
	case idx == len(hs)-1:
		vx.Cover("above-last-entry")
	default:
		vx.Cover("between-entries")
	}
	vx.Assert(got.Equal(want), "historical-value-is-last-write-at-or-below")
	if kind == 0 {
		lu, lerr := sr.ContractStorageLastUpdatedAt((*felt.Address)(addr), slot, n)
		wantLU := uint64(0)
		if idx >= 0 {
			wantLU = hs[idx]
		}
		vx.Assert(lerr == nil && lu == wantLU, "last-updated-block")
	}
}

// C03-H4 (new backend, history write + revert): the history entries a block writes are exactly the
// entries its revert deletes. A diff touching storage, a nonce, a replaced class and a deployed
// contract (each section present or absent, values symbolic) is logged at a symbolic block n on top
// of earlier entries; after deleteHistory(n) every historical read, at n and above, answers what it
// answered before the block, and the database holds no entry that was not there before.
func VxC03HistoryWriteThenRevert() {
	vx.Bound("one block at symbolic height n > earlier entries; diff sections {storage, nonce, replaced class, deployed contract} each present or absent; values symbolic")
	d := memory.New()
	sr := vxReaderOn(d)
	a1 := felt.NewFromUint64[felt.Felt](0x1000) // existing contract
	a2 := felt.NewFromUint64[felt.Felt](0x2000) // deployed by the block
	slot := felt.NewFromUint64[felt.Felt](0x20)
	// earlier history at block m < n
	m := vx.U64("m")
	n := vx.U64("n")
	vx.Assume(m < n)
	vOld, nOld, cOld := vxFeltIn("oldval"), vxFeltIn("oldnonce"), vxFeltIn("oldclass")
	vx.Assert(WriteStorageHistory(d, a1, slot, m, vOld) == nil && WriteNonceHistory(d, a1, m, nOld) == nil &&
		WriteClassHashHistory(d, a1, m, cOld) == nil, "seed-history")
	countKeys := func() int {
		it, err := d.NewIterator(nil, false)
		vx.Assert(err == nil, "iterate")
		c := 0
		for ok := it.First(); ok; ok = it.Next() {
			c++
		}
		_ = it.Close()
		return c
	}
	before := countKeys()
	diff := core.EmptyStateDiff()
	if vx.Bool("hasStorage") {
		diff.StorageDiffs[*a1] = map[felt.Felt]*felt.Felt{*slot: vxFeltIn("newval")}
		vx.Cover("storage")
	}
	if vx.Bool("hasNonce") {
		diff.Nonces[*a1] = vxFeltIn("newnonce")
		vx.Cover("nonce")
	}
	if vx.Bool("hasReplaced") {
		diff.ReplacedClasses[*a1] = vxFeltIn("newclass")
		vx.Cover("replaced-class")
	}
	if vx.Bool("hasDeployed") {
		diff.DeployedContracts[*a2] = vxFeltIn("deployedclass")
		vx.Cover("deployed")
	}
	batch := d.NewBatch()
	st := vxStateOn(d, batch)
	vx.Assert(st.writeHistory(n, &diff) == nil, "write-history-ok")
	vx.Assert(batch.Write() == nil, "commit-block")
	// while the block is in place, reads at and above n answer what the block wrote (zero included:
	// a slot cleared by the block reads zero, not its earlier value) and what it left alone
	{
		qa := vx.U64("qa")
		vx.Assume(qa >= n)
		wantV, wantN, wantC := vOld, nOld, cOld
		if sd, ok := diff.StorageDiffs[*a1]; ok {
			wantV = sd[*slot]
		}
		if nv, ok := diff.Nonces[*a1]; ok {
			wantN = nv
		}
		if cv, ok := diff.ReplacedClasses[*a1]; ok {
			wantC = cv
		}
		av, ae1 := sr.ContractStorageAt(a1, slot, qa)
		an, ae2 := sr.ContractNonceAt(a1, qa)
		ac, ae3 := sr.ContractClassHashAt(a1, qa)
		vx.Assert(ae1 == nil && ae2 == nil && ae3 == nil, "reads-ok")
		vx.Assert(av.Equal(wantV), "storage-at-or-above-the-block-is-what-the-block-wrote")
		vx.Assert(an.Equal(wantN) && ac.Equal(wantC), "nonce-and-class-at-or-above-the-block-are-what-the-block-wrote")
		if n > 0 && qa == n {
			// just below the block the earlier values still answer
			bv, be := sr.ContractStorageAt(a1, slot, n-1)
			vx.Assert(be == nil && (m > n-1 || bv.Equal(vOld)), "storage-below-the-block-unchanged")
		}
	}
	// revert
	batch2 := d.NewBatch()
	st2 := vxStateOn(d, batch2)
	vx.Assert(st2.deleteHistory(n, &diff) == nil, "delete-history-ok")
	vx.Assert(batch2.Write() == nil, "commit-revert")
	vx.Assert(countKeys() == before, "revert-leaves-no-orphan-history-entry")
	q := vx.U64("q")
	vx.Assume(q >= n)
	gv, e1 := sr.ContractStorageAt(a1, slot, q)
	gn, e2 := sr.ContractNonceAt(a1, q)
	gc, e3 := sr.ContractClassHashAt(a1, q)
	vx.Assert(e1 == nil && e2 == nil && e3 == nil, "reads-ok")
	vx.Assert(gv.Equal(vOld) && gn.Equal(nOld) && gc.Equal(cOld), "reads-after-revert-equal-reads-before-block")
	dc, e4 := sr.ContractClassHashAt(a2, q)
	vx.Assert(e4 == nil && dc.IsZero(), "reverted-deployment-leaves-no-class-history")
}
