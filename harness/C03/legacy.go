//vx:pkg core/deprecatedstate
package deprecatedstate

import (
	"errors"

	"github.com/NethermindEth/juno/core"
	"github.com/NethermindEth/juno/core/felt"
	"github.com/NethermindEth/juno/db/memory"
	"github.com/NethermindEth/juno/zzverif/vx"
)

// C03-H2 (legacy backend): the log stores the OLD value at the block that changed it. Reading at
// height n returns the old value recorded by the first change strictly above n; when no change
// lies above n the reader must consult the head (ErrCheckHeadState).

func vxFeltIn(name string) *felt.Felt {
	b := vx.FeltBytes(name)
	return new(felt.Felt).SetBytes(b[:])
}

func VxC03LegacyHistory() {
	vx.Bound("0..3 change logs at symbolic increasing 64-bit heights, symbolic old values; neighbouring slot/contract logs; symbolic query height; storage | nonce | class hash")
	txn := memory.New().NewIndexedBatch()
	s := New(txn)
	addr := felt.NewFromUint64[felt.Felt](0x1000)
	slot := felt.NewFromUint64[felt.Felt](0x20)
	kind := vx.Choice("kind", 3)
	write := func(a, sl *felt.Felt, b uint64, old *felt.Felt) {
		var err error
		switch kind {
		case 0:
			err = core.WriteDeprecatedContractStorageHistory(txn, a, sl, old, b)
		case 1:
			err = core.WriteDeprecatedContractNonceHistory(txn, a, old, b)
		default:
			err = core.WriteDeprecatedContractClassHashHistory(txn, a, old, b)
		}
		vx.Assert(err == nil, "log-write-ok")
	}
	k := vx.Choice("entries", 4)
	var hs []uint64
	var olds []*felt.Felt
	var last uint64
	for i := 0; i < k; i++ {
		b := vx.U64("b")
		if i > 0 {
			vx.Assume(b > last)
		}
		last = b
		v := vxFeltIn("old")
		write(addr, slot, b, v)
		hs, olds = append(hs, b), append(olds, v)
	}
	if vx.Bool("neighbours") {
		vx.Cover("neighbours-present")
		if kind == 0 {
			write(addr, felt.NewFromUint64[felt.Felt](0x1f), vx.U64("nb"), vxFeltIn("nv"))
			write(addr, felt.NewFromUint64[felt.Felt](0x21), vx.U64("nb"), vxFeltIn("nv"))
		}
		write(felt.NewFromUint64[felt.Felt](0xfff), slot, vx.U64("nb"), vxFeltIn("nv"))
		write(felt.NewFromUint64[felt.Felt](0x1001), slot, vx.U64("nb"), vxFeltIn("nv"))
	}
	n := vx.U64("n")
	var got felt.Felt
	var err error
	switch kind {
	case 0:
		got, err = s.ContractStorageAt(addr, slot, n)
	case 1:
		got, err = s.ContractNonceAt(addr, n)
	default:
		got, err = s.ContractClassHashAt(addr, n)
	}
	idx := -1
	for i := len(hs) - 1; i >= 0; i-- {
		if hs[i] > n {
			idx = i
		}
	}
	if idx < 0 {
		vx.Cover("no-change-above")
		vx.Assert(errors.Is(err, ErrCheckHeadState), "no-later-change-means-head-value")
		return
	}
	vx.Cover("change-above")
	vx.Assert(err == nil && got.Equal(olds[idx]), "value-is-old-value-of-first-later-change")
}
