//vx:pkg rpc/v10
//vx:also rpc/v9 rpcv9
//vx:include model.go
package rpcv10

import (
	"github.com/NethermindEth/juno/core"
	"github.com/NethermindEth/juno/core/felt"
	"github.com/NethermindEth/juno/zzverif/vx"
)

// C08-H10: "return the data of exactly that block": every header field of the stored block reaches the
// answer of starknet_getBlockWithTxHashes unchanged (a missing sequencer address is 0; for a missing price the API versions have
// different defaults, so only its presence on the wire is claimed). The head block's stored header has every field symbolic - hashes,
// roots, timestamp, sequencer address (present or missing), the six gas prices (each present or missing),
// data-availability mode, protocol version from a small set -; the handler runs on the model chain; each
// field of the answer is compared with the stored field it must come from. Runs for rpc v10 and v9 (the
// fields the two specifications share).
func vxOptFelt(name string) *felt.Felt {
	if vx.Bool(name + ".present") {
		f := vxFeltIn(name)
		return &f
	}
	return nil
}

func vxWireDefault(stored *felt.Felt, def uint64) felt.Felt {
	if stored == nil {
		return felt.FromUint64[felt.Felt](def)
	}
	return *stored
}

func vxRichChain() (*vxChain, *core.Header) {
	c := &vxChain{}
	c.blocks = []vxBlock{{hash: vxFeltIn("hash0")}, {hash: vxFeltIn("hash1"), txCount: uint64(vx.U8("txcount"))}}
	vx.Assume(!c.blocks[0].hash.Equal(&c.blocks[1].hash))
	parent, root := vxFeltIn("parent"), vxFeltIn("root")
	hd := &core.Header{
		ParentHash: &parent, GlobalStateRoot: &root, Timestamp: vx.U64("timestamp"),
		SequencerAddress: vxOptFelt("sequencer"), EventCount: vx.U64("eventcount"),
		L1GasPriceETH: vxOptFelt("l1.eth"), L1GasPriceSTRK: vxOptFelt("l1.strk"),
		ProtocolVersion: []string{"0.13.2", "0.13.4", "0.14.0"}[vx.Choice("version", 3)],
	}
	if vx.Bool("l1data.present") {
		hd.L1DataGasPrice = &core.GasPrice{PriceInWei: vxOptFelt("l1data.wei"), PriceInFri: vxOptFelt("l1data.fri")}
	}
	if vx.Bool("l2.present") {
		hd.L2GasPrice = &core.GasPrice{PriceInWei: vxOptFelt("l2.wei"), PriceInFri: vxOptFelt("l2.fri")}
	}
	if vx.Bool("blob") {
		hd.L1DAMode = core.Blob
	} else {
		hd.L1DAMode = core.Calldata
	}
	c.richHead = hd
	return c, hd
}

func vxCheckCommonHeaderFields(got *BlockHeader, c *vxChain, hd *core.Header) {
	vx.Assert(got.Hash != nil && got.Hash.Equal(&c.blocks[1].hash) && got.Number != nil && *got.Number == 1, "wire-block-hash-and-number-are-the-stored-ones")
	vx.Assert(got.ParentHash != nil && got.ParentHash.Equal(hd.ParentHash), "wire-parent-hash-is-the-stored-one")
	vx.Assert(got.NewRoot != nil && got.NewRoot.Equal(hd.GlobalStateRoot), "wire-new-root-is-the-stored-state-root")
	vx.Assert(got.Timestamp == hd.Timestamp, "wire-timestamp-is-the-stored-one")
	seq := vxWireDefault(hd.SequencerAddress, 0)
	vx.Assert(got.SequencerAddress != nil && got.SequencerAddress.Equal(&seq), "wire-sequencer-address-is-the-stored-one-or-zero")
	// a stored price reaches the wire unchanged; for a price the stored header lacks, the versions use
	// different documented defaults (v0.10: 1, v0.9: 0) - only "present on the wire" is claimed there
	price := func(wire, stored *felt.Felt) bool {
		if wire == nil {
			return false
		}
		return stored == nil || wire.Equal(stored)
	}
	vx.Assert(price(got.L1GasPrice.InWei, hd.L1GasPriceETH) && price(got.L1GasPrice.InFri, hd.L1GasPriceSTRK), "wire-l1-gas-price-wei-and-fri-are-the-stored-eth-and-strk-prices")
	var dw, df, lw, lf *felt.Felt
	if hd.L1DataGasPrice != nil {
		dw, df = hd.L1DataGasPrice.PriceInWei, hd.L1DataGasPrice.PriceInFri
	}
	if hd.L2GasPrice != nil {
		lw, lf = hd.L2GasPrice.PriceInWei, hd.L2GasPrice.PriceInFri
	}
	vx.Assert(price(got.L1DataGasPrice.InWei, dw) && price(got.L1DataGasPrice.InFri, df), "wire-l1-data-gas-price-is-the-stored-one")
	vx.Assert(price(got.L2GasPrice.InWei, lw) && price(got.L2GasPrice.InFri, lf), "wire-l2-gas-price-is-the-stored-one")
	vx.Assert((got.L1DAMode == Blob) == (hd.L1DAMode == core.Blob), "wire-da-mode-is-the-stored-one")
	vx.Assert(got.StarknetVersion == hd.ProtocolVersion, "wire-starknet-version-is-the-stored-protocol-version")
}

func VxC08HeaderFieldsReachTheWire() {
	vx.Bound("model chain of 2 blocks; head header with every field symbolic (sequencer address and each of the six gas prices present or missing, DA mode, version in {0.13.2, 0.13.4, 0.14.0}); getBlockWithTxHashes(latest | number 1 | the head's hash); rpc v10 and v9")
	c, hd := vxRichChain()
	h := New(c, nil, nil, nil)
	var id BlockID
	switch vx.Choice("id", 3) {
	case 0:
		id = BlockIDLatest()
	case 1:
		id = BlockIDFromNumber(1)
	default:
		id = BlockIDFromHash(&c.blocks[1].hash)
	}
	blk, err := h.BlockWithTxHashes(&id)
	vx.Assert(err == nil && blk != nil, "head-block-is-found")
	if err != nil || blk == nil {
		return
	}
	vxCheckCommonHeaderFields(&blk.BlockHeader, c, hd)
}
