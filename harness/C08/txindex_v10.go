//vx:pkg rpc/v10
package rpcv10

import (
	"github.com/NethermindEth/juno/rpc/rpccore"
	"github.com/NethermindEth/juno/zzverif/vx"
)

// C08: transaction by (block id, index): BLOCK_NOT_FOUND exactly when the identifier denotes no
// stored block, INVALID_TXN_INDEX exactly when the block exists and has no such index.
func VxC08TransactionByIndex() {
	vx.Bound("chain model of blockid.go; symbolic block id; transaction index symbolic in -1..3")
	h, c, id, want, found := vxScenario()
	idx := int(vx.I64("txIndex"))
	vx.Assume(idx >= -1 && idx <= 3)
	_, rerr := h.TransactionByBlockIDAndIndex(&id, idx, ResponseFlags{})
	switch {
	case idx < 0:
		vx.Assert(rerr == rpccore.ErrInvalidTxIndex, "negative-index-is-invalid")
	case !found && id.IsNumber():
		// known finding KF-C08-1: a block number beyond the head is answered INVALID_TXN_INDEX
		vx.Cover("block-number-beyond-head")
		vx.Assert(rerr == rpccore.ErrBlockNotFound, "block-not-found-exactly-when-the-block-is-absent#KF-C08-1")
	case !found:
		vx.Cover("block-absent")
		vx.Assert(rerr == rpccore.ErrBlockNotFound, "block-not-found-exactly-when-the-block-is-absent")
	case uint64(idx) >= c.blocks[want].txCount:
		vx.Assert(rerr == rpccore.ErrInvalidTxIndex, "index-beyond-the-block-is-invalid")
	default:
		vx.Cover("transaction-found")
		vx.Assert(rerr == nil, "transaction-of-the-denoted-block-and-index")
	}
}
