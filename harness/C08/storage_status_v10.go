//vx:pkg rpc/v10
//vx:include model.go
//vx:include blockid.go
package rpcv10

import (
	"context"
	"errors"

	"github.com/NethermindEth/juno/blockchain"
	"github.com/NethermindEth/juno/core"
	"github.com/NethermindEth/juno/core/felt"
	"github.com/NethermindEth/juno/db"
	"github.com/NethermindEth/juno/rpc/rpccore"
	"github.com/NethermindEth/juno/sync"
	"github.com/NethermindEth/juno/sync/preconfirmed"
	"github.com/NethermindEth/juno/zzverif/vx"
)

// C08-H7 (rpc/v10): starknet_getStorageAt and starknet_getTransactionStatus on the model chain.
// getStorageAt: the value of the slot as of exactly the denoted block; CONTRACT_NOT_FOUND exactly when the
// contract is not deployed as of that block - also at the head, whose reader answers zero for a missing
// contract (the handler has to probe the class hash), and also when the slot of a deployed contract is zero
// (that is a value, not an absence); BLOCK_NOT_FOUND exactly when the identifier denotes no block.
// getTransactionStatus: for a transaction stored at (block b, index i): ACCEPTED_ON_L1 iff an L1 head is
// recorded and covers b, else ACCEPTED_ON_L2; execution status and reason are the stored ones; an unknown
// hash is TXN_HASH_NOT_FOUND (no feeder fallback configured, no pre-confirmed chain).

type vxState2 struct {
	core.StateReader
	b    *vxBlock
	slot felt.Felt
	head bool
}

func (s vxState2) ContractStorage(addr, key *felt.Felt) (felt.Felt, error) {
	if !s.b.deployed {
		if s.head {
			return felt.Zero, nil // what the head readers do for a contract that does not exist
		}
		return felt.Zero, db.ErrKeyNotFound
	}
	return s.slot, nil
}

func (s vxState2) ContractClassHash(addr *felt.Felt) (felt.Felt, error) {
	if !s.b.deployed {
		return felt.Zero, db.ErrKeyNotFound
	}
	return s.b.nonce, nil
}

type vxChain2 struct {
	*vxChain
	slots    []felt.Felt // slot value as of block i
	txBlock  uint64      // the one indexed transaction: its block, index, hash, outcome
	txIndex  uint64
	txHash   felt.Felt
	reverted bool
}

func (c *vxChain2) HeadState() (core.StateReader, blockchain.StateCloser, error) {
	i := len(c.blocks) - 1
	return vxState2{b: &c.blocks[i], slot: c.slots[i], head: true}, vxNoClose, nil
}

func (c *vxChain2) StateAtBlockNumber(n uint64) (core.StateReader, blockchain.StateCloser, error) {
	if n >= uint64(len(c.blocks)) {
		return nil, nil, db.ErrKeyNotFound
	}
	return vxState2{b: &c.blocks[n], slot: c.slots[n]}, vxNoClose, nil
}

func (c *vxChain2) StateAtBlockHash(h *felt.Felt) (core.StateReader, blockchain.StateCloser, error) {
	i, ok := c.byHash(h)
	if !ok {
		return nil, nil, db.ErrKeyNotFound
	}
	return vxState2{b: &c.blocks[i], slot: c.slots[i]}, vxNoClose, nil
}

func (c *vxChain2) BlockNumberAndIndexByTxHash(h *felt.TransactionHash) (uint64, uint64, error) {
	if (*felt.Felt)(h).Equal(&c.txHash) {
		return c.txBlock, c.txIndex, nil
	}
	return 0, 0, db.ErrKeyNotFound
}

func (c *vxChain2) TransactionExecutionStatusByBlockNumberAndIndex(n, i uint64) (core.TransactionExecutionStatus, error) {
	if n == c.txBlock && i == c.txIndex {
		reason := ""
		if c.reverted {
			reason = "boom"
		}
		return core.TransactionExecutionStatus{Reverted: c.reverted, RevertReason: reason}, nil
	}
	return core.TransactionExecutionStatus{}, db.ErrKeyNotFound
}

type vxNoPreConfirmed struct{ sync.Reader }

func (vxNoPreConfirmed) PreConfirmedChain() (preconfirmed.ChainReader, error) {
	return preconfirmed.ChainReader{}, errors.New("no pre-confirmed chain")
}

func VxC08StorageAtAndTransactionStatus() {
	vx.Bound("model chain as in VxC08BlockIdentifiers plus a symbolic slot value per block (zero included) and one indexed transaction at a symbolic (block, index) with a symbolic hash and outcome; block id symbolic; handlers StorageAt (without last-update flag) and TransactionStatus of rpc/v10; no pre-confirmed chain, no feeder fallback")
	h, c, id, want, found := vxScenario()
	c2 := &vxChain2{vxChain: c}
	for range c.blocks {
		c2.slots = append(c2.slots, vxFeltIn("slot"))
	}
	c2.txBlock = vx.U64("tx.block")
	vx.Assume(c2.txBlock < uint64(len(c.blocks)))
	c2.txIndex = vx.U64("tx.index")
	vx.Assume(c2.txIndex < 3)
	c2.txHash = vxFeltIn("tx.hash")
	c2.reverted = vx.Bool("tx.reverted")
	h.bcReader = c2
	h.syncReader = vxNoPreConfirmed{}

	addr := felt.FromUint64[felt.Address](0x1234)
	key := felt.FromUint64[felt.Felt](7)
	res, rerr := h.StorageAt(&addr, &key, &id, StorageAtResponseFlags{})
	switch {
	case !found:
		vx.Assert(rerr == rpccore.ErrBlockNotFound, "storage-block-not-found-exactly-when-absent")
	case !c.blocks[want].deployed:
		vx.Cover("storage-of-a-contract-not-deployed-at-the-block")
		vx.Assert(rerr == rpccore.ErrContractNotFound, "storage-contract-not-found-exactly-when-absent")
	default:
		vx.Assert(rerr == nil && res != nil, "storage-read-succeeds-for-a-deployed-contract")
		if rerr == nil && res != nil {
			vx.Assert(res.Value.Equal(&c2.slots[want]), "storage-value-as-of-the-denoted-block")
			if c2.slots[want].IsZero() {
				vx.Cover("zero-slot-of-a-deployed-contract-is-a-value")
			}
		}
	}

	q := vxFeltIn("status.hash")
	st, serr := h.TransactionStatus(context.Background(), &q)
	if q.Equal(&c2.txHash) {
		vx.Cover("status-of-a-stored-transaction")
		vx.Assert(serr == nil, "status-found-for-a-stored-transaction")
		if serr == nil {
			onL1 := c.hasL1 && c2.txBlock <= c.l1
			if onL1 {
				vx.Assert(st.Finality == TxnStatusAcceptedOnL1, "status-finality-derived-from-the-l1-head")
			} else {
				vx.Assert(st.Finality == TxnStatusAcceptedOnL2, "status-finality-derived-from-the-l1-head")
			}
			if c2.reverted {
				vx.Assert(st.Execution == TxnFailure && st.FailureReason == "boom", "status-execution-is-the-stored-outcome")
			} else {
				vx.Assert(st.Execution == TxnSuccess && st.FailureReason == "", "status-execution-is-the-stored-outcome")
			}
		}
	} else {
		vx.Assert(serr == rpccore.ErrTxnHashNotFound, "status-of-an-unknown-hash-is-not-found")
	}
}
