//vx:pkg rpc/v10
//vx:also rpc/v9 rpcv9
//vx:also rpc/v8 rpcv8
package rpcv10

import (
	"github.com/NethermindEth/juno/blockchain"
	"github.com/NethermindEth/juno/core"
	"github.com/NethermindEth/juno/core/felt"
	"github.com/NethermindEth/juno/db"
	"github.com/NethermindEth/juno/zzverif/vx"
)

// C08 (handler kernel): the read handlers of the served API versions, built directly on a model of
// the stored chain (blocks 0..h with symbolic, distinct hashes and transaction counts; an optional
// recorded L1 head with a symbolic number; per-block contract state), and asked with a symbolic
// block identifier - latest, l1_accepted, number n (n symbolic: existing or not), hash x (x
// symbolic: of a stored block or not). The answer must be the data of exactly the block the
// identifier denotes, with the finality status derived from the L1 head, and BLOCK_NOT_FOUND /
// CONTRACT_NOT_FOUND exactly when the model lacks the item. The same file runs in rpc/v9.

type vxBlock struct {
	hash     felt.Felt
	txCount  uint64
	deployed bool      // is the probe contract deployed as of this block
	nonce    felt.Felt // its nonce as of this block
}

type vxChain struct {
	blockchain.Reader // every method not modelled below panics if a handler reaches it
	blocks            []vxBlock
	hasL1             bool
	l1                uint64
	richHead          *core.Header           // if set: the stored header of the head block, every field filled in
	richCommitments   *core.BlockCommitments // if set: the stored commitments of the head block
}

func (c *vxChain) header(i int) *core.Header {
	if c.richHead != nil && i == len(c.blocks)-1 {
		h := *c.richHead
		h.Number, h.Hash, h.TransactionCount = uint64(i), &c.blocks[i].hash, c.blocks[i].txCount
		return &h
	}
	return &core.Header{Number: uint64(i), Hash: &c.blocks[i].hash, TransactionCount: c.blocks[i].txCount}
}

func (c *vxChain) byHash(h *felt.Felt) (int, bool) {
	for i := range c.blocks {
		if c.blocks[i].hash.Equal(h) {
			return i, true
		}
	}
	return 0, false
}

func (c *vxChain) Height() (uint64, error) {
	if len(c.blocks) == 0 {
		return 0, db.ErrKeyNotFound
	}
	return uint64(len(c.blocks) - 1), nil
}

func (c *vxChain) L1Head() (core.L1Head, error) {
	if !c.hasL1 {
		return core.L1Head{}, db.ErrKeyNotFound
	}
	return core.L1Head{BlockNumber: c.l1, BlockHash: &felt.Zero, StateRoot: &felt.Zero}, nil
}

func (c *vxChain) HeadsHeader() (*core.Header, error) {
	if len(c.blocks) == 0 {
		return nil, db.ErrKeyNotFound
	}
	return c.header(len(c.blocks) - 1), nil
}

func (c *vxChain) BlockHeaderByNumber(n uint64) (*core.Header, error) {
	if n >= uint64(len(c.blocks)) {
		return nil, db.ErrKeyNotFound
	}
	return c.header(int(n)), nil
}

func (c *vxChain) BlockHeaderByHash(h *felt.Felt) (*core.Header, error) {
	i, ok := c.byHash(h)
	if !ok {
		return nil, db.ErrKeyNotFound
	}
	return c.header(i), nil
}

func (c *vxChain) BlockNumberByHash(h *felt.Felt) (uint64, error) {
	i, ok := c.byHash(h)
	if !ok {
		return 0, db.ErrKeyNotFound
	}
	return uint64(i), nil
}

func (c *vxChain) BlockTransactionCountByNumber(n uint64) (uint64, error) {
	if n >= uint64(len(c.blocks)) {
		return 0, db.ErrKeyNotFound
	}
	return c.blocks[n].txCount, nil
}

func (c *vxChain) TransactionHashesByBlockNumber(n uint64) ([]felt.Felt, error) {
	if n >= uint64(len(c.blocks)) {
		return nil, db.ErrKeyNotFound
	}
	return nil, nil
}

func (c *vxChain) TransactionsByBlockNumber(n uint64) ([]core.Transaction, error) {
	if n >= uint64(len(c.blocks)) {
		return nil, db.ErrKeyNotFound
	}
	var out []core.Transaction
	for i := uint64(0); i < c.blocks[n].txCount; i++ {
		out = append(out, &core.InvokeTransaction{TransactionHash: felt.NewFromUint64[felt.Felt](100 + i)})
	}
	return out, nil
}

func (c *vxChain) TransactionByBlockNumberAndIndex(n, idx uint64) (core.Transaction, error) {
	if n >= uint64(len(c.blocks)) || idx >= c.blocks[n].txCount {
		return nil, db.ErrKeyNotFound
	}
	return &core.InvokeTransaction{TransactionHash: felt.NewFromUint64[felt.Felt](100 + idx), Version: new(core.TransactionVersion).SetUint64(1)}, nil
}

func (c *vxChain) BlockCommitmentsByNumber(n uint64) (*core.BlockCommitments, error) {
	if n >= uint64(len(c.blocks)) {
		return nil, db.ErrKeyNotFound
	}
	if c.richCommitments != nil && n == uint64(len(c.blocks)-1) {
		return c.richCommitments, nil
	}
	return &core.BlockCommitments{}, nil
}

type vxState struct {
	core.StateReader
	b *vxBlock
}

func (s vxState) ContractNonce(addr *felt.Felt) (felt.Felt, error) {
	if !s.b.deployed {
		return felt.Felt{}, db.ErrKeyNotFound
	}
	return s.b.nonce, nil
}

func (s vxState) ContractClassHash(addr *felt.Felt) (felt.Felt, error) {
	if !s.b.deployed {
		return felt.Felt{}, db.ErrKeyNotFound
	}
	return s.b.nonce, nil
}

// no class is declared on the model chain: every class lookup misses
func (s vxState) Class(*felt.Felt) (*core.DeclaredClassDefinition, error) {
	return nil, db.ErrKeyNotFound
}

func vxNoClose() error { return nil }

func (c *vxChain) HeadState() (core.StateReader, blockchain.StateCloser, error) {
	if len(c.blocks) == 0 {
		return nil, nil, db.ErrKeyNotFound
	}
	return vxState{b: &c.blocks[len(c.blocks)-1]}, vxNoClose, nil
}

func (c *vxChain) StateAtBlockNumber(n uint64) (core.StateReader, blockchain.StateCloser, error) {
	if n >= uint64(len(c.blocks)) {
		return nil, nil, db.ErrKeyNotFound
	}
	return vxState{b: &c.blocks[n]}, vxNoClose, nil
}

func (c *vxChain) StateAtBlockHash(h *felt.Felt) (core.StateReader, blockchain.StateCloser, error) {
	i, ok := c.byHash(h)
	if !ok {
		return nil, nil, db.ErrKeyNotFound
	}
	return vxState{b: &c.blocks[i]}, vxNoClose, nil
}

func vxFeltIn(name string) felt.Felt {
	b := vx.FeltBytes(name)
	var f felt.Felt
	f.SetBytes(b[:])
	return f
}

