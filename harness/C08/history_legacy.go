//vx:pkg core/deprecatedstate
//vx:include ../C03/legacy.go
package deprecatedstate

// C08-H6 on the default (legacy) state backend: see history.go. Scenario and assertions are those of C03-H2.
func VxC08HistoricalReadsAnswerTheDenotedBlockLegacy() {
	VxC03LegacyHistory()
}
