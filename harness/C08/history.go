//vx:pkg core/state
//vx:include ../C03/newstate.go
package state

// C08-H6: starknet_getStorageAt / getNonce / getClassHashAt for a block id other than the head are answered by
// StateAtBlockNumber/Hash -> ContractStorageAt / ContractNonceAt / ContractClassHashAt of the state backend,
// i.e. by the history lookup. "The answer is the data of exactly the denoted block" therefore rests on that
// lookup never returning a neighbouring key's entry (the adjacent slot, the first slot of the next contract,
// the next contract's nonce) for a block at which the queried key was not written. Scenario and assertions
// are those of C03-H1 (harness/C03/newstate.go): up to 3 entries at symbolic heights for the queried key,
// entries of neighbouring keys on both sides, symbolic queried height.
func VxC08HistoricalReadsAnswerTheDenotedBlock() {
	VxC03NewBackendHistory()
}
