//vx:pkg rpc/v8
package rpcv8

import (
	"github.com/NethermindEth/juno/core/felt"
	"github.com/NethermindEth/juno/rpc/rpccore"
	"github.com/NethermindEth/juno/zzverif/vx"
)

// The same obligations for the v0.8 handlers (block ids and addresses passed by value, no
// l1_accepted tag); the chain model is model.go.
func VxC08BlockIdentifiersV8() {
	vx.Bound("stored chain of 1..3 blocks (hashes symbolic and distinct, transaction counts symbolic in 0..2, probe contract deployed or not per block with a symbolic nonce); L1 head absent or present with a symbolic 64-bit number; block id in {latest, number n symbolic, hash x symbolic} (API v0.8 has no l1_accepted); handlers BlockNumber, BlockHashAndNumber, BlockTransactionCount, BlockWithTxHashes, Nonce, ClassHashAt")
	nb := 1 + vx.Choice("blocks", 3)
	c := &vxChain{}
	for i := 0; i < nb; i++ {
		b := vxBlock{hash: vxFeltIn("hash"), txCount: vx.U64("txcount"), deployed: vx.Bool("deployed"), nonce: vxFeltIn("nonce")}
		vx.Assume(b.txCount <= 2)
		for j := range c.blocks {
			vx.Assume(!c.blocks[j].hash.Equal(&b.hash))
		}
		c.blocks = append(c.blocks, b)
	}
	if vx.Bool("hasL1") {
		c.hasL1, c.l1 = true, vx.U64("l1")
	}
	h := New(c, nil, nil, nil) // the real constructor (caches, feeds, limits as in production)
	head := nb - 1

	// the denoted block according to the model
	var id BlockID
	want, found := 0, false
	switch vx.Choice("id", 3) {
	case 0:
		id = BlockID{typeID: latest}
		want, found = head, true
	case 1:
		n := vx.U64("id.number")
		id = BlockIDFromNumber(n)
		if n <= uint64(head) {
			want, found = int(n), true
		} else {
			vx.Cover("number-beyond-head")
		}
	case 2:
		x := vxFeltIn("id.hash")
		id = BlockIDFromHash(&x)
		want, found = c.byHash(&x)
		if !found {
			vx.Cover("unknown-hash")
		}
	}

	num, rerr := h.BlockNumber()
	vx.Assert(rerr == nil && num == uint64(head), "block-number-is-the-head")
	hn, rerr := h.BlockHashAndNumber()
	vx.Assert(rerr == nil && hn.Number == uint64(head) && hn.Hash.Equal(&c.blocks[head].hash), "block-hash-and-number-is-the-head")

	cnt, rerr := h.BlockTransactionCount(id)
	if found {
		vx.Assert(rerr == nil && cnt == c.blocks[want].txCount, "transaction-count-of-the-denoted-block")
	} else {
		vx.Assert(rerr == rpccore.ErrBlockNotFound, "block-not-found-exactly-when-absent")
	}

	blk, rerr := h.BlockWithTxHashes(&id)
	if found {
		vx.Assert(rerr == nil && blk != nil, "block-of-the-denoted-identifier")
		if rerr == nil && blk != nil {
			vx.Assert(blk.BlockHeader.Hash.Equal(&c.blocks[want].hash) && blk.BlockHeader.Number != nil && *blk.BlockHeader.Number == uint64(want),
				"returns-exactly-the-denoted-block")
			onL1 := c.hasL1 && uint64(want) <= c.l1
			if onL1 {
				vx.Cover("accepted-on-l1")
				vx.Assert(blk.Status == BlockAcceptedL1, "finality-derived-from-the-l1-head")
			} else {
				vx.Assert(blk.Status == BlockAcceptedL2, "finality-derived-from-the-l1-head")
			}
		}
	} else {
		vx.Assert(rerr == rpccore.ErrBlockNotFound, "block-not-found-exactly-when-absent")
	}

	addr := felt.FromUint64[felt.Felt](0x1234)
	nonce, rerr := h.Nonce(id, addr)
	switch {
	case !found:
		vx.Assert(rerr == rpccore.ErrBlockNotFound, "block-not-found-exactly-when-absent")
	case !c.blocks[want].deployed:
		vx.Assert(rerr == rpccore.ErrContractNotFound, "contract-not-found-exactly-when-absent")
	default:
		vx.Assert(rerr == nil && nonce.Equal(&c.blocks[want].nonce), "nonce-as-of-the-denoted-block")
	}
	ch, rerr := h.ClassHashAt(id, addr)
	switch {
	case !found:
		vx.Assert(rerr == rpccore.ErrBlockNotFound, "block-not-found-exactly-when-absent")
	case !c.blocks[want].deployed:
		vx.Assert(rerr == rpccore.ErrContractNotFound, "contract-not-found-exactly-when-absent")
	default:
		vx.Assert(rerr == nil && ch.Equal(&c.blocks[want].nonce), "class-hash-as-of-the-denoted-block")
	}
}
