//vx:pkg blockchain/statebackend
package statebackend

import (
	"errors"

	"github.com/NethermindEth/juno/blockchain/networks"
	"github.com/NethermindEth/juno/core"
	"github.com/NethermindEth/juno/core/deprecatedstate"
	"github.com/NethermindEth/juno/core/felt"
	"github.com/NethermindEth/juno/core/state"
	"github.com/NethermindEth/juno/core/trie2/triedb"
	"github.com/NethermindEth/juno/db"
	"github.com/NethermindEth/juno/db/memory"
	"github.com/NethermindEth/juno/pruner"
	"github.com/NethermindEth/juno/zzverif/vx"
)

// C08 (what the RPC state handlers read) at the state-backend level: StateAtBlockNumber and
// StateAtBlockHash of BOTH backends on a stored chain answer "storage, class hash ... of exactly
// that block of that chain, and contract-not-found precisely when the chain does not contain the
// item" - for every stored block, the head included, whichever way it is named, and unaffected by
// a block stored after the reader was handed out.
// Block 0 deploys contract A and writes a slot; block 1 writes the slot again and deploys B; block
// 2 writes the slot once more. Slot values symbolic, addresses and block hashes fixed. The state
// roots the blocks must carry are computed on a shadow state of the same backend kind.

type vxShadow struct {
	newState bool
	ltxn     db.IndexedBatch
	legacy   *deprecatedstate.State
	nd       *memory.Database
	sdb      *state.StateDB
	root     felt.Felt
}

func vxNewShadow(newState bool) *vxShadow {
	s := &vxShadow{newState: newState}
	if newState {
		s.nd = memory.New()
		s.sdb = state.NewStateDB(s.nd, triedb.New(s.nd, nil))
	} else {
		s.ltxn = memory.New().NewIndexedBatch()
		s.legacy = deprecatedstate.New(s.ltxn)
	}
	return s
}

// apply returns (old root, new root) of applying diff as block n.
func (s *vxShadow) apply(n uint64, diff *core.StateDiff) (felt.Felt, felt.Felt) {
	old := s.root
	hdr := &core.Header{Number: n, ProtocolVersion: "0.13.2"}
	if s.newState {
		batch := s.nd.NewBatch()
		st, err := state.New(&old, s.sdb, batch)
		vx.Assert(err == nil, "shadow-opens")
		vx.Assert(st.Update(hdr, &core.StateUpdate{OldRoot: &old, StateDiff: diff}, nil, true) == nil, "shadow-update")
		vx.Assert(batch.Write() == nil, "shadow-commit")
		one := felt.FromUint64[felt.Felt](1)
		rd, err := state.NewStateReader(&one, s.sdb)
		vx.Assert(err == nil, "shadow-reopens")
		s.root, err = rd.Commitment("0.13.2")
		vx.Assert(err == nil, "shadow-root")
	} else {
		vx.Assert(s.legacy.Update(hdr, &core.StateUpdate{OldRoot: &old, StateDiff: diff}, nil, true) == nil, "shadow-update")
		var err error
		s.root, err = s.legacy.Commitment("0.13.2")
		vx.Assert(err == nil, "shadow-root")
	}
	return old, s.root
}

func vxSlotValue(name string) *felt.Felt {
	b := vx.FeltBytes(name)
	return new(felt.Felt).SetBytes(b[:])
}

func VxC08StateAtBlock() {
	vx.Bound("both state backends; chain of 3 blocks over contract A (slot values symbolic, non-zero) with contract B deployed in block 1; readers by number and by hash for blocks 0 and 1 taken while block 1 is the head, read again after block 2 is stored; a never-deployed address")
	vx.CollisionFree()
	newState := vx.Choice("backend", 2) == 1
	mem := memory.New()
	inner := core.NewAggregatedFilter(0)
	rf := core.NewRunningEventFilterHot(mem, &inner, 0)
	b := New(mem, rf, &networks.Sepolia, &pruner.RetentionFloor{}, newState)
	shadow := vxNewShadow(newState)
	a := felt.NewFromUint64[felt.Felt](0x1000)
	bAddr := felt.NewFromUint64[felt.Felt](0x2000)
	ghost := felt.NewFromUint64[felt.Felt](0x3000)
	slot := felt.NewFromUint64[felt.Felt](0x20)
	vals := []*felt.Felt{vxSlotValue("v0"), vxSlotValue("v1"), vxSlotValue("v2")}
	vx.Assume(!vals[0].IsZero() && !vals[1].IsZero() && !vals[2].IsZero())
	classA, classB := felt.NewFromUint64[felt.Felt](0xAA), felt.NewFromUint64[felt.Felt](0xBB)
	hashes := []*felt.Felt{felt.NewFromUint64[felt.Felt](0x100), felt.NewFromUint64[felt.Felt](0x101), felt.NewFromUint64[felt.Felt](0x102)}
	store := func(n int) {
		diff := core.EmptyStateDiff()
		diff.StorageDiffs[*a] = map[felt.Felt]*felt.Felt{*slot: vals[n]}
		if n == 0 {
			diff.DeployedContracts[*a] = classA
		}
		if n == 1 {
			diff.DeployedContracts[*bAddr] = classB
		}
		oldR, newR := shadow.apply(uint64(n), &diff)
		parent := &felt.Zero
		if n > 0 {
			parent = hashes[n-1]
		}
		blk := &core.Block{Header: &core.Header{Number: uint64(n), Hash: hashes[n], ParentHash: parent, GlobalStateRoot: &newR, ProtocolVersion: "0.13.2"}}
		su := &core.StateUpdate{BlockHash: hashes[n], OldRoot: &oldR, NewRoot: &newR, StateDiff: &diff}
		vx.Assert(b.Store(blk, &core.BlockCommitments{}, su, nil) == nil, "block-stores")
	}
	check := func(r core.StateReader, n int, label string) {
		v, err := r.ContractStorage(a, slot)
		vx.Assert(err == nil && v.Equal(vals[n]), label)
		_, berr := r.ContractClassHash(bAddr)
		vx.Assert((berr == nil) == (n >= 1), "contract-found-iff-deployed-as-of-the-block")
		_, gerr := r.ContractStorage(ghost, slot)
		vx.Assert(errors.Is(gerr, db.ErrKeyNotFound), "never-deployed-contract-is-not-found")
	}
	store(0)
	store(1)
	// block 1 is the head
	type rd struct {
		r core.StateReader
		n int
	}
	var readers []rd
	for n := 0; n <= 1; n++ {
		rn, _, err := b.StateAtBlockNumber(uint64(n))
		vx.Assert(err == nil, "state-by-number-opens")
		rh, _, err2 := b.StateAtBlockHash(hashes[n])
		vx.Assert(err2 == nil, "state-by-hash-opens")
		check(rn, n, "state-by-number-answers-as-of-that-block")
		check(rh, n, "state-by-hash-answers-as-of-that-block")
		readers = append(readers, rd{rn, n}, rd{rh, n})
	}
	_, _, e2 := b.StateAtBlockNumber(2)
	vx.Assert(e2 != nil, "state-of-a-block-beyond-the-head-is-not-found")
	store(2)
	for _, x := range readers {
		check(x.r, x.n, "reader-unaffected-by-a-later-block")
	}
}

// C08 after a reorg: the answers describe the chain the node holds NOW. Block 0 deploys A with a nonce
// and a slot value; block 1 changes nonce, slot and A's class; block 1 is reverted and replaced by a block
// that only writes the slot, and a further block is stored on top. Reads at block 1 (by number and by hash
// of the replacement) must answer the nonce and class of block 0 and the replacement's slot value - never
// a value of the block that was reverted - and reads at the head agree with the head state.
func VxC08StateAtBlockAfterReorg() {
	vx.Bound("both state backends; block 0 deploys A (nonce, slot, class); block 1 writes nonce, slot and replaces the class; revert of block 1; replacement block 1' writes the slot only; block 2' writes the slot; all written values symbolic and non-zero; reads at blocks 0, 1, 2 by number and by hash")
	vx.CollisionFree()
	newState := vx.Choice("backend", 2) == 1
	mem := memory.New()
	inner := core.NewAggregatedFilter(0)
	rf := core.NewRunningEventFilterHot(mem, &inner, 0)
	b := New(mem, rf, &networks.Sepolia, &pruner.RetentionFloor{}, newState)
	a := felt.NewFromUint64[felt.Felt](0x1000)
	slot := felt.NewFromUint64[felt.Felt](0x20)
	nz := func(name string) *felt.Felt {
		v := vxSlotValue(name)
		vx.Assume(!v.IsZero())
		return v
	}
	n0, n1 := nz("nonce0"), nz("nonce1")
	v0, v1, v1r, v2r := nz("v0"), nz("v1"), nz("v1r"), nz("v2r")
	classA, classA2 := felt.NewFromUint64[felt.Felt](0xAA), felt.NewFromUint64[felt.Felt](0xAB)
	h0, h1, h1r, h2r := felt.NewFromUint64[felt.Felt](0x100), felt.NewFromUint64[felt.Felt](0x101), felt.NewFromUint64[felt.Felt](0x201), felt.NewFromUint64[felt.Felt](0x202)

	d0 := core.EmptyStateDiff()
	d0.DeployedContracts[*a] = classA
	d0.Nonces[*a] = n0
	d0.StorageDiffs[*a] = map[felt.Felt]*felt.Felt{*slot: v0}
	d1 := core.EmptyStateDiff()
	d1.Nonces[*a] = n1
	d1.ReplacedClasses[*a] = classA2
	d1.StorageDiffs[*a] = map[felt.Felt]*felt.Felt{*slot: v1}
	d1r := core.EmptyStateDiff()
	d1r.StorageDiffs[*a] = map[felt.Felt]*felt.Felt{*slot: v1r}
	d2r := core.EmptyStateDiff()
	d2r.StorageDiffs[*a] = map[felt.Felt]*felt.Felt{*slot: v2r}

	put := func(sh *vxShadow, n uint64, hash, parent *felt.Felt, diff *core.StateDiff, store bool) {
		oldR, newR := sh.apply(n, diff)
		if !store {
			return
		}
		blk := &core.Block{Header: &core.Header{Number: n, Hash: hash, ParentHash: parent, GlobalStateRoot: &newR, ProtocolVersion: "0.13.2"}}
		su := &core.StateUpdate{BlockHash: hash, OldRoot: &oldR, NewRoot: &newR, StateDiff: diff}
		vx.Assert(b.Store(blk, &core.BlockCommitments{}, su, nil) == nil, "block-stores")
	}
	// first fork
	shA := vxNewShadow(newState)
	put(shA, 0, h0, &felt.Zero, &d0, true)
	put(shA, 1, h1, h0, &d1, true)
	vx.Assert(b.RevertHead() == nil, "revert-ok")
	// second fork: roots from a fresh shadow that never saw block 1
	shB := vxNewShadow(newState)
	put(shB, 0, h0, &felt.Zero, &d0, false)
	put(shB, 1, h1r, h0, &d1r, true)
	put(shB, 2, h2r, h1r, &d2r, true)

	type want struct {
		nonce, val, class *felt.Felt
	}
	wants := []want{{n0, v0, classA}, {n0, v1r, classA}, {n0, v2r, classA}}
	hashes := []*felt.Felt{h0, h1r, h2r}
	for n := 0; n <= 2; n++ {
		for byHash := 0; byHash < 2; byHash++ {
			var r core.StateReader
			var err error
			if byHash == 1 {
				r, _, err = b.StateAtBlockHash(hashes[n])
			} else {
				r, _, err = b.StateAtBlockNumber(uint64(n))
			}
			vx.Assert(err == nil, "state-opens")
			if err != nil {
				continue
			}
			gn, e1 := r.ContractNonce(a)
			gv, e2 := r.ContractStorage(a, slot)
			gc, e3 := r.ContractClassHash(a)
			vx.Assert(e1 == nil && e2 == nil && e3 == nil, "reads-ok")
			vx.Assert(gn.Equal(wants[n].nonce), "nonce-is-that-of-the-chain-held-now")
			vx.Assert(gv.Equal(wants[n].val), "slot-is-that-of-the-chain-held-now")
			vx.Assert(gc.Equal(wants[n].class), "class-hash-is-that-of-the-chain-held-now")
		}
	}
	_, _, gone := b.StateAtBlockHash(h1)
	vx.Assert(gone != nil, "reverted-block-is-not-addressable-by-hash")
}
