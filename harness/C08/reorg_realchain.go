//vx:pkg blockchain
//vx:include ../C09/reorgcache.go
package blockchain

import (
	"github.com/NethermindEth/juno/core"
	"github.com/NethermindEth/juno/core/felt"
	"github.com/NethermindEth/juno/db/memory"
	"github.com/NethermindEth/juno/zzverif/vx"
)

// C08-H8 / C07-H6 (the real Blockchain behind the RPC handlers, around a reorg, with reads before it):
// "every read answers from the chain the node holds now". Two blocks are stored on top of a base header,
// every accessor of blockchain.Reader that names a block by hash or by number (and the transaction /
// receipt accessors) is optionally called once - anything the node caches gets warm -, the head or both
// blocks are reverted and replaced by blocks with other hashes and other transactions, and then every
// accessor is asked again: a reverted hash (block or transaction) is not found by any accessor, a height
// answers with the replacement block by every accessor (the cheap projections - hash by number, receipt's
// block hash - agree with the full header), and the replacement's hashes resolve to it.

func vxReadEverything(f *vxFork, from, to uint64, hashes []*felt.Felt) {
	bc := f.bc
	for n := from; n <= to; n++ {
		_, _ = bc.BlockByNumber(n)
		_, _ = bc.BlockHeaderByNumber(n)
		_, _ = bc.BlockHeaderHashByNumber(n)
		_, _ = bc.BlockTransactionCountByNumber(n)
		_, _ = bc.StateUpdateByNumber(n)
		_, _ = bc.TransactionsByBlockNumber(n)
		_, _, _, _ = bc.TransactionAndReceiptByBlockNumberAndIndex(n, 0)
		th := felt.NewFromUint64[felt.Felt](7000 + n)
		_, _ = bc.TransactionByHash(th)
		_, _, _, _ = bc.Receipt(th)
		_, _, _ = bc.BlockNumberAndIndexByTxHash((*felt.TransactionHash)(th))
	}
	for _, h := range hashes {
		_, _ = bc.BlockByHash(h)
		_, _ = bc.BlockHeaderByHash(h)
		_, _ = bc.BlockNumberByHash(h)
		_, _ = bc.StateUpdateByHash(h)
	}
}

func (f *vxFork) storeTx(emitter *felt.Felt, tag string, txBase uint64) {
	n := f.base + uint64(len(f.hashes))
	hb := vx.FeltBytes(tag)
	hash := new(felt.Felt).SetBytes(hb[:])
	vx.Assume(!hash.IsZero())
	txHash := felt.NewFromUint64[felt.Felt](txBase + n)
	receipts := []*core.TransactionReceipt{{TransactionHash: txHash, Fee: &felt.Zero, Events: []*core.Event{{From: emitter}}}}
	txs := []core.Transaction{&core.InvokeTransaction{TransactionHash: txHash, Version: new(core.TransactionVersion).SetUint64(1)}}
	parent := f.hashes[len(f.hashes)-1]
	block := &core.Block{
		Header: &core.Header{Number: n, Hash: hash, ParentHash: parent, ProtocolVersion: "0.13.2",
			TransactionCount: 1, EventCount: 1, EventsBloom: core.EventsBloom(receipts)},
		Transactions: txs, Receipts: receipts,
	}
	diff := core.EmptyStateDiff()
	su := &core.StateUpdate{BlockHash: hash, OldRoot: &felt.Zero, NewRoot: &felt.Zero, StateDiff: &diff}
	vx.Assert(f.bc.stateBackend.Store(block, &core.BlockCommitments{}, su, nil) == nil, "store-ok")
	f.hashes = append(f.hashes, hash)
}

func VxC08ReadsAfterReorgOnTheRealBlockchain() {
	vx.Bound("real Blockchain on the memory store; base header at height 5; fork A: blocks 6 and 7 (one transaction with one event each, block hashes symbolic and distinct); optionally every by-hash / by-number / transaction accessor is called once; reorg of depth 1..2; fork B: replacement blocks with other (symbolic) hashes and other transaction hashes; every accessor asked again")
	mem := memory.New()
	const base = uint64(5)
	ph := vx.FeltBytes("h.base")
	baseHash := new(felt.Felt).SetBytes(ph[:])
	vx.Assume(!baseHash.IsZero())
	vx.Assert(core.WriteBlockHeader(mem, &core.Header{Number: base, Hash: baseHash, ProtocolVersion: "0.13.2", EventsBloom: core.EventsBloom(nil)}) == nil &&
		core.WriteChainHeight(mem, base) == nil, "setup")
	f := &vxFork{bc: vxBC(mem, base+1), hashes: []*felt.Felt{baseHash}, base: base}
	a := felt.NewFromUint64[felt.Felt](0xA)
	f.storeTx(a, "h.forkA", 7000)
	f.storeTx(a, "h.forkA", 7000)
	vx.Assume(!f.hashes[1].Equal(f.hashes[2]) && !f.hashes[1].Equal(baseHash) && !f.hashes[2].Equal(baseHash))
	oldHashes := []*felt.Felt{f.hashes[1], f.hashes[2]}
	if vx.Choice("readsBeforeTheReorg", 2) == 1 {
		vxReadEverything(f, base+1, base+2, oldHashes)
		vx.Cover("every-accessor-called-before-the-reorg")
	}
	depth := 1 + vx.Choice("depth", 2)
	for i := 0; i < depth; i++ {
		f.revert()
	}
	for i := 0; i < depth; i++ {
		f.storeTx(a, "h.forkB", 9000)
	}
	for _, h := range f.hashes[1:] {
		for _, o := range oldHashes[2-depth:] {
			vx.Assume(!h.Equal(o))
		}
	}
	vx.Assume(!f.hashes[1].Equal(f.hashes[2]) && !f.hashes[1].Equal(baseHash) && !f.hashes[2].Equal(baseHash))
	bc := f.bc
	// reverted block hashes and transaction hashes are gone for every accessor
	for i := 2 - depth; i < 2; i++ {
		o := oldHashes[i]
		_, e1 := bc.BlockByHash(o)
		_, e2 := bc.BlockHeaderByHash(o)
		_, e3 := bc.BlockNumberByHash(o)
		_, e4 := bc.StateUpdateByHash(o)
		vx.Assert(e1 != nil && e2 != nil && e3 != nil && e4 != nil, "reverted-block-hash-is-not-found-by-any-accessor")
		th := felt.NewFromUint64[felt.Felt](7000 + base + 1 + uint64(i))
		_, e5 := bc.TransactionByHash(th)
		_, _, _, e6 := bc.Receipt(th)
		_, _, e7 := bc.BlockNumberAndIndexByTxHash((*felt.TransactionHash)(th))
		vx.Assert(e5 != nil && e6 != nil && e7 != nil, "reverted-transaction-hash-is-not-found-by-any-accessor")
	}
	// every height answers with the block stored there now, by every accessor
	for i := uint64(1); i <= 2; i++ {
		n := base + i
		want := f.hashes[i]
		wantTx := felt.NewFromUint64[felt.Felt](7000 + n)
		if i > uint64(2-depth) {
			wantTx = felt.NewFromUint64[felt.Felt](9000 + n)
		}
		blk, e1 := bc.BlockByNumber(n)
		hd, e2 := bc.BlockHeaderByNumber(n)
		hh, e3 := bc.BlockHeaderHashByNumber(n)
		su, e4 := bc.StateUpdateByNumber(n)
		vx.Assert(e1 == nil && e2 == nil && e3 == nil && e4 == nil, "height-readable")
		if e1 != nil || e2 != nil || e3 != nil || e4 != nil {
			return
		}
		vx.Assert(blk.Hash.Equal(want) && hd.Hash.Equal(want) && hh.Equal(want) && su.BlockHash.Equal(want), "height-answers-with-the-block-held-now-by-every-accessor")
		vx.Assert(len(blk.Transactions) == 1 && blk.Transactions[0].Hash().Equal(wantTx), "block-by-number-carries-the-transactions-held-now")
		tx, rc, bh, e5 := bc.TransactionAndReceiptByBlockNumberAndIndex(n, 0)
		vx.Assert(e5 == nil && tx.Hash().Equal(wantTx) && rc.TransactionHash.Equal(wantTx) && bh.Equal(want), "transaction-and-receipt-by-index-name-the-block-held-now")
		rc2, bh2, bn2, e6 := bc.Receipt(wantTx)
		vx.Assert(e6 == nil && rc2.TransactionHash.Equal(wantTx) && bh2.Equal(want) && bn2 == n, "receipt-names-the-block-held-now")
		bn3, ix3, e7 := bc.BlockNumberAndIndexByTxHash((*felt.TransactionHash)(wantTx))
		vx.Assert(e7 == nil && bn3 == n && ix3 == 0, "transaction-hash-resolves-to-its-block-and-index")
		b2, e8 := bc.BlockByHash(want)
		h2, e9 := bc.BlockHeaderByHash(want)
		n2, e10 := bc.BlockNumberByHash(want)
		s2, e11 := bc.StateUpdateByHash(want)
		vx.Assert(e8 == nil && e9 == nil && e10 == nil && e11 == nil && b2.Number == n && h2.Number == n && n2 == n && s2.BlockHash.Equal(want), "hash-of-the-block-held-now-resolves-to-it")
	}
	hgt, herr := bc.Height()
	vx.Assert(herr == nil && hgt == base+2, "height-is-the-head")
}
