//vx:pkg rpc/v10
//vx:also rpc/v9 rpcv9
//vx:include model.go
package rpcv10

import (
	"github.com/NethermindEth/juno/core/felt"
	"github.com/NethermindEth/juno/rpc/rpccore"
	"github.com/NethermindEth/juno/zzverif/vx"
)

// C08-H9: an answer is a function of the chain and the request - not of the requests served before.
// (The error values the handlers return are process-wide objects shared by all API versions; a handler that
// adjusts one in place changes every later answer.) On the model chain a probe request that misses (class
// by hash, nonce of an undeployed contract, class hash of an undeployed contract, block by an absent number)
// is answered, then ONE other request is served - among them getClassAt for a deployed contract whose class
// has no definition, which maps a class miss to CONTRACT_NOT_FOUND -, then the probe is asked again: same
// code, same message; and the shared error values still carry the codes of the specification.
func VxC08AnswersDoNotDependOnRequestHistory() {
	vx.Bound("model chain of 1..2 blocks (probe contract deployed in the head or not, no class declared); probe in {getClass, getNonce, getClassHashAt, getBlockTransactionCount(absent number)}; one request in between from {getClassAt, getClass, getNonce, getClassHashAt, getBlockWithTxHashes(absent number)}; probe repeated")
	c := &vxChain{}
	nb := 1 + vx.Choice("blocks", 2)
	for i := 0; i < nb; i++ {
		b := vxBlock{hash: vxFeltIn("hash"), nonce: vxFeltIn("nonce")}
		for j := range c.blocks {
			vx.Assume(!c.blocks[j].hash.Equal(&b.hash))
		}
		c.blocks = append(c.blocks, b)
	}
	c.blocks[nb-1].deployed = vx.Bool("probe-contract-deployed-in-the-head")
	h := New(c, nil, nil, nil)
	latest := BlockIDLatest()
	absent := BlockIDFromNumber(uint64(nb) + vx.U64("beyond")%4)
	addr := felt.NewFromUint64[felt.Felt](0x1000)
	ch := felt.NewFromUint64[felt.Felt](0xdead)
	type ans struct {
		code int
		msg  string
		ok   bool
	}
	probeKind := vx.Choice("probe", 4)
	probe := func() ans {
		switch probeKind {
		case 0:
			_, e := h.Class(&latest, ch)
			if e != nil {
				return ans{e.Code, e.Message, false}
			}
		case 1:
			_, e := h.Nonce(&latest, addr)
			if e != nil {
				return ans{e.Code, e.Message, false}
			}
		case 2:
			_, e := h.ClassHashAt(&latest, addr)
			if e != nil {
				return ans{e.Code, e.Message, false}
			}
		default:
			_, e := h.BlockTransactionCount(&absent)
			if e != nil {
				return ans{e.Code, e.Message, false}
			}
		}
		return ans{ok: true}
	}
	first := probe()
	switch vx.Choice("request-in-between", 5) {
	case 0:
		_, e := h.ClassAt(&latest, addr)
		if c.blocks[nb-1].deployed {
			vx.Cover("class-at-for-a-contract-whose-class-has-no-definition")
			vx.Assert(e != nil && e.Code == 20, "class-at-without-definition-is-contract-not-found")
		}
	case 1:
		_, _ = h.Class(&latest, ch)
	case 2:
		_, _ = h.Nonce(&latest, addr)
	case 3:
		_, _ = h.ClassHashAt(&latest, addr)
	default:
		_, _ = h.BlockWithTxHashes(&absent)
	}
	second := probe()
	vx.Assert(first.ok == second.ok && first.code == second.code && first.msg == second.msg, "same-request-same-answer-whatever-was-served-in-between")
	vx.Assert(rpccore.ErrBlockNotFound.Code == 24 && rpccore.ErrContractNotFound.Code == 20 && rpccore.ErrClassHashNotFound.Code == 28,
		"shared-error-values-keep-the-codes-of-the-specification")
	if probeKind == 0 {
		vx.Assert(!first.ok && first.code == 28, "class-miss-is-class-hash-not-found")
	}
}
