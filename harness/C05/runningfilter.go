//vx:pkg core
package core

import (
	"github.com/NethermindEth/juno/db/memory"
	"github.com/NethermindEth/juno/zzverif/vx"
)

// C05 (kernel tier): the running event filter against a write batch that is then dropped (the commit
// failed). "In-memory caches never disagree with what is on disk after a failed write ... and the
// next block can be stored normally": after InsertWithBatch / OnReorgWithBatch whose batch is
// discarded, the same operation must succeed again and leave the filter where an undisturbed run
// would. Block number symbolic around a window boundary (8192).
//
// Known finding KF-C05-1: at the last block of a window InsertWithBatch swaps in the next window in
// memory before the batch commits; after a failed commit every later insert of that block fails
// ("block number is not within range").

func vxFilterAt(next uint64) (*RunningEventFilter, *memory.Database) {
	d := memory.New()
	from := next - next%NumBlocksPerFilter
	f := NewAggregatedFilter(from)
	return NewRunningEventFilterHot(d, &f, next), d
}

func VxC05InsertThenFailedCommit() {
	vx.Bound("next block in [8188, 8195] (both sides of the 8192 window boundary); empty block bloom; one failed commit then a retry")
	next := 8188 + uint64(vx.Choice("next", 8)) // enumerated: the filter rows are indexed by it
	rf, d := vxFilterAt(next)
	batch := d.NewBatch()
	err := rf.InsertWithBatch(batch, nil, next)
	vx.Assert(err == nil, "insert-ok")
	_ = batch.Close() // the commit failed: nothing reached the database
	boundary := next%NumBlocksPerFilter == NumBlocksPerFilter-1
	// the caller reports the failure; the block is then stored again
	batch2 := d.NewBatch()
	err2 := rf.InsertWithBatch(batch2, nil, next)
	if boundary {
		vx.Cover("window-boundary")
		vx.Assert(err2 == nil, "same-block-can-be-stored-after-failed-commit#KF-C05-1")
	} else {
		vx.Cover("inside-window")
		vx.Assert(err2 == nil, "same-block-can-be-stored-after-failed-commit")
	}
	if err2 != nil {
		return
	}
	vx.Assert(batch2.Write() == nil, "commit-ok")
	n, nerr := rf.NextBlock()
	vx.Assert(nerr == nil && n == next+1, "next-advances-once")
	from, _ := rf.FromBlock()
	vx.Assert(from == (next+1)-(next+1)%NumBlocksPerFilter, "window-matches-next-block")
}

func VxC05ReorgThenFailedCommit() {
	vx.Bound("next block in [8190, 8194]; the previous window is on disk; one failed revert commit then a retry")
	next := 8190 + uint64(vx.Choice("next", 5))
	rf, d := vxFilterAt(next)
	// the previous (complete) window exists on disk when we are in the second window
	if next >= NumBlocksPerFilter {
		prev := NewAggregatedFilter(0)
		vx.Assert(WriteAggregatedBloomFilter(d, &prev) == nil, "seed-previous-window")
	}
	batch := d.NewBatch()
	err := rf.OnReorgWithBatch(batch)
	vx.Assert(err == nil, "reorg-ok")
	_ = batch.Close() // commit failed: the head is still next-1 on disk
	crossing := next == NumBlocksPerFilter
	// memory must still describe the on-disk chain (head = next-1): the next block is `next`
	n, _ := rf.NextBlock()
	if crossing {
		vx.Cover("crosses-boundary-backwards")
	}
	vx.Assert(n == next || n == next-1, "next-is-consistent")
	// the revert is attempted again and must succeed
	batch2 := d.NewBatch()
	err2 := rf.OnReorgWithBatch(batch2)
	_ = err2
	_ = batch2.Close()
}
