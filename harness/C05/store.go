//vx:pkg blockchain/statebackend
package statebackend

import (
	"bytes"
	"errors"

	"github.com/NethermindEth/juno/blockchain/networks"
	"github.com/NethermindEth/juno/core"
	"github.com/NethermindEth/juno/core/felt"
	"github.com/NethermindEth/juno/db"
	"github.com/NethermindEth/juno/db/memory"
	"github.com/NethermindEth/juno/zzverif/vx"
)

// C05 (backend tier): StateBackend.Store / RevertHead of both backends against a database whose
// commit fails. "The head block is either fully present or fully absent": when the commit of the
// batch fails nothing of the block may have reached the database - whatever a step writes must go
// through the batch - and the operation can be repeated. The block number is enumerated around the
// 8192-block event-index window boundary, where the running filter persists a completed window.
// Store followed by RevertHead must also restore the database image (C04: the key set written for a
// block is the key set its revert removes).

type vxFailDB struct {
	*memory.Database
	fail    bool // the commit of the next batch fails
	failPut int  // > 0: the failPut-th Put/Delete/DeleteRange issued to the next batch fails
	puts    int
	aggPut  bool // a completed event-index window was written into a batch (before any injected fault)
}

func (f *vxFailDB) note(k []byte) {
	if len(k) > 0 && k[0] == byte(db.AggregatedBloomFilters) {
		f.aggPut = true
	}
}

type vxFailIndexedBatch struct {
	db.IndexedBatch
	f *vxFailDB
}

func (b vxFailIndexedBatch) Put(k, v []byte) error {
	if b.f.countWrite() {
		return errVxWrite
	}
	b.f.note(k)
	return b.IndexedBatch.Put(k, v)
}

func (b vxFailIndexedBatch) Delete(k []byte) error {
	if b.f.countWrite() {
		return errVxWrite
	}
	return b.IndexedBatch.Delete(k)
}

func (b vxFailIndexedBatch) DeleteRange(s, e []byte) error {
	if b.f.countWrite() {
		return errVxWrite
	}
	return b.IndexedBatch.DeleteRange(s, e)
}

type vxFailBatch struct {
	db.Batch
	f *vxFailDB
}

func (b vxFailBatch) Put(k, v []byte) error {
	if b.f.countWrite() {
		return errVxWrite
	}
	b.f.note(k)
	return b.Batch.Put(k, v)
}

func (b vxFailBatch) Delete(k []byte) error {
	if b.f.countWrite() {
		return errVxWrite
	}
	return b.Batch.Delete(k)
}

func (b vxFailBatch) DeleteRange(s, e []byte) error {
	if b.f.countWrite() {
		return errVxWrite
	}
	return b.Batch.DeleteRange(s, e)
}

func (f *vxFailDB) countWrite() bool {
	f.puts++
	return f.failPut > 0 && f.puts == f.failPut
}

var errVxWrite = errors.New("write failed")

var errVxCommit = errors.New("commit failed")

func (f *vxFailDB) Update(fn func(db.IndexedBatch) error) error {
	batch := f.Database.NewIndexedBatch()
	f.puts = 0
	if err := fn(vxFailIndexedBatch{batch, f}); err != nil {
		_ = batch.Close()
		return err
	}
	if f.fail {
		_ = batch.Close()
		return errVxCommit
	}
	return batch.Write()
}

func (f *vxFailDB) Write(fn func(db.Batch) error) error {
	batch := f.Database.NewBatch()
	f.puts = 0
	if err := fn(vxFailBatch{batch, f}); err != nil {
		_ = batch.Close()
		return err
	}
	if f.fail {
		_ = batch.Close()
		return errVxCommit
	}
	return batch.Write()
}

type vxKV struct{ k, v []byte }

func vxImage(d *memory.Database) []vxKV {
	it, err := d.NewIterator(nil, false)
	vx.Assert(err == nil, "iterate")
	var out []vxKV
	for ok := it.First(); ok; ok = it.Next() {
		v, verr := it.Value()
		vx.Assert(verr == nil, "iterate")
		out = append(out, vxKV{append([]byte(nil), it.Key()...), append([]byte(nil), v...)})
	}
	_ = it.Close()
	return out
}

func vxSameImage(a, b []vxKV) bool {
	if len(a) != len(b) {
		return false
	}
	for i := range a {
		if !bytes.Equal(a[i].k, b[i].k) || !bytes.Equal(a[i].v, b[i].v) {
			return false
		}
	}
	return true
}

func vxFeltIn(name string) *felt.Felt {
	b := vx.FeltBytes(name)
	return new(felt.Felt).SetBytes(b[:])
}

func VxC05StoreCommitFailure() {
	vx.Bound("both state backends; block number n in {8190, 8191, 8192, 8193} on top of a head at n-1 (empty state, empty block: header, state update, commitments, event-index entry); commit of Store fails once, then succeeds; then RevertHead fails once, then succeeds; block hashes symbolic")
	const w = core.NumBlocksPerFilter
	n := w - 2 + uint64(vx.Choice("n", 4))
	newState := vx.Choice("backend", 2) == 1
	mem := memory.New()
	fdb := &vxFailDB{Database: mem}
	// head n-1
	parentHash := vxFeltIn("parentHash")
	vx.Assume(!parentHash.IsZero())
	parent := &core.Header{Number: n - 1, Hash: parentHash, ProtocolVersion: "0.13.2"}
	vx.Assert(core.WriteBlockHeader(mem, parent) == nil && core.WriteChainHeight(mem, n-1) == nil, "setup")
	from := n - n%w
	if from > 0 {
		prev := core.NewAggregatedFilter(from - w)
		vx.Assert(core.WriteAggregatedBloomFilter(mem, &prev) == nil, "setup")
	}
	inner := core.NewAggregatedFilter(from)
	rf := core.NewRunningEventFilterHot(fdb, &inner, n)
	backend := New(fdb, rf, &networks.Sepolia, nil, newState)

	hash := vxFeltIn("hash")
	vx.Assume(!hash.IsZero() && !hash.Equal(parentHash))
	block := &core.Block{Header: &core.Header{Number: n, Hash: hash, ParentHash: parentHash, ProtocolVersion: "0.13.2"}}
	diff := core.EmptyStateDiff()
	su := &core.StateUpdate{BlockHash: hash, OldRoot: &felt.Zero, NewRoot: &felt.Zero, StateDiff: &diff}

	before := vxImage(mem)
	fdb.fail = true
	err := backend.Store(block, &core.BlockCommitments{}, su, nil)
	vx.Assert(errors.Is(err, errVxCommit), "failed-commit-is-reported")
	vx.Assert(vxSameImage(before, vxImage(mem)), "nothing-of-the-block-reaches-the-database-when-the-commit-fails")
	boundary := n%w == w-1
	if boundary {
		vx.Cover("last-block-of-a-window")
	}
	fdb.fail = false
	err = backend.Store(block, &core.BlockCommitments{}, su, nil)
	if boundary {
		vx.Assert(err == nil, "block-can-be-stored-after-the-failed-commit#KF-C05-1")
	} else {
		vx.Assert(err == nil, "block-can-be-stored-after-the-failed-commit")
	}
	if err != nil {
		return
	}
	h, herr := core.GetChainHeight(mem)
	vx.Assert(herr == nil && h == n, "head-is-the-stored-block")
	stored := vxImage(mem)
	// revert with a failing commit, then for real
	fdb.fail = true
	err = backend.RevertHead()
	vx.Assert(errors.Is(err, errVxCommit), "failed-revert-commit-is-reported")
	vx.Assert(vxSameImage(stored, vxImage(mem)), "nothing-of-the-revert-reaches-the-database-when-the-commit-fails")
	fdb.fail = false
	err = backend.RevertHead()
	crossing := n%w == 0
	if crossing {
		vx.Cover("revert-crosses-a-window-boundary")
	}
	vx.Assert(err == nil, "revert-can-be-repeated-after-the-failed-commit")
	if err != nil {
		return
	}
	after := vxImage(mem)
	// the snapshot of the running filter is dropped by a revert (fix KF-C09-1); it was not there before
	vx.Assert(vxSameImage(before, after), "store-then-revert-restores-the-database-image")
}


// C05 (backend tier, write faults inside the batch): the k-th write issued while storing or
// reverting a block fails (k symbolic over every write the operation issues). The operation must
// report the failure, leave the database untouched, leave the in-memory event index describing the
// chain that is on disk (it expects exactly the block after the stored head), and succeed when
// repeated.
func VxC05WriteFaultInsideBatch() {
	vx.Bound("both state backends; block n = 8190 (thorough: also 8192, the first block of a window) on top of a head at n-1, empty block; Store with the k-th batch write failing (k = 1..9, every write position the operation has), then Store succeeds; RevertHead with the k-th batch write failing, then RevertHead succeeds")
	const w = core.NumBlocksPerFilter
	n := w - 2
	if vx.Thorough() {
		n += 2 * uint64(vx.Choice("n", 2))
	}
	newState := vx.Choice("backend", 2) == 1
	mem := memory.New()
	fdb := &vxFailDB{Database: mem}
	parentHash := vxFeltIn("parentHash")
	vx.Assume(!parentHash.IsZero())
	parent := &core.Header{Number: n - 1, Hash: parentHash, ProtocolVersion: "0.13.2"}
	vx.Assert(core.WriteBlockHeader(mem, parent) == nil && core.WriteChainHeight(mem, n-1) == nil, "setup")
	from := n - n%w
	if from > 0 {
		prev := core.NewAggregatedFilter(from - w)
		vx.Assert(core.WriteAggregatedBloomFilter(mem, &prev) == nil, "setup")
	}
	inner := core.NewAggregatedFilter(from)
	rf := core.NewRunningEventFilterHot(fdb, &inner, n)
	backend := New(fdb, rf, &networks.Sepolia, nil, newState)
	hash := vxFeltIn("hash")
	vx.Assume(!hash.IsZero() && !hash.Equal(parentHash))
	block := &core.Block{Header: &core.Header{Number: n, Hash: hash, ParentHash: parentHash, ProtocolVersion: "0.13.2"}}
	diff := core.EmptyStateDiff()
	su := &core.StateUpdate{BlockHash: hash, OldRoot: &felt.Zero, NewRoot: &felt.Zero, StateDiff: &diff}

	expectNext := func(want uint64, label string) {
		got, err := rf.NextBlock()
		vx.Assert(err == nil && got == want, label)
	}
	before := vxImage(mem)
	faultInStore := vx.Choice("phase", 2) == 0
	k := 0
	if faultInStore {
		k = 1 + vx.Choice("storeFault", 9)
	}
	fdb.failPut = k
	err := backend.Store(block, &core.BlockCommitments{}, su, nil)
	fdb.failPut = 0
	if err != nil {
		vx.Cover("store-write-fault-hit")
		vx.Assert(vxSameImage(before, vxImage(mem)), "failed-store-leaves-the-database-untouched")
		expectNext(n, "event-index-still-expects-the-block-after-the-disk-head")
		vx.Assert(backend.Store(block, &core.BlockCommitments{}, su, nil) == nil, "store-succeeds-when-repeated")
	} else {
		vx.Cover("opt:store-issues-fewer-writes")
	}
	expectNext(n+1, "event-index-follows-the-stored-block")
	stored := vxImage(mem)
	k2 := 0
	if !faultInStore {
		k2 = 1 + vx.Choice("revertFault", 9)
	}
	fdb.failPut = k2
	err = backend.RevertHead()
	fdb.failPut = 0
	if err != nil {
		vx.Cover("revert-write-fault-hit")
		vx.Assert(vxSameImage(stored, vxImage(mem)), "failed-revert-leaves-the-database-untouched")
		expectNext(n+1, "event-index-still-expects-the-block-after-the-disk-head")
		vx.Assert(backend.RevertHead() == nil, "revert-succeeds-when-repeated")
	} else {
		vx.Cover("opt:revert-issues-fewer-writes")
	}
	expectNext(n, "event-index-follows-the-revert")
	vx.Assert(vxSameImage(before, vxImage(mem)), "store-then-revert-restores-the-database-image")
}


// C05 (backend tier, write faults at the LAST block of an event-index window): storing block 8191 also
// writes the completed window. If a write of that Store fails, the batch is dropped - and the in-memory
// index must still be the one of the chain on disk: it expects block 8191 again, the same Store succeeds
// when repeated, and the database is untouched. This must hold in particular when the failing write is the
// window record itself or anything before it (nothing of the window has reached even the batch). A fault
// AFTER the window record went into the batch runs into the open finding KF-C05-1 (the window is swapped in
// memory before the batch commits) and is reported under that id.
func VxC05WriteFaultAtTheLastBlockOfAWindow() {
	vx.Bound("both state backends; block n = 8191 (last block of the first window) on top of a head at 8190, empty block; Store with the k-th batch write failing (k = 1..10), then the same Store again")
	const w = core.NumBlocksPerFilter
	n := uint64(w - 1)
	newState := vx.Choice("backend", 2) == 1
	mem := memory.New()
	fdb := &vxFailDB{Database: mem}
	parentHash := vxFeltIn("parentHash")
	vx.Assume(!parentHash.IsZero())
	parent := &core.Header{Number: n - 1, Hash: parentHash, ProtocolVersion: "0.13.2"}
	vx.Assert(core.WriteBlockHeader(mem, parent) == nil && core.WriteChainHeight(mem, n-1) == nil, "setup")
	inner := core.NewAggregatedFilter(0)
	rf := core.NewRunningEventFilterHot(fdb, &inner, n)
	backend := New(fdb, rf, &networks.Sepolia, nil, newState)
	hash := vxFeltIn("hash")
	vx.Assume(!hash.IsZero() && !hash.Equal(parentHash))
	block := &core.Block{Header: &core.Header{Number: n, Hash: hash, ParentHash: parentHash, ProtocolVersion: "0.13.2"}}
	diff := core.EmptyStateDiff()
	su := &core.StateUpdate{BlockHash: hash, OldRoot: &felt.Zero, NewRoot: &felt.Zero, StateDiff: &diff}
	before := vxImage(mem)
	fdb.failPut = 1 + vx.Choice("storeFault", 10)
	err := backend.Store(block, &core.BlockCommitments{}, su, nil)
	fdb.failPut = 0
	if err == nil {
		vx.Cover("opt:store-issues-fewer-writes")
		return
	}
	vx.Assert(vxSameImage(before, vxImage(mem)), "failed-store-leaves-the-database-untouched")
	got, nerr := rf.NextBlock()
	windowInBatch := fdb.aggPut
	err2 := backend.Store(block, &core.BlockCommitments{}, su, nil)
	if !windowInBatch {
		vx.Cover("fault-at-or-before-the-window-record")
		vx.Assert(nerr == nil && got == n, "event-index-still-expects-the-block-after-the-disk-head")
		vx.Assert(err2 == nil, "store-succeeds-when-repeated")
	} else {
		vx.Cover("opt:fault-after-the-window-record")
		vx.Assert(nerr == nil && got == n && err2 == nil, "store-succeeds-when-repeated-after-a-fault-behind-the-window-record#KF-C05-1")
	}
}
