//vx:pkg blockchain/statebackend
package statebackend

import (
	"bytes"
	"errors"

	"github.com/NethermindEth/juno/blockchain/networks"
	"github.com/NethermindEth/juno/core"
	"github.com/NethermindEth/juno/core/felt"
	"github.com/NethermindEth/juno/db"
	"github.com/NethermindEth/juno/db/memory"
	"github.com/NethermindEth/juno/zzverif/vx"
)

// C05 (backend tier): StateBackend.Store / RevertHead of both backends against a database whose
// commit fails. "The head block is either fully present or fully absent": when the commit of the
// batch fails nothing of the block may have reached the database - whatever a step writes must go
// through the batch - and the operation can be repeated. The block number is enumerated around the
// 8192-block event-index window boundary, where the running filter persists a completed window.
// Store followed by RevertHead must also restore the database image (C04: the key set written for a
// block is the key set its revert removes).

type vxFailDB struct {
	*memory.Database
	fail bool
}

var errVxCommit = errors.New("commit failed")

func (f *vxFailDB) Update(fn func(db.IndexedBatch) error) error {
	batch := f.Database.NewIndexedBatch()
	if err := fn(batch); err != nil {
		return err
	}
	if f.fail {
		_ = batch.Close()
		return errVxCommit
	}
	return batch.Write()
}

func (f *vxFailDB) Write(fn func(db.Batch) error) error {
	batch := f.Database.NewBatch()
	if err := fn(batch); err != nil {
		return err
	}
	if f.fail {
		_ = batch.Close()
		return errVxCommit
	}
	return batch.Write()
}

type vxKV struct{ k, v []byte }

func vxImage(d *memory.Database) []vxKV {
	it, err := d.NewIterator(nil, false)
	vx.Assert(err == nil, "iterate")
	var out []vxKV
	for ok := it.First(); ok; ok = it.Next() {
		v, verr := it.Value()
		vx.Assert(verr == nil, "iterate")
		out = append(out, vxKV{append([]byte(nil), it.Key()...), append([]byte(nil), v...)})
	}
	_ = it.Close()
	return out
}

func vxSameImage(a, b []vxKV) bool {
	if len(a) != len(b) {
		return false
	}
	for i := range a {
		if !bytes.Equal(a[i].k, b[i].k) || !bytes.Equal(a[i].v, b[i].v) {
			return false
		}
	}
	return true
}

func vxFeltIn(name string) *felt.Felt {
	b := vx.FeltBytes(name)
	return new(felt.Felt).SetBytes(b[:])
}

func VxC05StoreCommitFailure() {
	vx.Bound("both state backends; block number n in {8190, 8191, 8192, 8193} on top of a head at n-1 (empty state, empty block: header, state update, commitments, event-index entry); commit of Store fails once, then succeeds; then RevertHead fails once, then succeeds; block hashes symbolic")
	const w = core.NumBlocksPerFilter
	n := w - 2 + uint64(vx.Choice("n", 4))
	newState := vx.Choice("backend", 2) == 1
	mem := memory.New()
	fdb := &vxFailDB{Database: mem}
	// head n-1
	parentHash := vxFeltIn("parentHash")
	vx.Assume(!parentHash.IsZero())
	parent := &core.Header{Number: n - 1, Hash: parentHash, ProtocolVersion: "0.13.2"}
	vx.Assert(core.WriteBlockHeader(mem, parent) == nil && core.WriteChainHeight(mem, n-1) == nil, "setup")
	from := n - n%w
	if from > 0 {
		prev := core.NewAggregatedFilter(from - w)
		vx.Assert(core.WriteAggregatedBloomFilter(mem, &prev) == nil, "setup")
	}
	inner := core.NewAggregatedFilter(from)
	rf := core.NewRunningEventFilterHot(fdb, &inner, n)
	backend := New(fdb, rf, &networks.Sepolia, nil, newState)

	hash := vxFeltIn("hash")
	vx.Assume(!hash.IsZero() && !hash.Equal(parentHash))
	block := &core.Block{Header: &core.Header{Number: n, Hash: hash, ParentHash: parentHash, ProtocolVersion: "0.13.2"}}
	diff := core.EmptyStateDiff()
	su := &core.StateUpdate{BlockHash: hash, OldRoot: &felt.Zero, NewRoot: &felt.Zero, StateDiff: &diff}

	before := vxImage(mem)
	fdb.fail = true
	err := backend.Store(block, &core.BlockCommitments{}, su, nil)
	vx.Assert(errors.Is(err, errVxCommit), "failed-commit-is-reported")
	vx.Assert(vxSameImage(before, vxImage(mem)), "nothing-of-the-block-reaches-the-database-when-the-commit-fails")
	boundary := n%w == w-1
	if boundary {
		vx.Cover("last-block-of-a-window")
	}
	fdb.fail = false
	err = backend.Store(block, &core.BlockCommitments{}, su, nil)
	if boundary {
		vx.Assert(err == nil, "block-can-be-stored-after-the-failed-commit#KF-C05-1")
	} else {
		vx.Assert(err == nil, "block-can-be-stored-after-the-failed-commit")
	}
	if err != nil {
		return
	}
	h, herr := core.GetChainHeight(mem)
	vx.Assert(herr == nil && h == n, "head-is-the-stored-block")
	stored := vxImage(mem)
	// revert with a failing commit, then for real
	fdb.fail = true
	err = backend.RevertHead()
	vx.Assert(errors.Is(err, errVxCommit), "failed-revert-commit-is-reported")
	vx.Assert(vxSameImage(stored, vxImage(mem)), "nothing-of-the-revert-reaches-the-database-when-the-commit-fails")
	fdb.fail = false
	err = backend.RevertHead()
	crossing := n%w == 0
	if crossing {
		vx.Cover("revert-crosses-a-window-boundary")
	}
	vx.Assert(err == nil, "revert-can-be-repeated-after-the-failed-commit")
	if err != nil {
		return
	}
	after := vxImage(mem)
	// the snapshot of the running filter is dropped by a revert (fix KF-C09-1); it was not there before
	vx.Assert(vxSameImage(before, after), "store-then-revert-restores-the-database-image")
}
