//vx:pkg pruner
//vx:include ../C09/pruner_restart.go
//vx:include ../C09/support_fillspec.go core core
package pruner

// C05-H5 on a pruning node: the restart after an interrupted Store followed by a graceful shutdown
// (snapshot ahead of the disk head) goes through pruner.InitializeRunningEventFilter. Scenario and
// assertions are those of C09-H3c (harness/C09/pruner_restart.go).
func VxC05PrunerRestartAfterInterruptedStore() {
	VxC09PrunerInitializeDecision()
}
