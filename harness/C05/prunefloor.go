//vx:pkg pruner
package pruner

import (
	"context"
	"errors"

	"github.com/NethermindEth/juno/core"
	"github.com/NethermindEth/juno/core/felt"
	"github.com/NethermindEth/juno/db"
	"github.com/NethermindEth/juno/db/memory"
	"github.com/NethermindEth/juno/utils/log"
	"github.com/NethermindEth/juno/zzverif/vx"
)

// C05-H4: a failed write during a prune never leaves the in-memory retention floor behind the disk.
// A prune is several commits (one hash-keyed sweep batch per block when the batch rotates, then the
// number-keyed range delete); the k-th commit fails (k symbolic, or none). Whatever happened, a block
// that the cached floor still admits for historical-state reads must also be admitted by the database
// probe readers use when no floor is cached (header by number and hash -> number mapping both present):
// the cache may be stricter than the disk, never more permissive.

type vxFailBatch struct {
	db.Batch
	st *vxFailState
}

type vxFailState struct{ writes, failAt int }

var errVxWrite = errors.New("injected write failure")

func (b vxFailBatch) Write() error {
	b.st.writes++
	if b.st.writes == b.st.failAt {
		return errVxWrite
	}
	return b.Batch.Write()
}

type vxFailStore struct {
	db.KeyValueStore
	st *vxFailState
}

func (s vxFailStore) NewBatch() db.Batch { return vxFailBatch{s.KeyValueStore.NewBatch(), s.st} }
func (s vxFailStore) NewBatchWithSize(n int) db.Batch {
	return vxFailBatch{s.KeyValueStore.NewBatchWithSize(n), s.st}
}

func VxC05FailedPruneKeepsFloorAheadOfDisk() {
	vx.Bound("4 stored blocks (header, hash mapping, state update, commitments, one transaction), floor seeded from the database; one Pruner.pruneUpto with a symbolic bound 0..4; batch rotated after every block or never; the k-th batch commit fails for k in 1..5, or none")
	const n = 4
	d := memory.New()
	hashes := make([]*felt.Felt, n)
	for b := 0; b < n; b++ {
		hashes[b] = felt.NewFromUint64[felt.Felt](0x4000 + uint64(b))
		num := uint64(b)
		tx := felt.NewFromUint64[felt.Felt](9000 + num)
		diff := core.EmptyStateDiff()
		if core.WriteBlockHeader(d, &core.Header{Number: num, Hash: hashes[b], ProtocolVersion: "0.13.2"}) != nil ||
			core.WriteStateUpdateByBlockNum(d, num, &core.StateUpdate{BlockHash: hashes[b], StateDiff: &diff}) != nil ||
			core.WriteBlockCommitment(d, num, &core.BlockCommitments{}) != nil ||
			core.WriteTransactionsAndReceipts(d, num,
				[]core.Transaction{&core.InvokeTransaction{TransactionHash: tx, Version: new(core.TransactionVersion).SetUint64(1)}},
				[]*core.TransactionReceipt{{TransactionHash: tx, Fee: &felt.Zero}}) != nil {
			vx.Assume(false)
		}
	}
	if core.WriteChainHeight(d, n-1) != nil {
		vx.Assume(false)
	}
	floor, ferr := NewRetentionFloor(d)
	vx.Assert(ferr == nil, "floor-seeded")
	st := &vxFailState{failAt: vx.Choice("fail-at", 6)}
	batchSize := 1
	if vx.Bool("neverRotate") {
		batchSize = 1 << 30
	}
	p := New(vxFailStore{d, st}, floor, 0, nil, nil, log.NewNopZapLogger(), WithTargetBatchByteSize(batchSize))
	end := vx.U64("end")
	vx.Assume(end <= n)
	err := p.pruneUpto(context.Background(), end)
	if err != nil {
		vx.Assert(errors.Is(err, errVxWrite), "prune-fails-only-with-the-injected-fault")
		vx.Cover("prune-failed")
		if st.failAt > 1 {
			vx.Cover("failed-after-an-earlier-commit")
		}
	} else {
		vx.Cover("prune-succeeded")
	}
	unseeded := &RetentionFloor{}
	for b := uint64(0); b < n; b++ {
		cached := RequireStateRetainedByBlockNumber(d, floor, b) == nil
		onDisk := RequireStateRetainedByBlockNumber(d, unseeded, b) == nil
		if cached {
			vx.Assert(onDisk, "cached-floor-never-admits-a-block-the-disk-has-lost")
		}
		if err == nil && b+1 >= end {
			vx.Assert(cached && onDisk, "successful-prune-keeps-state-from-the-block-below-the-bound")
		}
	}
}
