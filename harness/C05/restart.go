//vx:pkg core
//vx:include ../C09/restart.go
package core

// C05-H5: a commit that fails leaves memory ahead of the disk (KF-C05-1: at the last block of a window the
// in-memory event index has already rolled over). If the node is then shut down gracefully, that memory image
// is persisted as the shutdown snapshot, i.e. the next start finds a snapshot that is AHEAD of the chain head.
// Whatever snapshot the interrupted run left behind - none, caught up, behind, ahead of the head, in this or
// another window - the index handed to the restarted node must expect exactly the block after the disk head
// and cover the window holding it, so that the block whose commit failed can be stored after the restart.
// Scenario and assertions are those of C09-H3a (harness/C09/restart.go), chain height and snapshot position
// symbolic over three index windows.
func VxC05RestartAfterInterruptedStore() {
	VxC09InitializeDecision()
}
