#!/bin/bash
# Re-runs the quick tier of every claimed property on /repo's working tree and rewrites evidence/<id>.json.
cd "$(dirname "$0")"
(cd engine && GOFLAGS=-mod=mod GOPROXY=off go build -o ../bin/gosym .) || exit 2
for p in ${@:-C01 C02 C03 C04 C05 C06 C07 C08 C09 C10 C12 C13 C14 C15 C16 C17 C18 C19 C20}; do
  s=$(date +%s)
  ./check $p --tier quick > .work/regen-$p.log 2>&1; rc=$?
  echo "$p exit=$rc wall=$(( $(date +%s)-s ))s $(grep -E '^(check |INCONCLUSIVE|VIOLATION)' .work/regen-$p.log | tail -2 | cut -c1-200 | tr '\n' '|')"
done
echo REGEN-DONE
