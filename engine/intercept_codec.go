package main

import (
	"fmt"
	"go/types"
	"strconv"
	"strings"

	"golang.org/x/tools/go/ssa"
)

// Opaque-blob model of the reflection-driven CBOR codec (DESIGN.md §3.3): Marshal(v) yields a byte
// string of fresh, uniquely identified bytes plus a deep snapshot of v; Unmarshal of exactly that
// byte range restores the snapshot, of anything else fails. CBOR's own round trip, struct tags and
// the type registry are therefore assumed, never checked; wrong offsets (a slice that cuts a blob)
// are detected.

const encPkg = "github.com/NethermindEth/juno/encoder."
const cborPkg = "github.com/fxamacker/cbor/v2"

func (in *Interp) blobLen() int {
	lo, hi := 2, 2
	if v, ok := in.extra["bloblens"].([2]int); ok {
		lo, hi = v[0], v[1]
	}
	if hi > lo {
		return lo + in.choose(hi-lo+1)
	}
	return lo
}

func (in *Interp) newBlob(v Value) []*Term {
	id := len(in.opaque) + 1
	n := in.blobLen()
	b := &opaqueBlob{id: id, n: n}
	if iv, ok := v.(Iface); ok {
		b.typ = iv.t
		b.val = in.deepCopy(iv.v, map[*Object]*Object{}, map[*MapObj]*MapObj{})
	} else {
		in.unsupported("encode of non-interface value")
	}
	in.opaque[strconv.Itoa(id)] = b
	bs := make([]*Term, n)
	for i := range bs {
		bs[i] = in.st.Var(fmt.Sprintf("$blob%d_%d", id, i), 8)
	}
	return bs
}

// matchBlob recognises a blob at the start of bs; returns the blob and its length.
func (in *Interp) matchBlob(bs []*Term) (*opaqueBlob, bool) {
	if len(bs) == 0 || bs[0].op != OpVar || !strings.HasPrefix(bs[0].name, "$blob") {
		return nil, false
	}
	rest := bs[0].name[len("$blob"):]
	us := strings.IndexByte(rest, '_')
	if us < 0 || rest[us+1:] != "0" {
		return nil, false
	}
	b, ok := in.opaque[rest[:us]]
	if !ok || len(bs) < b.n {
		return nil, false
	}
	for i := 0; i < b.n; i++ {
		if bs[i].op != OpVar || bs[i].name != fmt.Sprintf("$blob%d_%d", b.id, i) {
			return nil, false
		}
	}
	return b, true
}

func (in *Interp) deepCopy(v Value, objs map[*Object]*Object, maps map[*MapObj]*MapObj) Value {
	switch x := v.(type) {
	case *Agg:
		na := &Agg{e: make([]Value, len(x.e))}
		for i, e := range x.e {
			na.e[i] = in.deepCopy(e, objs, maps)
		}
		return na
	case Ptr:
		if x.obj == nil {
			return x
		}
		no, ok := objs[x.obj]
		if !ok {
			no = in.newObject(x.obj.typ, nil, x.obj.label+"(copy)")
			objs[x.obj] = no
			no.val = in.deepCopy(x.obj.val, objs, maps)
		}
		return Ptr{obj: no, path: x.path}
	case Slice:
		if x.IsNil() {
			return x
		}
		p := in.deepCopy(x.arr, objs, maps).(Ptr)
		return Slice{arr: p, off: x.off, ln: x.ln, cp: x.cp}
	case Iface:
		return Iface{t: x.t, v: in.deepCopy(x.v, objs, maps)}
	case *MapObj:
		if x == nil {
			return x
		}
		nm, ok := maps[x]
		if !ok {
			in.nextObj++
			nm = &MapObj{id: in.nextObj, keyT: x.keyT, valT: x.valT}
			maps[x] = nm
			for _, e := range x.ents {
				nm.ents = append(nm.ents, mapEnt{in.deepCopy(e.k, objs, maps), in.deepCopy(e.v, objs, maps)})
			}
		}
		return nm
	case Tuple:
		nt := make(Tuple, len(x))
		for i, e := range x {
			nt[i] = in.deepCopy(e, objs, maps)
		}
		return nt
	}
	return v
}

// restoreInto stores the blob's snapshot into the Unmarshal target (any holding *T).
func (in *Interp) restoreInto(b *opaqueBlob, target Value) Value {
	tv, ok := target.(Iface)
	if !ok || tv.t == nil {
		return in.newErrorString("cbor: Unmarshal(nil)")
	}
	pt, ok := tv.t.Underlying().(*types.Pointer)
	if !ok {
		return in.newErrorString("cbor: Unmarshal(non-pointer)")
	}
	tp := tv.v.(Ptr)
	if tp.obj == nil {
		return in.newErrorString("cbor: Unmarshal(nil pointer)")
	}
	val := in.deepCopy(b.val, map[*Object]*Object{}, map[*MapObj]*MapObj{})
	et := pt.Elem()
	switch {
	case types.IsInterface(et):
		in.store(tp, Iface{t: b.typ, v: val})
	case types.Identical(b.typ, et):
		in.store(tp, val)
	default:
		if bp, ok := b.typ.Underlying().(*types.Pointer); ok && types.Identical(bp.Elem(), et) {
			// encoded &x, decoded into x
			p := val.(Ptr)
			if p.obj == nil {
				in.store(tp, in.zero(et))
			} else {
				in.store(tp, in.load(p))
			}
		} else if ep, ok := et.Underlying().(*types.Pointer); ok && types.Identical(ep.Elem(), b.typ) {
			// encoded x, decoded into *x (pointer target): allocate
			o := in.newObject(b.typ, val, "decoded")
			in.store(tp, Ptr{obj: o})
		} else {
			// a different (projection) type: the codec's field matching is not modelled
			in.unsupported("opaque codec: decode of " + b.typ.String() + " into " + et.String() + " (projection decoding is outside the model)")
		}
	}
	return Iface{}
}

func init() {
	reg(vxPkg+"BlobLens", func(in *Interp, c *Frame, fn *ssa.Function, a []Value) Value {
		in.extra["bloblens"] = [2]int{in.concreteInt(a[0], "min"), in.concreteInt(a[1], "max")}
		return nil
	})
	reg(encPkg+"Marshal", func(in *Interp, c *Frame, fn *ssa.Function, a []Value) Value {
		return Tuple{in.bytesToSlice(in.newBlob(a[0])), Iface{}}
	})
	reg(encPkg+"Unmarshal", func(in *Interp, c *Frame, fn *ssa.Function, a []Value) Value {
		bs := in.sliceBytes(a[0])
		b, ok := in.matchBlob(bs)
		if !ok || b.n != len(bs) {
			return in.newErrorString("cbor: data is not exactly one encoded item (opaque model)")
		}
		return in.restoreInto(b, a[1])
	})
	reg(encPkg+"UnmarshalFirst", func(in *Interp, c *Frame, fn *ssa.Function, a []Value) Value {
		s := a[0].(Slice)
		bs := in.sliceBytes(s)
		b, ok := in.matchBlob(bs)
		if !ok {
			return Tuple{Slice{}, in.newErrorString("cbor: data does not start with an encoded item (opaque model)")}
		}
		err := in.restoreInto(b, a[1])
		rest := Slice{arr: s.arr, off: s.off + b.n, ln: s.ln - b.n, cp: s.cp - b.n}
		return Tuple{rest, err}
	})
	reg(encPkg+"NewEncoder", func(in *Interp, c *Frame, fn *ssa.Function, a []Value) Value {
		t := in.namedType(cborPkg, "Encoder")
		z := in.zero(t).(*Agg)
		na := &Agg{e: append([]Value{}, z.e...)}
		na.e[0] = a[0] // w io.Writer
		o := in.newObject(t, na, "cbor.Encoder")
		return Iface{t: types.NewPointer(t), v: Ptr{obj: o}}
	})
	reg("(*"+cborPkg+".Encoder).Encode", func(in *Interp, c *Frame, fn *ssa.Function, a []Value) Value {
		enc := in.load(a[0].(Ptr)).(*Agg)
		w := enc.e[0].(Iface)
		bs := in.newBlob(a[1])
		wm := in.methodOf(w.t, "Write")
		if wm == nil {
			in.unsupported("encoder writer has no Write")
		}
		r := in.dispatch(wm, []Value{w.v, in.bytesToSlice(bs)}, c).(Tuple)
		return r[1]
	})
}
