package main

import (
	"fmt"
	"go/types"
	"hash/fnv"
	"strconv"
	"strings"

	"golang.org/x/tools/go/ssa"
)

// Opaque-blob model of the reflection-driven CBOR codec (DESIGN.md §3.3): Marshal(v) yields a byte
// string of fresh, uniquely identified bytes plus a deep snapshot of v; Unmarshal of exactly that
// byte range restores the snapshot, of anything else fails. CBOR's own round trip, struct tags and
// the type registry are therefore assumed, never checked; wrong offsets (a slice that cuts a blob)
// are detected.

const encPkg = "github.com/NethermindEth/juno/encoder."
const cborPkg = "github.com/fxamacker/cbor/v2"

func (in *Interp) blobLen() int {
	lo, hi := 2, 2
	if v, ok := in.extra["bloblens"].([2]int); ok {
		lo, hi = v[0], v[1]
	}
	if hi > lo {
		return lo + in.choose(hi-lo+1)
	}
	return lo
}

func (in *Interp) newBlob(v Value) []*Term {
	id := len(in.opaque) + 1
	b := &opaqueBlob{id: id}
	if iv, ok := v.(Iface); ok {
		// a pointer to an interface value (Put(w, key, &tx) with tx a core.Transaction) encodes the dynamic
		// value the interface holds, as the real codec does
		for iv.t != nil {
			pt, isPtr := iv.t.(*types.Pointer)
			if !isPtr {
				break
			}
			if _, isIface := pt.Elem().Underlying().(*types.Interface); !isIface {
				break
			}
			pp, ok := iv.v.(Ptr)
			if !ok || pp.obj == nil {
				in.unsupported("encode of a nil pointer to an interface")
			}
			inner, ok := in.load(pp).(Iface)
			if !ok || inner.t == nil {
				in.unsupported("encode of a pointer to a nil interface")
			}
			iv = inner
		}
		b.typ = iv.t
		b.val = in.deepCopy(iv.v, map[*Object]*Object{}, map[*MapObj]*MapObj{})
	} else {
		in.unsupported("encode of non-interface value")
	}
	// Content-addressed bytes: the encoding is a function of the encoded value (an uninterpreted
	// function per type and shape applied to the value's scalar leaves), so that encoding equal
	// values twice gives equal bytes (a re-written record compares equal to the old one).
	var shape strings.Builder
	var leaves []*Term
	shape.WriteString(b.typ.String())
	if in.flattenForCodec(b.val, &shape, &leaves, 0) {
		key := shape.String()
		for _, l := range leaves {
			key += fmt.Sprintf(",%d", l.id)
		}
		lens, _ := in.extra["bloblen-memo"].(map[string]int)
		if lens == nil {
			lens = map[string]int{}
			in.extra["bloblen-memo"] = lens
		}
		n, ok := lens[key]
		if !ok {
			n = in.blobLen()
			lens[key] = n
		}
		b.n = n
		hsh := fnv.New64a()
		hsh.Write([]byte(shape.String()))
		t := in.st.App(fmt.Sprintf("$cbor%d_%x", n, hsh.Sum64()), 8*n, leaves...)
		in.opaque[fmt.Sprintf("t%d", t.id)] = b
		bs := make([]*Term, n)
		for i := range bs {
			bs[i] = in.st.Extract(t, 8*(n-i)-1, 8*(n-i-1))
		}
		return bs
	}
	n := in.blobLen()
	b.n = n
	in.opaque[strconv.Itoa(id)] = b
	bs := make([]*Term, n)
	for i := range bs {
		bs[i] = in.st.Var(fmt.Sprintf("$blob%d_%d", id, i), 8)
	}
	return bs
}

// flattenForCodec appends the structure of v to shape and its scalar leaves to leaves; false when
// the value has a part whose encoding order is not determined by its structure (maps with more
// than one entry) or is not a plain data value.
func (in *Interp) flattenForCodec(v Value, shape *strings.Builder, leaves *[]*Term, depth int) bool {
	if depth > 40 {
		return false
	}
	switch x := v.(type) {
	case nil:
		shape.WriteString("_")
		return true
	case *Term:
		if x.IsConst() {
			fmt.Fprintf(shape, "c%d:%s;", x.w, x.Big().Text(16))
		} else {
			fmt.Fprintf(shape, "t%d;", x.w)
			*leaves = append(*leaves, x)
		}
		return true
	case *Agg:
		shape.WriteString("{")
		for _, e := range x.e {
			if !in.flattenForCodec(e, shape, leaves, depth+1) {
				return false
			}
		}
		shape.WriteString("}")
		return true
	case Ptr:
		if x.obj == nil {
			shape.WriteString("nil;")
			return true
		}
		shape.WriteString("&")
		return in.flattenForCodec(in.getPath(x.obj.val, x.path), shape, leaves, depth+1)
	case Slice:
		if x.IsNil() {
			shape.WriteString("nil[];")
			return true
		}
		fmt.Fprintf(shape, "[%d]", x.ln)
		arr, ok := in.getPath(x.arr.obj.val, x.arr.path).(*Agg)
		if !ok {
			return x.ln == 0
		}
		for i := 0; i < x.ln; i++ {
			if !in.flattenForCodec(arr.e[x.off+i], shape, leaves, depth+1) {
				return false
			}
		}
		return true
	case Str:
		if x.sym != nil {
			fmt.Fprintf(shape, "s%d:", len(x.sym))
			for _, t := range x.sym {
				if !in.flattenForCodec(t, shape, leaves, depth+1) {
					return false
				}
			}
			return true
		}
		fmt.Fprintf(shape, "s%q;", x.s)
		return true
	case Iface:
		if x.t == nil {
			shape.WriteString("niliface;")
			return true
		}
		shape.WriteString("<" + x.t.String() + ">")
		return in.flattenForCodec(x.v, shape, leaves, depth+1)
	case *MapObj:
		if x == nil || len(x.ents) == 0 {
			shape.WriteString("map0;")
			return true
		}
		if len(x.ents) > 1 {
			return false
		}
		shape.WriteString("map1:")
		return in.flattenForCodec(x.ents[0].k, shape, leaves, depth+1) && in.flattenForCodec(x.ents[0].v, shape, leaves, depth+1)
	case Tuple:
		for _, e := range x {
			if !in.flattenForCodec(e, shape, leaves, depth+1) {
				return false
			}
		}
		return true
	}
	return false
}

// matchBlob recognises a blob at the start of bs; returns the blob and its length.
func (in *Interp) matchBlob(bs []*Term) (*opaqueBlob, bool) {
	if len(bs) == 0 {
		return nil, false
	}
	// content-addressed blob: byte i is extract(app, ...) (or the application itself when n == 1)
	app := bs[0]
	if app.op == OpExtract {
		app = app.args[0]
	}
	if app.op == OpApp && strings.HasPrefix(app.name, "$cbor") {
		b, ok := in.opaque[fmt.Sprintf("t%d", app.id)]
		if !ok || len(bs) < b.n {
			return nil, false
		}
		for i := 0; i < b.n; i++ {
			if bs[i] != in.st.Extract(app, 8*(b.n-i)-1, 8*(b.n-i-1)) {
				return nil, false
			}
		}
		return b, true
	}
	if bs[0].op != OpVar || !strings.HasPrefix(bs[0].name, "$blob") {
		return nil, false
	}
	rest := bs[0].name[len("$blob"):]
	us := strings.IndexByte(rest, '_')
	if us < 0 || rest[us+1:] != "0" {
		return nil, false
	}
	b, ok := in.opaque[rest[:us]]
	if !ok || len(bs) < b.n {
		return nil, false
	}
	for i := 0; i < b.n; i++ {
		if bs[i].op != OpVar || bs[i].name != fmt.Sprintf("$blob%d_%d", b.id, i) {
			return nil, false
		}
	}
	return b, true
}

func (in *Interp) deepCopy(v Value, objs map[*Object]*Object, maps map[*MapObj]*MapObj) Value {
	switch x := v.(type) {
	case *Agg:
		na := &Agg{e: make([]Value, len(x.e))}
		for i, e := range x.e {
			na.e[i] = in.deepCopy(e, objs, maps)
		}
		return na
	case Ptr:
		if x.obj == nil {
			return x
		}
		no, ok := objs[x.obj]
		if !ok {
			no = in.newObject(x.obj.typ, nil, x.obj.label+"(copy)")
			objs[x.obj] = no
			no.val = in.deepCopy(x.obj.val, objs, maps)
		}
		return Ptr{obj: no, path: x.path}
	case Slice:
		if x.IsNil() {
			return x
		}
		p := in.deepCopy(x.arr, objs, maps).(Ptr)
		return Slice{arr: p, off: x.off, ln: x.ln, cp: x.cp}
	case Iface:
		return Iface{t: x.t, v: in.deepCopy(x.v, objs, maps)}
	case *MapObj:
		if x == nil {
			return x
		}
		nm, ok := maps[x]
		if !ok {
			in.nextObj++
			nm = &MapObj{id: in.nextObj, keyT: x.keyT, valT: x.valT}
			maps[x] = nm
			for _, e := range x.ents {
				nm.ents = append(nm.ents, mapEnt{in.deepCopy(e.k, objs, maps), in.deepCopy(e.v, objs, maps)})
			}
		}
		return nm
	case Tuple:
		nt := make(Tuple, len(x))
		for i, e := range x {
			nt[i] = in.deepCopy(e, objs, maps)
		}
		return nt
	}
	return v
}

// restoreInto stores the blob's snapshot into the Unmarshal target (any holding *T).
func (in *Interp) restoreInto(b *opaqueBlob, target Value) Value {
	tv, ok := target.(Iface)
	if !ok || tv.t == nil {
		return in.newErrorString("cbor: Unmarshal(nil)")
	}
	pt, ok := tv.t.Underlying().(*types.Pointer)
	if !ok {
		return in.newErrorString("cbor: Unmarshal(non-pointer)")
	}
	tp := tv.v.(Ptr)
	if tp.obj == nil {
		return in.newErrorString("cbor: Unmarshal(nil pointer)")
	}
	val := in.deepCopy(b.val, map[*Object]*Object{}, map[*MapObj]*MapObj{})
	et := pt.Elem()
	switch {
	case types.IsInterface(et):
		in.store(tp, Iface{t: b.typ, v: val})
	case types.Identical(b.typ, et):
		in.store(tp, val)
	default:
		if bp, ok := b.typ.Underlying().(*types.Pointer); ok && types.Identical(bp.Elem(), et) {
			// encoded &x, decoded into x
			p := val.(Ptr)
			if p.obj == nil {
				in.store(tp, in.zero(et))
			} else {
				in.store(tp, in.load(p))
			}
		} else if ep, ok := et.Underlying().(*types.Pointer); ok && types.Identical(ep.Elem(), b.typ) {
			// encoded x, decoded into *x (pointer target): allocate
			o := in.newObject(b.typ, val, "decoded")
			in.store(tp, Ptr{obj: o})
		} else if pv, ok := in.projectStruct(b.typ, val, et); ok {
			// a different struct type (partial projection): CBOR map keys matched by name
			in.store(tp, pv)
		} else {
			in.unsupported("opaque codec: decode of " + b.typ.String() + " into " + et.String() + " (outside the projection model)")
		}
	}
	return Iface{}
}

// cborUint: unsigned integers are encoded for real (RFC 8949 major type 0, shortest form) because
// they are used as database keys, where equal values must give equal bytes.
func (in *Interp) cborUint(v Value) ([]*Term, bool) {
	iv, ok := v.(Iface)
	if !ok || iv.t == nil {
		return nil, false
	}
	b, ok := iv.t.Underlying().(*types.Basic)
	if !ok || b.Info()&types.IsUnsigned == 0 {
		return nil, false
	}
	t, ok := iv.v.(*Term)
	if !ok {
		return nil, false
	}
	st := in.st
	x := st.ZExt(t, 64)
	be := func(n int) []*Term {
		out := make([]*Term, n)
		for i := 0; i < n; i++ {
			out[i] = st.Extract(x, 8*(n-i)-1, 8*(n-i-1))
		}
		return out
	}
	switch {
	case in.branch(st.Cmp(OpULt, x, st.Const(64, 24))):
		return []*Term{st.Extract(x, 7, 0)}, true
	case in.branch(st.Cmp(OpULt, x, st.Const(64, 1<<8))):
		return append([]*Term{st.Const(8, 0x18)}, be(1)...), true
	case in.branch(st.Cmp(OpULt, x, st.Const(64, 1<<16))):
		return append([]*Term{st.Const(8, 0x19)}, be(2)...), true
	case in.branch(st.Cmp(OpULt, x, st.Const(64, 1<<32))):
		return append([]*Term{st.Const(8, 0x1a)}, be(4)...), true
	}
	return append([]*Term{st.Const(8, 0x1b)}, be(8)...), true
}

// cborUintDecode is the inverse of cborUint for a target *uintN.
func (in *Interp) cborUintDecode(bs []*Term, target Value) (bool, Value) {
	tv, ok := target.(Iface)
	if !ok || tv.t == nil || len(bs) == 0 {
		return false, nil
	}
	pt, ok := tv.t.Underlying().(*types.Pointer)
	if !ok {
		return false, nil
	}
	bt, ok := pt.Elem().Underlying().(*types.Basic)
	if !ok || bt.Info()&types.IsUnsigned == 0 {
		return false, nil
	}
	st := in.st
	h := bs[0]
	var val *Term
	switch {
	case h.IsConst() && h.c >= 0x18 && h.c <= 0x1b:
		n := 1 << (h.c - 0x18)
		if len(bs) != 1+n {
			return false, nil
		}
		val = bs[1]
		for i := 2; i <= n; i++ {
			val = st.Concat(val, bs[i])
		}
	case len(bs) == 1 && (!h.IsConst() || h.c < 24):
		if !in.branch(st.Cmp(OpULt, h, st.Const(8, 24))) {
			return false, nil
		}
		val = h
	default:
		return false, nil
	}
	w := basicWidth(bt)
	in.store(tv.v.(Ptr), st.ZExt(val, w))
	return true, Iface{}
}

// ---- projection decoding ----
//
// A struct is encoded as a CBOR map keyed by field name (or the name given in the `cbor:"..."` tag);
// decoding that map into a different struct type fills the target fields whose key occurs in the
// map and leaves the others zero. Key resolution follows the encoding/json rules that the codec
// implements: embedded structs are flattened, the shallowest field wins a key, at equal depth a
// single tagged field wins, otherwise the key is dropped.

type cborField struct {
	path   []int
	depth  int
	tagged bool
	typ    types.Type
}

func cborKeyOf(f *types.Var, tag string) (name string, tagged, skip, embedded bool) {
	name = f.Name()
	if tv, ok := lookupTag(tag, "cbor"); ok {
		parts := strings.Split(tv, ",")
		if parts[0] == "-" && len(parts) == 1 {
			return "", false, true, false
		}
		for _, o := range parts[1:] {
			if o == "toarray" || o == "keyasint" {
				return "", false, true, false
			}
		}
		if parts[0] != "" {
			return parts[0], true, false, false
		}
	}
	if f.Embedded() {
		if _, ok := derefType(f.Type()).Underlying().(*types.Struct); ok {
			return name, false, false, true
		}
	}
	return name, false, false, false
}

func lookupTag(tag, key string) (string, bool) {
	for tag != "" {
		i := 0
		for i < len(tag) && tag[i] == ' ' {
			i++
		}
		tag = tag[i:]
		if tag == "" {
			break
		}
		i = 0
		for i < len(tag) && tag[i] > ' ' && tag[i] != ':' && tag[i] != '"' {
			i++
		}
		if i == 0 || i+1 >= len(tag) || tag[i] != ':' || tag[i+1] != '"' {
			break
		}
		name := tag[:i]
		tag = tag[i+1:]
		i = 1
		for i < len(tag) && tag[i] != '"' {
			if tag[i] == '\\' {
				i++
			}
			i++
		}
		if i >= len(tag) {
			break
		}
		qv := tag[:i+1]
		tag = tag[i+1:]
		if name == key {
			v, err := strconv.Unquote(qv)
			if err != nil {
				return "", false
			}
			return v, true
		}
	}
	return "", false
}

func derefType(t types.Type) types.Type {
	if p, ok := t.Underlying().(*types.Pointer); ok {
		return p.Elem()
	}
	return t
}

// cborFields flattens a struct type into its CBOR map keys; ok=false when the layout is outside the model.
func cborFields(st *types.Struct) (map[string]cborField, bool) {
	type cand struct {
		cborField
		name string
	}
	var all []cand
	ok := true
	var walk func(s *types.Struct, prefix []int, depth int)
	walk = func(s *types.Struct, prefix []int, depth int) {
		for i := 0; i < s.NumFields(); i++ {
			f := s.Field(i)
			if !f.Exported() && !f.Embedded() {
				continue
			}
			name, tagged, skip, emb := cborKeyOf(f, s.Tag(i))
			if skip {
				if tv, has := lookupTag(s.Tag(i), "cbor"); has && tv != "-" {
					ok = false // toarray / keyasint
				}
				continue
			}
			path := append(append([]int{}, prefix...), i)
			if emb {
				if _, isPtr := f.Type().Underlying().(*types.Pointer); isPtr {
					ok = false // embedded pointer: not needed so far
					continue
				}
				walk(f.Type().Underlying().(*types.Struct), path, depth+1)
				continue
			}
			all = append(all, cand{cborField{path: path, depth: depth, tagged: tagged, typ: f.Type()}, name})
		}
	}
	walk(st, nil, 0)
	out := map[string]cborField{}
	byName := map[string][]cand{}
	for _, c := range all {
		byName[c.name] = append(byName[c.name], c)
	}
	for name, cs := range byName {
		min := cs[0].depth
		for _, c := range cs {
			if c.depth < min {
				min = c.depth
			}
		}
		var top []cand
		for _, c := range cs {
			if c.depth == min {
				top = append(top, c)
			}
		}
		if len(top) > 1 {
			var tg []cand
			for _, c := range top {
				if c.tagged {
					tg = append(tg, c)
				}
			}
			if len(tg) != 1 {
				continue // ambiguous: no field owns the key
			}
			top = tg
		}
		out[name] = top[0].cborField
	}
	return out, ok
}

func hasMethod(t types.Type, name string) bool {
	for _, tt := range []types.Type{t, types.NewPointer(t)} {
		ms := types.NewMethodSet(tt)
		for i := 0; i < ms.Len(); i++ {
			if ms.At(i).Obj().Name() == name {
				return true
			}
		}
	}
	return false
}

// projectStruct decodes the snapshot `val` of encoded type srcT into a value of type dstT.
func (in *Interp) projectStruct(srcT types.Type, val Value, dstT types.Type) (Value, bool) {
	// encoded &x -> x
	if sp, ok := srcT.Underlying().(*types.Pointer); ok {
		p, isPtr := val.(Ptr)
		if !isPtr || p.obj == nil {
			return nil, false
		}
		val = in.load(p)
		srcT = sp.Elem()
	}
	ss, ok1 := srcT.Underlying().(*types.Struct)
	ds, ok2 := dstT.Underlying().(*types.Struct)
	if !ok1 || !ok2 || isFeltType(srcT) || isFeltType(dstT) {
		return nil, false
	}
	if hasMethod(srcT, "MarshalCBOR") || hasMethod(dstT, "UnmarshalCBOR") {
		return nil, false
	}
	sf, okS := cborFields(ss)
	df, okD := cborFields(ds)
	if !okS || !okD {
		return nil, false
	}
	out := in.zero(dstT)
	for key, d := range df {
		s, present := sf[key]
		if !present {
			continue
		}
		if n, isNamed := d.typ.(*types.Named); isNamed && n.Obj().Name() == "discardedCBOR" {
			continue // decode-only skip marker: UnmarshalCBOR ignores the bytes
		}
		sv := in.getPath(val, s.path)
		var nv Value
		switch {
		case types.Identical(s.typ, d.typ):
			nv = sv
		case func() bool { p, ok := s.typ.Underlying().(*types.Pointer); return ok && types.Identical(p.Elem(), d.typ) }():
			p := sv.(Ptr)
			if p.obj == nil {
				continue // null into a non-pointer field leaves it zero
			}
			nv = in.load(p)
		case func() bool { p, ok := d.typ.Underlying().(*types.Pointer); return ok && types.Identical(p.Elem(), s.typ) }():
			o := in.newObject(s.typ, sv, "decoded")
			nv = Ptr{obj: o}
		default:
			if hasMethod(d.typ, "UnmarshalCBOR") || hasMethod(s.typ, "MarshalCBOR") {
				return nil, false
			}
			if _, isStruct := derefType(d.typ).Underlying().(*types.Struct); isStruct {
				inner, ok := in.projectStruct(s.typ, sv, derefType(d.typ))
				if !ok {
					return nil, false
				}
				if _, isPtr := d.typ.Underlying().(*types.Pointer); isPtr {
					nv = Ptr{obj: in.newObject(derefType(d.typ), inner, "decoded")}
				} else {
					nv = inner
				}
			} else {
				return nil, false
			}
		}
		out = in.setPath(out, d.path, nv)
	}
	return out, true
}

// rawMessageBytes: cbor.RawMessage (or a pointer to one) is an already encoded item - it is written verbatim.
func (in *Interp) rawMessageBytes(v Value) ([]*Term, bool) {
	ifc, ok := v.(Iface)
	if !ok || ifc.t == nil {
		return nil, false
	}
	t := ifc.t
	val := ifc.v
	if p, ok := t.(*types.Pointer); ok {
		t = p.Elem()
		if n, ok := t.(*types.Named); ok && n.Obj().Name() == "RawMessage" && n.Obj().Pkg() != nil && n.Obj().Pkg().Path() == cborPkg {
			pp, ok := val.(Ptr)
			if !ok || pp.obj == nil {
				return nil, false
			}
			val = in.load(pp)
		} else {
			return nil, false
		}
	}
	n, ok := t.(*types.Named)
	if !ok || n.Obj().Name() != "RawMessage" || n.Obj().Pkg() == nil || n.Obj().Pkg().Path() != cborPkg {
		return nil, false
	}
	sl, ok := val.(Slice)
	if !ok {
		return nil, false
	}
	return in.sliceBytes(sl), true
}

func init() {
	reg(vxPkg+"BlobLens", func(in *Interp, c *Frame, fn *ssa.Function, a []Value) Value {
		in.extra["bloblens"] = [2]int{in.concreteInt(a[0], "min"), in.concreteInt(a[1], "max")}
		return nil
	})
	reg(encPkg+"Marshal", func(in *Interp, c *Frame, fn *ssa.Function, a []Value) Value {
		if bs, ok := in.cborUint(a[0]); ok {
			return Tuple{in.bytesToSlice(bs), Iface{}}
		}
		if bs, ok := in.rawMessageBytes(a[0]); ok {
			return Tuple{in.bytesToSlice(append([]*Term{}, bs...)), Iface{}}
		}
		return Tuple{in.bytesToSlice(in.newBlob(a[0])), Iface{}}
	})
	reg(encPkg+"Unmarshal", func(in *Interp, c *Frame, fn *ssa.Function, a []Value) Value {
		bs := in.sliceBytes(a[0])
		b, ok := in.matchBlob(bs)
		if !ok || b.n != len(bs) {
			if done, res := in.cborUintDecode(bs, a[1]); done {
				return res
			}
			return in.newErrorString("cbor: data is not exactly one encoded item (opaque model)")
		}
		return in.restoreInto(b, a[1])
	})
	reg(encPkg+"UnmarshalFirst", func(in *Interp, c *Frame, fn *ssa.Function, a []Value) Value {
		s := a[0].(Slice)
		bs := in.sliceBytes(s)
		b, ok := in.matchBlob(bs)
		if !ok {
			return Tuple{Slice{}, in.newErrorString("cbor: data does not start with an encoded item (opaque model)")}
		}
		err := in.restoreInto(b, a[1])
		rest := Slice{arr: s.arr, off: s.off + b.n, ln: s.ln - b.n, cp: s.cp - b.n}
		return Tuple{rest, err}
	})
	reg(encPkg+"NewEncoder", func(in *Interp, c *Frame, fn *ssa.Function, a []Value) Value {
		t := in.namedType(cborPkg, "Encoder")
		z := in.zero(t).(*Agg)
		na := &Agg{e: append([]Value{}, z.e...)}
		na.e[0] = a[0] // w io.Writer
		o := in.newObject(t, na, "cbor.Encoder")
		return Iface{t: types.NewPointer(t), v: Ptr{obj: o}}
	})
	reg("(*"+cborPkg+".Encoder).Encode", func(in *Interp, c *Frame, fn *ssa.Function, a []Value) Value {
		enc := in.load(a[0].(Ptr)).(*Agg)
		w := enc.e[0].(Iface)
		bs, raw := in.rawMessageBytes(a[1])
		if !raw {
			bs = in.newBlob(a[1])
		}
		wm := in.methodOf(w.t, "Write")
		if wm == nil {
			in.unsupported("encoder writer has no Write")
		}
		r := in.dispatch(wm, []Value{w.v, in.bytesToSlice(bs)}, c).(Tuple)
		return r[1]
	})
}
