package main

import (
	"encoding/json"
	"flag"
	"fmt"
	"os"
	"regexp"
	"runtime"
	"runtime/debug"
	"sort"
	"strings"
	"sync"
	"time"

	"golang.org/x/tools/go/packages"
	"golang.org/x/tools/go/ssa"
	"golang.org/x/tools/go/ssa/ssautil"
)

type Output struct {
	Repo      string           `json:"repo"`
	Packages  int              `json:"packages_loaded"`
	LoadS     float64          `json:"load_s"`
	Harnesses []*HarnessResult `json:"harnesses"`
	Errors    []string         `json:"errors"`
	WallS     float64          `json:"wall_s"`
	Tier      string           `json:"tier"`
	Solver    string           `json:"solver"`
}

func main() {
	var (
		repo     = flag.String("repo", "/repo", "repository root")
		pkgsF    = flag.String("pkgs", "", "comma separated package patterns (relative to repo)")
		overlayF = flag.String("overlay", "", "overlay json ({\"Replace\":{virtual:real}})")
		harnessF = flag.String("harness", "^Vx", "regexp of harness function names")
		outF     = flag.String("out", "", "output json")
		jobs     = flag.Int("j", 8, "parallel harnesses")
		solver   = flag.String("solver", "z3", "z3 | z3-new | cvc5")
		tier     = flag.String("tier", "quick", "quick | thorough")
		verbose  = flag.Bool("v", false, "verbose")
		maxSec   = flag.Int("max-seconds", 1500, "per harness time budget")
		timeout  = flag.Int("solver-timeout", 60000, "per query timeout ms")
		tags     = flag.String("tags", "", "build tags")
		workers  = flag.Int("workers", 8, "workers per harness (share the prefix queue)")
		cpus     = flag.Int("cpus", runtime.NumCPU(), "paths executing concurrently over all harnesses")
	)
	flag.Parse()
	t0 := time.Now()
	out := &Output{Repo: *repo, Tier: *tier, Solver: *solver}
	fail := func(msg string) {
		out.Errors = append(out.Errors, msg)
		writeOut(*outF, out)
		fmt.Fprintln(os.Stderr, "gosym: "+msg)
		os.Exit(2)
	}
	overlay := map[string][]byte{}
	if *overlayF != "" {
		raw, err := os.ReadFile(*overlayF)
		if err != nil {
			fail(err.Error())
		}
		var ov struct{ Replace map[string]string }
		if err := json.Unmarshal(raw, &ov); err != nil {
			fail(err.Error())
		}
		for virt, real := range ov.Replace {
			b, err := os.ReadFile(real)
			if err != nil {
				fail(err.Error())
			}
			overlay[virt] = b
		}
	}
	cfg := &packages.Config{Mode: packages.LoadAllSyntax, Dir: *repo, Overlay: overlay,
		Env: append(os.Environ(), "GOFLAGS=-mod=mod", "GOPROXY=off")}
	if *tags != "" {
		cfg.BuildFlags = []string{"-tags=" + *tags}
	}
	pats := strings.Split(*pkgsF, ",")
	pkgs, err := packages.Load(cfg, pats...)
	if err != nil {
		fail("load: " + err.Error())
	}
	nerr := 0
	packages.Visit(pkgs, nil, func(p *packages.Package) {
		for _, e := range p.Errors {
			nerr++
			if nerr < 20 {
				out.Errors = append(out.Errors, p.PkgPath+": "+e.Error())
			}
		}
	})
	if nerr > 0 {
		fail(fmt.Sprintf("%d package errors (harness does not compile against the current tree?)", nerr))
	}
	prog, spkgs := ssautil.AllPackages(pkgs, ssa.InstantiateGenerics)
	prog.Build()
	out.Packages = len(prog.AllPackages())
	out.LoadS = time.Since(t0).Seconds()
	re, err := regexp.Compile(*harnessF)
	if err != nil {
		fail(err.Error())
	}
	var harnesses []*ssa.Function
	for _, sp := range spkgs {
		if sp == nil {
			continue
		}
		var names []string
		for n := range sp.Members {
			names = append(names, n)
		}
		sort.Strings(names)
		for _, n := range names {
			if f, ok := sp.Members[n].(*ssa.Function); ok && strings.HasPrefix(n, "Vx") && re.MatchString(n) && len(f.Params) == 0 {
				harnesses = append(harnesses, f)
			}
		}
	}
	if len(harnesses) == 0 {
		fail("no harness matched " + *harnessF)
	}
	if *verbose {
		fmt.Fprintf(os.Stderr, "loaded %d packages in %.1fs, %d harnesses\n", out.Packages, out.LoadS, len(harnesses))
	}
	cpuTokens = make(chan struct{}, *cpus)
	results := make([]*HarnessResult, len(harnesses))
	var wg sync.WaitGroup
	sem := make(chan struct{}, *jobs)
	for i, h := range harnesses {
		wg.Add(1)
		go func(i int, h *ssa.Function) {
			defer wg.Done()
			sem <- struct{}{}
			defer func() { <-sem }()
			defer func() {
				if r := recover(); r != nil {
					results[i] = &HarnessResult{Name: h.Name(), Inconclusive: []string{fmt.Sprintf("engine crash: %v\n%s", r, debug.Stack())}}
				}
			}()
			c := defaultCfg()
			c.Solver = *solver
			c.Tier = *tier
			c.Verbose = *verbose
			c.MaxSeconds = *maxSec
			c.SolverTimeout = *timeout
			c.Workers = *workers
			results[i] = runHarness(prog, h, c)
			if *verbose {
				r := results[i]
				fmt.Fprintf(os.Stderr, "[%s] done: paths=%d viol=%d inconcl=%d queries=%d wall=%.1fs\n", r.Name, r.Paths, len(r.Violations), len(r.Inconclusive), r.Queries.Total, r.WallS)
			}
		}(i, h)
	}
	wg.Wait()
	out.Harnesses = results
	out.WallS = time.Since(t0).Seconds()
	writeOut(*outF, out)
	code := 0
	for _, r := range results {
		if len(r.Inconclusive) > 0 && code == 0 {
			code = 2
		}
		if len(r.Violations) > 0 {
			code = 1
		}
	}
	os.Exit(code)
}

func writeOut(path string, out *Output) {
	b, _ := json.MarshalIndent(out, "", " ")
	if path == "" {
		os.Stdout.Write(b)
		os.Stdout.WriteString("\n")
		return
	}
	os.WriteFile(path, b, 0o644)
}
