package main

import (
	"bufio"
	"fmt"
	"io"
	"math/big"
	"os"
	"os/exec"
	"strings"
	"time"
)

// Solver drives one persistent SMT solver process over SMT-LIB2 text.
type Solver struct {
	kind   string // "z3", "z3-new", "cvc5"
	cmd    *exec.Cmd
	in     io.WriteCloser
	store  *TermStore
	def    []map[int]bool // per scope: defined term ids
	decl   []map[string]bool
	marker int
	stats  *SolverStats
	log    io.Writer
	timeoutMs int
	lines  chan string
	live   [][]string // per scope: state-changing commands sent (for restart after a hard timeout)
	Restarts int
}

type SolverStats struct {
	Queries int
	Sat     int
	Unsat   int
	Unknown int
	Errors  int
	Time    time.Duration
}

func NewSolver(kind string, store *TermStore, timeoutMs int, stats *SolverStats) (*Solver, error) {
	s := &Solver{kind: kind, store: store, stats: stats, timeoutMs: timeoutMs}
	if err := s.start(); err != nil {
		return nil, err
	}
	s.Reset()
	return s, nil
}

func (s *Solver) start() error {
	var cmd *exec.Cmd
	timeoutMs := s.timeoutMs
	switch s.kind {
	case "z3":
		cmd = exec.Command("/usr/bin/z3", "-in", "-smt2", fmt.Sprintf("-t:%d", timeoutMs))
	case "z3-new":
		cmd = exec.Command("z3-new", "-in", "-smt2", fmt.Sprintf("-t:%d", timeoutMs))
	case "cvc5":
		cmd = exec.Command("cvc5", "--incremental", "--lang=smt2", fmt.Sprintf("--tlimit-per=%d", timeoutMs), "--produce-models")
	case "cvc5-int":
		cmd = exec.Command("cvc5", "--incremental", "--lang=smt2", fmt.Sprintf("--tlimit-per=%d", timeoutMs), "--produce-models", "--solve-bv-as-int=sum")
	default:
		return fmt.Errorf("unknown solver %s", s.kind)
	}
	in, err := cmd.StdinPipe()
	if err != nil {
		return err
	}
	out, err := cmd.StdoutPipe()
	if err != nil {
		return err
	}
	cmd.Stderr = cmd.Stdout
	if err := cmd.Start(); err != nil {
		return err
	}
	s.cmd, s.in = cmd, in
	lines := make(chan string, 1024)
	s.lines = lines
	go func() {
		rd := bufio.NewReaderSize(out, 1<<20)
		for {
			line, err := rd.ReadString('\n')
			if line != "" {
				lines <- line
			}
			if err != nil {
				close(lines)
				return
			}
		}
	}()
	return nil
}

func (s *Solver) Close() {
	if s == nil || s.cmd == nil {
		return
	}
	s.in.Close()
	s.cmd.Process.Kill()
	s.cmd.Wait()
	s.cmd = nil
}

func (s *Solver) send(str string) {
	if s.log != nil {
		io.WriteString(s.log, str)
	}
	io.WriteString(s.in, str)
}

// roundtrip sends text then a marker echo and returns the lines printed before the marker.
// If the solver does not answer within the hard deadline it is killed and restarted with the
// live assertion stack re-sent; the answer is then an (error ...) line (=> unknown).
func (s *Solver) roundtrip(str string) []string {
	s.marker++
	m := fmt.Sprintf("<<%d>>", s.marker)
	s.send(str)
	s.send(fmt.Sprintf("(echo \"%s\")\n", m))
	var lines []string
	deadline := time.After(time.Duration(s.timeoutMs)*time.Millisecond*3/2 + 10*time.Second)
	for {
		select {
		case line, ok := <-s.lines:
			if !ok {
				lines = append(lines, "(error \"solver died\")")
				s.restart()
				return lines
			}
			line = strings.TrimSpace(line)
			if line == m || line == "\""+m+"\"" {
				return lines
			}
			if line != "" {
				lines = append(lines, line)
			}
		case <-deadline:
			lines = append(lines, "(error \"hard timeout\")")
			s.restart()
			return lines
		}
	}
}

func (s *Solver) restart() {
	s.Restarts++
	if s.cmd != nil {
		s.in.Close()
		s.cmd.Process.Kill()
		s.cmd.Wait()
	}
	if err := s.start(); err != nil {
		panic("cannot restart solver: " + err.Error())
	}
	var sb strings.Builder
	sb.WriteString(s.preamble())
	for i, sc := range s.live {
		if i > 0 {
			sb.WriteString("(push 1)\n")
		}
		for _, c := range sc {
			sb.WriteString(c)
		}
	}
	s.marker++
	m := fmt.Sprintf("<<%d>>", s.marker)
	io.WriteString(s.in, sb.String())
	io.WriteString(s.in, fmt.Sprintf("(echo \"%s\")\n", m))
	for line := range s.lines {
		line = strings.TrimSpace(line)
		if line == m || line == "\""+m+"\"" {
			break
		}
	}
}

// emit sends a state-changing command and records it for restarts.
func (s *Solver) emit(str string) {
	s.live[len(s.live)-1] = append(s.live[len(s.live)-1], str)
	s.send(str)
}

func (s *Solver) preamble() string {
	pre := "(reset)\n(set-option :print-success false)\n(set-option :produce-models true)\n"
	if s.kind == "cvc5" || s.kind == "cvc5-int" {
		pre = "(reset)\n(set-option :print-success false)\n(set-option :produce-models true)\n(set-option :incremental true)\n(set-logic ALL)\n"
	}
	return pre
}

func (s *Solver) Reset() {
	s.def = []map[int]bool{{}}
	s.decl = []map[string]bool{{}}
	s.live = [][]string{nil}
	s.roundtrip(s.preamble())
}

func (s *Solver) Push() {
	s.def = append(s.def, map[int]bool{})
	s.decl = append(s.decl, map[string]bool{})
	s.live = append(s.live, nil)
	s.send("(push 1)\n")
}

func (s *Solver) Pop() {
	s.def = s.def[:len(s.def)-1]
	s.decl = s.decl[:len(s.decl)-1]
	s.live = s.live[:len(s.live)-1]
	s.send("(pop 1)\n")
}

func (s *Solver) isDef(id int) bool {
	for _, m := range s.def {
		if m[id] {
			return true
		}
	}
	return false
}

func (s *Solver) isDecl(n string) bool {
	for _, m := range s.decl {
		if m[n] {
			return true
		}
	}
	return false
}

// ref returns the SMT text referring to t, emitting definitions as needed into sb.
func (s *Solver) ref(t *Term, sb *strings.Builder) string {
	switch t.op {
	case OpConst:
		return constStr(t)
	case OpVar:
		n := smtName(t.name)
		if !s.isDecl("v:" + t.name) {
			s.decl[len(s.decl)-1]["v:"+t.name] = true
			fmt.Fprintf(sb, "(declare-const %s %s)\n", n, sortStr(t.w))
			if ax, ok := s.store.axioms[t.id]; ok {
				r := s.ref(ax, sb)
				fmt.Fprintf(sb, "(assert %s)\n", r)
			}
		}
		return n
	}
	name := fmt.Sprintf("t%d", t.id)
	if s.isDef(t.id) {
		return name
	}
	// iterative post-order to avoid deep recursion
	type fr struct {
		t *Term
		i int
	}
	stack := []fr{{t, 0}}
	var pendingAx []*Term
	for len(stack) > 0 {
		f := &stack[len(stack)-1]
		if f.i < len(f.t.args) {
			a := f.t.args[f.i]
			f.i++
			if a.op != OpConst && a.op != OpVar && !s.isDef(a.id) {
				stack = append(stack, fr{a, 0})
			} else if a.op == OpVar {
				s.ref(a, sb)
			}
			continue
		}
		n := f.t
		stack = stack[:len(stack)-1]
		if s.isDef(n.id) {
			continue
		}
		s.def[len(s.def)-1][n.id] = true
		args := make([]string, len(n.args))
		for i, a := range n.args {
			switch a.op {
			case OpConst:
				args[i] = constStr(a)
			case OpVar:
				args[i] = smtName(a.name)
			default:
				args[i] = fmt.Sprintf("t%d", a.id)
			}
		}
		var body string
		switch n.op {
		case OpApp:
			if !s.isDecl("f:" + n.name) {
				s.decl[len(s.decl)-1]["f:"+n.name] = true
				d := s.store.ufs[n.name]
				as := make([]string, len(d.args))
				for i, w := range d.args {
					as[i] = sortStr(w)
				}
				fmt.Fprintf(sb, "(declare-fun %s (%s) %s)\n", smtName(n.name), strings.Join(as, " "), sortStr(d.res))
			}
			if len(args) == 0 {
				body = smtName(n.name)
			} else {
				body = fmt.Sprintf("(%s %s)", smtName(n.name), strings.Join(args, " "))
			}
		case OpExtract:
			body = fmt.Sprintf("((_ extract %d %d) %s)", n.p1, n.p2, args[0])
		case OpZExt:
			body = fmt.Sprintf("((_ zero_extend %d) %s)", n.p1, args[0])
		case OpSExt:
			body = fmt.Sprintf("((_ sign_extend %d) %s)", n.p1, args[0])
		default:
			body = fmt.Sprintf("(%s %s)", opNames[n.op], strings.Join(args, " "))
		}
		fmt.Fprintf(sb, "(define-fun t%d () %s %s)\n", n.id, sortStr(n.w), body)
		if ax, ok := s.store.axioms[n.id]; ok {
			pendingAx = append(pendingAx, ax)
		}
	}
	for _, ax := range pendingAx {
		r := s.ref(ax, sb)
		fmt.Fprintf(sb, "(assert %s)\n", r)
	}
	return name
}

func (s *Solver) Assert(t *Term) {
	if t.IsTrue() {
		return
	}
	var sb strings.Builder
	r := s.ref(t, &sb)
	fmt.Fprintf(&sb, "(assert %s)\n", r)
	s.emit(sb.String())
}

var slowCount int

type Result int

const (
	Sat Result = iota
	Unsat
	Unknown
)

func (r Result) String() string { return [...]string{"sat", "unsat", "unknown"}[r] }

func (s *Solver) Check() Result {
	t0 := time.Now()
	lines := s.roundtrip("(check-sat)\n")
	s.stats.Time += time.Since(t0)
	if d := time.Since(t0); d > 3*time.Second {
		if p := os.Getenv("GOSYM_SLOWLOG"); p != "" {
			slowCount++
			var sb strings.Builder
			for i, sc := range s.live {
				if i > 0 {
					sb.WriteString("(push 1)\n")
				}
				for _, c := range sc {
					sb.WriteString(c)
				}
			}
			sb.WriteString("(check-sat)\n")
			os.WriteFile(fmt.Sprintf("%s.%d.%.0fs.smt2", p, slowCount, d.Seconds()), []byte(sb.String()), 0o644)
		}
	}
	s.stats.Queries++
	res := Unknown
	for _, l := range lines {
		if strings.HasPrefix(l, "(error") {
			s.stats.Errors++
			s.stats.Unknown++
			if s.log != nil {
				io.WriteString(s.log, "; ERROR: "+l+"\n")
			}
			return Unknown
		}
	}
	for _, l := range lines {
		switch l {
		case "sat":
			res = Sat
		case "unsat":
			res = Unsat
		}
	}
	switch res {
	case Sat:
		s.stats.Sat++
	case Unsat:
		s.stats.Unsat++
	default:
		s.stats.Unknown++
	}
	return res
}

// CheckWith checks satisfiability of current assertions ∧ extra, without keeping extra.
func (s *Solver) CheckWith(extra ...*Term) Result {
	s.Push()
	for _, e := range extra {
		s.Assert(e)
	}
	r := s.Check()
	s.Pop()
	return r
}

// GetValues returns values for the given variable terms (after a sat answer, in the same scope).
func (s *Solver) GetValues(vars []*Term) (map[string]*big.Int, error) {
	res := map[string]*big.Int{}
	if len(vars) == 0 {
		return res, nil
	}
	const chunk = 200
	for i := 0; i < len(vars); i += chunk {
		j := i + chunk
		if j > len(vars) {
			j = len(vars)
		}
		var sb strings.Builder
		var names []string
		for _, v := range vars[i:j] {
			names = append(names, s.ref(v, &sb))
		}
		if sb.Len() > 0 {
			s.emit(sb.String())
		}
		lines := s.roundtrip(fmt.Sprintf("(get-value (%s))\n", strings.Join(names, " ")))
		txt := strings.Join(lines, " ")
		if strings.Contains(txt, "(error") {
			return nil, fmt.Errorf("get-value: %s", txt)
		}
		toks := tokenize(txt)
		// expect ( ( name val ) ( name val ) ... ) where val may be #x.. #b.. true false or (_ bvN w)
		k := 0
		vi := i
		for k < len(toks) {
			if toks[k] == "(" || toks[k] == ")" {
				k++
				continue
			}
			// name token
			k++
			if k >= len(toks) {
				break
			}
			var val *big.Int
			switch {
			case toks[k] == "(":
				// (_ bv123 64)
				if k+2 < len(toks) && toks[k+1] == "_" && strings.HasPrefix(toks[k+2], "bv") {
					val, _ = new(big.Int).SetString(toks[k+2][2:], 10)
					k += 4
				} else {
					return nil, fmt.Errorf("get-value parse: %s", txt)
				}
			case strings.HasPrefix(toks[k], "#x"):
				val, _ = new(big.Int).SetString(toks[k][2:], 16)
			case strings.HasPrefix(toks[k], "#b"):
				val, _ = new(big.Int).SetString(toks[k][2:], 2)
			case toks[k] == "true":
				val = big.NewInt(1)
			case toks[k] == "false":
				val = big.NewInt(0)
			default:
				return nil, fmt.Errorf("get-value parse tok %q: %s", toks[k], txt)
			}
			k++
			if vi < j {
				res[vars[vi].name] = val
				vi++
			}
		}
	}
	return res, nil
}

func tokenize(s string) []string {
	var toks []string
	i := 0
	for i < len(s) {
		c := s[i]
		switch {
		case c == ' ' || c == '\n' || c == '\t' || c == '\r':
			i++
		case c == '(' || c == ')':
			toks = append(toks, string(c))
			i++
		case c == '|':
			j := i + 1
			for j < len(s) && s[j] != '|' {
				j++
			}
			toks = append(toks, s[i:j+1])
			i = j + 1
		default:
			j := i
			for j < len(s) && s[j] != ' ' && s[j] != '(' && s[j] != ')' && s[j] != '\n' {
				j++
			}
			toks = append(toks, s[i:j])
			i = j
		}
	}
	return toks
}
