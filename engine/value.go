package main

import (
	"fmt"
	"go/types"
	"math/big"
	"strings"

	"golang.org/x/tools/go/ssa"
)

// Value is one of:
//   *Term            scalar (BV w / Bool), or abstract felt (BV256) in a felt-typed cell
//   *Agg             struct / array (treated as immutable; updates copy the spine)
//   Ptr              pointer (concrete object + path); obj==nil is the nil pointer
//   Slice            slice header with concrete off/len/cap
//   Str              string
//   Iface            interface value
//   *Closure         function value (nil = nil func)
//   *MapObj          map reference (nil = nil map)
//   *ChanObj         channel
//   Tuple            multiple results
//   *Iter            range iterator
//   Poison           value that could not be computed during lazy package init
type Value interface{}

type Agg struct{ e []Value }

type Object struct {
	id     int
	val    Value
	typ    types.Type
	frozen bool
	label  string
}

type Ptr struct {
	obj  *Object
	path []int
	fn   *Closure // pointer-to-func hack unused
}

func (p Ptr) IsNil() bool { return p.obj == nil }

type Slice struct {
	arr Ptr // points at an array Agg
	off int
	ln  int
	cp  int
}

func (s Slice) IsNil() bool { return s.arr.obj == nil }

type Str struct {
	s   string
	sym []*Term // if non-nil: symbolic bytes, len(sym) is the length
}

func (s Str) Len() int {
	if s.sym != nil {
		return len(s.sym)
	}
	return len(s.s)
}

type Iface struct {
	t types.Type
	v Value
}

type Closure struct {
	fn     *ssa.Function
	binds  []Value
	native func(in *Interp, args []Value) Value // engine-provided function value
}

type mapEnt struct {
	k, v Value
}

type MapObj struct {
	id   int
	ents []mapEnt
	keyT types.Type
	valT types.Type
	frozen bool
}

type ChanObj struct {
	id     int
	buf    []Value
	cp     int
	closed bool
	elemT  types.Type
	sent   int // completed enqueues / dequeues (rendezvous bookkeeping, not journaled)
	recvd  int
}

type Tuple []Value

type Iter struct {
	isMap bool
	m     *MapObj
	ents  []mapEnt
	str   Str
	idx   int
}

type Poison struct{ why string }

// ---- type helpers ----

func isFeltType(t types.Type) bool {
	n, ok := t.(*types.Named)
	if !ok {
		if a, ok2 := t.(*types.Alias); ok2 {
			return isFeltType(types.Unalias(a))
		}
		return false
	}
	arr, ok := n.Underlying().(*types.Array)
	if !ok || arr.Len() != 4 {
		return false
	}
	b, ok := arr.Elem().Underlying().(*types.Basic)
	if !ok || b.Kind() != types.Uint64 {
		return false
	}
	pkg := n.Obj().Pkg()
	if pkg == nil {
		return false
	}
	if strings.HasPrefix(n.Obj().Name(), "vx") {
		return false // harness-declared limb containers are plain [4]uint64
	}
	p := pkg.Path()
	if strings.Contains(p, "/zzverif/") {
		return false
	}
	return strings.HasSuffix(p, "/stark-curve/fp") || strings.HasPrefix(p, "github.com/NethermindEth/juno")
}

func basicWidth(b *types.Basic) int {
	switch b.Kind() {
	case types.Bool, types.UntypedBool:
		return 0
	case types.Int8, types.Uint8:
		return 8
	case types.Int16, types.Uint16:
		return 16
	case types.Int32, types.Uint32, types.UntypedRune, types.Float32:
		return 32
	case types.Int, types.Uint, types.Int64, types.Uint64, types.Uintptr, types.UntypedInt, types.Float64, types.UntypedFloat:
		return 64
	}
	return -1
}

func isSigned(t types.Type) bool {
	b, ok := t.Underlying().(*types.Basic)
	if !ok {
		return false
	}
	return b.Info()&types.IsInteger != 0 && b.Info()&types.IsUnsigned == 0
}

func isFloat(t types.Type) bool {
	b, ok := t.Underlying().(*types.Basic)
	return ok && b.Info()&types.IsFloat != 0
}

func (in *Interp) zero(t types.Type) Value {
	if isFeltType(t) {
		return in.st.Const(256, 0)
	}
	switch u := t.Underlying().(type) {
	case *types.Basic:
		if u.Kind() == types.String || u.Kind() == types.UntypedString {
			return Str{}
		}
		if u.Kind() == types.UnsafePointer {
			return Ptr{}
		}
		if u.Kind() == types.UntypedNil {
			return nil
		}
		w := basicWidth(u)
		if w < 0 {
			in.unsupported("zero of basic type " + u.String())
		}
		return in.st.Const(w, 0)
	case *types.Pointer:
		return Ptr{}
	case *types.Slice:
		return Slice{}
	case *types.Map:
		return (*MapObj)(nil)
	case *types.Chan:
		return (*ChanObj)(nil)
	case *types.Signature:
		return (*Closure)(nil)
	case *types.Interface:
		return Iface{}
	case *types.Struct:
		a := &Agg{e: make([]Value, u.NumFields())}
		for i := range a.e {
			a.e[i] = in.zero(u.Field(i).Type())
		}
		return a
	case *types.Array:
		n := int(u.Len())
		a := &Agg{e: make([]Value, n)}
		if n > 0 {
			z := in.zero(u.Elem())
			for i := range a.e {
				a.e[i] = z // immutable values can be shared
			}
		}
		return a
	case *types.Tuple:
		tp := make(Tuple, u.Len())
		for i := range tp {
			tp[i] = in.zero(u.At(i).Type())
		}
		return tp
	}
	in.unsupported("zero of type " + t.String())
	return nil
}

// ---- heap ----

type jrec struct {
	obj  *Object
	old  Value
	m    *MapObj
	ents []mapEnt
	ch   *ChanObj
	buf  []Value
	closed bool
}

func (in *Interp) newObject(t types.Type, v Value, label string) *Object {
	in.nextObj++
	return &Object{id: in.nextObj, typ: t, val: v, label: label}
}

func (in *Interp) setObj(o *Object, v Value) {
	if in.journalOn && o.id <= in.journalWater {
		in.journal = append(in.journal, jrec{obj: o, old: o.val})
	}
	o.val = v
}

func (in *Interp) setMapEnts(m *MapObj, ents []mapEnt) {
	if in.journalOn && m.id <= in.journalWater {
		in.journal = append(in.journal, jrec{m: m, ents: m.ents})
	}
	m.ents = ents
}

func (in *Interp) setChan(c *ChanObj, buf []Value, closed bool) {
	if in.journalOn && c.id <= in.journalWater {
		in.journal = append(in.journal, jrec{ch: c, buf: c.buf, closed: c.closed})
	}
	c.buf = buf
	c.closed = closed
}

func (in *Interp) rollback(mark int) {
	for i := len(in.journal) - 1; i >= mark; i-- {
		r := in.journal[i]
		switch {
		case r.obj != nil:
			r.obj.val = r.old
		case r.m != nil:
			r.m.ents = r.ents
		case r.ch != nil:
			r.ch.buf = r.buf
			r.ch.closed = r.closed
		}
	}
	in.journal = in.journal[:mark]
}

func (in *Interp) getPath(v Value, path []int) Value {
	for _, i := range path {
		a, ok := v.(*Agg)
		if !ok {
			if pz, isP := v.(Poison); isP {
				return pz // a part of a poisoned aggregate is poisoned (load reports it outside initialisers)
			}
			if t, isT := v.(*Term); isT && t.w == 256 {
				a = in.toRawLimbs(t).(*Agg) // limb access into an abstract field element (concrete only)
			} else {
				panic(fmt.Sprintf("getPath: not an aggregate: %T%s", v, in.where()))
			}
		}
		v = a.e[i]
	}
	return v
}

func (in *Interp) setPath(v Value, path []int, nv Value) Value {
	if len(path) == 0 {
		return nv
	}
	a, ok := v.(*Agg)
	if !ok {
		if _, isP := v.(Poison); isP {
			return v // stays poisoned as a whole
		}
		if t, isT := v.(*Term); isT && t.w == 256 {
			a = in.toRawLimbs(t).(*Agg)
		} else {
			panic(fmt.Sprintf("setPath: not an aggregate: %T", v))
		}
	}
	na := &Agg{e: make([]Value, len(a.e))}
	copy(na.e, a.e)
	na.e[path[0]] = in.setPath(a.e[path[0]], path[1:], nv)
	return na
}

func (in *Interp) load(p Ptr) Value {
	if p.obj == nil {
		in.goPanic("nil pointer dereference")
	}
	v := in.getPath(p.obj.val, p.path)
	if pz, ok := v.(Poison); ok && in.initMode == 0 {
		in.unsupported("read of poisoned value (" + p.obj.label + "): " + pz.why)
	}
	return v
}

func (in *Interp) store(p Ptr, v Value) {
	if p.obj == nil {
		in.goPanic("nil pointer dereference (store)")
	}
	if p.obj.frozen && in.freezeOn {
		in.freezeViolation("store into frozen object " + p.obj.label)
	}
	in.setObj(p.obj, in.setPath(p.obj.val, p.path, v))
}

func (p Ptr) field(i int) Ptr {
	np := make([]int, len(p.path)+1)
	copy(np, p.path)
	np[len(p.path)] = i
	return Ptr{obj: p.obj, path: np}
}

func ptrEq(a, b Ptr) bool {
	if a.obj != b.obj {
		return false
	}
	if a.obj == nil {
		return true
	}
	if len(a.path) != len(b.path) {
		return false
	}
	for i := range a.path {
		if a.path[i] != b.path[i] {
			return false
		}
	}
	return true
}

// ---- equality ----

func (in *Interp) eq(a, b Value) *Term {
	st := in.st
	switch x := a.(type) {
	case *Term:
		y, ok := b.(*Term)
		if !ok {
			// felt abstract vs raw limbs
			return in.eq(in.toAbstractFelt(a), in.toAbstractFelt(b))
		}
		return st.Eq(x, y)
	case *Agg:
		y, ok := b.(*Agg)
		if !ok {
			return in.eq(in.toAbstractFelt(a), in.toAbstractFelt(b))
		}
		r := st.True
		for i := range x.e {
			r = st.BAnd(r, in.eq(x.e[i], y.e[i]))
			if r.IsFalse() {
				return r
			}
		}
		return r
	case Ptr:
		y := b.(Ptr)
		return st.Bool(ptrEq(x, y))
	case Str:
		y := b.(Str)
		if x.Len() != y.Len() {
			return st.False
		}
		if x.sym == nil && y.sym == nil {
			return st.Bool(x.s == y.s)
		}
		r := st.True
		for i := 0; i < x.Len(); i++ {
			r = st.BAnd(r, st.Eq(in.strByte(x, i), in.strByte(y, i)))
		}
		return r
	case Iface:
		y, ok := b.(Iface)
		if !ok {
			if b == nil {
				return st.Bool(x.t == nil)
			}
			in.unsupported("iface eq with non-iface")
		}
		if x.t == nil || y.t == nil {
			return st.Bool(x.t == nil && y.t == nil)
		}
		if !types.Identical(x.t, y.t) {
			return st.False
		}
		return in.eq(x.v, y.v)
	case *Closure:
		y, _ := b.(*Closure)
		return st.Bool(x == y)
	case *MapObj:
		y, _ := b.(*MapObj)
		return st.Bool(x == y)
	case *ChanObj:
		y, _ := b.(*ChanObj)
		return st.Bool(x == y)
	case Slice:
		y := b.(Slice)
		if x.IsNil() || y.IsNil() {
			return st.Bool(x.IsNil() && y.IsNil())
		}
		in.unsupported("slice comparison")
	case nil:
		switch y := b.(type) {
		case nil:
			return st.True
		case Iface:
			return st.Bool(y.t == nil)
		}
	}
	in.unsupported(fmt.Sprintf("eq on %T / %T", a, b))
	return nil
}

func (in *Interp) strByte(s Str, i int) *Term {
	if s.sym != nil {
		return s.sym[i]
	}
	return in.st.Const(8, uint64(s.s[i]))
}

func (in *Interp) strBytes(s Str) []*Term {
	if s.sym != nil {
		return s.sym
	}
	r := make([]*Term, len(s.s))
	for i := range r {
		r[i] = in.st.Const(8, uint64(s.s[i]))
	}
	return r
}

func (in *Interp) mkStr(bs []*Term) Str {
	conc := true
	for _, b := range bs {
		if !b.IsConst() {
			conc = false
			break
		}
	}
	if conc {
		buf := make([]byte, len(bs))
		for i, b := range bs {
			buf[i] = byte(b.c)
		}
		return Str{s: string(buf)}
	}
	if len(bs) == 0 {
		return Str{}
	}
	cp := make([]*Term, len(bs))
	copy(cp, bs)
	return Str{sym: cp}
}

// concreteStr returns the Go string if s is concrete.
func (in *Interp) concreteStr(v Value) string {
	s, ok := v.(Str)
	if !ok {
		in.unsupported(fmt.Sprintf("expected string, got %T", v))
	}
	if s.sym != nil {
		bs := make([]byte, len(s.sym))
		for i, t := range s.sym {
			if !t.IsConst() {
				in.unsupported("symbolic string where concrete needed")
			}
			bs[i] = byte(t.c)
		}
		return string(bs)
	}
	return s.s
}

// ---- merging of values under a condition (used by callee summarisation) ----

type mergeFail struct{ why string }

func (in *Interp) mergeVal(c *Term, a, b Value) Value {
	st := in.st
	switch x := a.(type) {
	case *Term:
		y, ok := b.(*Term)
		if !ok {
			panic(mergeFail{"term vs non-term"})
		}
		if x == y {
			return x
		}
		return st.Ite(c, x, y)
	case *Agg:
		y, ok := b.(*Agg)
		if !ok || len(x.e) != len(y.e) {
			panic(mergeFail{"agg shape"})
		}
		if x == y {
			return x
		}
		na := &Agg{e: make([]Value, len(x.e))}
		for i := range x.e {
			na.e[i] = in.mergeVal(c, x.e[i], y.e[i])
		}
		return na
	case Ptr:
		y, ok := b.(Ptr)
		if !ok || !ptrEq(x, y) {
			panic(mergeFail{"pointer differs"})
		}
		return x
	case Slice:
		y, ok := b.(Slice)
		if !ok || !ptrEq(x.arr, y.arr) || x.off != y.off || x.ln != y.ln || x.cp != y.cp {
			panic(mergeFail{"slice differs"})
		}
		return x
	case Str:
		y, ok := b.(Str)
		if !ok || x.Len() != y.Len() {
			panic(mergeFail{"string length differs"})
		}
		if x.sym == nil && y.sym == nil && x.s == y.s {
			return x
		}
		bs := make([]*Term, x.Len())
		for i := range bs {
			bs[i] = st.Ite(c, in.strByte(x, i), in.strByte(y, i))
		}
		return in.mkStr(bs)
	case Iface:
		y, ok := b.(Iface)
		if !ok {
			panic(mergeFail{"iface vs non-iface"})
		}
		if x.t == nil && y.t == nil {
			return x
		}
		if x.t == nil || y.t == nil || !types.Identical(x.t, y.t) {
			panic(mergeFail{"iface dynamic type differs"})
		}
		return Iface{t: x.t, v: in.mergeVal(c, x.v, y.v)}
	case Tuple:
		y, ok := b.(Tuple)
		if !ok || len(x) != len(y) {
			panic(mergeFail{"tuple"})
		}
		nt := make(Tuple, len(x))
		for i := range x {
			nt[i] = in.mergeVal(c, x[i], y[i])
		}
		return nt
	case *Closure:
		y, _ := b.(*Closure)
		if x != y {
			panic(mergeFail{"closure differs"})
		}
		return x
	case *MapObj:
		y, _ := b.(*MapObj)
		if x != y {
			panic(mergeFail{"map differs"})
		}
		return x
	case *ChanObj:
		y, _ := b.(*ChanObj)
		if x != y {
			panic(mergeFail{"chan differs"})
		}
		return x
	case nil:
		if b == nil {
			return nil
		}
		panic(mergeFail{"nil vs non-nil"})
	}
	panic(mergeFail{fmt.Sprintf("unmergeable %T", a)})
}

// ---- misc conversions ----

func (in *Interp) concreteInt(v Value, what string) int {
	t, ok := v.(*Term)
	if !ok {
		in.unsupported(fmt.Sprintf("%s: expected int term got %T", what, v))
	}
	if !t.IsConst() {
		return int(in.concretize(t, what))
	}
	if t.w > 64 {
		in.unsupported("wide int as index")
	}
	return int(toSigned(t.c, t.w))
}

func bigFromLimbs(l [4]uint64) *big.Int {
	r := new(big.Int)
	for i := 3; i >= 0; i-- {
		r.Lsh(r, 64)
		r.Or(r, new(big.Int).SetUint64(l[i]))
	}
	return r
}

func describeValue(v Value) string {
	switch x := v.(type) {
	case *Term:
		return x.String()
	case *Agg:
		parts := make([]string, 0, len(x.e))
		for i, e := range x.e {
			if i > 8 {
				parts = append(parts, "…")
				break
			}
			parts = append(parts, describeValue(e))
		}
		return "{" + strings.Join(parts, ",") + "}"
	case Ptr:
		if x.obj == nil {
			return "nil"
		}
		return fmt.Sprintf("&obj%d%v", x.obj.id, x.path)
	case Str:
		if x.sym == nil {
			return fmt.Sprintf("%q", x.s)
		}
		return fmt.Sprintf("symstr[%d]", len(x.sym))
	case Iface:
		if x.t == nil {
			return "nil-iface"
		}
		return "iface(" + x.t.String() + ")"
	case Slice:
		return fmt.Sprintf("slice[%d:%d]", x.off, x.off+x.ln)
	case Tuple:
		parts := make([]string, len(x))
		for i, e := range x {
			parts[i] = describeValue(e)
		}
		return "(" + strings.Join(parts, ",") + ")"
	}
	return fmt.Sprintf("%T", v)
}
