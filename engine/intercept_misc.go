package main

import (
	"go/types"
	"strconv"
	"strings"

	"golang.org/x/tools/go/ssa"
)

const semverPkg = "github.com/Masterminds/semver/v3"

// mkSemver builds a *semver.Version from a concrete "X.Y.Z" string (pre-release/metadata unsupported).
func (in *Interp) mkSemver(s string) (Value, bool) {
	orig := s
	s = strings.TrimPrefix(s, "v")
	if i := strings.IndexAny(s, "-+"); i >= 0 {
		in.unsupported("semver with pre-release/metadata: " + orig)
	}
	parts := strings.Split(s, ".")
	if len(parts) == 0 || len(parts) > 3 {
		return nil, false
	}
	var v [3]uint64
	for i, p := range parts {
		n, err := strconv.ParseUint(p, 10, 64)
		if err != nil {
			return nil, false
		}
		v[i] = n
	}
	t := in.namedType(semverPkg, "Version")
	ag := &Agg{e: []Value{in.st.Const(64, v[0]), in.st.Const(64, v[1]), in.st.Const(64, v[2]), Str{}, Str{}, Str{s: orig}}}
	o := in.newObject(t, ag, "semver")
	return Ptr{obj: o}, true
}

func init() {
	reg(semverPkg+".MustParse", func(in *Interp, c *Frame, fn *ssa.Function, a []Value) Value {
		v, ok := in.mkSemver(in.concreteStr(a[0]))
		if !ok {
			in.goPanic("semver.MustParse: invalid version")
		}
		return v
	})
	for _, n := range []string{"NewVersion", "StrictNewVersion"} {
		reg(semverPkg+"."+n, func(in *Interp, c *Frame, fn *ssa.Function, a []Value) Value {
			v, ok := in.mkSemver(in.concreteStr(a[0]))
			if !ok {
				return Tuple{Ptr{}, in.newErrorString("invalid semantic version")}
			}
			return Tuple{v, Iface{}}
		})
	}
	reg("(*"+semverPkg+".Version).String", func(in *Interp, c *Frame, fn *ssa.Function, a []Value) Value {
		ag := in.load(a[0].(Ptr)).(*Agg)
		var parts []string
		for i := 0; i < 3; i++ {
			t := ag.e[i].(*Term)
			if !t.IsConst() {
				return Str{s: "?.?.?"}
			}
			parts = append(parts, strconv.FormatUint(t.c, 10))
		}
		return Str{s: strings.Join(parts, ".")}
	})
	reg("(" + semverPkg + ".Version).String", func(in *Interp, c *Frame, fn *ssa.Function, a []Value) Value {
		return Str{s: "?.?.?"}
	})
	reg("strconv.ParseUint", func(in *Interp, c *Frame, fn *ssa.Function, a []Value) Value {
		s := in.concreteStr(a[0])
		base := in.concreteInt(a[1], "base")
		bits := in.concreteInt(a[2], "bitSize")
		n, err := strconv.ParseUint(s, base, bits)
		if err != nil {
			return Tuple{in.st.Const(64, n), in.newErrorString(err.Error())}
		}
		return Tuple{in.st.Const(64, n), Iface{}}
	})
	_ = types.Typ
}
