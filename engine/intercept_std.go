package main

import (
	"fmt"
	"go/types"
	"strings"

	"golang.org/x/tools/go/ssa"
)

func (in *Interp) namedType(pkgPath, name string) types.Type {
	p := in.prog.ImportedPackage(pkgPath)
	if p == nil {
		in.unsupported("package not loaded: " + pkgPath)
	}
	m, ok := p.Members[name]
	if !ok {
		in.unsupported("type not found: " + pkgPath + "." + name)
	}
	return m.(*ssa.Type).Type()
}

func (in *Interp) newErrorString(msg string) Iface {
	t := in.namedType("errors", "errorString")
	o := in.newObject(t, &Agg{e: []Value{Str{s: msg}}}, "errorString")
	return Iface{t: types.NewPointer(t), v: Ptr{obj: o}}
}

func (in *Interp) variadicArgs(v Value) []Value {
	s, ok := v.(Slice)
	if !ok || s.IsNil() {
		return nil
	}
	return in.sliceVals(s)
}

func init() {
	// ---------- fmt ----------
	reg("fmt.Errorf", func(in *Interp, c *Frame, fn *ssa.Function, a []Value) Value {
		format := in.concreteStr(a[0])
		args := in.variadicArgs(a[1])
		msg := in.bestEffortFormat(format, args)
		// find %w operands
		var wrapped []Value
		ai := 0
		for i := 0; i < len(format); i++ {
			if format[i] != '%' {
				continue
			}
			i++
			for i < len(format) && strings.ContainsRune("+-# 0123456789.", rune(format[i])) {
				i++
			}
			if i >= len(format) {
				break
			}
			if format[i] == '%' {
				continue
			}
			if format[i] == 'w' && ai < len(args) {
				if iv, ok := args[ai].(Iface); ok && iv.t != nil {
					wrapped = append(wrapped, iv)
				}
			}
			ai++
		}
		switch len(wrapped) {
		case 0:
			return in.newErrorString(msg)
		case 1:
			t := in.namedType("fmt", "wrapError")
			o := in.newObject(t, &Agg{e: []Value{Str{s: msg}, wrapped[0]}}, "wrapError")
			return Iface{t: types.NewPointer(t), v: Ptr{obj: o}}
		default:
			t := in.namedType("fmt", "wrapErrors")
			errT := types.Universe.Lookup("error").Type()
			sl := in.makeSlice(errT, len(wrapped), len(wrapped))
			ag := &Agg{e: append([]Value{}, wrapped...)}
			sl.arr.obj.val = ag
			o := in.newObject(t, &Agg{e: []Value{Str{s: msg}, sl}}, "wrapErrors")
			return Iface{t: types.NewPointer(t), v: Ptr{obj: o}}
		}
	})
	sprintf := func(in *Interp, c *Frame, fn *ssa.Function, a []Value) Value {
		return Str{s: in.bestEffortFormat(in.concreteStr(a[0]), in.variadicArgs(a[1]))}
	}
	reg("fmt.Sprintf", sprintf)
	reg("fmt.Sprint", func(in *Interp, c *Frame, fn *ssa.Function, a []Value) Value {
		var parts []string
		for _, v := range in.variadicArgs(a[0]) {
			parts = append(parts, in.renderArg(v, 'v'))
		}
		return Str{s: strings.Join(parts, " ")}
	})
	reg("fmt.Sprintln", func(in *Interp, c *Frame, fn *ssa.Function, a []Value) Value { return Str{s: "?\n"} })
	for _, n := range []string{"fmt.Printf", "fmt.Println", "fmt.Print", "fmt.Fprintf", "fmt.Fprintln", "fmt.Fprint"} {
		reg(n, func(in *Interp, c *Frame, fn *ssa.Function, a []Value) Value {
			return Tuple{in.st.Const(64, 0), Iface{}}
		})
	}

	// ---------- errors ----------
	reg("errors.Is", func(in *Interp, c *Frame, fn *ssa.Function, a []Value) Value {
		return in.st.Bool(in.errorsIs(a[0], a[1]))
	})
	reg("errors.As", func(in *Interp, c *Frame, fn *ssa.Function, a []Value) Value {
		return in.st.Bool(in.errorsAs(a[0], a[1]))
	})
	reg("errors.Join", func(in *Interp, c *Frame, fn *ssa.Function, a []Value) Value {
		var errs []Value
		for _, e := range in.variadicArgs(a[0]) {
			if iv, ok := e.(Iface); ok && iv.t != nil {
				errs = append(errs, iv)
			}
		}
		if len(errs) == 0 {
			return Iface{}
		}
		t := in.namedType("errors", "joinError")
		errT := types.Universe.Lookup("error").Type()
		sl := in.makeSlice(errT, len(errs), len(errs))
		sl.arr.obj.val = &Agg{e: errs}
		o := in.newObject(t, &Agg{e: []Value{sl}}, "joinError")
		return Iface{t: types.NewPointer(t), v: Ptr{obj: o}}
	})

	// ---------- context (no deadlines: cancellation is driven by the harness's own Context model) ----------
	ctxDerive := func(in *Interp, c *Frame, fn *ssa.Function, a []Value) Value {
		cancel := &Closure{native: func(in *Interp, args []Value) Value { return nil }}
		return Tuple{a[0], cancel}
	}
	reg("context.WithTimeout", ctxDerive)
	reg("context.WithCancel", func(in *Interp, c *Frame, fn *ssa.Function, a []Value) Value {
		if pkg := in.prog.ImportedPackage(strings.TrimSuffix(vxPkg, ".")); pkg != nil {
			if m := pkg.Func("ModelWithCancel"); m != nil {
				return in.callFunction(m, a, c)
			}
		}
		return ctxDerive(in, c, fn, a)
	})
	reg("context.WithDeadline", ctxDerive)
	reg("context.WithCancelCause", ctxDerive)
	reg("context.WithValue", func(in *Interp, c *Frame, fn *ssa.Function, a []Value) Value { return a[0] })
	reg("context.WithoutCancel", func(in *Interp, c *Frame, fn *ssa.Function, a []Value) Value { return a[0] })

	// ---------- logging / metrics: empty bodies ----------
	regPS("go.uber.org/zap.", "", nop)
	regPS("(*go.uber.org/zap.", "", nop)
	regPS("(go.uber.org/zap.", "", nop)
	regPS("(*github.com/NethermindEth/juno/utils/log.ZapLogger).", "", nop)
	regPS("(github.com/prometheus/client_golang/prometheus.", "", nop)
	regPS("(*github.com/prometheus/client_golang/prometheus.", "", nop)
	regPS("github.com/prometheus/client_golang/prometheus.", "", nop)
	reg("time.AfterFunc", func(in *Interp, c *Frame, fn *ssa.Function, a []Value) Value { return Ptr{} }) // never fires
	vxCall := func(in *Interp, c *Frame, name string, a []Value) Value {
		pkg := in.prog.ImportedPackage(strings.TrimSuffix(vxPkg, "."))
		if pkg == nil || pkg.Func(name) == nil {
			in.unsupported("vx." + name + " model missing")
		}
		return in.callFunction(pkg.Func(name), a, c)
	}
	reg("time.NewTimer", func(in *Interp, c *Frame, fn *ssa.Function, a []Value) Value { return vxCall(in, c, "ModelNewTimer", a) })
	reg("time.NewTicker", func(in *Interp, c *Frame, fn *ssa.Function, a []Value) Value { return vxCall(in, c, "ModelNewTicker", a) })
	reg("time.After", func(in *Interp, c *Frame, fn *ssa.Function, a []Value) Value { return vxCall(in, c, "ModelAfter", a) })
	reg("time.Tick", func(in *Interp, c *Frame, fn *ssa.Function, a []Value) Value { return vxCall(in, c, "ModelTick", a) })
	reg(vxPkg+"ArmTimer", func(in *Interp, c *Frame, fn *ssa.Function, a []Value) Value {
		ch, _ := a[0].(*ChanObj)
		if ch == nil {
			in.unsupported("vx.ArmTimer: nil channel")
		}
		in.armTimer(ch, int64(in.concU64(a[1], "timer duration")), a[2].(*Term).IsTrue())
		return nil
	})
	timerChan := func(in *Interp, recv Value) *ChanObj {
		p, ok := recv.(Ptr)
		if !ok || p.IsNil() {
			return nil
		}
		ag, _ := in.load(p).(*Agg)
		if ag == nil || len(ag.e) == 0 {
			return nil
		}
		ch, _ := ag.e[0].(*ChanObj)
		return ch
	}
	stop := func(in *Interp, c *Frame, fn *ssa.Function, a []Value) Value {
		ch := timerChan(in, a[0])
		was := ch != nil && in.disarmTimer(ch)
		if fn.Signature.Results().Len() == 0 {
			return nil
		}
		return in.st.Bool(was)
	}
	reset := func(periodic bool) Intercept {
		return func(in *Interp, c *Frame, fn *ssa.Function, a []Value) Value {
			ch := timerChan(in, a[0])
			was := false
			if ch != nil {
				was = in.disarmTimer(ch)
				in.armTimer(ch, int64(in.concU64(a[1], "timer duration")), periodic)
			}
			if fn.Signature.Results().Len() == 0 {
				return nil
			}
			return in.st.Bool(was)
		}
	}
	reg("(*time.Timer).Stop", stop)
	reg("(*time.Timer).Reset", reset(false))
	reg("(*time.Ticker).Stop", stop)
	reg("(*time.Ticker).Reset", reset(true))
	reg("time.Since", func(in *Interp, c *Frame, fn *ssa.Function, a []Value) Value { return in.st.Const(64, 0) })
	reg("time.Now", func(in *Interp, c *Frame, fn *ssa.Function, a []Value) Value { return in.zero(fn.Signature.Results().At(0).Type()) })

	// ---------- sourcegraph/conc: goroutines run to completion at the spawn point ----------
	// (default; a harness that calls vx.RealPools() gets the library code itself, executed on the scheduler)
	inlineOrReal := func(inline Intercept) Intercept {
		return func(in *Interp, c *Frame, fn *ssa.Function, a []Value) Value {
			if in.realPools && fn.Blocks != nil {
				return in.callFunction(fn, a, c)
			}
			return inline(in, c, fn, a)
		}
	}
	runNow := func(in *Interp, c *Frame, fn *ssa.Function, a []Value) Value {
		in.callClosure(a[1].(*Closure), nil, c)
		return nil
	}
	reg("(*github.com/sourcegraph/conc.WaitGroup).Go", inlineOrReal(runNow))
	reg("(*github.com/sourcegraph/conc.WaitGroup).Wait", inlineOrReal(nop))
	// pool.Pool: every task runs to completion when it is submitted (ErrorPool / ResultPool /
	// ContextPool are thin wrappers that funnel through Pool.Go and Pool.Wait and run from source)
	reg("(*github.com/sourcegraph/conc/pool.Pool).Go", inlineOrReal(runNow))
	reg("(*github.com/sourcegraph/conc/pool.Pool).Wait", inlineOrReal(nop))
	reg("(*github.com/sourcegraph/conc.WaitGroup).WaitAndRecover", inlineOrReal(nop))

	// sort.Slice / SliceStable / sort.SliceIsSorted: insertion sort driven by the caller's less
	// (reflect-based swapper in the library); the comparison results fork like any branch
	sortSlice := func(in *Interp, c *Frame, fn *ssa.Function, a []Value) Value {
		iv, ok := a[0].(Iface)
		if !ok {
			in.unsupported("sort.Slice of non-interface")
		}
		sl, ok := iv.v.(Slice)
		if !ok {
			in.unsupported("sort.Slice of non-slice")
		}
		less := a[1].(*Closure)
		for i := 1; i < sl.ln; i++ {
			for j := i; j > 0; j-- {
				r := in.callClosure(less, []Value{in.st.Const(64, uint64(j)), in.st.Const(64, uint64(j-1))}, c).(*Term)
				if !in.branch(r) {
					break
				}
				pa, pb := in.elemPtr(sl, j), in.elemPtr(sl, j-1)
				va, vb := in.load(pa), in.load(pb)
				in.store(pa, vb)
				in.store(pb, va)
			}
		}
		return nil
	}
	reg("sort.Slice", sortSlice)
	reg("sort.SliceStable", sortSlice)

	// bloom's murmur block mixer reads 16-byte blocks through an unsafe array view; the same loop
	// over the slice, calling the library's own bmix_words
	reg("(*github.com/bits-and-blooms/bloom/v3.digest128).bmix", func(in *Interp, c *Frame, fn *ssa.Function, a []Value) Value {
		bs := in.sliceBytes(a[1])
		mw := in.methodOf(fn.Signature.Recv().Type(), "bmix_words")
		if mw == nil {
			in.unsupported("bloom: bmix_words not found")
		}
		le := func(b []*Term) *Term {
			acc := b[7]
			for i := 6; i >= 0; i-- {
				acc = in.st.Concat(acc, b[i])
			}
			return acc
		}
		for i := 0; i+16 <= len(bs); i += 16 {
			in.dispatch(mw, []Value{a[0], le(bs[i : i+8]), le(bs[i+8 : i+16])}, c)
		}
		return nil
	})

	reg("maps.clone", func(in *Interp, c *Frame, fn *ssa.Function, a []Value) Value {
		iv := a[0].(Iface)
		m, _ := iv.v.(*MapObj)
		if m == nil {
			return iv
		}
		in.nextObj++
		nm := &MapObj{id: in.nextObj, keyT: m.keyT, valT: m.valT, ents: append([]mapEnt{}, m.ents...)}
		return Iface{t: iv.t, v: nm}
	})

	// ---------- sync ----------
	for _, n := range []string{"(*sync.Mutex).Lock", "(*sync.RWMutex).Lock"} {
		reg(n, func(in *Interp, c *Frame, fn *ssa.Function, a []Value) Value {
			in.yieldPoint("Lock")
			in.muLock(a[0])
			return nil
		})
	}
	for _, n := range []string{"(*sync.Mutex).Unlock", "(*sync.RWMutex).Unlock"} {
		reg(n, func(in *Interp, c *Frame, fn *ssa.Function, a []Value) Value {
			in.mu(a[0]).w = false
			in.yieldPoint("Unlock")
			return nil
		})
	}
	reg("(*sync.RWMutex).RLock", func(in *Interp, c *Frame, fn *ssa.Function, a []Value) Value {
		in.yieldPoint("RLock")
		in.muRLock(a[0])
		return nil
	})
	reg("(*sync.RWMutex).RUnlock", func(in *Interp, c *Frame, fn *ssa.Function, a []Value) Value {
		if m := in.mu(a[0]); m.r > 0 {
			m.r--
		}
		in.yieldPoint("RUnlock")
		return nil
	})
	reg("(*sync.WaitGroup).Add", func(in *Interp, c *Frame, fn *ssa.Function, a []Value) Value {
		*in.wg(a[0]) += int(int64(in.concreteInt(a[1], "WaitGroup.Add delta")))
		return nil
	})
	reg("(*sync.WaitGroup).Done", func(in *Interp, c *Frame, fn *ssa.Function, a []Value) Value { *in.wg(a[0])--; return nil })
	reg("(*sync.WaitGroup).Wait", func(in *Interp, c *Frame, fn *ssa.Function, a []Value) Value {
		n := in.wg(a[0])
		if in.sch != nil {
			in.block(func() bool { return *n <= 0 }, "WaitGroup.Wait")
		}
		return nil
	})
	for _, n := range []string{"(*sync.Cond).Broadcast", "(*sync.Cond).Signal", "runtime.Gosched", "runtime.KeepAlive", "runtime.SetFinalizer",
		"(*sync.noCopy).Lock", "(*sync.noCopy).Unlock", "internal/race.Acquire", "internal/race.Release", "internal/race.ReleaseMerge",
		"internal/race.Disable", "internal/race.Enable", "internal/race.Read", "internal/race.Write"} {
		reg(n, nop)
	}
	reg("(*sync.WaitGroup).Go", func(in *Interp, c *Frame, fn *ssa.Function, a []Value) Value {
		n := in.wg(a[0])
		*n++
		f := a[1].(*Closure)
		in.spawn(c, &Closure{native: func(in *Interp, _ []Value) Value {
			in.callClosure(f, nil, c)
			*n--
			return nil
		}}, nil)
		return nil
	})
	reg("(*sync.Mutex).TryLock", func(in *Interp, c *Frame, fn *ssa.Function, a []Value) Value {
		m := in.mu(a[0])
		if m.w || m.r > 0 {
			return in.st.False
		}
		m.w = true
		return in.st.True
	})
	// ---------- sync.Map: association-list model (the real one hashes keys through runtime type info) ----------
	anyT := types.NewInterfaceType(nil, nil)
	smap := func(in *Interp, p Value) *MapObj {
		if in.syncMaps == nil {
			in.syncMaps = map[string]*MapObj{}
		}
		k := ptrKey(p.(Ptr))
		m := in.syncMaps[k]
		if m == nil {
			in.nextObj++
			m = &MapObj{id: in.nextObj, keyT: anyT, valT: anyT}
			in.syncMaps[k] = m
		}
		return m
	}
	reg("(*sync.Map).Load", func(in *Interp, c *Frame, fn *ssa.Function, a []Value) Value {
		in.yieldPoint("sync.Map")
		m := smap(in, a[0])
		if i := in.mapFind(m, a[1]); i >= 0 {
			return Tuple{m.ents[i].v, in.st.True}
		}
		return Tuple{Iface{}, in.st.False}
	})
	reg("(*sync.Map).Store", func(in *Interp, c *Frame, fn *ssa.Function, a []Value) Value {
		in.yieldPoint("sync.Map")
		in.mapUpdate(smap(in, a[0]), a[1], a[2])
		return nil
	})
	reg("(*sync.Map).Delete", func(in *Interp, c *Frame, fn *ssa.Function, a []Value) Value {
		in.yieldPoint("sync.Map")
		in.mapDelete(smap(in, a[0]), a[1])
		return nil
	})
	reg("(*sync.Map).Clear", func(in *Interp, c *Frame, fn *ssa.Function, a []Value) Value {
		in.yieldPoint("sync.Map")
		in.setMapEnts(smap(in, a[0]), nil)
		return nil
	})
	reg("(*sync.Map).LoadOrStore", func(in *Interp, c *Frame, fn *ssa.Function, a []Value) Value {
		in.yieldPoint("sync.Map")
		m := smap(in, a[0])
		if i := in.mapFind(m, a[1]); i >= 0 {
			return Tuple{m.ents[i].v, in.st.True}
		}
		in.mapUpdate(m, a[1], a[2])
		return Tuple{a[2], in.st.False}
	})
	reg("(*sync.Map).LoadAndDelete", func(in *Interp, c *Frame, fn *ssa.Function, a []Value) Value {
		in.yieldPoint("sync.Map")
		m := smap(in, a[0])
		if i := in.mapFind(m, a[1]); i >= 0 {
			v := m.ents[i].v
			in.mapDelete(m, a[1])
			return Tuple{v, in.st.True}
		}
		return Tuple{Iface{}, in.st.False}
	})
	reg("(*sync.Map).Swap", func(in *Interp, c *Frame, fn *ssa.Function, a []Value) Value {
		in.yieldPoint("sync.Map")
		m := smap(in, a[0])
		var prev Value = Iface{}
		loaded := in.st.False
		if i := in.mapFind(m, a[1]); i >= 0 {
			prev, loaded = m.ents[i].v, in.st.True
		}
		in.mapUpdate(m, a[1], a[2])
		return Tuple{prev, loaded}
	})
	reg("(*sync.Map).Range", func(in *Interp, c *Frame, fn *ssa.Function, a []Value) Value {
		in.yieldPoint("sync.Map")
		m := smap(in, a[0])
		f := a[1].(*Closure)
		for _, e := range append([]mapEnt(nil), m.ents...) {
			r := in.callClosure(f, []Value{e.k, e.v}, c)
			if !in.branch(r.(*Term)) {
				break
			}
		}
		return nil
	})
	// sync.Pool: Get hands back the object most recently Put into this pool, if any (what the runtime does on
	// one P, and the behaviour under which a use-after-Put shows), otherwise New()
	pooled := func(in *Interp, p Value) *[]Value {
		if in.pools == nil {
			in.pools = map[string]*[]Value{}
		}
		k := ptrKey(p.(Ptr))
		if in.pools[k] == nil {
			in.pools[k] = new([]Value)
		}
		return in.pools[k]
	}
	reg("(*sync.Pool).Get", func(in *Interp, c *Frame, fn *ssa.Function, a []Value) Value {
		p := a[0].(Ptr)
		if st := pooled(in, p); len(*st) > 0 {
			v := (*st)[len(*st)-1]
			*st = (*st)[:len(*st)-1]
			return v
		}
		pool := in.load(p).(*Agg)
		// New is the last field
		nf, _ := pool.e[len(pool.e)-1].(*Closure)
		if nf == nil {
			return Iface{}
		}
		return in.callClosure(nf, nil, c)
	})
	reg("(*sync.Pool).Put", func(in *Interp, c *Frame, fn *ssa.Function, a []Value) Value {
		st := pooled(in, a[0])
		*st = append(*st, a[1])
		return nil
	})
	reg("runtime.GOMAXPROCS", func(in *Interp, c *Frame, fn *ssa.Function, a []Value) Value { return in.st.Const(64, 1) })
	reg("runtime.NumCPU", func(in *Interp, c *Frame, fn *ssa.Function, a []Value) Value { return in.st.Const(64, 1) })

	// ---------- sync/atomic (sequentially consistent; each operation is a preemption point under vx.Preemptions) ----------
	for _, ty := range []string{"Int32", "Int64", "Uint32", "Uint64", "Uintptr", "Pointer"} {
		reg("sync/atomic.Load"+ty, func(in *Interp, c *Frame, fn *ssa.Function, a []Value) Value {
			in.yieldPoint("atomic")
			return in.load(a[0].(Ptr))
		})
		reg("sync/atomic.Store"+ty, func(in *Interp, c *Frame, fn *ssa.Function, a []Value) Value {
			in.yieldPoint("atomic")
			in.store(a[0].(Ptr), a[1])
			return nil
		})
		reg("sync/atomic.Swap"+ty, func(in *Interp, c *Frame, fn *ssa.Function, a []Value) Value {
			in.yieldPoint("atomic")
			old := in.load(a[0].(Ptr))
			in.store(a[0].(Ptr), a[1])
			return old
		})
		reg("sync/atomic.CompareAndSwap"+ty, func(in *Interp, c *Frame, fn *ssa.Function, a []Value) Value {
			in.yieldPoint("atomic")
			cur := in.load(a[0].(Ptr))
			if in.branch(in.eq(cur, a[1])) {
				in.store(a[0].(Ptr), a[2])
				return in.st.True
			}
			return in.st.False
		})
		if ty != "Pointer" {
			reg("sync/atomic.Add"+ty, func(in *Interp, c *Frame, fn *ssa.Function, a []Value) Value {
			in.yieldPoint("atomic")
				cur := in.load(a[0].(Ptr)).(*Term)
				nv := in.st.Bin(OpAdd, cur, a[1].(*Term))
				in.store(a[0].(Ptr), nv)
				return nv
			})
			reg("sync/atomic.And"+ty, func(in *Interp, c *Frame, fn *ssa.Function, a []Value) Value {
			in.yieldPoint("atomic")
				cur := in.load(a[0].(Ptr)).(*Term)
				in.store(a[0].(Ptr), in.st.Bin(OpAnd, cur, a[1].(*Term)))
				return cur
			})
			reg("sync/atomic.Or"+ty, func(in *Interp, c *Frame, fn *ssa.Function, a []Value) Value {
			in.yieldPoint("atomic")
				cur := in.load(a[0].(Ptr)).(*Term)
				in.store(a[0].(Ptr), in.st.Bin(OpOr, cur, a[1].(*Term)))
				return cur
			})
		}
	}
	reg("(*sync/atomic.Value).Load", func(in *Interp, c *Frame, fn *ssa.Function, a []Value) Value {
			in.yieldPoint("atomic")
		return in.load(a[0].(Ptr).field(0))
	})
	reg("(*sync/atomic.Value).Store", func(in *Interp, c *Frame, fn *ssa.Function, a []Value) Value {
			in.yieldPoint("atomic")
		in.store(a[0].(Ptr).field(0), a[1])
		return nil
	})
	reg("(*sync/atomic.Value).Swap", func(in *Interp, c *Frame, fn *ssa.Function, a []Value) Value {
			in.yieldPoint("atomic")
		old := in.load(a[0].(Ptr).field(0))
		in.store(a[0].(Ptr).field(0), a[1])
		return old
	})

	// ---------- math/bits ----------
	bitsUn := func(name string, w int, f func(in *Interp, x *Term) *Term) {
		reg("math/bits."+name, func(in *Interp, c *Frame, fn *ssa.Function, a []Value) Value {
			x := a[0].(*Term)
			r := f(in, x)
			return in.st.ZExt(r, 64)
		})
	}
	for _, w := range []int{8, 16, 32, 64} {
		sfx := fmt.Sprint(w)
		bitsUn("LeadingZeros"+sfx, w, func(in *Interp, x *Term) *Term { return in.st.LeadingZeros(x) })
		bitsUn("TrailingZeros"+sfx, w, func(in *Interp, x *Term) *Term { return in.st.TrailingZeros(x) })
		bitsUn("OnesCount"+sfx, w, func(in *Interp, x *Term) *Term { return in.st.PopCount(x) })
		bitsUn("Len"+sfx, w, func(in *Interp, x *Term) *Term {
			return in.st.Bin(OpSub, in.st.Const(x.w, uint64(x.w)), in.st.LeadingZeros(x))
		})
	}
	bitsUn("LeadingZeros", 64, func(in *Interp, x *Term) *Term { return in.st.LeadingZeros(x) })
	bitsUn("TrailingZeros", 64, func(in *Interp, x *Term) *Term { return in.st.TrailingZeros(x) })
	bitsUn("OnesCount", 64, func(in *Interp, x *Term) *Term { return in.st.PopCount(x) })
	bitsUn("Len", 64, func(in *Interp, x *Term) *Term {
		return in.st.Bin(OpSub, in.st.Const(x.w, uint64(x.w)), in.st.LeadingZeros(x))
	})
	addsub := func(op Op) Intercept {
		return func(in *Interp, c *Frame, fn *ssa.Function, a []Value) Value {
			st := in.st
			x, y, ci := a[0].(*Term), a[1].(*Term), a[2].(*Term)
			w := x.w
			xe, ye, ce := st.ZExt(x, w+1), st.ZExt(y, w+1), st.ZExt(ci, w+1)
			var full *Term
			if op == OpAdd {
				full = st.Bin(OpAdd, st.Bin(OpAdd, xe, ye), ce)
			} else {
				full = st.Bin(OpSub, st.Bin(OpSub, xe, ye), ce)
			}
			return Tuple{st.Extract(full, w-1, 0), st.ZExt(st.Extract(full, w, w), w)}
		}
	}
	reg("math/bits.Add64", addsub(OpAdd))
	reg("math/bits.Sub64", addsub(OpSub))
	reg("math/bits.Add", addsub(OpAdd))
	reg("math/bits.Sub", addsub(OpSub))
	reg("math/bits.Add32", addsub(OpAdd))
	reg("math/bits.Sub32", addsub(OpSub))
	reg("math/bits.Mul64", func(in *Interp, c *Frame, fn *ssa.Function, a []Value) Value {
		st := in.st
		x, y := st.ZExt(a[0].(*Term), 128), st.ZExt(a[1].(*Term), 128)
		p := st.Bin(OpMul, x, y)
		return Tuple{st.Extract(p, 127, 64), st.Extract(p, 63, 0)}
	})
	reg("math/bits.ReverseBytes64", func(in *Interp, c *Frame, fn *ssa.Function, a []Value) Value {
		st := in.st
		x := a[0].(*Term)
		r := st.Extract(x, 7, 0)
		for i := 1; i < 8; i++ {
			r = st.Concat(r, st.Extract(x, 8*i+7, 8*i))
		}
		return r
	})
	reg("math/bits.RotateLeft64", func(in *Interp, c *Frame, fn *ssa.Function, a []Value) Value {
		st := in.st
		x, k := a[0].(*Term), a[1].(*Term)
		s := st.Bin(OpAnd, k, st.Const(64, 63))
		l := st.Bin(OpShl, x, s)
		r := st.Bin(OpLShr, x, st.Bin(OpAnd, st.Bin(OpSub, st.Const(64, 64), s), st.Const(64, 63)))
		return st.Ite(st.Eq(s, st.Const(64, 0)), x, st.Bin(OpOr, l, r))
	})

	// ---------- internal/bytealg ----------
	reg("internal/bytealg.Compare", func(in *Interp, c *Frame, fn *ssa.Function, a []Value) Value {
		return in.bytesCompare(in.sliceBytes(a[0]), in.sliceBytes(a[1]))
	})
	reg("bytes.Compare", func(in *Interp, c *Frame, fn *ssa.Function, a []Value) Value {
		return in.bytesCompare(in.sliceBytes(a[0]), in.sliceBytes(a[1]))
	})
	// internal/abi.NoEscape / Escape hide a pointer from escape analysis by xor-ing its bits; identity here
	reg("internal/abi.NoEscape", func(in *Interp, c *Frame, fn *ssa.Function, a []Value) Value { return a[0] })
	reg("internal/abi.Escape", func(in *Interp, c *Frame, fn *ssa.Function, a []Value) Value { return a[0] })
	reg("strings.Compare", func(in *Interp, c *Frame, fn *ssa.Function, a []Value) Value {
		return in.bytesCompare(in.strBytes(a[0].(Str)), in.strBytes(a[1].(Str)))
	})
	reg("internal/bytealg.CompareString", func(in *Interp, c *Frame, fn *ssa.Function, a []Value) Value {
		return in.bytesCompare(in.strBytes(a[0].(Str)), in.strBytes(a[1].(Str)))
	})
	reg("bytes.Equal", func(in *Interp, c *Frame, fn *ssa.Function, a []Value) Value {
		x, y := in.sliceBytes(a[0]), in.sliceBytes(a[1])
		if len(x) != len(y) {
			return in.st.False
		}
		r := in.st.True
		for i := range x {
			r = in.st.BAnd(r, in.st.Eq(x[i], y[i]))
		}
		return r
	})
	reg("bytes.HasPrefix", func(in *Interp, c *Frame, fn *ssa.Function, a []Value) Value {
		x, y := in.sliceBytes(a[0]), in.sliceBytes(a[1])
		if len(x) < len(y) {
			return in.st.False
		}
		r := in.st.True
		for i := range y {
			r = in.st.BAnd(r, in.st.Eq(x[i], y[i]))
		}
		return r
	})
	indexByte := func(in *Interp, bs []*Term, b *Term) Value {
		st := in.st
		res := st.Const(64, ^uint64(0))
		for i := len(bs) - 1; i >= 0; i-- {
			res = st.Ite(st.Eq(bs[i], b), st.Const(64, uint64(i)), res)
		}
		return res
	}
	reg("internal/bytealg.IndexByte", func(in *Interp, c *Frame, fn *ssa.Function, a []Value) Value {
		return indexByte(in, in.sliceBytes(a[0]), a[1].(*Term))
	})
	reg("internal/bytealg.IndexByteString", func(in *Interp, c *Frame, fn *ssa.Function, a []Value) Value {
		return indexByte(in, in.strBytes(a[0].(Str)), a[1].(*Term))
	})
	reg("internal/bytealg.Equal", func(in *Interp, c *Frame, fn *ssa.Function, a []Value) Value {
		x, y := in.sliceBytes(a[0]), in.sliceBytes(a[1])
		if len(x) != len(y) {
			return in.st.False
		}
		r := in.st.True
		for i := range x {
			r = in.st.BAnd(r, in.st.Eq(x[i], y[i]))
		}
		return r
	})
	reg("internal/bytealg.Count", func(in *Interp, c *Frame, fn *ssa.Function, a []Value) Value {
		st := in.st
		res := st.Const(64, 0)
		for _, b := range in.sliceBytes(a[0]) {
			res = st.Bin(OpAdd, res, st.Ite(st.Eq(b, a[1].(*Term)), st.Const(64, 1), st.Const(64, 0)))
		}
		return res
	})
	reg("internal/bytealg.MakeNoZero", func(in *Interp, c *Frame, fn *ssa.Function, a []Value) Value {
		n := in.concreteInt(a[0], "MakeNoZero")
		return in.makeSlice(types.Typ[types.Uint8], n, n)
	})
	reg("strings.Contains", func(in *Interp, c *Frame, fn *ssa.Function, a []Value) Value {
		return in.st.Bool(strings.Contains(in.concreteStr(a[0]), in.concreteStr(a[1])))
	})
	reg("strings.Index", func(in *Interp, c *Frame, fn *ssa.Function, a []Value) Value {
		return in.intVal(strings.Index(in.concreteStr(a[0]), in.concreteStr(a[1])))
	})
	reg("strings.HasPrefix", func(in *Interp, c *Frame, fn *ssa.Function, a []Value) Value {
		x, y := in.strBytes(a[0].(Str)), in.strBytes(a[1].(Str))
		if len(x) < len(y) {
			return in.st.False
		}
		r := in.st.True
		for i := range y {
			r = in.st.BAnd(r, in.st.Eq(x[i], y[i]))
		}
		return r
	})
	reg("strings.TrimPrefix", func(in *Interp, c *Frame, fn *ssa.Function, a []Value) Value {
		return Str{s: strings.TrimPrefix(in.concreteStr(a[0]), in.concreteStr(a[1]))}
	})
	reg("strings.Split", func(in *Interp, c *Frame, fn *ssa.Function, a []Value) Value {
		parts := strings.Split(in.concreteStr(a[0]), in.concreteStr(a[1]))
		sl := in.makeSlice(types.Typ[types.String], len(parts), len(parts))
		ag := &Agg{e: make([]Value, len(parts))}
		for i, p := range parts {
			ag.e[i] = Str{s: p}
		}
		sl.arr.obj.val = ag
		return sl
	})
	reg("strconv.Itoa", func(in *Interp, c *Frame, fn *ssa.Function, a []Value) Value {
		t := a[0].(*Term)
		if !t.IsConst() {
			return Str{s: "?"}
		}
		return Str{s: fmt.Sprint(toSigned(t.c, 64))}
	})
	reg("strconv.FormatUint", func(in *Interp, c *Frame, fn *ssa.Function, a []Value) Value {
		t := a[0].(*Term)
		if !t.IsConst() {
			return Str{s: "?"}
		}
		return Str{s: fmt.Sprint(t.c)}
	})
	reg("unicode/utf8.ValidString", func(in *Interp, c *Frame, fn *ssa.Function, a []Value) Value {
		return in.st.True
	})
}

func (in *Interp) bytesCompare(x, y []*Term) Value {
	st := in.st
	lt, eq := in.bytesLess(x, y)
	return st.Ite(eq, st.Const(64, 0), st.Ite(lt, st.Const(64, ^uint64(0)), st.Const(64, 1)))
}

// ---------- errors.Is / errors.As ----------

func (in *Interp) methodOf(t types.Type, name string) *ssa.Function {
	ms := in.prog.MethodSets.MethodSet(t)
	for i := 0; i < ms.Len(); i++ {
		sel := ms.At(i)
		if sel.Obj().Name() == name {
			return in.prog.MethodValue(sel)
		}
	}
	return nil
}

func (in *Interp) errorsIs(errV, targetV Value) bool {
	err, _ := errV.(Iface)
	target, _ := targetV.(Iface)
	if err.t == nil || target.t == nil {
		return err.t == nil && target.t == nil
	}
	comparable := types.Comparable(target.t)
	for {
		if comparable && types.Identical(err.t, target.t) {
			if in.branch(in.eq(err.v, target.v)) {
				return true
			}
		}
		if m := in.methodOf(err.t, "Is"); m != nil && m.Signature.Params().Len() == 1 {
			r := in.dispatch(m, []Value{err.v, target}, nil)
			if t, ok := r.(*Term); ok && in.branch(t) {
				return true
			}
		}
		m := in.methodOf(err.t, "Unwrap")
		if m == nil {
			return false
		}
		r := in.dispatch(m, []Value{err.v}, nil)
		switch u := r.(type) {
		case Iface:
			if u.t == nil {
				return false
			}
			err = u
		case Slice:
			for _, e := range in.sliceVals(u) {
				if ei, ok := e.(Iface); ok && ei.t != nil && in.errorsIs(ei, target) {
					return true
				}
			}
			return false
		default:
			return false
		}
	}
}

func (in *Interp) errorsAs(errV, targetV Value) bool {
	err, _ := errV.(Iface)
	target, _ := targetV.(Iface)
	if err.t == nil {
		return false
	}
	if target.t == nil {
		in.goPanic("errors: target cannot be nil")
	}
	pt, ok := target.t.Underlying().(*types.Pointer)
	if !ok {
		in.goPanic("errors: target must be a non-nil pointer")
	}
	et := pt.Elem()
	tp := target.v.(Ptr)
	for {
		assignable := false
		if types.IsInterface(et) {
			assignable = types.Implements(err.t, et.Underlying().(*types.Interface))
		} else {
			assignable = types.Identical(err.t, et)
		}
		if assignable {
			if types.IsInterface(et) {
				in.store(tp, err)
			} else {
				in.store(tp, err.v)
			}
			return true
		}
		if m := in.methodOf(err.t, "As"); m != nil && m.Signature.Params().Len() == 1 {
			r := in.dispatch(m, []Value{err.v, target}, nil)
			if t, ok := r.(*Term); ok && in.branch(t) {
				return true
			}
		}
		m := in.methodOf(err.t, "Unwrap")
		if m == nil {
			return false
		}
		r := in.dispatch(m, []Value{err.v}, nil)
		switch u := r.(type) {
		case Iface:
			if u.t == nil {
				return false
			}
			err = u
		case Slice:
			for _, e := range in.sliceVals(u) {
				if ei, ok := e.(Iface); ok && ei.t != nil && in.errorsAs(ei, target) {
					return true
				}
			}
			return false
		default:
			return false
		}
	}
}
