package main

import (
	"fmt"
	"go/types"
	"math/big"
	"strings"

	"golang.org/x/tools/go/ssa"
)

const fpPkg = "github.com/consensys/gnark-crypto/ecc/stark-curve/fp."
const fpElem = "(*github.com/consensys/gnark-crypto/ecc/stark-curve/fp.Element)."
const feltT = "(*github.com/NethermindEth/juno/core/felt.Felt)."
const cryptoPkg = "github.com/NethermindEth/juno/core/crypto."

var montR = new(big.Int).Lsh(big.NewInt(1), 256)
var montRInv *big.Int

func init() {
	montRInv = new(big.Int).ModInverse(new(big.Int).Mod(montR, feltP), feltP)
}

// toAbstractFelt converts a felt cell content (abstract term or raw Montgomery limbs) to the canonical BV256 term.
func (in *Interp) toAbstractFelt(v Value) *Term {
	switch x := v.(type) {
	case *Term:
		if x.w != 256 {
			in.unsupported("felt cell holds a non-256-bit term")
		}
		return x
	case *Agg:
		if len(x.e) != 4 {
			in.unsupported("felt cell holds a non-limb aggregate")
		}
		var l [4]uint64
		for i, e := range x.e {
			t, ok := e.(*Term)
			if !ok || !t.IsConst() {
				in.unsupported("symbolic raw limbs used as a field element")
			}
			l[i] = t.c
		}
		m := bigFromLimbs(l)
		m.Mul(m, montRInv)
		m.Mod(m, feltP)
		return in.st.ConstBig(256, m)
	case Poison:
		in.unsupported("poisoned felt: " + x.why)
	}
	in.unsupported(fmt.Sprintf("felt cell holds %T", v))
	return nil
}

// toRawLimbs converts to Montgomery limbs (concrete only).
func (in *Interp) toRawLimbs(v Value) Value {
	switch x := v.(type) {
	case *Agg:
		return x
	case *Term:
		if !x.IsConst() {
			in.unsupported("Montgomery limbs of a symbolic field element requested")
		}
		m := new(big.Int).Mul(x.Big(), montR)
		m.Mod(m, feltP)
		a := &Agg{e: make([]Value, 4)}
		mask64 := new(big.Int).SetUint64(^uint64(0))
		for i := 0; i < 4; i++ {
			w := new(big.Int).And(new(big.Int).Rsh(m, uint(64*i)), mask64)
			a.e[i] = in.st.Const(64, w.Uint64())
		}
		return a
	}
	in.unsupported(fmt.Sprintf("toRawLimbs of %T", v))
	return nil
}

func (in *Interp) loadFelt(p Value) *Term {
	return in.toAbstractFelt(in.load(p.(Ptr)))
}

func (in *Interp) feltAddMod(a, b *Term) *Term {
	st := in.st
	P := st.ConstBig(257, feltP)
	s := st.Bin(OpAdd, st.ZExt(a, 257), st.ZExt(b, 257))
	r := st.Ite(st.Cmp(OpULe, P, s), st.Bin(OpSub, s, P), s)
	res := st.Extract(r, 255, 0)
	if !res.IsConst() {
		st.modadd[res.id] = [2]*Term{a, b}
	}
	return res
}

func (in *Interp) feltSubMod(a, b *Term) *Term {
	st := in.st
	P := st.ConstBig(256, feltP)
	d := st.Bin(OpSub, a, b)
	return st.Ite(st.Cmp(OpULt, a, b), st.Bin(OpAdd, d, P), d)
}

// reduceModP returns v mod P for a 256-bit term without a bit-blasted remainder: if the top five
// bits are syntactically zero v is already canonical-or-close (v < 2^251 < P); otherwise a fresh
// remainder r and a 5-bit quotient q are introduced with the defining axiom v = q*P + r, r < P.
func (in *Interp) reduceModP(v *Term) *Term {
	st := in.st
	if v.IsConst() {
		return st.ConstBig(256, new(big.Int).Mod(v.Big(), feltP))
	}
	if top := st.Extract(v, 255, 251); top.IsConst() && top.c == 0 {
		return v
	}
	if st.canon[v.id] {
		return v
	}
	r := st.Var(fmt.Sprintf("$modP_r_%d", v.id), 256)
	q := st.Var(fmt.Sprintf("$modP_q_%d", v.id), 8)
	if _, ok := st.axioms[r.id]; !ok {
		const w = 264
		prod := st.Bin(OpAdd, st.Bin(OpMul, st.ZExt(q, w), st.ConstBig(w, feltP)), st.ZExt(r, w))
		ax := st.BAnd(st.Eq(st.ZExt(v, w), prod),
			st.BAnd(st.Cmp(OpULt, r, st.ConstBig(256, feltP)), st.Cmp(OpULt, q, st.Const(8, 32))))
		st.axioms[r.id] = ax
		st.canon[r.id] = true
	}
	return r
}

func (in *Interp) feltUF(name string, args ...*Term) *Term {
	allConst := true
	for _, a := range args {
		if !a.IsConst() {
			allConst = false
		}
	}
	_ = allConst
	r := in.st.App(name, 256, args...)
	return r
}

// hashApp creates an application of an uninterpreted hash with range < P.
func (in *Interp) hashApp(name string, args ...*Term) *Term {
	r := in.st.App(name, 256, args...)
	if _, ok := in.st.axioms[r.id]; !ok {
		// range axiom for this ground application (asserted by the solver layer wherever r is used)
		in.st.axioms[r.id] = in.st.Cmp(OpULt, r, in.st.ConstBig(256, feltP))
		in.st.canon[r.id] = true
	}
	key := fmt.Sprintf("hashrange:%d", r.id)
	if _, ok := in.extra[key]; !ok {
		in.extra[key] = true
		in.recordHashApp(r.name, r) // the sized symbol: inputs of different lengths are different symbols
	}
	return r
}

type hashAppRec struct {
	name string
	t    *Term
}

func (in *Interp) recordHashApp(name string, t *Term) {
	if in.st.hashSyms == nil {
		in.st.hashSyms = map[string]bool{}
	}
	in.st.hashSyms[t.name] = true
	l, _ := in.extra["hashapps"].([]hashAppRec)
	in.extra["hashapps"] = append(l, hashAppRec{name, t})
	// once the harness has asked for the ideal-hash assumptions they also cover every hash computed
	// later on the path (e.g. inside a verifier): add the pairwise axioms for the new application
	if mode, ok := in.extra["idealhash"].(int); ok {
		ax := in.pairAxioms(len(l), mode)
		if !ax.IsTrue() {
			in.addPC(ax, true)
		}
	}
	if ul, _ := in.extra["unhashed"].([]*Term); len(ul) > 0 && t.w == 256 {
		ax := in.st.True
		for _, u := range ul {
			ax = in.st.BAnd(ax, in.unhashedAxiom(u, t))
		}
		if !ax.IsTrue() {
			in.addPC(ax, true)
		}
	}
}

// unhashedAxiom: the free value u is independent of the hash output h - not equal to it, and (node hashes
// are H or H+len, len <= 251) not within 251 above it either. Part of the ideal-hash model: a value chosen
// without knowledge of a hash output does not hit it, and a hash output does not hit one of its own inputs.
func (in *Interp) unhashedAxiom(u, h *Term) *Term {
	st := in.st
	ih, ns := st.idealHash, st.nodeSep
	st.idealHash, st.nodeSep = false, false
	defer func() { st.idealHash, st.nodeSep = ih, ns }()
	d := in.feltSubMod(u, h)
	return st.Cmp(OpULt, st.Const(256, 251), d)
}

// registerUnhashed implements vx.Unhashed(*felt.Felt).
func (in *Interp) registerUnhashed(u *Term) {
	if u.IsConst() {
		return
	}
	ul, _ := in.extra["unhashed"].([]*Term)
	in.extra["unhashed"] = append(ul, u)
	l, _ := in.extra["hashapps"].([]hashAppRec)
	ax := in.st.True
	for _, h := range l {
		if h.t.w == 256 {
			ax = in.st.BAnd(ax, in.unhashedAxiom(u, h.t))
		}
	}
	if !ax.IsTrue() {
		in.addPC(ax, true)
	}
}

// pairAxioms returns the ideal-hash axioms between application k and all earlier ones
// (mode 1: collision freedom; mode 2: plus node-hash separation).
func (in *Interp) pairAxioms(k, mode int) *Term {
	st := in.st
	// the axioms must mention the raw equalities: with the structural rewrites on, "H(a)=H(b) => a=b" would
	// be folded to "a=b => a=b" and say nothing about comparisons that go through bytes of the outputs
	ih, ns := st.idealHash, st.nodeSep
	st.idealHash, st.nodeSep = false, false
	defer func() { st.idealHash, st.nodeSep = ih, ns }()
	l, _ := in.extra["hashapps"].([]hashAppRec)
	ax := in.hashNonZero(l[k].t)
	P := st.ConstBig(256, feltP)
	lim := st.Const(256, 251)
	for i := 0; i < k; i++ {
		a, b := l[i], l[k]
		if a.name != b.name || len(a.t.args) != len(b.t.args) {
			if hashFamily(a.name) == hashFamily(b.name) && a.t.w == b.t.w {
				ax = st.BAnd(ax, st.BNot(st.Eq(a.t, b.t)))
			}
			continue
		}
		same := st.True
		for j := range a.t.args {
			same = st.BAnd(same, st.Eq(a.t.args[j], b.t.args[j]))
		}
		ax = st.BAnd(ax, st.Implies(st.Eq(a.t, b.t), same))
		if mode == 2 && (a.name == "ped" || a.name == "pos2") {
			d := in.feltSubMod(a.t, b.t)
			far := st.BAnd(st.Cmp(OpULt, lim, d), st.Cmp(OpULt, lim, st.Bin(OpSub, P, d)))
			ax = st.BAnd(ax, st.BOr(st.Eq(a.t, b.t), far))
		}
	}
	return ax
}

// collisionFreeAxioms: for every pair of recorded applications of the same symbol: equal outputs ⇒ equal inputs.
// With nodeDomSep, additionally the Starknet node-hash domain separation ped(a,b)+l ≠ ped(c,d)+l' unless same.
func (in *Interp) collisionFreeAxioms() *Term {
	st := in.st
	ih, ns := st.idealHash, st.nodeSep
	st.idealHash, st.nodeSep = false, false
	defer func() { st.idealHash, st.nodeSep = ih, ns }()
	l, _ := in.extra["hashapps"].([]hashAppRec)
	ax := st.True
	for i := 0; i < len(l); i++ {
		ax = st.BAnd(ax, in.hashNonZero(l[i].t))
		for j := i + 1; j < len(l); j++ {
			if l[i].name != l[j].name || len(l[i].t.args) != len(l[j].t.args) {
				// same hash function applied to inputs of different length: no collision either
				if hashFamily(l[i].name) == hashFamily(l[j].name) && l[i].t.w == l[j].t.w {
					ax = st.BAnd(ax, st.BNot(st.Eq(l[i].t, l[j].t)))
				}
				continue
			}
			same := st.True
			for k := range l[i].t.args {
				same = st.BAnd(same, st.Eq(l[i].t.args[k], l[j].t.args[k]))
			}
			ax = st.BAnd(ax, st.Implies(st.Eq(l[i].t, l[j].t), same))
		}
	}
	return ax
}

// nodeHashSeparationAxioms: Starknet node hashes are ped(a,b) (binary) or ped(a,b)+len (edge, len <= 251).
// Ideal-hash assumption: two different Pedersen outputs are never within 251 of each other (mod P), so
// that an edge hash cannot coincide with another node's hash unless it is the same node.
func (in *Interp) nodeHashSeparationAxioms() *Term {
	st := in.st
	ih, ns := st.idealHash, st.nodeSep
	st.idealHash, st.nodeSep = false, false
	defer func() { st.idealHash, st.nodeSep = ih, ns }()
	l, _ := in.extra["hashapps"].([]hashAppRec)
	ax := st.True
	P := st.ConstBig(256, feltP)
	lim := st.Const(256, 251)
	for i := 0; i < len(l); i++ {
		if l[i].name != "ped" && l[i].name != "pos2" {
			continue
		}
		for j := i + 1; j < len(l); j++ {
			if l[j].name != l[i].name {
				continue
			}
			a, b := l[i].t, l[j].t
			d := in.feltSubMod(a, b)
			far := st.BAnd(st.Cmp(OpULt, lim, d), st.Cmp(OpULt, lim, st.Bin(OpSub, P, d)))
			ax = st.BAnd(ax, st.BOr(st.Eq(a, b), far))
		}
	}
	return ax
}

// hashNonZero: an ideal hash never outputs zero, and (field-sized hashes) never a value within 252 of
// the modulus either: an edge-node hash H(child, path) + length (length <= 251, mod P) is then never
// zero, i.e. never reads as "empty".
func (in *Interp) hashNonZero(t *Term) *Term {
	st := in.st
	ax := st.BNot(st.Eq(t, st.Const(t.w, 0)))
	if t.w == 256 {
		lim := new(big.Int).Sub(feltP, big.NewInt(252))
		ax = st.BAnd(ax, st.Cmp(OpULt, t, st.ConstBig(256, lim)))
	}
	return ax
}

// hashFamily: the hash function behind a symbol ("snkeccak_3" -> "snkeccak", "posN_4"/"pos2" -> "pos").
func hashFamily(name string) string {
	if strings.HasPrefix(name, "pos") {
		return "pos"
	}
	if i := strings.LastIndexByte(name, '_'); i > 0 {
		return name[:i]
	}
	return name
}

func feltHex(t *Term) string { return "0x" + t.Big().Text(16) }

func init() {
	retZ := func(a []Value) Value { return a[0] }
	storeZ := func(in *Interp, a []Value, v *Term) Value {
		in.store(a[0].(Ptr), v)
		return a[0]
	}
	reg(fpElem+"SetUint64", func(in *Interp, c *Frame, fn *ssa.Function, a []Value) Value {
		return storeZ(in, a, in.st.ZExt(a[1].(*Term), 256))
	})
	reg(fpElem+"SetInt64", func(in *Interp, c *Frame, fn *ssa.Function, a []Value) Value {
		st := in.st
		v := a[1].(*Term)
		neg := st.Cmp(OpSLt, v, st.Const(64, 0))
		pos := st.ZExt(v, 256)
		n := st.Bin(OpSub, st.ConstBig(256, feltP), st.ZExt(st.Neg(v), 256))
		return storeZ(in, a, st.Ite(neg, n, pos))
	})
	reg(fpPkg+"NewElement", func(in *Interp, c *Frame, fn *ssa.Function, a []Value) Value {
		return in.st.ZExt(a[0].(*Term), 256)
	})
	reg(fpPkg+"One", func(in *Interp, c *Frame, fn *ssa.Function, a []Value) Value { return in.st.Const(256, 1) })
	reg(fpElem+"Set", func(in *Interp, c *Frame, fn *ssa.Function, a []Value) Value {
		return storeZ(in, a, in.loadFelt(a[1]))
	})
	reg(fpElem+"SetZero", func(in *Interp, c *Frame, fn *ssa.Function, a []Value) Value {
		return storeZ(in, a, in.st.Const(256, 0))
	})
	reg(fpElem+"SetOne", func(in *Interp, c *Frame, fn *ssa.Function, a []Value) Value {
		return storeZ(in, a, in.st.Const(256, 1))
	})
	reg(fpElem+"Equal", func(in *Interp, c *Frame, fn *ssa.Function, a []Value) Value {
		return in.st.Eq(in.loadFelt(a[0]), in.loadFelt(a[1]))
	})
	reg(fpElem+"NotEqual", func(in *Interp, c *Frame, fn *ssa.Function, a []Value) Value {
		return in.st.Ite(in.st.Eq(in.loadFelt(a[0]), in.loadFelt(a[1])), in.st.Const(64, 0), in.st.Const(64, 1))
	})
	reg(fpElem+"IsZero", func(in *Interp, c *Frame, fn *ssa.Function, a []Value) Value {
		return in.st.Eq(in.loadFelt(a[0]), in.st.Const(256, 0))
	})
	reg(fpElem+"IsOne", func(in *Interp, c *Frame, fn *ssa.Function, a []Value) Value {
		return in.st.Eq(in.loadFelt(a[0]), in.st.Const(256, 1))
	})
	reg(fpElem+"IsUint64", func(in *Interp, c *Frame, fn *ssa.Function, a []Value) Value {
		return in.st.Eq(in.st.Extract(in.loadFelt(a[0]), 255, 64), in.st.Const(192, 0))
	})
	reg(fpElem+"FitsOnOneWord", func(in *Interp, c *Frame, fn *ssa.Function, a []Value) Value {
		return in.st.Eq(in.st.Extract(in.loadFelt(a[0]), 255, 64), in.st.Const(192, 0))
	})
	reg(fpElem+"Uint64", func(in *Interp, c *Frame, fn *ssa.Function, a []Value) Value {
		return in.st.Extract(in.loadFelt(a[0]), 63, 0)
	})
	reg(fpElem+"Cmp", func(in *Interp, c *Frame, fn *ssa.Function, a []Value) Value {
		st := in.st
		x, y := in.loadFelt(a[0]), in.loadFelt(a[1])
		return st.Ite(st.Eq(x, y), st.Const(64, 0), st.Ite(st.Cmp(OpULt, x, y), st.Const(64, ^uint64(0)), st.Const(64, 1)))
	})
	reg(fpElem+"Add", func(in *Interp, c *Frame, fn *ssa.Function, a []Value) Value {
		return storeZ(in, a, in.feltAddMod(in.loadFelt(a[1]), in.loadFelt(a[2])))
	})
	reg(fpElem+"Double", func(in *Interp, c *Frame, fn *ssa.Function, a []Value) Value {
		x := in.loadFelt(a[1])
		return storeZ(in, a, in.feltAddMod(x, x))
	})
	reg(fpElem+"Sub", func(in *Interp, c *Frame, fn *ssa.Function, a []Value) Value {
		return storeZ(in, a, in.feltSubMod(in.loadFelt(a[1]), in.loadFelt(a[2])))
	})
	reg(fpElem+"Neg", func(in *Interp, c *Frame, fn *ssa.Function, a []Value) Value {
		return storeZ(in, a, in.feltSubMod(in.st.Const(256, 0), in.loadFelt(a[1])))
	})
	binConc := func(name string, f func(x, y *big.Int) *big.Int, comm bool) Intercept {
		return func(in *Interp, c *Frame, fn *ssa.Function, a []Value) Value {
			x, y := in.loadFelt(a[1]), in.loadFelt(a[2])
			if x.IsConst() && y.IsConst() {
				return storeZ(in, a, in.st.ConstBig(256, f(x.Big(), y.Big())))
			}
			if comm && before(y, x) {
				x, y = y, x
			}
			return storeZ(in, a, in.hashApp(name, x, y))
		}
	}
	reg(fpElem+"Mul", binConc("fmul", func(x, y *big.Int) *big.Int {
		r := new(big.Int).Mul(x, y)
		return r.Mod(r, feltP)
	}, true))
	reg(fpElem+"Div", binConc("fdiv", func(x, y *big.Int) *big.Int {
		inv := new(big.Int).ModInverse(y, feltP)
		if inv == nil {
			return new(big.Int)
		}
		r := new(big.Int).Mul(x, inv)
		return r.Mod(r, feltP)
	}, false))
	reg(fpElem+"Square", func(in *Interp, c *Frame, fn *ssa.Function, a []Value) Value {
		x := in.loadFelt(a[1])
		if x.IsConst() {
			r := new(big.Int).Mul(x.Big(), x.Big())
			return storeZ(in, a, in.st.ConstBig(256, r.Mod(r, feltP)))
		}
		return storeZ(in, a, in.hashApp("fmul", x, x))
	})
	reg(fpElem+"Inverse", func(in *Interp, c *Frame, fn *ssa.Function, a []Value) Value {
		x := in.loadFelt(a[1])
		if x.IsConst() {
			inv := new(big.Int).ModInverse(x.Big(), feltP)
			if inv == nil {
				inv = new(big.Int)
			}
			return storeZ(in, a, in.st.ConstBig(256, inv))
		}
		return storeZ(in, a, in.hashApp("finv", x))
	})
	reg(fpElem+"Halve", func(in *Interp, c *Frame, fn *ssa.Function, a []Value) Value {
		x := in.loadFelt(a[0])
		if x.IsConst() {
			two := big.NewInt(2)
			inv := new(big.Int).ModInverse(two, feltP)
			r := new(big.Int).Mul(x.Big(), inv)
			in.store(a[0].(Ptr), in.st.ConstBig(256, r.Mod(r, feltP)))
			return nil
		}
		in.store(a[0].(Ptr), in.hashApp("fhalve", x))
		return nil
	})
	reg(fpElem+"Bytes", func(in *Interp, c *Frame, fn *ssa.Function, a []Value) Value {
		v := in.loadFelt(a[0])
		ag := &Agg{e: make([]Value, 32)}
		for i := 0; i < 32; i++ {
			ag.e[i] = in.st.Extract(v, 255-8*i, 248-8*i)
		}
		return ag
	})
	reg(fpElem+"Marshal", func(in *Interp, c *Frame, fn *ssa.Function, a []Value) Value {
		v := in.loadFelt(a[0])
		bs := make([]*Term, 32)
		for i := 0; i < 32; i++ {
			bs[i] = in.st.Extract(v, 255-8*i, 248-8*i)
		}
		return in.bytesToSlice(bs)
	})
	reg(fpElem+"Bits", func(in *Interp, c *Frame, fn *ssa.Function, a []Value) Value {
		v := in.loadFelt(a[0])
		ag := &Agg{e: make([]Value, 4)}
		for i := 0; i < 4; i++ {
			ag.e[i] = in.st.Extract(v, 64*i+63, 64*i)
		}
		return ag
	})
	setBytes := func(in *Interp, bs []*Term) *Term {
		st := in.st
		if len(bs) > 32 {
			// reduce concretely only
			v := new(big.Int)
			for _, b := range bs {
				if !b.IsConst() {
					in.unsupported("SetBytes of >32 symbolic bytes")
				}
				v.Lsh(v, 8)
				v.Or(v, new(big.Int).SetUint64(b.c))
			}
			return st.ConstBig(256, v.Mod(v, feltP))
		}
		v := st.Const(256, 0)
		if len(bs) > 0 {
			acc := bs[0]
			for _, b := range bs[1:] {
				acc = st.Concat(acc, b)
			}
			v = st.ZExt(acc, 256)
		}
		if v.IsConst() {
			return st.ConstBig(256, new(big.Int).Mod(v.Big(), feltP))
		}
		if len(bs) < 32 {
			return v
		}
		return in.reduceModP(v)
	}
	reg(fpElem+"SetBytes", func(in *Interp, c *Frame, fn *ssa.Function, a []Value) Value {
		return storeZ(in, a, setBytes(in, in.sliceBytes(a[1])))
	})
	reg(fpElem+"Unmarshal", func(in *Interp, c *Frame, fn *ssa.Function, a []Value) Value {
		storeZ(in, a, setBytes(in, in.sliceBytes(a[1])))
		return nil
	})
	reg(fpElem+"SetBytesCanonical", func(in *Interp, c *Frame, fn *ssa.Function, a []Value) Value {
		st := in.st
		bs := in.sliceBytes(a[1])
		if len(bs) != 32 {
			return in.newErrorString("invalid fp.Element encoding")
		}
		acc := bs[0]
		for _, b := range bs[1:] {
			acc = st.Concat(acc, b)
		}
		if in.branch(st.Cmp(OpULt, acc, st.ConstBig(256, feltP))) {
			in.store(a[0].(Ptr), acc)
			return Iface{}
		}
		return in.newErrorString("invalid fp.Element encoding")
	})
	reg("("+fpPkg+"bigEndian).PutElement", func(in *Interp, c *Frame, fn *ssa.Function, a []Value) Value {
		v := in.toAbstractFelt(a[2])
		ag := &Agg{e: make([]Value, 32)}
		for i := 0; i < 32; i++ {
			ag.e[i] = in.st.Extract(v, 255-8*i, 248-8*i)
		}
		in.store(a[1].(Ptr), ag)
		return nil
	})
	reg("("+fpPkg+"bigEndian).Element", func(in *Interp, c *Frame, fn *ssa.Function, a []Value) Value {
		st := in.st
		ag := in.load(a[1].(Ptr)).(*Agg)
		acc := ag.e[0].(*Term)
		for _, b := range ag.e[1:] {
			acc = st.Concat(acc, b.(*Term))
		}
		if in.branch(st.Cmp(OpULt, acc, st.ConstBig(256, feltP))) {
			return Tuple{acc, Iface{}}
		}
		return Tuple{st.Const(256, 0), in.newErrorString("invalid fp.Element encoding")}
	})
	strOf := func(in *Interp, c *Frame, fn *ssa.Function, a []Value) Value {
		v := in.loadFelt(a[0])
		if v.IsConst() {
			return Str{s: feltHex(v)}
		}
		return Str{s: "0x?"}
	}
	reg(fpElem+"String", strOf)
	reg(fpElem+"Text", func(in *Interp, c *Frame, fn *ssa.Function, a []Value) Value {
		v := in.loadFelt(a[0])
		base := in.concreteInt(a[1], "base")
		if v.IsConst() {
			return Str{s: v.Big().Text(base)}
		}
		return Str{s: "?"}
	})
	reg(feltT+"String", strOf)
	reg(feltT+"ShortString", strOf)
	reg(feltT+"SetString", func(in *Interp, c *Frame, fn *ssa.Function, a []Value) Value {
		s := in.concreteStr(a[1])
		v, ok := new(big.Int).SetString(s, 0)
		if !ok {
			v, ok = new(big.Int).SetString(s, 16)
			if !ok {
				return Tuple{a[0], in.newErrorString("can't parse into a big.Int: " + s)}
			}
		}
		if v.BitLen() > 252 {
			return Tuple{a[0], in.newErrorString("can't fit in felt: " + s)}
		}
		if v.Sign() < 0 || v.Cmp(feltP) >= 0 {
			return Tuple{a[0], in.newErrorString("invalid fp.Element encoding")}
		}
		in.store(a[0].(Ptr), in.st.ConstBig(256, v))
		return Tuple{a[0], Iface{}}
	})
	reg(fpElem+"SetString", func(in *Interp, c *Frame, fn *ssa.Function, a []Value) Value {
		s := in.concreteStr(a[1])
		v, ok := new(big.Int).SetString(s, 0)
		if !ok {
			return Tuple{a[0], in.newErrorString("Element.SetString failed -> can't parse number into a big.Int " + s)}
		}
		v.Mod(v, feltP)
		in.store(a[0].(Ptr), in.st.ConstBig(256, v))
		return Tuple{a[0], Iface{}}
	})
	_ = retZ

	// ---------- hashes ----------
	reg(cryptoPkg+"pedersen", func(in *Interp, c *Frame, fn *ssa.Function, a []Value) Value {
		return in.hashApp("ped", in.loadFelt(a[0]), in.loadFelt(a[1]))
	})
	reg(cryptoPkg+"Poseidon", func(in *Interp, c *Frame, fn *ssa.Function, a []Value) Value {
		return in.hashApp("pos2", in.loadFelt(a[0]), in.loadFelt(a[1]))
	})
	reg(cryptoPkg+"PoseidonElems", func(in *Interp, c *Frame, fn *ssa.Function, a []Value) Value {
		var args []*Term
		for _, p := range in.variadicArgs(a[0]) {
			args = append(args, in.loadFelt(p))
		}
		return in.hashApp(fmt.Sprintf("posN_%d", len(args)), args...)
	})
	reg(cryptoPkg+"PoseidonArray", func(in *Interp, c *Frame, fn *ssa.Function, a []Value) Value {
		var args []*Term
		for _, v := range in.variadicArgs(a[0]) {
			args = append(args, in.toAbstractFelt(v))
		}
		return in.hashApp(fmt.Sprintf("posN_%d", len(args)), args...)
	})
	digKey := func(a []Value) string { return fmt.Sprintf("posdigest:%d", a[0].(Ptr).obj.id) + fmt.Sprint(a[0].(Ptr).path) }
	reg("(*"+cryptoPkg+"PoseidonDigest).Update", func(in *Interp, c *Frame, fn *ssa.Function, a []Value) Value {
		k := digKey(a)
		l, _ := in.extra[k].([]*Term)
		for _, p := range in.variadicArgs(a[1]) {
			l = append(l, in.loadFelt(p))
		}
		in.extra[k] = l
		return Iface{t: types.NewPointer(in.namedType("github.com/NethermindEth/juno/core/crypto", "PoseidonDigest")), v: a[0]}
	})
	reg("(*"+cryptoPkg+"PoseidonDigest).UpdateArray", func(in *Interp, c *Frame, fn *ssa.Function, a []Value) Value {
		k := digKey(a)
		l, _ := in.extra[k].([]*Term)
		for _, v := range in.variadicArgs(a[1]) {
			l = append(l, in.toAbstractFelt(v))
		}
		in.extra[k] = l
		return Iface{t: types.NewPointer(in.namedType("github.com/NethermindEth/juno/core/crypto", "PoseidonDigest")), v: a[0]}
	})
	reg("(*"+cryptoPkg+"PoseidonDigest).Finish", func(in *Interp, c *Frame, fn *ssa.Function, a []Value) Value {
		l, _ := in.extra[digKey(a)].([]*Term)
		return in.hashApp(fmt.Sprintf("posN_%d", len(l)), l...)
	})
	reg(cryptoPkg+"StarknetKeccak", func(in *Interp, c *Frame, fn *ssa.Function, a []Value) Value {
		return in.bytesHash("snkeccak", in.sliceBytes(a[0]))
	})
	reg(cryptoPkg+"HadesPermutation", func(in *Interp, c *Frame, fn *ssa.Function, a []Value) Value {
		in.unsupported("HadesPermutation reached directly (sponge cut expected)")
		return nil
	})
	reg("crypto/sha256.Sum256", func(in *Interp, c *Frame, fn *ssa.Function, a []Value) Value {
		h := in.bytesHashRaw("sha256", in.sliceBytes(a[0]), 256)
		ag := &Agg{e: make([]Value, 32)}
		for i := 0; i < 32; i++ {
			ag.e[i] = in.st.Extract(h, 255-8*i, 248-8*i)
		}
		return ag
	})
}

// bytesHash: uninterpreted hash of a byte string to a field element; one symbol per length.
func (in *Interp) bytesHash(name string, bs []*Term) *Term {
	if len(bs) == 0 {
		return in.hashApp(name + "_0")
	}
	acc := bs[0]
	for _, b := range bs[1:] {
		acc = in.st.Concat(acc, b)
	}
	return in.hashApp(fmt.Sprintf("%s_%d", name, len(bs)), acc)
}

func (in *Interp) bytesHashRaw(name string, bs []*Term, w int) *Term {
	var r *Term
	if len(bs) == 0 {
		r = in.st.App(name+"_0", w)
	} else {
		acc := bs[0]
		for _, b := range bs[1:] {
			acc = in.st.Concat(acc, b)
		}
		r = in.st.App(fmt.Sprintf("%s_%d", name, len(bs)), w, acc)
	}
	key := fmt.Sprintf("hashrange:%d", r.id)
	if _, ok := in.extra[key]; !ok {
		in.extra[key] = true
		in.recordHashApp(r.name, r) // the sized symbol: inputs of different lengths are different symbols
	}
	return r
}
