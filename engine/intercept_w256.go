package main

import (
	"golang.org/x/tools/go/ssa"
)

const w256T = "(github.com/NethermindEth/juno/zzverif/vx.W256)."

func (in *Interp) wideOf(v Value) *Term {
	a := v.(*Agg)
	st := in.st
	r := a.e[3].(*Term)
	for i := 2; i >= 0; i-- {
		r = st.Concat(r, a.e[i].(*Term))
	}
	return r
}

func (in *Interp) wideTo(t *Term) Value {
	a := &Agg{e: make([]Value, 4)}
	for i := 0; i < 4; i++ {
		a.e[i] = in.st.Extract(t, 64*i+63, 64*i)
	}
	return a
}

// shift amount (Go uint, 64 bit) to 256-bit with saturation
func (in *Interp) wideShift(op Op, x *Term, n *Term) *Term {
	st := in.st
	big := st.Cmp(OpULe, st.Const(64, 256), n)
	amt := st.ZExt(n, 256)
	return st.Ite(big, st.Const(256, 0), st.Bin(op, x, amt))
}

func init() {
	reg(vxPkg+"W256Input", func(in *Interp, c *Frame, fn *ssa.Function, a []Value) Value {
		return in.wideTo(in.newInput(in.concreteStr(a[0]), 256))
	})
	reg(vxPkg+"W256From64", func(in *Interp, c *Frame, fn *ssa.Function, a []Value) Value {
		return in.wideTo(in.st.ZExt(a[0].(*Term), 256))
	})
	reg(vxPkg+"W256FromBytes", func(in *Interp, c *Frame, fn *ssa.Function, a []Value) Value {
		ag := a[0].(*Agg)
		acc := ag.e[0].(*Term)
		for _, b := range ag.e[1:] {
			acc = in.st.Concat(acc, b.(*Term))
		}
		return in.wideTo(acc)
	})
	reg(w256T+"Bytes", func(in *Interp, c *Frame, fn *ssa.Function, a []Value) Value {
		v := in.wideOf(a[0])
		ag := &Agg{e: make([]Value, 32)}
		for i := 0; i < 32; i++ {
			ag.e[i] = in.st.Extract(v, 255-8*i, 248-8*i)
		}
		return ag
	})
	reg(w256T+"Shr", func(in *Interp, c *Frame, fn *ssa.Function, a []Value) Value {
		return in.wideTo(in.wideShift(OpLShr, in.wideOf(a[0]), a[1].(*Term)))
	})
	reg(w256T+"Shl", func(in *Interp, c *Frame, fn *ssa.Function, a []Value) Value {
		return in.wideTo(in.wideShift(OpShl, in.wideOf(a[0]), a[1].(*Term)))
	})
	bin := func(op Op) Intercept {
		return func(in *Interp, c *Frame, fn *ssa.Function, a []Value) Value {
			return in.wideTo(in.st.Bin(op, in.wideOf(a[0]), in.wideOf(a[1])))
		}
	}
	reg(w256T+"And", bin(OpAnd))
	reg(w256T+"Or", bin(OpOr))
	reg(w256T+"Xor", bin(OpXor))
	reg(w256T+"Eq", func(in *Interp, c *Frame, fn *ssa.Function, a []Value) Value {
		return in.st.Eq(in.wideOf(a[0]), in.wideOf(a[1]))
	})
	reg(w256T+"Lt", func(in *Interp, c *Frame, fn *ssa.Function, a []Value) Value {
		return in.st.Cmp(OpULt, in.wideOf(a[0]), in.wideOf(a[1]))
	})
	reg(w256T+"IsZero", func(in *Interp, c *Frame, fn *ssa.Function, a []Value) Value {
		return in.st.Eq(in.wideOf(a[0]), in.st.Const(256, 0))
	})
	reg(w256T+"Bit", func(in *Interp, c *Frame, fn *ssa.Function, a []Value) Value {
		sh := in.wideShift(OpLShr, in.wideOf(a[0]), a[1].(*Term))
		return in.st.ZExt(in.st.Extract(sh, 0, 0), 8)
	})
	reg(w256T+"BitLen", func(in *Interp, c *Frame, fn *ssa.Function, a []Value) Value {
		st := in.st
		x := in.wideOf(a[0])
		lz := st.LeadingZeros(x)
		return st.Extract(st.Bin(OpSub, st.Const(256, 256), lz), 63, 0)
	})
	reg(vxPkg+"W256Mask", func(in *Interp, c *Frame, fn *ssa.Function, a []Value) Value {
		st := in.st
		n := a[0].(*Term)
		big := st.Cmp(OpULe, st.Const(64, 256), n)
		one := st.Const(256, 1)
		m := st.Bin(OpSub, st.Bin(OpShl, one, st.ZExt(n, 256)), one)
		return in.wideTo(st.Ite(big, st.Not(st.Const(256, 0)), m))
	})
}
