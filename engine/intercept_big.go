package main

import (
	"math/big"

	"golang.org/x/tools/go/ssa"
)

// Minimal concrete model of math/big.Int (constants computed during package initialisation and
// parsing of literals). Values live in a side table keyed by the big.Int object; symbolic operands
// are not supported.

const bigT = "(*math/big.Int)."

func (in *Interp) bigOf(v Value) *big.Int {
	p, ok := v.(Ptr)
	if !ok || p.obj == nil {
		in.unsupported("nil *big.Int")
	}
	if b, ok := in.bigs[p.obj]; ok {
		return b
	}
	return new(big.Int) // zero value
}

func (in *Interp) setBig(v Value, b *big.Int) Value {
	p := v.(Ptr)
	if in.bigs == nil {
		in.bigs = map[*Object]*big.Int{}
	}
	in.bigs[p.obj] = b
	return v
}

func (in *Interp) concU64(v Value, what string) uint64 {
	t, ok := v.(*Term)
	if !ok || !t.IsConst() {
		in.unsupported("symbolic operand for math/big " + what)
	}
	return t.c
}

func init() {
	reg("math/big.NewInt", func(in *Interp, c *Frame, fn *ssa.Function, a []Value) Value {
		t := in.namedType("math/big", "Int")
		o := in.newObject(t, in.zero(t), "big.Int")
		p := Ptr{obj: o}
		in.setBig(p, big.NewInt(int64(in.concU64(a[0], "NewInt"))))
		return p
	})
	reg(bigT+"SetUint64", func(in *Interp, c *Frame, fn *ssa.Function, a []Value) Value {
		return in.setBig(a[0], new(big.Int).SetUint64(in.concU64(a[1], "SetUint64")))
	})
	reg(bigT+"SetInt64", func(in *Interp, c *Frame, fn *ssa.Function, a []Value) Value {
		return in.setBig(a[0], big.NewInt(int64(in.concU64(a[1], "SetInt64"))))
	})
	reg(bigT+"Set", func(in *Interp, c *Frame, fn *ssa.Function, a []Value) Value {
		return in.setBig(a[0], new(big.Int).Set(in.bigOf(a[1])))
	})
	reg(bigT+"SetString", func(in *Interp, c *Frame, fn *ssa.Function, a []Value) Value {
		b, ok := new(big.Int).SetString(in.concreteStr(a[1]), in.concreteInt(a[2], "base"))
		if !ok {
			return Tuple{Ptr{}, in.st.False}
		}
		return Tuple{in.setBig(a[0], b), in.st.True}
	})
	reg(bigT+"SetBytes", func(in *Interp, c *Frame, fn *ssa.Function, a []Value) Value {
		bs := in.sliceBytes(a[1])
		raw := make([]byte, len(bs))
		for i, t := range bs {
			if !t.IsConst() {
				in.unsupported("big.Int.SetBytes of symbolic bytes")
			}
			raw[i] = byte(t.c)
		}
		return in.setBig(a[0], new(big.Int).SetBytes(raw))
	})
	reg(bigT+"Cmp", func(in *Interp, c *Frame, fn *ssa.Function, a []Value) Value {
		return in.intVal(in.bigOf(a[0]).Cmp(in.bigOf(a[1])))
	})
	reg(bigT+"Sign", func(in *Interp, c *Frame, fn *ssa.Function, a []Value) Value {
		return in.intVal(in.bigOf(a[0]).Sign())
	})
	reg(bigT+"BitLen", func(in *Interp, c *Frame, fn *ssa.Function, a []Value) Value {
		return in.intVal(in.bigOf(a[0]).BitLen())
	})
	reg(bigT+"Uint64", func(in *Interp, c *Frame, fn *ssa.Function, a []Value) Value {
		return in.st.Const(64, in.bigOf(a[0]).Uint64())
	})
	reg(bigT+"IsUint64", func(in *Interp, c *Frame, fn *ssa.Function, a []Value) Value {
		return in.st.Bool(in.bigOf(a[0]).IsUint64())
	})
	reg(bigT+"Text", func(in *Interp, c *Frame, fn *ssa.Function, a []Value) Value {
		return Str{s: in.bigOf(a[0]).Text(in.concreteInt(a[1], "base"))}
	})
	reg(bigT+"String", func(in *Interp, c *Frame, fn *ssa.Function, a []Value) Value {
		return Str{s: in.bigOf(a[0]).String()}
	})
	reg(bigT+"FillBytes", func(in *Interp, c *Frame, fn *ssa.Function, a []Value) Value {
		s := a[1].(Slice)
		buf := make([]byte, s.ln)
		in.bigOf(a[0]).FillBytes(buf)
		for i, b := range buf {
			in.store(in.elemPtr(s, i), in.st.Const(8, uint64(b)))
		}
		return s
	})
	binop := func(f func(z, x, y *big.Int) *big.Int) Intercept {
		return func(in *Interp, c *Frame, fn *ssa.Function, a []Value) Value {
			return in.setBig(a[0], f(new(big.Int), in.bigOf(a[1]), in.bigOf(a[2])))
		}
	}
	reg(bigT+"Add", binop((*big.Int).Add))
	reg(bigT+"Sub", binop((*big.Int).Sub))
	reg(bigT+"Mul", binop((*big.Int).Mul))
	reg(bigT+"Mod", binop((*big.Int).Mod))
	reg(bigT+"Lsh", func(in *Interp, c *Frame, fn *ssa.Function, a []Value) Value {
		return in.setBig(a[0], new(big.Int).Lsh(in.bigOf(a[1]), uint(in.concU64(a[2], "Lsh"))))
	})

	// fp.Element exponentiation / big conversions on concrete operands
	reg(fpElem+"Exp", func(in *Interp, c *Frame, fn *ssa.Function, a []Value) Value {
		x := in.toAbstractFelt(a[1])
		if !x.IsConst() {
			in.unsupported("Exp of a symbolic field element")
		}
		r := new(big.Int).Exp(x.Big(), in.bigOf(a[2]), feltP)
		in.store(a[0].(Ptr), in.st.ConstBig(256, r))
		return a[0]
	})
	reg(fpElem+"SetBigInt", func(in *Interp, c *Frame, fn *ssa.Function, a []Value) Value {
		r := new(big.Int).Mod(in.bigOf(a[1]), feltP)
		in.store(a[0].(Ptr), in.st.ConstBig(256, r))
		return a[0]
	})
	reg(fpElem+"BigInt", func(in *Interp, c *Frame, fn *ssa.Function, a []Value) Value {
		x := in.loadFelt(a[0])
		if !x.IsConst() {
			in.unsupported("BigInt of a symbolic field element")
		}
		return in.setBig(a[1], new(big.Int).Set(x.Big()))
	})
}
