package main

import (
	"fmt"
	"math/big"
	"math/bits"
	"sort"
	"strings"
)

// Term is a node of a hash-consed DAG of SMT terms: sort Bool (w==0) or (_ BitVec w).
type Op uint8

const (
	OpConst Op = iota
	OpVar
	OpApp // uninterpreted function application
	OpAdd
	OpSub
	OpMul
	OpUDiv
	OpURem
	OpSDiv
	OpSRem
	OpAnd
	OpOr
	OpXor
	OpNot // bitwise not
	OpNeg
	OpShl
	OpLShr
	OpAShr
	OpConcat
	OpExtract // p1=hi p2=lo
	OpZExt    // p1 = extra bits
	OpSExt
	OpIte
	OpEq
	OpULt
	OpULe
	OpSLt
	OpSLe
	OpBAnd // boolean
	OpBOr
	OpBNot
)

var opNames = map[Op]string{
	OpAdd: "bvadd", OpSub: "bvsub", OpMul: "bvmul", OpUDiv: "bvudiv", OpURem: "bvurem", OpSDiv: "bvsdiv", OpSRem: "bvsrem",
	OpAnd: "bvand", OpOr: "bvor", OpXor: "bvxor", OpNot: "bvnot", OpNeg: "bvneg", OpShl: "bvshl", OpLShr: "bvlshr", OpAShr: "bvashr",
	OpConcat: "concat", OpIte: "ite", OpEq: "=", OpULt: "bvult", OpULe: "bvule", OpSLt: "bvslt", OpSLe: "bvsle",
	OpBAnd: "and", OpBOr: "or", OpBNot: "not",
}

type Term struct {
	id   int
	op   Op
	w    int // 0 = Bool
	args []*Term
	c    uint64   // constant value (w<=64; Bool: 0/1)
	big  *big.Int // constant value (w>64)
	name string   // var / uf name
	p1   int
	p2   int
	h    uint64 // structural hash (independent of creation order: used to order commutative operands)
	ua   bool   // contains an uninterpreted-function application
}

func (t *Term) IsConst() bool { return t.op == OpConst }
func (t *Term) IsBool() bool  { return t.w == 0 }
func (t *Term) IsTrue() bool  { return t.op == OpConst && t.w == 0 && t.c == 1 }
func (t *Term) IsFalse() bool { return t.op == OpConst && t.w == 0 && t.c == 0 }

// Big returns the constant value as big.Int (unsigned).
func (t *Term) Big() *big.Int {
	if t.w > 64 {
		return t.big
	}
	return new(big.Int).SetUint64(t.c)
}

type UFDecl struct {
	name string
	args []int // widths (0 = Bool)
	res  int
}

type TermStore struct {
	tab   map[string]*Term
	next  int
	vars  []*Term // in creation order
	ufs   map[string]*UFDecl
	ufOrd []string
	True  *Term
	False *Term
	axioms map[int]*Term // term id -> fact that must accompany the term in every solver scope using it
	canon  map[int]bool  // 256-bit terms known to be canonical field elements (< P) on every path that uses them
	modadd map[int][2]*Term // result of a field addition (x+y mod P, x,y canonical) -> its operands

	// ideal-hash mode (vx.CollisionFree on the current path): equalities between applications of
	// recorded hash symbols are decided structurally - exactly the assumed axioms, applied as rewrites
	idealHash bool
	hashSyms  map[string]bool
	nodeSep   bool // vx.NodeHashesSeparated: two different ped/pos2 outputs are more than 251 apart (mod P)
}

func NewTermStore() *TermStore {
	s := &TermStore{tab: map[string]*Term{}, ufs: map[string]*UFDecl{}, axioms: map[int]*Term{}, canon: map[int]bool{}, modadd: map[int][2]*Term{}}
	s.True = s.mk(&Term{op: OpConst, w: 0, c: 1})
	s.False = s.mk(&Term{op: OpConst, w: 0, c: 0})
	return s
}

func (s *TermStore) mk(t *Term) *Term {
	var sb strings.Builder
	fmt.Fprintf(&sb, "%d|%d|%d|%d|%d|%s|", t.op, t.w, t.c, t.p1, t.p2, t.name)
	if t.big != nil {
		sb.WriteString(t.big.Text(16))
	}
	for _, a := range t.args {
		fmt.Fprintf(&sb, ",%d", a.id)
	}
	k := sb.String()
	if e, ok := s.tab[k]; ok {
		return e
	}
	t.id = s.next
	s.next++
	// structural hash
	h := uint64(1469598103934665603)
	mix := func(v uint64) { h ^= v; h *= 1099511628211 }
	mix(uint64(t.op))
	mix(uint64(t.w))
	mix(t.c)
	mix(uint64(t.p1))
	mix(uint64(t.p2))
	for i := 0; i < len(t.name); i++ {
		mix(uint64(t.name[i]))
	}
	if t.big != nil {
		for _, wd := range t.big.Bits() {
			mix(uint64(wd))
		}
	}
	for _, a := range t.args {
		mix(a.h)
	}
	t.h = h
	t.ua = t.op == OpApp
	for _, a := range t.args {
		t.ua = t.ua || a.ua
	}
	s.tab[k] = t
	return t
}

// before reports whether a should be ordered before b among commutative operands (structural order).
func before(a, b *Term) bool {
	if a.h != b.h {
		return a.h < b.h
	}
	return a.id < b.id
}

func mask(w int) uint64 {
	if w >= 64 {
		return ^uint64(0)
	}
	return (uint64(1) << uint(w)) - 1
}

func bigMask(w int) *big.Int {
	m := new(big.Int).Lsh(big.NewInt(1), uint(w))
	return m.Sub(m, big.NewInt(1))
}

func (s *TermStore) Bool(b bool) *Term {
	if b {
		return s.True
	}
	return s.False
}

func (s *TermStore) Const(w int, v uint64) *Term {
	if w == 0 {
		return s.Bool(v != 0)
	}
	if w > 64 {
		return s.ConstBig(w, new(big.Int).SetUint64(v))
	}
	return s.mk(&Term{op: OpConst, w: w, c: v & mask(w)})
}

func (s *TermStore) ConstBig(w int, v *big.Int) *Term {
	if w <= 64 {
		vv := new(big.Int).And(v, bigMask(w))
		return s.Const(w, vv.Uint64())
	}
	vv := new(big.Int).And(v, bigMask(w))
	return s.mk(&Term{op: OpConst, w: w, big: vv})
}

func (s *TermStore) Var(name string, w int) *Term {
	k := fmt.Sprintf("%d|%d|%d|%d|%d|%s|", OpVar, w, 0, 0, 0, name)
	if e, ok := s.tab[k]; ok {
		return e
	}
	t := s.mk(&Term{op: OpVar, w: w, name: name})
	s.vars = append(s.vars, t)
	return t
}

func (s *TermStore) App(name string, res int, args ...*Term) *Term {
	if _, ok := s.ufs[name]; !ok {
		d := &UFDecl{name: name, res: res}
		for _, a := range args {
			d.args = append(d.args, a.w)
		}
		s.ufs[name] = d
		s.ufOrd = append(s.ufOrd, name)
	}
	return s.mk(&Term{op: OpApp, w: res, name: name, args: args})
}

func toSigned(v uint64, w int) int64 {
	if w < 64 && v&(uint64(1)<<uint(w-1)) != 0 {
		return int64(v | ^mask(w))
	}
	return int64(v)
}

func bigSigned(v *big.Int, w int) *big.Int {
	if v.Bit(w-1) == 1 {
		return new(big.Int).Sub(v, new(big.Int).Lsh(big.NewInt(1), uint(w)))
	}
	return v
}

// Bin builds a binary bit-vector operation with folding.
func (s *TermStore) Bin(op Op, a, b *Term) *Term {
	if a.w != b.w {
		panic(fmt.Sprintf("width mismatch %s: %d vs %d", opNames[op], a.w, b.w))
	}
	w := a.w
	if a.IsConst() && b.IsConst() {
		if w <= 64 {
			x, y := a.c, b.c
			var r uint64
			switch op {
			case OpAdd:
				r = x + y
			case OpSub:
				r = x - y
			case OpMul:
				r = x * y
			case OpUDiv:
				if y == 0 {
					r = mask(w)
				} else {
					r = x / y
				}
			case OpURem:
				if y == 0 {
					r = x
				} else {
					r = x % y
				}
			case OpSDiv:
				sx, sy := toSigned(x, w), toSigned(y, w)
				if sy == 0 {
					if sx < 0 {
						r = 1
					} else {
						r = mask(w)
					}
				} else if sy == -1 {
					r = uint64(-sx)
				} else {
					r = uint64(sx / sy)
				}
			case OpSRem:
				sx, sy := toSigned(x, w), toSigned(y, w)
				if sy == 0 {
					r = x
				} else if sy == -1 {
					r = 0
				} else {
					r = uint64(sx % sy)
				}
			case OpAnd:
				r = x & y
			case OpOr:
				r = x | y
			case OpXor:
				r = x ^ y
			case OpShl:
				if y >= uint64(w) {
					r = 0
				} else {
					r = x << y
				}
			case OpLShr:
				if y >= uint64(w) {
					r = 0
				} else {
					r = x >> y
				}
			case OpAShr:
				sx := toSigned(x, w)
				if y >= uint64(w) {
					if sx < 0 {
						r = mask(w)
					} else {
						r = 0
					}
				} else {
					r = uint64(sx >> y)
				}
			default:
				panic("bad binop")
			}
			return s.Const(w, r)
		}
		x, y := a.big, b.big
		r := new(big.Int)
		ok := true
		switch op {
		case OpAdd:
			r.Add(x, y)
		case OpSub:
			r.Sub(x, y)
		case OpMul:
			r.Mul(x, y)
		case OpAnd:
			r.And(x, y)
		case OpOr:
			r.Or(x, y)
		case OpXor:
			r.Xor(x, y)
		case OpUDiv:
			if y.Sign() == 0 {
				r = bigMask(w)
			} else {
				r.Div(x, y)
			}
		case OpURem:
			if y.Sign() == 0 {
				r.Set(x)
			} else {
				r.Mod(x, y)
			}
		case OpShl:
			if y.Cmp(big.NewInt(int64(w))) >= 0 {
				r.SetInt64(0)
			} else {
				r.Lsh(x, uint(y.Uint64()))
			}
		case OpLShr:
			if y.Cmp(big.NewInt(int64(w))) >= 0 {
				r.SetInt64(0)
			} else {
				r.Rsh(x, uint(y.Uint64()))
			}
		default:
			ok = false
		}
		if ok {
			return s.ConstBig(w, r)
		}
	}
	// algebraic simplifications
	isZero := func(t *Term) bool {
		return t.IsConst() && ((t.w <= 64 && t.c == 0) || (t.w > 64 && t.big.Sign() == 0))
	}
	isOnes := func(t *Term) bool {
		return t.IsConst() && ((t.w <= 64 && t.c == mask(t.w)) || (t.w > 64 && t.big.Cmp(bigMask(t.w)) == 0))
	}
	isOne := func(t *Term) bool {
		return t.IsConst() && ((t.w <= 64 && t.c == 1) || (t.w > 64 && t.big.Cmp(big.NewInt(1)) == 0))
	}
	switch op {
	case OpAdd, OpOr, OpXor:
		if isZero(a) {
			return b
		}
		if isZero(b) {
			return a
		}
		if op == OpOr && (isOnes(a) || isOnes(b)) {
			return s.ConstBig(w, bigMask(w))
		}
		if op == OpOr && a == b {
			return a
		}
		if op == OpXor && a == b {
			return s.Const(w, 0)
		}
	case OpSub:
		if isZero(b) {
			return a
		}
		if a == b {
			return s.Const(w, 0)
		}
	case OpMul:
		if isZero(a) || isZero(b) {
			return s.Const(w, 0)
		}
		if isOne(a) {
			return b
		}
		if isOne(b) {
			return a
		}
	case OpAnd:
		if isZero(a) || isZero(b) {
			return s.Const(w, 0)
		}
		if isOnes(a) {
			return b
		}
		if isOnes(b) {
			return a
		}
		if a == b {
			return a
		}
	case OpShl, OpLShr, OpAShr:
		if isZero(b) {
			return a
		}
		if isZero(a) {
			return a
		}
		if op != OpAShr && b.IsConst() && b.w <= 64 && b.c >= uint64(w) {
			return s.Const(w, 0)
		}
	case OpUDiv:
		if isOne(b) {
			return a
		}
	}
	if op == OpOr {
		// OR of bit-range-adjacent pieces (the binary.BigEndian.Uint64 idiom) is a concatenation
		if r := s.orPieces(a, b); r != nil {
			return r
		}
	}
	// commutative normalisation
	switch op {
	case OpAdd, OpMul, OpAnd, OpOr, OpXor:
		if before(b, a) {
			a, b = b, a
		}
	}
	return s.mk(&Term{op: op, w: w, args: []*Term{a, b}})
}

// asPiece recognises zext(p) << k (k constant, possibly 0): p occupies bits [k, k+p.w) of a W-bit word.
func asPiece(t *Term) (inner *Term, shift int, ok bool) {
	switch t.op {
	case OpZExt:
		return t.args[0], 0, true
	case OpShl:
		k := t.args[1]
		if !k.IsConst() || k.w > 64 {
			return nil, 0, false
		}
		in, sh, ok := asPiece(t.args[0])
		if !ok || sh+int(k.c)+in.w > t.w {
			return nil, 0, false
		}
		return in, sh + int(k.c), true
	}
	return nil, 0, false
}

func (s *TermStore) orPieces(a, b *Term) *Term {
	pa, sa, oka := asPiece(a)
	pb, sb, okb := asPiece(b)
	if !oka || !okb {
		return nil
	}
	if sa > sb {
		pa, sa, pb, sb = pb, sb, pa, sa
	}
	if sa+pa.w != sb {
		return nil
	}
	c := s.Concat(pb, pa)
	z := s.ZExt(c, a.w)
	if sa == 0 {
		return z
	}
	return s.mk(&Term{op: OpShl, w: a.w, args: []*Term{z, s.Const(a.w, uint64(sa))}})
}

func (s *TermStore) Not(a *Term) *Term {
	if a.IsConst() {
		if a.w <= 64 {
			return s.Const(a.w, ^a.c)
		}
		return s.ConstBig(a.w, new(big.Int).Xor(a.big, bigMask(a.w)))
	}
	if a.op == OpNot {
		return a.args[0]
	}
	return s.mk(&Term{op: OpNot, w: a.w, args: []*Term{a}})
}

func (s *TermStore) Neg(a *Term) *Term {
	return s.Bin(OpSub, s.Const(a.w, 0), a)
}

func (s *TermStore) Extract(a *Term, hi, lo int) *Term {
	if lo == 0 && hi == a.w-1 {
		return a
	}
	if hi < lo || hi >= a.w {
		panic(fmt.Sprintf("bad extract [%d:%d] of w=%d", hi, lo, a.w))
	}
	w := hi - lo + 1
	if a.IsConst() {
		v := new(big.Int).Rsh(a.Big(), uint(lo))
		return s.ConstBig(w, v)
	}
	switch a.op {
	case OpExtract:
		return s.Extract(a.args[0], a.p2+hi, a.p2+lo)
	case OpZExt:
		in := a.args[0]
		if hi < in.w {
			return s.Extract(in, hi, lo)
		}
		if lo >= in.w {
			return s.Const(w, 0)
		}
		return s.ZExt(s.Extract(in, in.w-1, lo), w)
	case OpConcat:
		h, l := a.args[0], a.args[1]
		if hi < l.w {
			return s.Extract(l, hi, lo)
		}
		if lo >= l.w {
			return s.Extract(h, hi-l.w, lo-l.w)
		}
	case OpAnd, OpOr, OpXor:
		if a.args[0].IsConst() || a.args[1].IsConst() {
			return s.Bin(a.op, s.Extract(a.args[0], hi, lo), s.Extract(a.args[1], hi, lo))
		}
	case OpNot:
		return s.Not(s.Extract(a.args[0], hi, lo))
	case OpIte:
		if a.args[1].IsConst() || a.args[2].IsConst() {
			return s.Ite(a.args[0], s.Extract(a.args[1], hi, lo), s.Extract(a.args[2], hi, lo))
		}
	case OpShl:
		if k := a.args[1]; k.IsConst() && k.w <= 64 {
			sh := int(k.c)
			if sh >= a.w || hi < sh {
				return s.Const(w, 0)
			}
			if lo >= sh {
				return s.Extract(a.args[0], hi-sh, lo-sh)
			}
		}
	case OpLShr:
		if k := a.args[1]; k.IsConst() && k.w <= 64 {
			sh := int(k.c)
			if sh >= a.w || lo+sh >= a.w {
				return s.Const(w, 0)
			}
			if hi+sh < a.w {
				return s.Extract(a.args[0], hi+sh, lo+sh)
			}
		}
	case OpAdd, OpSub, OpMul:
		if lo == 0 {
			// low bits of +,-,* depend only on low bits of the operands
			return s.Bin(a.op, s.Extract(a.args[0], hi, 0), s.Extract(a.args[1], hi, 0))
		}
	}
	return s.mk(&Term{op: OpExtract, w: w, args: []*Term{a}, p1: hi, p2: lo})
}

func (s *TermStore) ZExt(a *Term, to int) *Term {
	if to == a.w {
		return a
	}
	if to < a.w {
		return s.Extract(a, to-1, 0)
	}
	if a.IsConst() {
		return s.ConstBig(to, a.Big())
	}
	if a.op == OpZExt {
		return s.ZExt(a.args[0], to)
	}
	return s.mk(&Term{op: OpZExt, w: to, args: []*Term{a}, p1: to - a.w})
}

func (s *TermStore) SExt(a *Term, to int) *Term {
	if to == a.w {
		return a
	}
	if to < a.w {
		return s.Extract(a, to-1, 0)
	}
	if a.IsConst() {
		v := bigSigned(a.Big(), a.w)
		return s.ConstBig(to, v)
	}
	return s.mk(&Term{op: OpSExt, w: to, args: []*Term{a}, p1: to - a.w})
}

func (s *TermStore) Concat(hi, lo *Term) *Term {
	if hi.IsConst() && lo.IsConst() {
		v := new(big.Int).Lsh(hi.Big(), uint(lo.w))
		v.Or(v, lo.Big())
		return s.ConstBig(hi.w+lo.w, v)
	}
	// concat(extract(x,h,m+1), extract(x,m,l)) = extract(x,h,l)
	if hi.op == OpExtract && lo.op == OpExtract && hi.args[0] == lo.args[0] && hi.p2 == lo.p1+1 {
		return s.Extract(hi.args[0], hi.p1, lo.p2)
	}
	if hi.IsConst() && hi.Big().Sign() == 0 {
		return s.ZExt(lo, hi.w+lo.w)
	}
	// concat(zext(a), lo) = zext(concat(a, lo))
	if hi.op == OpZExt {
		return s.ZExt(s.Concat(hi.args[0], lo), hi.w+lo.w)
	}
	// concat(concat(h, e1), e2) = concat(h, extract) when e1, e2 are adjacent extracts of one term
	if hi.op == OpConcat && lo.op == OpExtract {
		if e1 := hi.args[1]; e1.op == OpExtract && e1.args[0] == lo.args[0] && e1.p2 == lo.p1+1 {
			return s.Concat(hi.args[0], s.Extract(lo.args[0], e1.p1, lo.p2))
		}
	}
	return s.mk(&Term{op: OpConcat, w: hi.w + lo.w, args: []*Term{hi, lo}})
}

func (s *TermStore) Ite(c, a, b *Term) *Term {
	if c.IsTrue() {
		return a
	}
	if c.IsFalse() {
		return b
	}
	if a == b {
		return a
	}
	if a.w != b.w {
		panic(fmt.Sprintf("ite width mismatch %d %d", a.w, b.w))
	}
	if a.w == 0 {
		if a.IsTrue() && b.IsFalse() {
			return c
		}
		if a.IsFalse() && b.IsTrue() {
			return s.BNot(c)
		}
		if a.IsTrue() {
			return s.BOr(c, b)
		}
		if a.IsFalse() {
			return s.BAnd(s.BNot(c), b)
		}
		if b.IsFalse() {
			return s.BAnd(c, a)
		}
		if b.IsTrue() {
			return s.BOr(s.BNot(c), a)
		}
	}
	if c.op == OpBNot {
		return s.Ite(c.args[0], b, a)
	}
	// ite(c, x, ite(c, y, z)) = ite(c,x,z)
	if b.op == OpIte && b.args[0] == c {
		return s.Ite(c, a, b.args[2])
	}
	if a.op == OpIte && a.args[0] == c {
		return s.Ite(c, a.args[1], b)
	}
	return s.mk(&Term{op: OpIte, w: a.w, args: []*Term{c, a, b}})
}

func (s *TermStore) Eq(a, b *Term) *Term {
	if a == b {
		return s.True
	}
	if a.w != b.w {
		panic(fmt.Sprintf("eq width mismatch %d %d", a.w, b.w))
	}
	if a.IsConst() && b.IsConst() {
		if a.w <= 64 {
			return s.Bool(a.c == b.c)
		}
		return s.Bool(a.big.Cmp(b.big) == 0)
	}
	if s.idealHash && a.op == OpApp && b.op == OpApp && s.hashSyms[a.name] && s.hashSyms[b.name] {
		if a.name == b.name && len(a.args) == len(b.args) {
			// collision freedom (and congruence): equal outputs <=> equal inputs
			r := s.True
			for i := range a.args {
				if a.args[i].w != b.args[i].w {
					r = nil
					break
				}
				r = s.BAnd(r, s.Eq(a.args[i], b.args[i]))
			}
			if r != nil {
				return r
			}
		} else if a.name != b.name && hashFamily(a.name) == hashFamily(b.name) {
			// the same hash function over inputs of different lengths never collides
			return s.False
		}
	}
	if s.idealHash && ((a.op == OpApp && s.hashSyms[a.name] && b.IsConst() && b.Big().Sign() == 0) ||
		(b.op == OpApp && s.hashSyms[b.name] && a.IsConst() && a.Big().Sign() == 0)) {
		return s.False // an ideal hash never outputs zero
	}
	if s.nodeSep && a.w == 256 {
		// node hashes are h or h+len (len a constant in 1..251) with h a ped/pos2 output; under the
		// separation assumption h1+c1 == h2+c2 (mod P) with c1 != c2 is impossible (equal h: the sums
		// differ; different h: more than 251 apart)
		ha, ca, oka := s.nodeHashParts(a)
		hb, cb, okb := s.nodeHashParts(b)
		if oka && okb && ha.name == hb.name && ca != cb {
			return s.False
		}
	}
	if a.w == 256 {
		// x+c == y+c (mod P) <=> x == y for canonical field elements (adding c is a bijection of the field)
		if ma, ok := s.modadd[a.id]; ok {
			if mb, ok := s.modadd[b.id]; ok {
				for i := 0; i < 2; i++ {
					for j := 0; j < 2; j++ {
						if ma[i] == mb[j] {
							return s.Eq(ma[1-i], mb[1-j])
						}
					}
				}
			}
		}
	}
	if a.w == 0 {
		if a.IsTrue() {
			return b
		}
		if b.IsTrue() {
			return a
		}
		if a.IsFalse() {
			return s.BNot(b)
		}
		if b.IsFalse() {
			return s.BNot(a)
		}
	}
	// eq(ite(c,k1,k2), k) with constants
	if b.IsConst() && a.op == OpIte && a.args[1].IsConst() && a.args[2].IsConst() {
		return s.Ite(a.args[0], s.Eq(a.args[1], b), s.Eq(a.args[2], b))
	}
	if a.IsConst() && b.op == OpIte && b.args[1].IsConst() && b.args[2].IsConst() {
		return s.Ite(b.args[0], s.Eq(b.args[1], a), s.Eq(b.args[2], a))
	}
	// eq(zext(x), const): if const has high bits → false
	if b.IsConst() && a.op == OpZExt {
		in := a.args[0]
		hiPart := new(big.Int).Rsh(b.Big(), uint(in.w))
		if hiPart.Sign() != 0 {
			return s.False
		}
		return s.Eq(in, s.ConstBig(in.w, b.Big()))
	}
	if before(b, a) {
		a, b = b, a
	}
	return s.mk(&Term{op: OpEq, w: 0, args: []*Term{a, b}})
}

// nodeHashParts splits a node hash into its ped/pos2 application and the constant length added to it.
func (s *TermStore) nodeHashParts(t *Term) (*Term, uint64, bool) {
	isH := func(x *Term) bool { return x.op == OpApp && (x.name == "ped" || x.name == "pos2") && s.hashSyms[x.name] }
	if isH(t) {
		return t, 0, true
	}
	if m, ok := s.modadd[t.id]; ok {
		for i := 0; i < 2; i++ {
			if isH(m[i]) && m[1-i].IsConst() && m[1-i].Big().IsUint64() && m[1-i].Big().Uint64() <= 251 {
				return m[i], m[1-i].Big().Uint64(), true
			}
		}
	}
	return nil, 0, false
}

func (s *TermStore) Cmp(op Op, a, b *Term) *Term {
	if a.w != b.w {
		panic(fmt.Sprintf("cmp width mismatch %d %d", a.w, b.w))
	}
	if a.IsConst() && b.IsConst() {
		var r bool
		if a.w <= 64 {
			switch op {
			case OpULt:
				r = a.c < b.c
			case OpULe:
				r = a.c <= b.c
			case OpSLt:
				r = toSigned(a.c, a.w) < toSigned(b.c, a.w)
			case OpSLe:
				r = toSigned(a.c, a.w) <= toSigned(b.c, a.w)
			}
		} else {
			x, y := a.big, b.big
			if op == OpSLt || op == OpSLe {
				x, y = bigSigned(x, a.w), bigSigned(y, a.w)
			}
			c := x.Cmp(y)
			switch op {
			case OpULt, OpSLt:
				r = c < 0
			default:
				r = c <= 0
			}
		}
		return s.Bool(r)
	}
	if a == b {
		return s.Bool(op == OpULe || op == OpSLe)
	}
	if op == OpULt && b.IsConst() && b.Big().Sign() == 0 {
		return s.False
	}
	if op == OpULe && a.IsConst() && a.Big().Sign() == 0 {
		return s.True
	}
	return s.mk(&Term{op: op, w: 0, args: []*Term{a, b}})
}

func (s *TermStore) BNot(a *Term) *Term {
	if a.IsTrue() {
		return s.False
	}
	if a.IsFalse() {
		return s.True
	}
	if a.op == OpBNot {
		return a.args[0]
	}
	return s.mk(&Term{op: OpBNot, w: 0, args: []*Term{a}})
}

func (s *TermStore) BAnd(a, b *Term) *Term {
	if a.IsFalse() || b.IsFalse() {
		return s.False
	}
	if a.IsTrue() {
		return b
	}
	if b.IsTrue() {
		return a
	}
	if a == b {
		return a
	}
	if (a.op == OpBNot && a.args[0] == b) || (b.op == OpBNot && b.args[0] == a) {
		return s.False
	}
	if before(b, a) {
		a, b = b, a
	}
	return s.mk(&Term{op: OpBAnd, w: 0, args: []*Term{a, b}})
}

func (s *TermStore) BOr(a, b *Term) *Term {
	if a.IsTrue() || b.IsTrue() {
		return s.True
	}
	if a.IsFalse() {
		return b
	}
	if b.IsFalse() {
		return a
	}
	if a == b {
		return a
	}
	if (a.op == OpBNot && a.args[0] == b) || (b.op == OpBNot && b.args[0] == a) {
		return s.True
	}
	if before(b, a) {
		a, b = b, a
	}
	return s.mk(&Term{op: OpBOr, w: 0, args: []*Term{a, b}})
}

func (s *TermStore) Implies(a, b *Term) *Term { return s.BOr(s.BNot(a), b) }

// ---- population count etc. built from primitives (term builders, no forks) ----

func (s *TermStore) PopCount(a *Term) *Term {
	if a.IsConst() && a.w <= 64 {
		return s.Const(a.w, uint64(bits.OnesCount64(a.c)))
	}
	w := a.w
	sum := s.Const(w, 0)
	for i := 0; i < w; i++ {
		sum = s.Bin(OpAdd, sum, s.ZExt(s.Extract(a, i, i), w))
	}
	return sum
}

// LeadingZeros returns a term of width a.w with the number of leading zeros of a.
func (s *TermStore) LeadingZeros(a *Term) *Term {
	w := a.w
	if a.IsConst() && w <= 64 {
		return s.Const(w, uint64(bits.LeadingZeros64(a.c)-(64-w)))
	}
	// ite chain from msb
	res := s.Const(w, uint64(w))
	for i := 0; i < w; i++ { // bit i set and all above clear ⇒ w-1-i ; build from low to high so that higher bits take priority
		bit := s.Eq(s.Extract(a, i, i), s.Const(1, 1))
		res = s.Ite(bit, s.Const(w, uint64(w-1-i)), res)
	}
	return res
}

func (s *TermStore) TrailingZeros(a *Term) *Term {
	w := a.w
	if a.IsConst() && w <= 64 {
		if a.c == 0 {
			return s.Const(w, uint64(w))
		}
		return s.Const(w, uint64(bits.TrailingZeros64(a.c)))
	}
	res := s.Const(w, uint64(w))
	for i := w - 1; i >= 0; i-- {
		bit := s.Eq(s.Extract(a, i, i), s.Const(1, 1))
		res = s.Ite(bit, s.Const(w, uint64(i)), res)
	}
	return res
}

// ---- SMT-LIB printing ----

func sortStr(w int) string {
	if w == 0 {
		return "Bool"
	}
	return fmt.Sprintf("(_ BitVec %d)", w)
}

func constStr(t *Term) string {
	if t.w == 0 {
		if t.c == 1 {
			return "true"
		}
		return "false"
	}
	if t.w%4 == 0 {
		return fmt.Sprintf("#x%0*s", t.w/4, t.Big().Text(16))
	}
	return fmt.Sprintf("#b%0*s", t.w, t.Big().Text(2))
}

func smtName(n string) string {
	return "|" + strings.ReplaceAll(strings.ReplaceAll(n, "|", "_"), "\\", "_") + "|"
}

// Eval evaluates a term under an assignment of variables (and UF tables); missing vars are 0.
type Model struct {
	vars map[string]*big.Int
}

func (s *TermStore) Eval(t *Term, m *Model, memo map[int]*big.Int) *big.Int {
	if v, ok := memo[t.id]; ok {
		return v
	}
	var r *big.Int
	ev := func(i int) *big.Int { return s.Eval(t.args[i], m, memo) }
	switch t.op {
	case OpConst:
		r = t.Big()
	case OpVar:
		if v, ok := m.vars[t.name]; ok {
			r = v
		} else {
			r = new(big.Int)
		}
	case OpApp:
		// deterministic pseudo value: not used for verdicts
		r = new(big.Int)
	default:
		cs := make([]*Term, len(t.args))
		for i := range t.args {
			cs[i] = s.ConstBig(t.args[i].w, ev(i))
			if t.args[i].w == 0 {
				cs[i] = s.Bool(ev(i).Sign() != 0)
			}
		}
		var ct *Term
		switch t.op {
		case OpNot:
			ct = s.Not(cs[0])
		case OpNeg:
			ct = s.Neg(cs[0])
		case OpExtract:
			ct = s.Extract(cs[0], t.p1, t.p2)
		case OpZExt:
			ct = s.ZExt(cs[0], t.w)
		case OpSExt:
			ct = s.SExt(cs[0], t.w)
		case OpConcat:
			ct = s.Concat(cs[0], cs[1])
		case OpIte:
			ct = s.Ite(cs[0], cs[1], cs[2])
		case OpEq:
			ct = s.Eq(cs[0], cs[1])
		case OpULt, OpULe, OpSLt, OpSLe:
			ct = s.Cmp(t.op, cs[0], cs[1])
		case OpBAnd:
			ct = s.BAnd(cs[0], cs[1])
		case OpBOr:
			ct = s.BOr(cs[0], cs[1])
		case OpBNot:
			ct = s.BNot(cs[0])
		default:
			ct = s.Bin(t.op, cs[0], cs[1])
		}
		if !ct.IsConst() {
			panic("eval: not constant: " + opNames[t.op])
		}
		r = ct.Big()
	}
	memo[t.id] = r
	return r
}

// Vars returns the variables occurring in t (sorted by name).
func collectVars(t *Term, seen map[int]bool, out map[string]*Term, ufs map[string]bool) {
	if seen[t.id] {
		return
	}
	seen[t.id] = true
	if t.op == OpVar {
		out[t.name] = t
	}
	if t.op == OpApp {
		ufs[t.name] = true
	}
	for _, a := range t.args {
		collectVars(a, seen, out, ufs)
	}
}

func (t *Term) String() string {
	seen := map[int]bool{}
	vs := map[string]*Term{}
	collectVars(t, seen, vs, map[string]bool{})
	names := make([]string, 0, len(vs))
	for n := range vs {
		names = append(names, n)
	}
	sort.Strings(names)
	if t.IsConst() {
		return constStr(t)
	}
	return fmt.Sprintf("<term#%d %s w=%d vars=%v>", t.id, opNames[t.op], t.w, names)
}
