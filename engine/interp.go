package main

import (
	"reflect"
	"crypto/sha256"
	"fmt"
	"go/constant"
	"go/token"
	"go/types"
	"math"
	"math/big"
	"math/bits"
	"sort"
	"strings"

	"golang.org/x/tools/go/ssa"
)

type pathEnd struct {
	kind string // "assume", "unsupported", "budget", "unwind", "stop"
	msg  string
}

type GoPanic struct {
	val Value
	msg string
}

type decision struct {
	Kind   byte // 'b' branch, 'v' value
	Taken  bool
	Val    uint64
	Forced bool
}

type decisionCtx struct {
	prefix []decision
	pos    int
	trace  []decision
	alts   [][]decision
	local  bool
}

type fnInfo struct {
	idx map[ssa.Value]int
	n   int
	// loads that feed only the Return of their block are evaluated at the Return (after the calls
	// of the return statement), which is the order the gc compiler uses for "return *p, f()".
	deferred map[ssa.Instruction]bool
	retLoads map[*ssa.Return][]ssa.Instruction
}

type Frame struct {
	fn     *ssa.Function
	info   *fnInfo
	regs   []Value
	block  *ssa.BasicBlock
	prev   *ssa.BasicBlock
	defers []deferred
	panic  *GoPanic
	visits map[int]int
	caller *Frame
	result Value
	recovered bool
}

type deferred struct {
	fn   Value // *Closure or *ssa.Builtin or intercept
	args []Value
	call *ssa.CallCommon
}

type Violation struct {
	Label   string            `json:"label"`
	Msg     string            `json:"msg"`
	Model   map[string]string `json:"model"`
	Trace   []string          `json:"trace,omitempty"`
	Covers  []string          `json:"covers,omitempty"`
	Observes map[string]string `json:"observes,omitempty"`
}

type Interp struct {
	prog *ssa.Program
	st   *TermStore
	sol  *Solver
	cfg  *HarnessCfg

	// path state
	pc        []*Term
	pcKey     [32]byte
	ctx       *decisionCtx
	ctxStack  []*decisionCtx
	hasUnknown bool
	pathUF     bool // the path condition mentions an uninterpreted function: a native run need not follow it
	steps     int
	callDepth int

	// heap
	nextObj      int
	journal      []jrec
	journalOn    bool
	journalWater int
	globals      map[*ssa.Global]*Object
	initDone     map[*ssa.Package]bool
	initMode     int
	freezeOn     bool

	finfo map[*ssa.Function]*fnInfo

	// per-harness accumulators
	feasCache map[string]Result
	stats     *SolverStats
	res       *HarnessResult
	nameCount map[string]int
	inputs    []*Term // vx-created variables, in order (this path)
	covers    map[string]bool
	pathCovers []string
	observes  map[string]string
	mergeSet  []string
	noMerge   bool
	mergeDepth int
	funcsSeen map[string]bool
	stubs     map[string]*ssa.Function
	opaque    map[string]*opaqueBlob
	extra     map[string]interface{}
	failAt    map[string]int
	curPos    token.Pos
	lastCall  string
	violatedLabels map[string]bool
	bigs           map[*Object]*big.Int
	pathViolations int

	sch *sched
	mus map[string]*muState
	wgs map[string]*int

	timers     []*timerRec
	now        int64
	timerFires int
	realPools  bool // vx.RealPools: sourcegraph/conc pools run from source on the scheduler
	selectAny  bool // vx.SelectAny: a select with several ready cases forks over all of them
	pools      map[string]*[]Value // sync.Pool model: objects Put and not yet handed out again
	syncMaps   map[string]*MapObj // sync.Map model, keyed by the address of the sync.Map
	preempt    int  // vx.Preemptions: remaining preemptions at synchronisation operations on this path
	preemptions int
}

type opaqueBlob struct {
	id  int
	val Value
	typ types.Type
	n   int
}

func (in *Interp) unsupported(msg string) {
	panic(pathEnd{kind: "unsupported", msg: msg + in.where()})
}

func (in *Interp) where() string {
	if in.curPos.IsValid() {
		p := in.prog.Fset.Position(in.curPos)
		return fmt.Sprintf(" @ %s:%d", p.Filename, p.Line)
	}
	return ""
}

func (in *Interp) goPanic(msg string) {
	panic(&GoPanic{msg: msg + in.where(), val: Iface{t: types.Typ[types.String], v: Str{s: msg}}})
}

func (in *Interp) freezeViolation(msg string) {
	in.reportViolation("frozen-object-mutated", msg, nil)
}

// ---------------- decisions ----------------

func (in *Interp) addPC(c *Term, assert bool) {
	in.pc = append(in.pc, c)
	if c.ua {
		in.pathUF = true
	}
	h := sha256.New()
	h.Write(in.pcKey[:])
	fmt.Fprintf(h, "%d", c.id)
	copy(in.pcKey[:], h.Sum(nil))
	if assert {
		in.sol.Assert(c)
	}
}

func (in *Interp) feasible(c *Term) Result {
	if c.IsTrue() {
		return Sat
	}
	if c.IsFalse() {
		return Unsat
	}
	key := string(in.pcKey[:]) + fmt.Sprint(c.id)
	if r, ok := in.feasCache[key]; ok {
		return r
	}
	r := in.sol.CheckWith(c)
	in.feasCache[key] = r
	return r
}

// branch decides a symbolic condition, forking the exploration if both sides are feasible.
func (in *Interp) branch(c *Term) bool {
	if c.IsConst() {
		return c.IsTrue()
	}
	ctx := in.ctx
	if ctx.pos < len(ctx.prefix) {
		d := ctx.prefix[ctx.pos]
		if d.Kind != 'b' {
			panic(pathEnd{kind: "unsupported", msg: "non-deterministic replay (expected branch decision)"})
		}
		ctx.pos++
		ctx.trace = append(ctx.trace, d)
		cc := c
		if !d.Taken {
			cc = in.st.BNot(c)
		}
		in.addPC(cc, !d.Forced)
		return d.Taken
	}
	ctx.pos++
	rt := in.feasible(c)
	var rf Result
	if rt == Unsat {
		rf = Sat
	} else {
		rf = in.feasible(in.st.BNot(c))
	}
	if rt == Unknown || rf == Unknown {
		in.hasUnknown = true
		in.res.UnknownBranches++
	}
	switch {
	case rt != Unsat && rf != Unsat:
		d := decision{Kind: 'b', Taken: true}
		alt := make([]decision, len(ctx.trace)+1)
		copy(alt, ctx.trace)
		alt[len(ctx.trace)] = decision{Kind: 'b', Taken: false}
		ctx.alts = append(ctx.alts, alt)
		ctx.trace = append(ctx.trace, d)
		in.addPC(c, true)
		return true
	case rt != Unsat:
		ctx.trace = append(ctx.trace, decision{Kind: 'b', Taken: true, Forced: true})
		in.addPC(c, false)
		return true
	default:
		ctx.trace = append(ctx.trace, decision{Kind: 'b', Taken: false, Forced: true})
		in.addPC(in.st.BNot(c), false)
		return false
	}
}

// assume restricts the path; ends it if infeasible.
func (in *Interp) assume(c *Term) {
	if c.IsTrue() {
		return
	}
	if c.IsFalse() {
		panic(pathEnd{kind: "assume"})
	}
	ctx := in.ctx
	if ctx.pos < len(ctx.prefix) {
		d := ctx.prefix[ctx.pos]
		ctx.pos++
		ctx.trace = append(ctx.trace, d)
		in.addPC(c, true)
		return
	}
	ctx.pos++
	r := in.feasible(c)
	if r == Unsat {
		panic(pathEnd{kind: "assume"})
	}
	if r == Unknown {
		in.hasUnknown = true
		in.res.UnknownBranches++
	}
	ctx.trace = append(ctx.trace, decision{Kind: 'b', Taken: true, Forced: true})
	in.addPC(c, true)
}

// concretize enumerates the feasible values of t (up to the cap) and forks over them.
func (in *Interp) concretize(t *Term, what string) uint64 {
	if t.IsConst() {
		return t.c
	}
	if t.w > 64 {
		in.unsupported("concretize wide term")
	}
	ctx := in.ctx
	if ctx.pos < len(ctx.prefix) {
		d := ctx.prefix[ctx.pos]
		if d.Kind != 'v' {
			panic(pathEnd{kind: "unsupported", msg: "non-deterministic replay (expected value decision)"})
		}
		ctx.pos++
		ctx.trace = append(ctx.trace, d)
		in.addPC(in.st.Eq(t, in.st.Const(t.w, d.Val)), true)
		return d.Val
	}
	ctx.pos++
	cap := in.cfg.ConcretizeCap
	var vals []uint64
	in.sol.Push()
	wv := in.wrapVar(t)
	for {
		r := in.sol.Check()
		if r == Unknown {
			in.sol.Pop()
			panic(pathEnd{kind: "budget", msg: "solver unknown while concretizing " + what})
		}
		if r == Unsat {
			break
		}
		m, err := in.sol.GetValues([]*Term{wv})
		if err != nil {
			in.sol.Pop()
			panic(pathEnd{kind: "budget", msg: "get-value failed: " + err.Error()})
		}
		var v uint64
		for _, x := range m {
			v = x.Uint64()
		}
		vals = append(vals, v)
		if len(vals) > cap {
			in.sol.Pop()
			panic(pathEnd{kind: "budget", msg: fmt.Sprintf("concretization cap (%d) exceeded for %s%s", cap, what, in.where())})
		}
		in.sol.Assert(in.st.BNot(in.st.Eq(t, in.st.Const(t.w, v))))
	}
	in.sol.Pop()
	if len(vals) == 0 {
		panic(pathEnd{kind: "assume"})
	}
	sort.Slice(vals, func(i, j int) bool { return vals[i] < vals[j] })
	for _, v := range vals[1:] {
		alt := make([]decision, len(ctx.trace)+1)
		copy(alt, ctx.trace)
		alt[len(ctx.trace)] = decision{Kind: 'v', Val: v}
		ctx.alts = append(ctx.alts, alt)
	}
	ctx.trace = append(ctx.trace, decision{Kind: 'v', Val: vals[0]})
	in.addPC(in.st.Eq(t, in.st.Const(t.w, vals[0])), true)
	return vals[0]
}

// wrapVar gives a named handle for an arbitrary term so that get-value can be asked for it.
func (in *Interp) wrapVar(t *Term) *Term {
	if t.op == OpVar {
		return t
	}
	n := fmt.Sprintf("$cz%d", t.id)
	v := in.st.Var(n, t.w)
	// remove from vars list (not an input)
	in.st.vars = in.st.vars[:len(in.st.vars)-0]
	in.sol.Assert(in.st.Eq(v, t))
	return v
}

// choose forks n ways without consulting the solver.
func (in *Interp) choose(n int) int {
	if n <= 1 {
		return 0
	}
	ctx := in.ctx
	if ctx.pos < len(ctx.prefix) {
		d := ctx.prefix[ctx.pos]
		ctx.pos++
		ctx.trace = append(ctx.trace, d)
		return int(d.Val)
	}
	ctx.pos++
	for v := n - 1; v >= 1; v-- {
		alt := make([]decision, len(ctx.trace)+1)
		copy(alt, ctx.trace)
		alt[len(ctx.trace)] = decision{Kind: 'v', Val: uint64(v)}
		ctx.alts = append(ctx.alts, alt)
	}
	ctx.trace = append(ctx.trace, decision{Kind: 'v', Val: 0})
	return 0
}

// ---------------- assertions ----------------

func (in *Interp) allInputs() []*Term {
	return in.inputs
}

func (in *Interp) modelStrings() (map[string]string, bool) {
	m, err := in.sol.GetValues(in.allInputs())
	if err != nil {
		return nil, false
	}
	out := map[string]string{}
	for k, v := range m {
		out[k] = "0x" + v.Text(16)
	}
	return out, true
}

func (in *Interp) reportViolation(label, msg string, negCond *Term) {
	// called with the solver in a state where pc (∧ negCond) is satisfiable; fetch a model.
	in.sol.Push()
	if negCond != nil {
		in.sol.Assert(negCond)
	}
	r := in.sol.Check()
	var model map[string]string
	ok := false
	if r == Sat {
		model, ok = in.modelStrings()
	}
	in.sol.Pop()
	if !ok {
		in.res.noteInconclusive("violation of " + label + " suspected but no model could be obtained (" + r.String() + ")")
		return
	}
	v := Violation{Label: label, Msg: msg, Model: model, Covers: append([]string{}, in.pathCovers...)}
	in.res.addViolation(v)
	in.pathViolations++
}

func (in *Interp) assert(c *Term, label string) {
	in.res.markAssertReached(label)
	if c.IsTrue() {
		return
	}
	neg := in.st.BNot(c)
	// asked afresh, never from the feasibility cache: the verdict of an assertion must be the
	// solver's answer for the assertion stack as it is now
	r := in.sol.CheckWith(neg)
	if neg.IsFalse() {
		r = Unsat
	}
	in.res.AssertQueries++
	switch r {
	case Unsat:
		return
	case Unknown:
		in.hasUnknown = true
		in.res.UnknownAsserts++
		in.res.noteInconclusive("assert " + label + ": solver unknown")
	default:
		if in.mergeDepth > 0 {
			in.unsupported("assert inside merged callee")
		}
		in.reportViolation(label, "assertion can fail"+in.where(), neg)
	}
	// Continue under the assumption that the assertion held, to look for further, different
	// violations. This must not consume a decision slot: whether we get here depends on solver
	// answers (timeouts), and decision prefixes have to replay identically on every worker.
	if c.IsFalse() || in.feasible(c) == Unsat {
		panic(pathEnd{kind: "stop"})
	}
	in.addPC(c, true)
}

// ---------------- frames / execution ----------------

func (in *Interp) info(fn *ssa.Function) *fnInfo {
	if fi, ok := in.finfo[fn]; ok {
		return fi
	}
	fi := &fnInfo{idx: map[ssa.Value]int{}}
	add := func(v ssa.Value) {
		fi.idx[v] = fi.n
		fi.n++
	}
	for _, p := range fn.Params {
		add(p)
	}
	for _, f := range fn.FreeVars {
		add(f)
	}
	for _, b := range fn.Blocks {
		for _, ins := range b.Instrs {
			if v, ok := ins.(ssa.Value); ok {
				add(v)
			}
		}
	}
	fi.deferred = map[ssa.Instruction]bool{}
	fi.retLoads = map[*ssa.Return][]ssa.Instruction{}
	for _, b := range fn.Blocks {
		if len(b.Instrs) == 0 {
			continue
		}
		ret, ok := b.Instrs[len(b.Instrs)-1].(*ssa.Return)
		if !ok || len(ret.Results) < 2 {
			continue
		}
		hasCall := false
		for _, ins := range b.Instrs {
			if _, ok := ins.(*ssa.Call); ok {
				hasCall = true
			}
		}
		if !hasCall {
			continue
		}
		// iterate backwards: a load is deferred if every referrer is the Return or a deferred load of this block
		for i := len(b.Instrs) - 2; i >= 0; i-- {
			u, ok := b.Instrs[i].(*ssa.UnOp)
			if !ok || u.Op != token.MUL {
				continue
			}
			refs := u.Referrers()
			if refs == nil || len(*refs) == 0 {
				continue
			}
			all := true
			for _, r := range *refs {
				if r == ssa.Instruction(ret) || fi.deferred[r] {
					continue
				}
				all = false
			}
			if all {
				fi.deferred[u] = true
			}
		}
		for _, ins := range b.Instrs {
			if fi.deferred[ins] {
				fi.retLoads[ret] = append(fi.retLoads[ret], ins)
			}
		}
	}
	in.finfo[fn] = fi
	return fi
}

func (in *Interp) constVal(c *ssa.Const) Value {
	t := c.Type()
	if c.Value == nil {
		return in.zero(t)
	}
	if isFeltType(t) {
		in.unsupported("felt constant")
	}
	switch u := t.Underlying().(type) {
	case *types.Basic:
		switch {
		case u.Info()&types.IsBoolean != 0:
			return in.st.Bool(constant.BoolVal(c.Value))
		case u.Info()&types.IsString != 0:
			return Str{s: constant.StringVal(c.Value)}
		case u.Info()&types.IsInteger != 0:
			w := basicWidth(u)
			iv := constant.ToInt(c.Value)
			if v, ok := constant.Int64Val(iv); ok {
				return in.st.Const(w, uint64(v))
			}
			if v, ok := constant.Uint64Val(iv); ok {
				return in.st.Const(w, v)
			}
			in.unsupported("big int constant")
		case u.Info()&types.IsFloat != 0:
			f, _ := constant.Float64Val(c.Value)
			if u.Kind() == types.Float32 {
				return in.st.Const(32, uint64(math.Float32bits(float32(f))))
			}
			return in.st.Const(64, math.Float64bits(f))
		}
	case *types.Interface:
		return Iface{}
	}
	in.unsupported("constant of type " + t.String())
	return nil
}

func (in *Interp) get(fr *Frame, v ssa.Value) Value {
	switch x := v.(type) {
	case *ssa.Const:
		return in.constVal(x)
	case *ssa.Global:
		return Ptr{obj: in.globalObj(x)}
	case *ssa.Function:
		return &Closure{fn: x}
	case *ssa.Builtin:
		return x
	}
	i, ok := fr.info.idx[v]
	if !ok {
		in.unsupported("unknown ssa value " + v.Name())
	}
	return fr.regs[i]
}

func (in *Interp) set(fr *Frame, v ssa.Value, val Value) {
	fr.regs[fr.info.idx[v]] = val
}

func (in *Interp) globalObj(g *ssa.Global) *Object {
	if o, ok := in.globals[g]; ok {
		if g.Pkg != nil && !in.initDone[g.Pkg] {
			in.runInit(g.Pkg)
		}
		return o
	}
	et := g.Type().(*types.Pointer).Elem()
	// globals are allocated with low ids so that they are always journaled
	saveOn := in.journalOn
	in.journalOn = false
	o := &Object{id: 0, typ: et, label: g.String()}
	in.initMode++
	o.val = in.zero(et)
	in.initMode--
	in.journalOn = saveOn
	in.globals[g] = o
	if g.Pkg != nil && !in.initDone[g.Pkg] {
		in.runInit(g.Pkg)
	}
	return o
}

// runInit executes the package initializer lazily, tolerating unsupported calls (results poisoned).
func (in *Interp) runInit(pkg *ssa.Package) {
	if in.initDone[pkg] {
		return
	}
	in.initDone[pkg] = true
	fn := pkg.Func("init")
	if fn == nil || len(fn.Blocks) == 0 {
		return
	}
	if skipInitPkg(pkg.Pkg.Path()) {
		// the initialiser is not executed: every global it assigns must not read as a silent zero value
		in.poisonInitialisedGlobals(pkg, fn)
		return
	}
	// run outside any journaling / decision context: inits must be concrete
	saveOn, saveCtx, savePos := in.journalOn, in.ctx, in.curPos
	savePC, saveKey := in.pc, in.pcKey
	in.journalOn = false
	in.ctx = &decisionCtx{}
	in.initMode++
	func() {
		defer func() {
			if r := recover(); r != nil {
				switch x := r.(type) {
				case pathEnd, *GoPanic:
					// whole init aborted: what it had not assigned yet must not read as a silent zero
					in.poisonInitialisedGlobalsIfZero(pkg, fn)
				case error:
					// a poisoned operand (a global of a package whose initialiser is not executed) reached an
					// operation of this initialiser: same treatment
					if strings.Contains(x.Error(), "main.Poison") {
						in.poisonInitialisedGlobalsIfZero(pkg, fn)
					} else {
						panic(r)
					}
				default:
					panic(r)
				}
			}
		}()
		in.callFunction(fn, nil, nil)
	}()
	in.initMode--
	in.journalOn, in.ctx, in.curPos = saveOn, saveCtx, savePos
	in.pc, in.pcKey = savePC, saveKey
}

// poisonInitialisedGlobals marks every package-level variable that the (skipped) initialiser of pkg stores
// to - directly or through a field/element address - as poisoned: a later read outside initialisation ends
// the path as unsupported instead of yielding the zero value.
func (in *Interp) poisonInitialisedGlobalsIfZero(pkg *ssa.Package, init *ssa.Function) {
	in.poisonGlobals(pkg, init, true, "initialiser of "+pkg.Pkg.Path()+" was aborted")
}

func (in *Interp) poisonInitialisedGlobals(pkg *ssa.Package, init *ssa.Function) {
	in.poisonGlobals(pkg, init, false, "initialiser of "+pkg.Pkg.Path()+" is not executed")
}

func (in *Interp) poisonGlobals(pkg *ssa.Package, init *ssa.Function, onlyZero bool, why string) {
	seen := map[*ssa.Function]bool{}
	var scan func(fn *ssa.Function)
	scan = func(fn *ssa.Function) {
		if fn == nil || seen[fn] || len(fn.Blocks) == 0 {
			return
		}
		seen[fn] = true
		for _, b := range fn.Blocks {
			for _, ins := range b.Instrs {
				switch x := ins.(type) {
				case *ssa.Store:
					addr := x.Addr
					for {
						switch a := addr.(type) {
						case *ssa.FieldAddr:
							addr = a.X
							continue
						case *ssa.IndexAddr:
							addr = a.X
							continue
						}
						break
					}
					if g, ok := addr.(*ssa.Global); ok && g.Pkg == pkg {
						if o, ok := in.globals[g]; ok {
							if onlyZero {
								in.initMode++
								z := in.zero(o.typ)
								in.initMode--
								if !reflect.DeepEqual(o.val, z) {
									continue
								}
							}
							o.val = Poison{why}
						} else {
							et := g.Type().(*types.Pointer).Elem()
							in.globals[g] = &Object{id: 0, typ: et, label: g.String(), val: Poison{why}}
						}
					}
				case *ssa.Call:
					// init#1, init#2 ... of the same package
					if callee := x.Call.StaticCallee(); callee != nil && callee.Pkg == pkg && strings.HasPrefix(callee.Name(), "init#") {
						scan(callee)
					}
				}
			}
		}
	}
	scan(init)
}

func skipInitPkg(path string) bool {
	// standard library and third-party initialisers are not executed unless listed
	if strings.HasPrefix(path, "github.com/NethermindEth/juno") {
		return false
	}
	switch path {
	case "errors", "io", "io/fs", "internal/oserror", "net/url", "time", "context", "os", "bytes", "strings", "unicode/utf8", "encoding/binary",
		"github.com/cockroachdb/pebble/v2/batchrepr", "github.com/cockroachdb/pebble/v2/internal/base",
		"github.com/cockroachdb/pebble/internal/base", "bufio", "encoding/hex", "strconv", "sort", "slices",
		"github.com/sourcegraph/conc", "github.com/sourcegraph/conc/stream", "github.com/sourcegraph/conc/pool", "github.com/sourcegraph/conc/panics":
		return false
	}
	return true
}

func (in *Interp) callFunction(fn *ssa.Function, args []Value, caller *Frame) Value {
	in.callDepth++
	if in.callDepth > 2000 {
		in.callDepth--
		panic(pathEnd{kind: "budget", msg: "call depth exceeded in " + fn.String()})
	}
	defer func() { in.callDepth-- }()
	if fn.Blocks == nil {
		in.unsupported("call to function without body: " + fn.String())
	}
	if in.funcsSeen != nil && in.initMode == 0 {
		in.funcsSeen[fn.String()] = true
	}
	fi := in.info(fn)
	fr := &Frame{fn: fn, info: fi, regs: make([]Value, fi.n), caller: caller}
	if len(args) != len(fn.Params) {
		in.unsupported(fmt.Sprintf("arg count mismatch calling %s: %d vs %d", fn.String(), len(args), len(fn.Params)))
	}
	for i, p := range fn.Params {
		fr.regs[fi.idx[p]] = args[i]
	}
	return in.runFrame(fr)
}

func (in *Interp) runFrame(fr *Frame) (ret Value) {
	defer func() {
		if r := recover(); r != nil {
			gp, ok := r.(*GoPanic)
			if !ok {
				panic(r)
			}
			fr.panic = gp
			in.runDefers(fr)
			if fr.panic != nil {
				panic(fr.panic)
			}
			// recovered
			if fr.fn.Recover != nil {
				fr.block = fr.fn.Recover
				fr.prev = nil
				ret = in.runBlocks(fr)
				return
			}
			ret = in.zeroResults(fr.fn)
		}
	}()
	fr.block = fr.fn.Blocks[0]
	return in.runBlocks(fr)
}

func (in *Interp) zeroResults(fn *ssa.Function) Value {
	res := fn.Signature.Results()
	switch res.Len() {
	case 0:
		return nil
	case 1:
		return in.zero(res.At(0).Type())
	}
	return in.zero(res)
}

func (in *Interp) runDefers(fr *Frame) {
	for len(fr.defers) > 0 {
		d := fr.defers[len(fr.defers)-1]
		fr.defers = fr.defers[:len(fr.defers)-1]
		func() {
			defer func() {
				if r := recover(); r != nil {
					gp, ok := r.(*GoPanic)
					if !ok {
						panic(r)
					}
					fr.panic = gp // a new panic replaces the old one
				}
			}()
			in.invokeDeferred(fr, d)
		}()
	}
}

func (in *Interp) invokeDeferred(fr *Frame, d deferred) {
	switch f := d.fn.(type) {
	case *ssa.Builtin:
		in.callBuiltin(fr, f, d.args, nil)
	case *Closure:
		in.callClosure(f, d.args, fr)
	default:
		in.unsupported(fmt.Sprintf("deferred %T", d.fn))
	}
}

func (in *Interp) callClosure(c *Closure, args []Value, caller *Frame) Value {
	if c == nil {
		in.goPanic("call of nil func")
	}
	if c.native != nil {
		return c.native(in, args)
	}
	all := args
	if len(c.binds) > 0 {
		// free variables are passed after params in our register layout
		return in.callWithBinds(c.fn, args, c.binds, caller)
	}
	return in.dispatch(c.fn, all, caller)
}

func (in *Interp) callWithBinds(fn *ssa.Function, args, binds []Value, caller *Frame) Value {
	in.callDepth++
	defer func() { in.callDepth-- }()
	if in.callDepth > 2000 {
		panic(pathEnd{kind: "budget", msg: "call depth exceeded"})
	}
	if in.funcsSeen != nil && in.initMode == 0 {
		in.funcsSeen[fn.String()] = true
	}
	fi := in.info(fn)
	fr := &Frame{fn: fn, info: fi, regs: make([]Value, fi.n), caller: caller}
	for i, p := range fn.Params {
		fr.regs[fi.idx[p]] = args[i]
	}
	for i, f := range fn.FreeVars {
		fr.regs[fi.idx[f]] = binds[i]
	}
	return in.runFrame(fr)
}

// dispatch calls fn, honouring intercepts, stubs and the merge list.
func (in *Interp) dispatch(fn *ssa.Function, args []Value, caller *Frame) Value {
	name := fnName(fn)
	if in.stubs != nil {
		if rep, ok := in.stubs[name]; ok {
			return in.dispatch(rep, args, caller)
		}
	}
	if ic := lookupIntercept(name); ic != nil {
		if in.funcsSeen != nil && in.initMode == 0 {
			in.funcsSeen["[model] "+name] = true
		}
		return ic(in, caller, fn, args)
	}
	if fn.Blocks == nil {
		in.unsupported("no body and no model for " + name)
	}
	if !in.noMerge && in.initMode == 0 && in.shouldMerge(name) {
		if res, ok := in.mergeCall(fn, args, caller); ok {
			return res
		}
	}
	return in.callFunction(fn, args, caller)
}

func fnName(fn *ssa.Function) string {
	if o := fn.Origin(); o != nil {
		return o.String()
	}
	return fn.String()
}

func (in *Interp) shouldMerge(name string) bool {
	for _, p := range in.mergeSet {
		if strings.Contains(name, p) {
			return true
		}
	}
	return false
}

type mergeOutcome struct {
	cond   *Term
	res    Value
	writes map[*Object]Value
}

// mergeCall explores all paths of a (heap-local) callee and joins results/effects into ite terms.
func (in *Interp) mergeCall(fn *ssa.Function, args []Value, caller *Frame) (result Value, ok bool) {
	if in.mergeDepth > 8 {
		return nil, false
	}
	mark := len(in.journal)
	saveOn, saveWater := in.journalOn, in.journalWater
	in.journalOn = true
	in.journalWater = in.nextObj
	saveCtx := in.ctx
	saveUnknown := in.hasUnknown
	in.mergeDepth++
	var outs []mergeOutcome
	work := [][]decision{nil}
	abandon := false
	var rethrow interface{}
	paths := 0
	for len(work) > 0 && !abandon {
		prefix := work[len(work)-1]
		work = work[:len(work)-1]
		paths++
		if paths > in.cfg.MergePathCap {
			abandon = true
			break
		}
		ctx := &decisionCtx{prefix: prefix, local: true}
		in.ctx = ctx
		in.sol.Push()
		pcMark := len(in.pc)
		keySave := in.pcKey
		var res Value
		func() {
			defer func() {
				if r := recover(); r != nil {
					switch e := r.(type) {
					case *GoPanic:
						abandon = true
					case pathEnd:
						if e.kind == "assume" {
							// infeasible local path: drop it
							res = nil
							abandon = true
						} else {
							abandon = true
							rethrow = r
						}
					case mergeFail:
						abandon = true
					default:
						panic(r)
					}
				}
			}()
			res = in.callFunction(fn, args, caller)
		}()
		if !abandon {
			cond := in.st.True
			for _, c := range in.pc[pcMark:] {
				cond = in.st.BAnd(cond, c)
			}
			w := map[*Object]Value{}
			for _, r := range in.journal[mark:] {
				if r.obj != nil {
					w[r.obj] = r.obj.val
				} else {
					abandon = true // map/chan mutation inside merged callee
				}
			}
			outs = append(outs, mergeOutcome{cond: cond, res: res, writes: w})
		}
		in.rollback(mark)
		in.sol.Pop()
		in.pc = in.pc[:pcMark]
		in.pcKey = keySave
		work = append(work, ctx.alts...)
	}
	in.mergeDepth--
	in.ctx = saveCtx
	in.journalOn, in.journalWater = saveOn, saveWater
	if rethrow != nil {
		panic(rethrow)
	}
	if abandon || len(outs) == 0 {
		in.hasUnknown = saveUnknown
		in.res.MergeAbandoned++
		return nil, false
	}
	// join
	okJoin := true
	func() {
		defer func() {
			if r := recover(); r != nil {
				if _, isMF := r.(mergeFail); isMF {
					okJoin = false
					return
				}
				panic(r)
			}
		}()
		n := len(outs)
		result = outs[n-1].res
		for i := n - 2; i >= 0; i-- {
			result = in.mergeVal(outs[i].cond, outs[i].res, result)
		}
		objs := map[*Object]bool{}
		var order []*Object
		for _, o := range outs {
			for ob := range o.writes {
				if !objs[ob] {
					objs[ob] = true
					order = append(order, ob)
				}
			}
		}
		sort.Slice(order, func(i, j int) bool { return order[i].id < order[j].id })
		finals := make([]Value, len(order))
		for k, ob := range order {
			val := func(i int) Value {
				if v, ok := outs[i].writes[ob]; ok {
					return v
				}
				return ob.val
			}
			f := val(n - 1)
			for i := n - 2; i >= 0; i-- {
				f = in.mergeVal(outs[i].cond, val(i), f)
			}
			finals[k] = f
		}
		for k, ob := range order {
			in.setObj(ob, finals[k])
		}
	}()
	if !okJoin {
		in.res.MergeAbandoned++
		return nil, false
	}
	in.res.MergeSites++
	return result, true
}

func (in *Interp) runBlocks(fr *Frame) Value {
	for {
		b := fr.block
		if fr.visits == nil {
			fr.visits = map[int]int{}
		}
		fr.visits[b.Index]++
		if fr.visits[b.Index] > in.cfg.Unwind {
			panic(pathEnd{kind: "unwind", msg: fmt.Sprintf("loop bound %d exceeded in %s block %d", in.cfg.Unwind, fr.fn.String(), b.Index)})
		}
		var next *ssa.BasicBlock
		for _, ins := range b.Instrs {
			in.steps++
			if in.steps > in.cfg.MaxSteps {
				panic(pathEnd{kind: "budget", msg: "instruction budget exceeded"})
			}
			if p := ins.Pos(); p.IsValid() {
				in.curPos = p
			}
			switch x := ins.(type) {
			case *ssa.Phi:
				for i, pred := range b.Preds {
					if pred == fr.prev {
						in.set(fr, x, in.get(fr, x.Edges[i]))
						break
					}
				}
			case *ssa.Jump:
				next = b.Succs[0]
			case *ssa.If:
				c := in.get(fr, x.Cond).(*Term)
				if in.branch(c) {
					next = b.Succs[0]
				} else {
					next = b.Succs[1]
				}
			case *ssa.Return:
				for _, d := range fr.info.retLoads[x] {
					in.exec(fr, d)
				}
				switch len(x.Results) {
				case 0:
					return nil
				case 1:
					return in.get(fr, x.Results[0])
				}
				t := make(Tuple, len(x.Results))
				for i, r := range x.Results {
					t[i] = in.get(fr, r)
				}
				return t
			case *ssa.Panic:
				v := in.get(fr, x.X)
				panic(&GoPanic{val: v, msg: in.panicMsg(v) + in.where()})
			case *ssa.RunDefers:
				in.runDefers(fr)
				if fr.panic != nil {
					panic(fr.panic)
				}
			default:
				if len(fr.info.deferred) > 0 && fr.info.deferred[ins] {
					continue
				}
				in.exec(fr, ins)
			}
		}
		if next == nil {
			in.unsupported("block fell through")
		}
		fr.prev = b
		fr.block = next
	}
}

func (in *Interp) panicMsg(v Value) string {
	if i, ok := v.(Iface); ok {
		if s, ok := i.v.(Str); ok && s.sym == nil {
			return s.s
		}
		if i.t != nil {
			if m := in.errorString(i); m != "" {
				return m
			}
			return "panic value of type " + i.t.String()
		}
	}
	return "panic"
}

func (in *Interp) exec(fr *Frame, ins ssa.Instruction) {
	st := in.st
	switch x := ins.(type) {
	case *ssa.Alloc:
		et := x.Type().(*types.Pointer).Elem()
		o := in.newObject(et, in.zero(et), x.Comment)
		in.set(fr, x, Ptr{obj: o})
	case *ssa.BinOp:
		in.set(fr, x, in.binop(x.Op, in.get(fr, x.X), in.get(fr, x.Y), x.X.Type(), x.Y.Type()))
	case *ssa.UnOp:
		in.set(fr, x, in.unop(fr, x))
	case *ssa.Call:
		in.set(fr, x, in.doCall(fr, &x.Call, x))
	case *ssa.ChangeInterface:
		in.set(fr, x, in.get(fr, x.X))
	case *ssa.ChangeType:
		in.set(fr, x, in.changeType(in.get(fr, x.X), x.X.Type(), x.Type()))
	case *ssa.Convert:
		in.set(fr, x, in.convert(in.get(fr, x.X), x.X.Type(), x.Type()))
	case *ssa.MultiConvert:
		in.set(fr, x, in.convert(in.get(fr, x.X), x.X.Type(), x.Type()))
	case *ssa.Extract:
		in.set(fr, x, in.get(fr, x.Tuple).(Tuple)[x.Index])
	case *ssa.Field:
		v := in.get(fr, x.X)
		in.set(fr, x, v.(*Agg).e[x.Field])
	case *ssa.FieldAddr:
		p := in.get(fr, x.X).(Ptr)
		if p.obj == nil {
			in.goPanic("nil pointer dereference (field address)")
		}
		in.set(fr, x, p.field(x.Field))
	case *ssa.Index:
		in.set(fr, x, in.index(in.get(fr, x.X), in.widenIndex(in.get(fr, x.Index), x.Index.Type()), x.X.Type()))
	case *ssa.IndexAddr:
		in.set(fr, x, in.indexAddr(in.get(fr, x.X), in.widenIndex(in.get(fr, x.Index), x.Index.Type()), x.X.Type()))
	case *ssa.Lookup:
		in.set(fr, x, in.lookup(in.get(fr, x.X), in.get(fr, x.Index), x.X.Type(), x.CommaOk))
	case *ssa.MakeClosure:
		c := &Closure{fn: x.Fn.(*ssa.Function)}
		for _, b := range x.Bindings {
			c.binds = append(c.binds, in.get(fr, b))
		}
		in.set(fr, x, c)
	case *ssa.MakeInterface:
		in.set(fr, x, Iface{t: x.X.Type(), v: in.get(fr, x.X)})
	case *ssa.MakeMap:
		mt := x.Type().Underlying().(*types.Map)
		in.nextObj++
		in.set(fr, x, &MapObj{id: in.nextObj, keyT: mt.Key(), valT: mt.Elem()})
	case *ssa.MakeChan:
		ct := x.Type().Underlying().(*types.Chan)
		n := in.concreteInt(in.get(fr, x.Size), "chan size")
		in.nextObj++
		in.set(fr, x, &ChanObj{id: in.nextObj, cp: n, elemT: ct.Elem()})
	case *ssa.MakeSlice:
		et := x.Type().Underlying().(*types.Slice).Elem()
		ln := in.concreteInt(in.get(fr, x.Len), "make len")
		cp := in.concreteInt(in.get(fr, x.Cap), "make cap")
		if ln < 0 || cp < ln {
			in.goPanic("makeslice: len out of range")
		}
		if cp > 1<<22 {
			in.unsupported("huge make")
		}
		in.set(fr, x, in.makeSlice(et, ln, cp))
	case *ssa.MapUpdate:
		in.mapUpdate(in.get(fr, x.Map), in.get(fr, x.Key), in.get(fr, x.Value))
	case *ssa.Range:
		in.set(fr, x, in.mkRange(in.get(fr, x.X)))
	case *ssa.Next:
		in.set(fr, x, in.next(in.get(fr, x.Iter).(*Iter), x))
	case *ssa.Slice:
		in.set(fr, x, in.sliceOp(fr, x))
	case *ssa.SliceToArrayPointer:
		s := in.get(fr, x.X).(Slice)
		at := x.Type().(*types.Pointer).Elem().Underlying().(*types.Array)
		if int(at.Len()) > s.ln {
			in.goPanic("slice to array pointer: length mismatch")
		}
		if s.IsNil() {
			in.set(fr, x, Ptr{})
		} else if s.off == 0 && in.arrLen(s.arr) == int(at.Len()) {
			in.set(fr, x, s.arr)
		} else {
			in.unsupported("SliceToArrayPointer of sub-slice")
		}
	case *ssa.Store:
		in.store(in.get(fr, x.Addr).(Ptr), in.get(fr, x.Val))
	case *ssa.TypeAssert:
		in.set(fr, x, in.typeAssert(in.get(fr, x.X), x))
	case *ssa.Defer:
		d := deferred{call: &x.Call}
		fnv, args := in.prepareCall(fr, &x.Call)
		d.fn, d.args = fnv, args
		fr.defers = append(fr.defers, d)
	case *ssa.Go:
		// a goroutine runs at once until it first blocks (see sched.go)
		fnv, args := in.prepareCall(fr, &x.Call)
		in.spawn(fr, fnv, args)
	case *ssa.Send:
		ch := in.get(fr, x.Chan).(*ChanObj)
		in.chanSend(ch, in.get(fr, x.X))
	case *ssa.Select:
		in.set(fr, x, in.selectOp(fr, x))
	case *ssa.DebugRef:
	default:
		_ = st
		in.unsupported(fmt.Sprintf("instruction %T", ins))
	}
}

// prepareCall resolves the callee into a closure-ish value and evaluates arguments.
func (in *Interp) prepareCall(fr *Frame, c *ssa.CallCommon) (Value, []Value) {
	var args []Value
	if c.IsInvoke() {
		recv := in.get(fr, c.Value)
		iv, ok := recv.(Iface)
		if !ok || iv.t == nil {
			in.goPanic("nil interface method call " + c.Method.Name())
		}
		fn := in.lookupMethod(iv.t, c.Method)
		args = append(args, iv.v)
		for _, a := range c.Args {
			args = append(args, in.get(fr, a))
		}
		return &Closure{fn: fn}, args
	}
	for _, a := range c.Args {
		args = append(args, in.get(fr, a))
	}
	switch f := c.Value.(type) {
	case *ssa.Builtin:
		return f, args
	case *ssa.Function:
		return &Closure{fn: f}, args
	}
	return in.get(fr, c.Value), args
}

func (in *Interp) lookupMethod(t types.Type, m *types.Func) *ssa.Function {
	fn := in.prog.LookupMethod(t, m.Pkg(), m.Name())
	if fn == nil {
		in.unsupported("method not found: " + t.String() + "." + m.Name())
	}
	return fn
}

func (in *Interp) doCall(fr *Frame, c *ssa.CallCommon, site ssa.Value) Value {
	fnv, args := in.prepareCall(fr, c)
	savePos := in.curPos
	defer func() { in.curPos = savePos }()
	var res Value
	call := func() {
		switch f := fnv.(type) {
		case *ssa.Builtin:
			res = in.callBuiltin(fr, f, args, c)
		case *Closure:
			res = in.callClosure(f, args, fr)
		default:
			in.unsupported(fmt.Sprintf("call of %T", fnv))
		}
	}
	if in.initMode > 0 && fr.fn.Name() == "init" && fr.fn.Synthetic != "" {
		// lazy package init: a failing call poisons its results instead of aborting
		func() {
			defer func() {
				if r := recover(); r != nil {
					var why string
					switch e := r.(type) {
					case pathEnd:
						why = e.kind + ": " + e.msg
					case *GoPanic:
						why = "panic: " + e.msg
					default:
						panic(r)
					}
					res = in.poisonFor(c.Signature().Results(), why)
				}
			}()
			// skip other packages' init functions: they run lazily
			if cl, ok := fnv.(*Closure); ok && cl != nil && cl.fn.Name() == "init" && cl.fn.Synthetic != "" {
				res = nil
				return
			}
			call()
		}()
		return res
	}
	call()
	return res
}

func (in *Interp) poisonFor(res *types.Tuple, why string) Value {
	switch res.Len() {
	case 0:
		return nil
	case 1:
		return Poison{why}
	}
	t := make(Tuple, res.Len())
	for i := range t {
		t[i] = Poison{why}
	}
	return t
}

// ---------------- operators ----------------

func (in *Interp) binop(op token.Token, a, b Value, ta, tb types.Type) Value {
	st := in.st
	if _, ok := a.(Poison); ok {
		if in.initMode > 0 {
			return a
		}
	}
	if _, ok := b.(Poison); ok {
		if in.initMode > 0 {
			return b
		}
	}
	switch op {
	case token.EQL:
		return in.eq(a, b)
	case token.NEQ:
		return st.BNot(in.eq(a, b))
	}
	if sa, ok := a.(Str); ok {
		sb := b.(Str)
		switch op {
		case token.ADD:
			if sa.sym == nil && sb.sym == nil {
				return Str{s: sa.s + sb.s}
			}
			return in.mkStr(append(append([]*Term{}, in.strBytes(sa)...), in.strBytes(sb)...))
		case token.LSS, token.LEQ, token.GTR, token.GEQ:
			if sa.sym == nil && sb.sym == nil {
				switch op {
				case token.LSS:
					return st.Bool(sa.s < sb.s)
				case token.LEQ:
					return st.Bool(sa.s <= sb.s)
				case token.GTR:
					return st.Bool(sa.s > sb.s)
				default:
					return st.Bool(sa.s >= sb.s)
				}
			}
			lt, eq := in.bytesLess(in.strBytes(sa), in.strBytes(sb))
			switch op {
			case token.LSS:
				return lt
			case token.LEQ:
				return st.BOr(lt, eq)
			case token.GTR:
				return st.BNot(st.BOr(lt, eq))
			default:
				return st.BNot(lt)
			}
		}
		in.unsupported("string op " + op.String())
	}
	x, ok1 := a.(*Term)
	y, ok2 := b.(*Term)
	if !ok1 || !ok2 {
		in.unsupported(fmt.Sprintf("binop %s on %T,%T", op, a, b))
	}
	if isFloat(ta) {
		return in.floatBinop(op, x, y, ta)
	}
	signed := isSigned(ta)
	switch op {
	case token.ADD:
		return st.Bin(OpAdd, x, y)
	case token.SUB:
		return st.Bin(OpSub, x, y)
	case token.MUL:
		return st.Bin(OpMul, x, y)
	case token.QUO, token.REM:
		if in.branch(st.Eq(y, st.Const(y.w, 0))) {
			in.goPanic("integer divide by zero")
		}
		if signed {
			if op == token.QUO {
				return st.Bin(OpSDiv, x, y)
			}
			return st.Bin(OpSRem, x, y)
		}
		if y.IsConst() && !x.IsConst() && y.w <= 64 {
			q, r := in.udivConst(x, y.c)
			if op == token.QUO {
				return q
			}
			return r
		}
		if op == token.QUO {
			return st.Bin(OpUDiv, x, y)
		}
		return st.Bin(OpURem, x, y)
	case token.AND:
		if x.w == 0 {
			return st.BAnd(x, y)
		}
		return st.Bin(OpAnd, x, y)
	case token.OR:
		if x.w == 0 {
			return st.BOr(x, y)
		}
		return st.Bin(OpOr, x, y)
	case token.XOR:
		return st.Bin(OpXor, x, y)
	case token.AND_NOT:
		return st.Bin(OpAnd, x, st.Not(y))
	case token.SHL, token.SHR:
		if isSigned(tb) {
			if in.branch(st.Cmp(OpSLt, y, st.Const(y.w, 0))) {
				in.goPanic("negative shift amount")
			}
		}
		// bring the count to the operand width; counts >= width saturate
		var cnt *Term
		var big *Term // condition: count >= width
		if y.w > x.w {
			big = st.Cmp(OpULe, st.Const(y.w, uint64(x.w)), y)
			cnt = st.Extract(y, x.w-1, 0)
		} else {
			cnt = st.ZExt(y, x.w)
			big = st.Cmp(OpULe, st.Const(x.w, uint64(x.w)), cnt)
			if x.w > 8 && y.w <= 8 && false {
				big = st.False
			}
		}
		switch {
		case op == token.SHL:
			return st.Ite(big, st.Const(x.w, 0), st.Bin(OpShl, x, cnt))
		case signed:
			return st.Ite(big, st.Bin(OpAShr, x, st.Const(x.w, uint64(x.w-1))), st.Bin(OpAShr, x, cnt))
		default:
			return st.Ite(big, st.Const(x.w, 0), st.Bin(OpLShr, x, cnt))
		}
	case token.LSS, token.LEQ, token.GTR, token.GEQ:
		lt, le := OpULt, OpULe
		if signed {
			lt, le = OpSLt, OpSLe
		}
		switch op {
		case token.LSS:
			return st.Cmp(lt, x, y)
		case token.LEQ:
			return st.Cmp(le, x, y)
		case token.GTR:
			return st.Cmp(lt, y, x)
		default:
			return st.Cmp(le, y, x)
		}
	}
	in.unsupported("binop " + op.String())
	return nil
}

// udivConst encodes x / c and x % c for a constant c without a bit-blasted divider:
// power of two -> shift/mask; otherwise fresh q, r with the defining axiom x = q*c + r, r < c
// (computed at double width, so the axiom has exactly one solution for every x).
func (in *Interp) udivConst(x *Term, c uint64) (*Term, *Term) {
	st := in.st
	w := x.w
	if c&(c-1) == 0 {
		k := uint64(0)
		for (uint64(1) << k) != c {
			k++
		}
		return st.Bin(OpLShr, x, st.Const(w, k)), st.Bin(OpAnd, x, st.Const(w, c-1))
	}
	q := st.Var(fmt.Sprintf("$divq_%d_%d", x.id, c), w)
	r := st.Var(fmt.Sprintf("$divr_%d_%d", x.id, c), w)
	if _, ok := st.axioms[q.id]; !ok {
		ew := w + bits.Len64(c) + 1
		cw := st.Const(ew, c)
		prod := st.Bin(OpAdd, st.Bin(OpMul, st.ZExt(q, ew), cw), st.ZExt(r, ew))
		ax := st.BAnd(st.Eq(st.ZExt(x, ew), prod), st.Cmp(OpULt, r, st.Const(w, c)))
		st.axioms[q.id] = ax
		st.axioms[r.id] = ax
	}
	return q, r
}

func (in *Interp) floatBinop(op token.Token, x, y *Term, t types.Type) Value {
	if !x.IsConst() || !y.IsConst() {
		in.unsupported("symbolic float arithmetic")
	}
	if x.w == 32 {
		in.unsupported("float32 arithmetic")
	}
	a, b := math.Float64frombits(x.c), math.Float64frombits(y.c)
	st := in.st
	switch op {
	case token.ADD:
		return st.Const(64, math.Float64bits(a+b))
	case token.SUB:
		return st.Const(64, math.Float64bits(a-b))
	case token.MUL:
		return st.Const(64, math.Float64bits(a*b))
	case token.QUO:
		return st.Const(64, math.Float64bits(a/b))
	case token.LSS:
		return st.Bool(a < b)
	case token.LEQ:
		return st.Bool(a <= b)
	case token.GTR:
		return st.Bool(a > b)
	case token.GEQ:
		return st.Bool(a >= b)
	}
	in.unsupported("float op")
	return nil
}

// bytesLess returns (a<b, a==b) lexicographically for byte-term slices.
func (in *Interp) bytesLess(a, b []*Term) (*Term, *Term) {
	st := in.st
	n := len(a)
	if len(b) < n {
		n = len(b)
	}
	// from the end backwards
	var lt, eq *Term
	switch {
	case len(a) < len(b):
		lt, eq = st.True, st.False
	case len(a) == len(b):
		lt, eq = st.False, st.True
	default:
		lt, eq = st.False, st.False
	}
	for i := n - 1; i >= 0; i-- {
		bl := st.Cmp(OpULt, a[i], b[i])
		be := st.Eq(a[i], b[i])
		lt = st.BOr(bl, st.BAnd(be, lt))
		eq = st.BAnd(be, eq)
	}
	return lt, eq
}

func (in *Interp) unop(fr *Frame, x *ssa.UnOp) Value {
	st := in.st
	v := in.get(fr, x.X)
	switch x.Op {
	case token.MUL:
		p, ok := v.(Ptr)
		if !ok {
			in.unsupported(fmt.Sprintf("deref of %T", v))
		}
		return in.load(p)
	case token.NOT:
		return st.BNot(v.(*Term))
	case token.SUB:
		t := v.(*Term)
		if isFloat(x.X.Type()) {
			if !t.IsConst() {
				in.unsupported("symbolic float neg")
			}
			return st.Const(64, math.Float64bits(-math.Float64frombits(t.c)))
		}
		return st.Neg(t)
	case token.XOR:
		return st.Not(v.(*Term))
	case token.ARROW:
		ch, _ := v.(*ChanObj)
		val, ok := in.chanRecv(ch)
		if x.CommaOk {
			return Tuple{val, st.Bool(ok)}
		}
		return val
	}
	in.unsupported("unop " + x.Op.String())
	return nil
}

func (in *Interp) changeType(v Value, from, to types.Type) Value {
	ff, tf := isFeltType(from), isFeltType(to)
	if ff == tf {
		return v
	}
	if tf {
		// raw [4]uint64 → felt type: keep raw limbs (container use); converted on demand if concrete
		return v
	}
	// felt → raw limbs
	return in.toRawLimbs(v)
}

func (in *Interp) convert(v Value, from, to types.Type) Value {
	st := in.st
	if _, ok := v.(Poison); ok {
		return v
	}
	fu, tu := from.Underlying(), to.Underlying()
	// string conversions
	if tb, ok := tu.(*types.Basic); ok && tb.Info()&types.IsString != 0 {
		switch f := fu.(type) {
		case *types.Basic:
			if f.Info()&types.IsString != 0 {
				return v
			}
			if f.Info()&types.IsInteger != 0 {
				t := v.(*Term)
				if !t.IsConst() {
					in.unsupported("string(symbolic rune)")
				}
				return Str{s: string(rune(t.c))}
			}
		case *types.Slice:
			s := v.(Slice)
			eb, _ := f.Elem().Underlying().(*types.Basic)
			if eb != nil && eb.Kind() == types.Uint8 {
				bs := make([]*Term, s.ln)
				for i := 0; i < s.ln; i++ {
					bs[i] = in.load(in.elemPtr(s, i)).(*Term)
				}
				return in.mkStr(bs)
			}
			if eb != nil && eb.Kind() == types.Int32 {
				rs := make([]rune, s.ln)
				for i := 0; i < s.ln; i++ {
					t := in.load(in.elemPtr(s, i)).(*Term)
					if !t.IsConst() {
						in.unsupported("string([]rune) symbolic")
					}
					rs[i] = rune(t.c)
				}
				return Str{s: string(rs)}
			}
		}
		in.unsupported("conversion to string from " + from.String())
	}
	if ts, ok := tu.(*types.Slice); ok {
		if fb, ok := fu.(*types.Basic); ok && fb.Info()&types.IsString != 0 {
			s := v.(Str)
			eb := ts.Elem().Underlying().(*types.Basic)
			if eb.Kind() == types.Uint8 {
				bs := in.strBytes(s)
				sl := in.makeSlice(ts.Elem(), len(bs), len(bs))
				if len(bs) > 0 {
					a := &Agg{e: make([]Value, len(bs))}
					for i, b := range bs {
						a.e[i] = b
					}
					in.store(sl.arr, a)
				}
				return sl
			}
			// []rune
			cs := in.concreteStr(s)
			rs := []rune(cs)
			sl := in.makeSlice(ts.Elem(), len(rs), len(rs))
			for i, r := range rs {
				in.store(in.elemPtr(sl, i), st.Const(32, uint64(r)))
			}
			return sl
		}
		return v
	}
	tb, ok1 := tu.(*types.Basic)
	fb, ok2 := fu.(*types.Basic)
	if ok1 && ok2 {
		if tb.Kind() == types.UnsafePointer || fb.Kind() == types.UnsafePointer {
			return v
		}
		t, ok := v.(*Term)
		if !ok {
			in.unsupported(fmt.Sprintf("convert %T", v))
		}
		fw, tw := basicWidth(fb), basicWidth(tb)
		fFloat, tFloat := fb.Info()&types.IsFloat != 0, tb.Info()&types.IsFloat != 0
		switch {
		case fFloat && tFloat:
			if fw == tw {
				return t
			}
			in.unsupported("float width conversion")
		case fFloat:
			if !t.IsConst() {
				in.unsupported("symbolic float→int")
			}
			f := math.Float64frombits(t.c)
			if isSigned(to) {
				return st.Const(tw, uint64(int64(f)))
			}
			return st.Const(tw, uint64(f))
		case tFloat:
			if !t.IsConst() {
				in.unsupported("symbolic int→float")
			}
			var f float64
			if isSigned(from) {
				f = float64(toSigned(t.c, fw))
			} else {
				f = float64(t.c)
			}
			if tw == 32 {
				return st.Const(32, uint64(math.Float32bits(float32(f))))
			}
			return st.Const(64, math.Float64bits(f))
		}
		if tw == fw {
			return t
		}
		if tw < fw {
			return st.Extract(t, tw-1, 0)
		}
		if isSigned(from) {
			return st.SExt(t, tw)
		}
		return st.ZExt(t, tw)
	}
	if _, ok := tu.(*types.Pointer); ok {
		return v // unsafe.Pointer → *T
	}
	// array/struct conversions between identical underlying types
	return in.changeType(v, from, to)
}

func (in *Interp) arrLen(p Ptr) int {
	a, ok := in.load(p).(*Agg)
	if !ok {
		in.unsupported("slice backing is not an array")
	}
	return len(a.e)
}

func (in *Interp) makeSlice(et types.Type, ln, cp int) Slice {
	a := &Agg{e: make([]Value, cp)}
	if cp > 0 {
		z := in.zero(et)
		for i := range a.e {
			a.e[i] = z
		}
	}
	o := in.newObject(types.NewArray(et, int64(cp)), a, "makeslice")
	return Slice{arr: Ptr{obj: o}, off: 0, ln: ln, cp: cp}
}

func (in *Interp) elemPtr(s Slice, i int) Ptr {
	return s.arr.field(s.off + i)
}

// widenIndex brings an index of any integer type to 64 bits according to its signedness (a uint8
// index 251 is 251, not -5).
func (in *Interp) widenIndex(v Value, t types.Type) Value {
	it, ok := v.(*Term)
	if !ok || it.w >= 64 {
		return v
	}
	if b, ok := t.Underlying().(*types.Basic); ok && b.Info()&types.IsUnsigned != 0 {
		return in.st.ZExt(it, 64)
	}
	return in.st.SExt(it, 64)
}

// symIndex handles an index term: returns concrete index if constant, else -1 and the term.
func (in *Interp) boundsCheck(idx *Term, n int, what string) {
	st := in.st
	if idx.IsConst() {
		v := toSigned(idx.c, idx.w)
		if v < 0 || v >= int64(n) {
			in.goPanic(fmt.Sprintf("index out of range [%d] with length %d (%s)", v, n, what))
		}
		return
	}
	oob := st.Cmp(OpULe, st.Const(idx.w, uint64(n)), idx) // unsigned compare also catches negatives
	if in.branch(oob) {
		in.goPanic(fmt.Sprintf("index out of range [symbolic] with length %d (%s)", n, what))
	}
}

func (in *Interp) selectElem(elems []Value, idx *Term) Value {
	// ite chain; elems all same shape
	res := elems[len(elems)-1]
	for i := len(elems) - 2; i >= 0; i-- {
		res = in.mergeValSafe(in.st.Eq(idx, in.st.Const(idx.w, uint64(i))), elems[i], res)
	}
	return res
}

func (in *Interp) mergeValSafe(c *Term, a, b Value) (r Value) {
	defer func() {
		if e := recover(); e != nil {
			if mf, ok := e.(mergeFail); ok {
				in.unsupported("symbolic index over non-mergeable elements: " + mf.why)
			}
			panic(e)
		}
	}()
	return in.mergeVal(c, a, b)
}

func (in *Interp) index(x, idx Value, xt types.Type) Value {
	it := idx.(*Term)
	switch v := x.(type) {
	case *Agg:
		in.boundsCheck(it, len(v.e), "array")
		if it.IsConst() {
			return v.e[it.c]
		}
		if len(v.e) > in.cfg.SymIndexCap {
			return v.e[in.concretize(it, "array index")]
		}
		return in.selectElem(v.e, it)
	case Str:
		in.boundsCheck(it, v.Len(), "string")
		if it.IsConst() {
			return in.strByte(v, int(it.c))
		}
		bs := in.strBytes(v)
		vals := make([]Value, len(bs))
		for i, b := range bs {
			vals[i] = b
		}
		return in.selectElem(vals, it)
	case *Term:
		// index into abstract felt: limbs needed
		raw := in.toRawLimbs(v).(*Agg)
		return in.index(raw, idx, xt)
	}
	in.unsupported(fmt.Sprintf("index of %T", x))
	return nil
}

func (in *Interp) indexAddr(x, idx Value, xt types.Type) Value {
	it := idx.(*Term)
	switch v := x.(type) {
	case Slice:
		in.boundsCheck(it, v.ln, "slice")
		if !it.IsConst() {
			i := in.concretize(it, "slice index address")
			return in.elemPtr(v, int(i))
		}
		return in.elemPtr(v, int(it.c))
	case Ptr:
		if v.obj == nil {
			in.goPanic("nil pointer dereference (index address)")
		}
		at := xt.Underlying().(*types.Pointer).Elem().Underlying().(*types.Array)
		in.boundsCheck(it, int(at.Len()), "array pointer")
		if !it.IsConst() {
			i := in.concretize(it, "array index address")
			return v.field(int(i))
		}
		return v.field(int(it.c))
	}
	in.unsupported(fmt.Sprintf("indexAddr of %T", x))
	return nil
}

func (in *Interp) sliceOp(fr *Frame, x *ssa.Slice) Value {
	v := in.get(fr, x.X)
	geti := func(e ssa.Value, def int) int {
		if e == nil {
			return def
		}
		return in.concreteInt(in.get(fr, e), "slice bound")
	}
	switch s := v.(type) {
	case Slice:
		lo := geti(x.Low, 0)
		hi := geti(x.High, s.ln)
		mx := geti(x.Max, s.cp)
		if lo < 0 || hi < lo || mx < hi || mx > s.cp {
			in.goPanic(fmt.Sprintf("slice bounds out of range [%d:%d:%d] with capacity %d", lo, hi, mx, s.cp))
		}
		if s.IsNil() {
			return Slice{}
		}
		return Slice{arr: s.arr, off: s.off + lo, ln: hi - lo, cp: mx - lo}
	case Str:
		lo := geti(x.Low, 0)
		hi := geti(x.High, s.Len())
		if lo < 0 || hi < lo || hi > s.Len() {
			in.goPanic(fmt.Sprintf("slice bounds out of range [%d:%d] with length %d", lo, hi, s.Len()))
		}
		if s.sym == nil {
			return Str{s: s.s[lo:hi]}
		}
		return in.mkStr(s.sym[lo:hi])
	case Ptr:
		if s.obj == nil {
			in.goPanic("nil pointer dereference (slice of array pointer)")
		}
		n := in.arrLen(s)
		lo := geti(x.Low, 0)
		hi := geti(x.High, n)
		mx := geti(x.Max, n)
		if lo < 0 || hi < lo || mx < hi || mx > n {
			in.goPanic(fmt.Sprintf("slice bounds out of range [%d:%d:%d] with length %d", lo, hi, mx, n))
		}
		return Slice{arr: s, off: lo, ln: hi - lo, cp: mx - lo}
	}
	in.unsupported(fmt.Sprintf("slice of %T", v))
	return nil
}

func (in *Interp) typeAssert(v Value, x *ssa.TypeAssert) Value {
	iv, _ := v.(Iface)
	ok := false
	var res Value
	if iv.t != nil {
		if types.IsInterface(x.AssertedType) {
			it := x.AssertedType.Underlying().(*types.Interface)
			if types.Implements(iv.t, it) {
				ok = true
				res = iv
			}
		} else if types.Identical(iv.t, x.AssertedType) {
			ok = true
			res = iv.v
		}
	}
	if x.CommaOk {
		if !ok {
			res = in.zero(x.AssertedType)
		}
		return Tuple{res, in.st.Bool(ok)}
	}
	if !ok {
		dyn := "nil"
		if iv.t != nil {
			dyn = iv.t.String()
		}
		in.goPanic("interface conversion: interface is " + dyn + ", not " + x.AssertedType.String())
	}
	return res
}

// ---------------- maps ----------------

// keysMayAlias: decide k1 == k2, forking when symbolic.
func (in *Interp) mapFind(m *MapObj, k Value) int {
	if m == nil {
		return -1
	}
	for i, e := range m.ents {
		c := in.eq(e.k, k)
		if in.branch(c) {
			return i
		}
	}
	return -1
}

func (in *Interp) lookup(x, k Value, xt types.Type, commaOk bool) Value {
	if s, ok := x.(Str); ok {
		return in.index(s, k, xt)
	}
	m, _ := x.(*MapObj)
	mt := xt.Underlying().(*types.Map)
	i := in.mapFind(m, k)
	var v Value
	if i >= 0 {
		v = m.ents[i].v
	} else {
		v = in.zero(mt.Elem())
	}
	if commaOk {
		return Tuple{v, in.st.Bool(i >= 0)}
	}
	return v
}

func (in *Interp) mapUpdate(mv, k, v Value) {
	m, _ := mv.(*MapObj)
	if m == nil {
		in.goPanic("assignment to entry in nil map")
	}
	if m.frozen && in.freezeOn {
		in.freezeViolation("write into frozen map")
	}
	i := in.mapFind(m, k)
	ne := make([]mapEnt, len(m.ents), len(m.ents)+1)
	copy(ne, m.ents)
	if i >= 0 {
		ne[i] = mapEnt{m.ents[i].k, v}
	} else {
		ne = append(ne, mapEnt{k, v})
	}
	in.setMapEnts(m, ne)
}

func (in *Interp) mapDelete(mv, k Value) {
	m, _ := mv.(*MapObj)
	if m == nil {
		return
	}
	i := in.mapFind(m, k)
	if i < 0 {
		return
	}
	if m.frozen && in.freezeOn {
		in.freezeViolation("delete from frozen map")
	}
	ne := make([]mapEnt, 0, len(m.ents)-1)
	ne = append(ne, m.ents[:i]...)
	ne = append(ne, m.ents[i+1:]...)
	in.setMapEnts(m, ne)
}

func (in *Interp) mkRange(x Value) Value {
	switch v := x.(type) {
	case *MapObj:
		it := &Iter{isMap: true, m: v}
		if v != nil {
			it.ents = v.ents
			if in.cfg.MapOrders && len(it.ents) > 1 {
				it.ents = in.permute(it.ents)
			}
		}
		return it
	case Str:
		return &Iter{str: v}
	}
	in.unsupported(fmt.Sprintf("range over %T", x))
	return nil
}

func (in *Interp) permute(ents []mapEnt) []mapEnt {
	n := len(ents)
	if n > 4 {
		return ents
	}
	rest := append([]mapEnt{}, ents...)
	var out []mapEnt
	for len(rest) > 0 {
		k := in.choose(len(rest))
		out = append(out, rest[k])
		rest = append(rest[:k:k], rest[k+1:]...)
	}
	return out
}

func (in *Interp) next(it *Iter, x *ssa.Next) Value {
	st := in.st
	if it.isMap {
		mt := x.Iter.(*ssa.Range).X.Type().Underlying().(*types.Map)
		for it.idx < len(it.ents) {
			e := it.ents[it.idx]
			it.idx++
			// entry may have been deleted during iteration
			still := false
			for _, ce := range it.m.ents {
				if in.sameKeyConcrete(ce.k, e.k) {
					still = true
					e.v = ce.v
					break
				}
			}
			if still {
				return Tuple{st.True, e.k, e.v}
			}
		}
		return Tuple{st.False, in.zero(mt.Key()), in.zero(mt.Elem())}
	}
	s := it.str
	if it.idx >= s.Len() {
		return Tuple{st.False, st.Const(64, 0), st.Const(32, 0)}
	}
	if s.sym != nil {
		b := s.sym[it.idx]
		if !b.IsConst() {
			// assume ASCII for symbolic strings is not sound; refuse
			in.unsupported("range over symbolic string")
		}
	}
	cs := in.concreteStr(s)
	i := it.idx
	r, size := decodeRune(cs[i:])
	it.idx += size
	return Tuple{st.True, st.Const(64, uint64(i)), st.Const(32, uint64(r))}
}

func decodeRune(s string) (rune, int) {
	for i, r := range s {
		_ = i
		n := len(string(r))
		if r == 0xFFFD {
			// could be invalid byte (size 1) or real U+FFFD (size 3)
			if len(s) >= 3 && s[:3] == "�" {
				return r, 3
			}
			return r, 1
		}
		return r, n
	}
	return 0, 0
}

// sameKeyConcrete is a conservative structural identity used for "is this entry still present".
func (in *Interp) sameKeyConcrete(a, b Value) bool {
	c := in.eq(a, b)
	return c.IsTrue() || (!c.IsFalse() && in.sameRef(a, b))
}

func (in *Interp) sameRef(a, b Value) bool {
	ta, ok1 := a.(*Term)
	tb, ok2 := b.(*Term)
	if ok1 && ok2 {
		return ta == tb
	}
	return false
}

// ---------------- channels / select ----------------

func (in *Interp) chanSend(ch *ChanObj, v Value) {
	if ch == nil {
		in.block(func() bool { return false }, "send on nil channel")
	}
	rendezvous := ch.cp == 0 && in.sch != nil
	switch {
	case ch.cp > 0:
		in.block(func() bool { return ch.closed || len(ch.buf) < ch.cp }, "send on full channel")
	case rendezvous:
		in.block(func() bool { return ch.closed || len(ch.buf) == 0 }, "send on unbuffered channel")
	}
	if ch.closed {
		in.goPanic("send on closed channel")
	}
	nb := append(append([]Value{}, ch.buf...), v)
	in.setChan(ch, nb, ch.closed)
	ch.sent++
	if rendezvous {
		// an unbuffered send completes when the value has been received
		seq := ch.sent
		in.block(func() bool { return ch.recvd >= seq }, "send on unbuffered channel")
	}
}

func (in *Interp) chanRecv(ch *ChanObj) (Value, bool) {
	if ch == nil {
		in.block(func() bool { return false }, "receive on nil channel")
	}
	in.block(func() bool { return len(ch.buf) > 0 || ch.closed }, "receive on empty channel")
	if len(ch.buf) > 0 {
		v := ch.buf[0]
		in.setChan(ch, append([]Value{}, ch.buf[1:]...), ch.closed)
		ch.recvd++
		return v, true
	}
	return in.zero(ch.elemT), false
}

func (in *Interp) selectOp(fr *Frame, x *ssa.Select) Value {
	st := in.st
	// result tuple: (index int, recvOk bool, r_0 T_0, ... r_n-1 T_n-1) for each recv state
	caseReady := func(i int) bool {
		s := x.States[i]
		ch, _ := in.get(fr, s.Chan).(*ChanObj)
		if ch == nil {
			return false
		}
		if s.Dir == types.RecvOnly {
			return len(ch.buf) > 0 || ch.closed
		}
		// an unbuffered channel is modelled with one slot when other goroutines exist
		return ch.closed || (ch.cp == 0 && (in.sch == nil || len(ch.buf) == 0)) || (ch.cp > 0 && len(ch.buf) < ch.cp)
	}
	findReady := func() int {
		for i := range x.States {
			if caseReady(i) {
				return i
			}
		}
		return -1
	}
	ready := findReady()
	if ready < 0 && x.Blocking && (in.sch != nil || len(in.timers) > 0) {
		in.block(func() bool { return findReady() >= 0 }, "select")
		ready = findReady()
	}
	if ready >= 0 && in.selectAny {
		// Go picks uniformly among the ready cases: explore each of them
		var all []int
		for i := range x.States {
			if caseReady(i) {
				all = append(all, i)
			}
		}
		if len(all) > 1 {
			ready = all[in.choose(len(all))]
		}
	}
	res := Tuple{nil, st.False}
	for _, s := range x.States {
		if s.Dir == types.RecvOnly {
			ct := s.Chan.Type().Underlying().(*types.Chan)
			res = append(res, in.zero(ct.Elem()))
		}
	}
	if ready < 0 {
		if x.Blocking {
			in.unsupported("select would block")
		}
		res[0] = st.Const(64, ^uint64(0))
		return res
	}
	res[0] = st.Const(64, uint64(ready))
	s := x.States[ready]
	ch := in.get(fr, s.Chan).(*ChanObj)
	if s.Dir == types.RecvOnly {
		v, ok := in.chanRecv(ch)
		res[1] = st.Bool(ok)
		k := 2
		for i, s2 := range x.States {
			if s2.Dir == types.RecvOnly {
				if i == ready {
					res[k] = v
				}
				k++
			}
		}
	} else {
		in.chanSend(ch, in.get(fr, s.Send))
	}
	return res
}

// ---------------- builtins ----------------

func (in *Interp) callBuiltin(fr *Frame, b *ssa.Builtin, args []Value, c *ssa.CallCommon) Value {
	st := in.st
	switch b.Name() {
	case "len":
		switch v := args[0].(type) {
		case Slice:
			return st.Const(64, uint64(v.ln))
		case Str:
			return st.Const(64, uint64(v.Len()))
		case *MapObj:
			if v == nil {
				return st.Const(64, 0)
			}
			return st.Const(64, uint64(len(v.ents)))
		case *ChanObj:
			if v == nil {
				return st.Const(64, 0)
			}
			return st.Const(64, uint64(len(v.buf)))
		case *Agg:
			return st.Const(64, uint64(len(v.e)))
		case Ptr:
			return st.Const(64, uint64(in.arrLen(v)))
		}
	case "cap":
		switch v := args[0].(type) {
		case Slice:
			return st.Const(64, uint64(v.cp))
		case *ChanObj:
			if v == nil {
				return st.Const(64, 0)
			}
			return st.Const(64, uint64(v.cp))
		case *Agg:
			return st.Const(64, uint64(len(v.e)))
		}
	case "append":
		s := args[0].(Slice)
		var add []Value
		switch t := args[1].(type) {
		case Slice:
			for i := 0; i < t.ln; i++ {
				add = append(add, in.load(in.elemPtr(t, i)))
			}
		case Str:
			for _, bt := range in.strBytes(t) {
				add = append(add, bt)
			}
		}
		if len(add) == 0 {
			return s
		}
		if !s.IsNil() && s.ln+len(add) <= s.cp {
			for i, v := range add {
				in.store(in.elemPtr(Slice{arr: s.arr, off: s.off, ln: s.cp, cp: s.cp}, s.ln+i), v)
			}
			return Slice{arr: s.arr, off: s.off, ln: s.ln + len(add), cp: s.cp}
		}
		var et types.Type
		if c != nil {
			et = c.Args[0].Type().Underlying().(*types.Slice).Elem()
		} else {
			in.unsupported("append without type info")
		}
		nl := s.ln + len(add)
		nc := nl
		if nc < 2*s.cp {
			nc = 2 * s.cp
		}
		ns := in.makeSlice(et, nl, nc)
		a := in.load(ns.arr).(*Agg)
		na := &Agg{e: make([]Value, len(a.e))}
		copy(na.e, a.e)
		for i := 0; i < s.ln; i++ {
			na.e[i] = in.load(in.elemPtr(s, i))
		}
		for i, v := range add {
			na.e[s.ln+i] = v
		}
		ns.arr.obj.val = na // fresh object
		return ns
	case "copy":
		dst := args[0].(Slice)
		var src []Value
		switch t := args[1].(type) {
		case Slice:
			for i := 0; i < t.ln; i++ {
				src = append(src, in.load(in.elemPtr(t, i)))
			}
		case Str:
			for _, bt := range in.strBytes(t) {
				src = append(src, bt)
			}
		}
		n := len(src)
		if dst.ln < n {
			n = dst.ln
		}
		for i := 0; i < n; i++ {
			in.store(in.elemPtr(dst, i), src[i])
		}
		return st.Const(64, uint64(n))
	case "delete":
		in.mapDelete(args[0], args[1])
		return nil
	case "clear":
		switch v := args[0].(type) {
		case *MapObj:
			if v != nil {
				in.setMapEnts(v, nil)
			}
		case Slice:
			if v.ln > 0 {
				et := c.Args[0].Type().Underlying().(*types.Slice).Elem()
				z := in.zero(et)
				for i := 0; i < v.ln; i++ {
					in.store(in.elemPtr(v, i), z)
				}
			}
		}
		return nil
	case "close":
		ch := args[0].(*ChanObj)
		if ch == nil {
			in.goPanic("close of nil channel")
		}
		if ch.closed {
			in.goPanic("close of closed channel")
		}
		in.setChan(ch, ch.buf, true)
		return nil
	case "panic":
		panic(&GoPanic{val: args[0], msg: in.panicMsg(args[0])})
	case "recover":
		// recover is effective only when called directly by a deferred function
		f := fr
		if f != nil && f.caller != nil && f.caller.panic != nil {
			gp := f.caller.panic
			f.caller.panic = nil
			if gp.val == nil {
				return Iface{t: types.Typ[types.String], v: Str{s: gp.msg}}
			}
			return gp.val
		}
		return Iface{}
	case "print", "println":
		return nil
	case "min", "max":
		res := args[0]
		for _, a := range args[1:] {
			t := c.Args[0].Type()
			var lt *Term
			if s, ok := res.(Str); ok {
				_ = s
				in.unsupported("min/max on strings")
			}
			x, y := res.(*Term), a.(*Term)
			if isSigned(t) {
				lt = st.Cmp(OpSLt, y, x)
			} else {
				lt = st.Cmp(OpULt, y, x)
			}
			if b.Name() == "max" {
				lt = st.BNot(st.BOr(lt, st.Eq(x, y)))
			}
			res = st.Ite(lt, y, x)
		}
		return res
	case "Add": // unsafe.Add(ptr, len): pointer arithmetic inside one array
		p, ok := args[0].(Ptr)
		if !ok || p.obj == nil || len(p.path) == 0 {
			in.unsupported("unsafe.Add on a pointer that is not an array element")
		}
		k := in.concreteInt(args[1], "unsafe.Add offset")
		np := make([]int, len(p.path))
		copy(np, p.path)
		np[len(np)-1] += k
		parent := in.getPath(p.obj.val, np[:len(np)-1])
		if a, ok := parent.(*Agg); !ok || np[len(np)-1] < 0 || np[len(np)-1] >= len(a.e) {
			in.unsupported("unsafe.Add leaves the array (native code would read adjacent memory)")
		}
		return Ptr{obj: p.obj, path: np}
	case "ssa:wrapnilchk":
		p, ok := args[0].(Ptr)
		if ok && p.obj == nil {
			in.goPanic("value method called using nil pointer")
		}
		return args[0]
	}
	in.unsupported("builtin " + b.Name())
	return nil
}

// big helper used by several models
func bigOf(t *Term) *big.Int { return t.Big() }
