package main

import (
	"fmt"
	"os"
)

var schedTrace = os.Getenv("GOSYM_SCHEDTRACE") != ""

// Cooperative goroutine scheduler.
//
// A `go` statement creates a coroutine that runs on its own host goroutine; exactly one coroutine
// executes at any time (a baton is passed over unbuffered host channels), so the interpreter state
// needs no locking. Scheduling is deterministic, which decision-prefix re-execution requires: a
// spawned goroutine runs at once until it blocks or finishes; when the running coroutine blocks, the
// runnable coroutine with the lowest id continues (id 0 is the harness's own goroutine). Blocking
// operations: channel send/receive, select, WaitGroup.Wait, Mutex/RWMutex acquisition.
// One schedule per path is explored, not all interleavings; timing that a property quantifies over
// (e.g. the cancellation point) is introduced by the harness as an ordinary symbolic choice.

type coro struct {
	id        int
	wake      chan struct{}
	done      bool
	started   bool
	cond      func() bool // nil: runnable
	callDepth int
	where     string // what it is blocked on (diagnostics)
}

type sched struct {
	coros   []*coro
	cur     *coro
	abort   interface{} // panic raised inside a coroutine, delivered to coroutine 0
	killing bool
	killAck chan struct{}
}

type coroKill struct{}

func (in *Interp) schedInit() *sched {
	if in.sch == nil {
		m := &coro{id: 0, wake: make(chan struct{}), started: true}
		in.sch = &sched{coros: []*coro{m}, cur: m, killAck: make(chan struct{})}
	}
	return in.sch
}

func (s *sched) runnable(c *coro) bool {
	return !c.done && (c.cond == nil || c.cond())
}

// pick returns the runnable coroutine with the lowest id other than `except`.
func (s *sched) pick(except *coro) *coro {
	for _, c := range s.coros {
		if c != except && s.runnable(c) {
			return c
		}
	}
	return nil
}

func (s *sched) live() int {
	n := 0
	for _, c := range s.coros {
		if !c.done {
			n++
		}
	}
	return n
}

// switchTo hands the baton to next and waits until this coroutine is scheduled again.
func (in *Interp) switchTo(me, next *coro) {
	s := in.sch
	me.callDepth = in.callDepth
	s.cur = next
	next.wake <- struct{}{}
	<-me.wake
	s.cur = me
	in.callDepth = me.callDepth
	if s.killing {
		panic(coroKill{})
	}
	if me.id == 0 && s.abort != nil {
		a := s.abort
		s.abort = nil
		panic(a)
	}
}

// spawn starts fn(args...) as a new coroutine and runs it until it first blocks.
func (in *Interp) spawn(fr *Frame, fnv Value, args []Value) {
	if in.mergeDepth > 0 {
		panic(mergeFail{"go statement inside merged callee"})
	}
	s := in.schedInit()
	if len(s.coros) > 1024 {
		in.unsupported("more than 1024 goroutines on one path")
	}
	me := s.cur
	c := &coro{id: len(s.coros), wake: make(chan struct{})}
	s.coros = append(s.coros, c)
	if schedTrace {
		fmt.Fprintf(os.Stderr, "SCHED g%d spawns g%d%s\n", me.id, c.id, in.where())
	}
	go func() {
		<-c.wake
		if s.killing {
			c.done = true
			s.killAck <- struct{}{}
			return
		}
		c.started = true
		s.cur = c
		in.callDepth = 0
		defer func() {
			r := recover()
			c.done = true
			if schedTrace {
				fmt.Fprintf(os.Stderr, "SCHED g%d ends (%v)\n", c.id, r)
			}
			if s.killing {
				s.killAck <- struct{}{}
				return
			}
			if r != nil && s.abort == nil {
				s.abort = r
			}
			main := s.coros[0]
			if s.abort != nil {
				s.cur = main
				main.wake <- struct{}{}
				return
			}
			next := s.pick(c)
			for next == nil && in.fireTimer() {
				next = s.pick(c)
			}
			if next == nil {
				s.abort = pathEnd{kind: "unsupported", msg: "deadlock: every goroutine is blocked"}
				next = main
			}
			s.cur = next
			next.wake <- struct{}{}
		}()
		in.invokeDeferred(fr, deferred{fn: fnv, args: args})
	}()
	in.switchTo(me, c)
}

// block suspends the running coroutine until cond holds. When nothing can run, logical time advances
// to the earliest armed timer (timers fire only when every goroutine is blocked).
func (in *Interp) block(cond func() bool, what string) {
	if cond() {
		return
	}
	s := in.sch
	if s == nil {
		if len(in.timers) == 0 {
			in.unsupported(what + " (would block)")
		}
		s = in.schedInit()
	}
	if in.mergeDepth > 0 {
		panic(mergeFail{"blocking operation inside merged callee"})
	}
	me := s.cur
	me.where = what + in.where()
	if schedTrace {
		fmt.Fprintf(os.Stderr, "SCHED g%d blocks: %s\n", me.id, me.where)
	}
	for !cond() {
		me.cond = cond
		next := s.pick(me)
		if next == nil {
			if in.fireTimer() {
				continue
			}
			me.cond = nil
			in.unsupported("deadlock: " + what + " blocks and no goroutine can run; blocked: " + in.blockedDump())
		}
		in.switchTo(me, next)
	}
	me.cond = nil
}

// ---- logical time: timers and tickers ----

type timerRec struct {
	ch     *ChanObj
	at     int64
	period int64
	armed  bool
}

func (in *Interp) armTimer(ch *ChanObj, d int64, periodic bool) {
	if d < 0 {
		d = 0
	}
	for _, t := range in.timers {
		if t.ch == ch {
			t.at, t.armed = in.now+d, true
			if periodic {
				t.period = d
			}
			return
		}
	}
	t := &timerRec{ch: ch, at: in.now + d, armed: true}
	if periodic {
		t.period = d
	}
	in.timers = append(in.timers, t)
}

func (in *Interp) disarmTimer(ch *ChanObj) bool {
	for _, t := range in.timers {
		if t.ch == ch && t.armed {
			t.armed = false
			return true
		}
	}
	return false
}

// fireTimer advances the clock to the earliest armed timer and delivers its tick.
func (in *Interp) fireTimer() bool {
	var best *timerRec
	for _, t := range in.timers {
		if t.armed && (best == nil || t.at < best.at) {
			best = t
		}
	}
	if best == nil {
		return false
	}
	in.timerFires++
	if in.timerFires > 512 {
		in.unsupported("more than 512 timer expiries on one path; blocked: " + in.blockedDump())
	}
	if best.at > in.now {
		in.now = best.at
	}
	if len(best.ch.buf) == 0 {
		in.setChan(best.ch, []Value{in.zero(best.ch.elemT)}, best.ch.closed)
		best.ch.sent++
	}
	if best.period > 0 {
		best.at = in.now + best.period
	} else {
		best.armed = false
	}
	return true
}

// killCoros unwinds every coroutine that is still alive at the end of a path.
func (in *Interp) killCoros() {
	s := in.sch
	if s == nil {
		return
	}
	s.killing = true
	for _, c := range s.coros[1:] {
		if c.done {
			continue
		}
		c.wake <- struct{}{}
		<-s.killAck
	}
	in.sch = nil
}

// ---- sync primitives with blocking semantics ----

type muState struct {
	w bool
	r int
}

func ptrKey(p Ptr) string { return fmt.Sprintf("%p%v", p.obj, p.path) }

func (in *Interp) mu(p Value) *muState {
	if in.mus == nil {
		in.mus = map[string]*muState{}
	}
	k := ptrKey(p.(Ptr))
	m := in.mus[k]
	if m == nil {
		m = &muState{}
		in.mus[k] = m
	}
	return m
}

// others reports whether another goroutine exists that could release what we wait for.
func (in *Interp) others() bool { return in.sch != nil && in.sch.live() > 1 }

func (in *Interp) muLock(p Value) {
	m := in.mu(p)
	if in.others() {
		in.block(func() bool { return !m.w && m.r == 0 }, "Mutex.Lock")
	}
	m.w = true
}

func (in *Interp) muRLock(p Value) {
	m := in.mu(p)
	if in.others() {
		in.block(func() bool { return !m.w }, "RWMutex.RLock")
	}
	m.r++
}

func (in *Interp) wg(p Value) *int {
	if in.wgs == nil {
		in.wgs = map[string]*int{}
	}
	k := ptrKey(p.(Ptr))
	c := in.wgs[k]
	if c == nil {
		c = new(int)
		in.wgs[k] = c
	}
	return c
}

func (in *Interp) blockedDump() string {
	if in.sch == nil {
		return ""
	}
	out := ""
	for _, c := range in.sch.coros {
		if !c.done && c.cond != nil {
			out += fmt.Sprintf("[g%d %s] ", c.id, c.where)
		}
	}
	return out
}

// yieldPoint: bounded-preemption schedule exploration (vx.Preemptions(k)). Before a lock acquisition or an
// atomic operation and after a lock release, the running goroutine may be preempted in favour of any other
// runnable goroutine; which one (or none) is an ordinary decision of the path, so every schedule with at
// most k preemptions at synchronisation operations is explored. Code between two synchronisation
// operations runs atomically - sound for data-race-free code, which is what the Go memory model promises
// sequential consistency for.
func (in *Interp) yieldPoint(what string) {
	if in.preempt <= 0 || in.sch == nil || in.mergeDepth > 0 {
		return
	}
	s := in.sch
	me := s.cur
	var cands []*coro
	for _, c := range s.coros {
		if c != me && s.runnable(c) {
			cands = append(cands, c)
		}
	}
	if len(cands) == 0 {
		return
	}
	k := in.choose(len(cands) + 1)
	if k == 0 {
		return
	}
	in.preempt--
	in.preemptions++
	if schedTrace {
		fmt.Fprintf(os.Stderr, "SCHED g%d preempted at %s in favour of g%d%s\n", me.id, what, cands[k-1].id, in.where())
	}
	in.switchTo(me, cands[k-1])
}
