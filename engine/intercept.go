package main

import (
	"os"
	"fmt"
	"go/types"
	"math/big"
	"sort"
	"strconv"
	"strings"

	"golang.org/x/tools/go/ssa"
)

type Intercept func(in *Interp, caller *Frame, fn *ssa.Function, args []Value) Value

var intercepts = map[string]Intercept{}

type prefixIC struct {
	prefix string
	suffix string
	f      Intercept
}

var prefixIntercepts []prefixIC

func reg(name string, f Intercept) { intercepts[name] = f }
func regPS(prefix, suffix string, f Intercept) {
	prefixIntercepts = append(prefixIntercepts, prefixIC{prefix, suffix, f})
}

func lookupIntercept(name string) Intercept {
	if f, ok := intercepts[name]; ok {
		return f
	}
	for _, p := range prefixIntercepts {
		if strings.HasPrefix(name, p.prefix) && strings.HasSuffix(name, p.suffix) {
			return p.f
		}
	}
	return nil
}

const vxPkg = "github.com/NethermindEth/juno/zzverif/vx."

func (in *Interp) freshName(base string) string {
	k := in.nameCount[base]
	in.nameCount[base] = k + 1
	if k == 0 {
		return base
	}
	return base + "#" + strconv.Itoa(k)
}

func (in *Interp) newInput(base string, w int) *Term {
	n := in.freshName(base)
	v := in.st.Var(n, w)
	in.inputs = append(in.inputs, v)
	return v
}

func nop(in *Interp, caller *Frame, fn *ssa.Function, args []Value) Value {
	return in.zeroResults(fn)
}

func init() {
	mkInt := func(w int) Intercept {
		return func(in *Interp, c *Frame, fn *ssa.Function, a []Value) Value {
			return in.newInput(in.concreteStr(a[0]), w)
		}
	}
	reg(vxPkg+"U8", mkInt(8))
	reg(vxPkg+"U16", mkInt(16))
	reg(vxPkg+"U32", mkInt(32))
	reg(vxPkg+"U64", mkInt(64))
	reg(vxPkg+"Int", mkInt(64))
	reg(vxPkg+"I64", mkInt(64))
	reg(vxPkg+"I32", mkInt(32))
	reg(vxPkg+"Bool", func(in *Interp, c *Frame, fn *ssa.Function, a []Value) Value {
		v := in.newInput(in.concreteStr(a[0]), 1)
		return in.st.Eq(v, in.st.Const(1, 1))
	})
	reg(vxPkg+"Bytes", func(in *Interp, c *Frame, fn *ssa.Function, a []Value) Value {
		name := in.concreteStr(a[0])
		n := in.concreteInt(a[1], "vx.Bytes length")
		sl := in.makeSlice(types.Typ[types.Uint8], n, n)
		if n > 0 {
			ag := &Agg{e: make([]Value, n)}
			for i := 0; i < n; i++ {
				ag.e[i] = in.newInput(fmt.Sprintf("%s[%d]", name, i), 8)
			}
			sl.arr.obj.val = ag
		}
		return sl
	})
	reg(vxPkg+"FeltBytes", func(in *Interp, c *Frame, fn *ssa.Function, a []Value) Value {
		// 32 big-endian bytes of a canonical field element
		name := in.concreteStr(a[0])
		v := in.newInput(name, 256)
		in.assume(in.st.Cmp(OpULt, v, in.st.ConstBig(256, feltP)))
		in.st.canon[v.id] = true
		ag := &Agg{e: make([]Value, 32)}
		for i := 0; i < 32; i++ {
			ag.e[i] = in.st.Extract(v, 255-8*i, 248-8*i)
		}
		return ag
	})
	reg(vxPkg+"Choice", func(in *Interp, c *Frame, fn *ssa.Function, a []Value) Value {
		name := in.concreteStr(a[0])
		n := in.concreteInt(a[1], "vx.Choice n")
		v := in.newInput(name, 64)
		k := in.choose(n)
		in.addPC(in.st.Eq(v, in.st.Const(64, uint64(k))), true)
		return in.st.Const(64, uint64(k))
	})
	reg(vxPkg+"Assume", func(in *Interp, c *Frame, fn *ssa.Function, a []Value) Value {
		in.assume(a[0].(*Term))
		return nil
	})
	reg(vxPkg+"Assert", func(in *Interp, c *Frame, fn *ssa.Function, a []Value) Value {
		in.assert(a[0].(*Term), in.concreteStr(a[1]))
		return nil
	})
	reg(vxPkg+"Cover", func(in *Interp, c *Frame, fn *ssa.Function, a []Value) Value {
		l := in.concreteStr(a[0])
		for _, x := range in.pathCovers {
			if x == l {
				return nil
			}
		}
		in.pathCovers = append(in.pathCovers, l)
		return nil
	})
	reg(vxPkg+"Unwind", func(in *Interp, c *Frame, fn *ssa.Function, a []Value) Value {
		in.cfg.Unwind = in.concreteInt(a[0], "unwind")
		in.noteBound(fmt.Sprintf("unwind<=%d", in.cfg.Unwind))
		return nil
	})
	reg(vxPkg+"MapOrders", func(in *Interp, c *Frame, fn *ssa.Function, a []Value) Value {
		in.cfg.MapOrders = a[0].(*Term).IsTrue()
		return nil
	})
	reg(vxPkg+"Bound", func(in *Interp, c *Frame, fn *ssa.Function, a []Value) Value {
		in.noteBound(in.concreteStr(a[0]))
		return nil
	})
	reg(vxPkg+"InEngine", func(in *Interp, c *Frame, fn *ssa.Function, a []Value) Value {
		return in.st.True
	})
	reg(vxPkg+"Merge", func(in *Interp, c *Frame, fn *ssa.Function, a []Value) Value {
		in.mergeSet = append(in.mergeSet, in.concreteStr(a[0]))
		return nil
	})
	reg(vxPkg+"NoMerge", func(in *Interp, c *Frame, fn *ssa.Function, a []Value) Value {
		in.noMerge = a[0].(*Term).IsTrue()
		return nil
	})
	reg(vxPkg+"Observe", func(in *Interp, c *Frame, fn *ssa.Function, a []Value) Value {
		if os.Getenv("GOSYM_OBSERVE") != "" {
			iv, _ := a[1].(Iface)
			out := fmt.Sprintf("%v", iv.v)
			if sl, ok := iv.v.(Slice); ok && !sl.IsNil() {
				if bs := in.sliceBytesSafe(sl); bs != nil {
					out = ""
					for _, b := range bs {
						if b.IsConst() {
							out += fmt.Sprintf("%02x", b.c)
						} else {
							out += "[" + b.String() + "]"
						}
					}
				}
			}
			if len(out) > 3000 {
				out = out[:3000] + "..."
			}
			fmt.Fprintf(os.Stderr, "OBSERVE %s = %s\n", in.concreteStr(a[0]), out)
		}
		return nil
	})
	reg(vxPkg+"Stub", func(in *Interp, c *Frame, fn *ssa.Function, a []Value) Value {
		target := in.concreteStr(a[0])
		iv := a[1].(Iface)
		cl, ok := iv.v.(*Closure)
		if !ok || cl == nil {
			in.unsupported("vx.Stub replacement must be a function")
		}
		if len(cl.binds) > 0 {
			in.unsupported("vx.Stub replacement must not be a closure")
		}
		if in.stubs == nil {
			in.stubs = map[string]*ssa.Function{}
		}
		in.stubs[target] = cl.fn
		return nil
	})
	reg(vxPkg+"FailAt", func(in *Interp, c *Frame, fn *ssa.Function, a []Value) Value {
		// FailAt(name): true iff this is the k-th call, where k is the symbolic input "<name>"
		name := in.concreteStr(a[0])
		var k *Term
		if v, ok := in.extra["failat:"+name].(*Term); ok {
			k = v
		} else {
			k = in.newInput(name, 64)
			in.extra["failat:"+name] = k
		}
		cnt := in.failAt[name]
		in.failAt[name] = cnt + 1
		return in.st.Eq(k, in.st.Const(64, uint64(cnt)))
	})
	reg(vxPkg+"Freeze", func(in *Interp, c *Frame, fn *ssa.Function, a []Value) Value {
		in.freezeReachable(a[0], map[interface{}]bool{})
		in.freezeOn = true
		return nil
	})
	reg(vxPkg+"Thaw", func(in *Interp, c *Frame, fn *ssa.Function, a []Value) Value {
		in.freezeOn = false
		return nil
	})
	reg(vxPkg+"Distinct", nop)
	reg(vxPkg+"Concrete", func(in *Interp, c *Frame, fn *ssa.Function, a []Value) Value {
		t := a[0].(*Term)
		if t.IsConst() {
			return t
		}
		if in.mergeDepth > 0 {
			in.unsupported("vx.Concrete inside a merged callee")
		}
		return in.st.Const(64, in.concretize(t, "vx.Concrete"))
	})
	reg(vxPkg+"B2U", func(in *Interp, c *Frame, fn *ssa.Function, a []Value) Value {
		return in.st.Ite(a[0].(*Term), in.st.Const(64, 1), in.st.Const(64, 0))
	})
	reg(vxPkg+"String", func(in *Interp, c *Frame, fn *ssa.Function, a []Value) Value {
		name := in.concreteStr(a[0])
		n := in.concreteInt(a[1], "vx.String length")
		bs := make([]*Term, n)
		for i := range bs {
			bs[i] = in.newInput(fmt.Sprintf("%s[%d]", name, i), 8)
		}
		return in.mkStr(bs)
	})
	reg(vxPkg+"NodeHashesSeparated", func(in *Interp, c *Frame, fn *ssa.Function, a []Value) Value {
		in.assume(in.collisionFreeAxioms())
		in.assume(in.nodeHashSeparationAxioms())
		in.st.idealHash, in.st.nodeSep = true, true
		in.extra["idealhash"] = 2
		return nil
	})
	reg(vxPkg+"Unhashed", func(in *Interp, c *Frame, fn *ssa.Function, a []Value) Value {
		v := a[0]
		if ifc, ok := v.(Iface); ok {
			v = ifc.v
		}
		in.registerUnhashed(in.loadFelt(v))
		in.extra["unhashed-used"] = true
		return nil
	})
	reg(vxPkg+"GoroutineID", func(in *Interp, c *Frame, fn *ssa.Function, a []Value) Value {
		id := 0
		if in.sch != nil && in.sch.cur != nil {
			id = in.sch.cur.id
		}
		return in.st.Const(64, uint64(id))
	})
	reg(vxPkg+"RealPools", func(in *Interp, c *Frame, fn *ssa.Function, a []Value) Value {
		in.realPools = true
		return nil
	})
	reg(vxPkg+"Preemptions", func(in *Interp, c *Frame, fn *ssa.Function, a []Value) Value {
		in.preempt = int(in.concreteInt(a[0], "vx.Preemptions budget"))
		return nil
	})
	reg(vxPkg+"SelectAny", func(in *Interp, c *Frame, fn *ssa.Function, a []Value) Value {
		in.selectAny = true
		return nil
	})
	reg(vxPkg+"CollisionFree", func(in *Interp, c *Frame, fn *ssa.Function, a []Value) Value {
		in.assume(in.collisionFreeAxioms())
		in.st.idealHash = true
		if _, ok := in.extra["idealhash"]; !ok {
			in.extra["idealhash"] = 1
		}
		return nil
	})
	reg(vxPkg+"Thorough", func(in *Interp, c *Frame, fn *ssa.Function, a []Value) Value {
		return in.st.Bool(in.cfg.Tier == "thorough")
	})
}

func (in *Interp) noteBound(b string) {
	bs, _ := in.extra["bounds"].([]string)
	for _, x := range bs {
		if x == b {
			return
		}
	}
	in.extra["bounds"] = append(bs, b)
}

func (in *Interp) freezeReachable(v Value, seen map[interface{}]bool) {
	switch x := v.(type) {
	case Ptr:
		if x.obj == nil || seen[x.obj] {
			return
		}
		seen[x.obj] = true
		x.obj.frozen = true
		in.freezeReachable(x.obj.val, seen)
	case *Agg:
		for _, e := range x.e {
			in.freezeReachable(e, seen)
		}
	case Slice:
		if !x.IsNil() {
			in.freezeReachable(x.arr, seen)
		}
	case Iface:
		in.freezeReachable(x.v, seen)
	case *MapObj:
		if x == nil || seen[x] {
			return
		}
		seen[x] = true
		x.frozen = true
		for _, e := range x.ents {
			in.freezeReachable(e.k, seen)
			in.freezeReachable(e.v, seen)
		}
	case Tuple:
		for _, e := range x {
			in.freezeReachable(e, seen)
		}
	case *Closure:
		if x != nil {
			for _, b := range x.binds {
				in.freezeReachable(b, seen)
			}
		}
	}
}

// ---------- helpers shared by models ----------

func (in *Interp) sliceVals(v Value) []Value {
	s := v.(Slice)
	out := make([]Value, s.ln)
	for i := 0; i < s.ln; i++ {
		out[i] = in.load(in.elemPtr(s, i))
	}
	return out
}

func (in *Interp) sliceBytes(v Value) []*Term {
	vals := in.sliceVals(v)
	out := make([]*Term, len(vals))
	for i, x := range vals {
		out[i] = x.(*Term)
	}
	return out
}

func (in *Interp) bytesToSlice(bs []*Term) Slice {
	sl := in.makeSlice(types.Typ[types.Uint8], len(bs), len(bs))
	if len(bs) > 0 {
		ag := &Agg{e: make([]Value, len(bs))}
		for i, b := range bs {
			ag.e[i] = b
		}
		sl.arr.obj.val = ag
	}
	return sl
}

func (in *Interp) goString(s string) Value { return Str{s: s} }

func (in *Interp) boolVal(b bool) *Term { return in.st.Bool(b) }

func (in *Interp) intVal(i int) *Term { return in.st.Const(64, uint64(int64(i))) }

// errorString calls the Error() method of an error value when it is concrete enough.
func (in *Interp) errorString(iv Iface) (msg string) {
	defer func() {
		if r := recover(); r != nil {
			msg = "<error of type " + iv.t.String() + ">"
		}
	}()
	ms := in.prog.MethodSets.MethodSet(iv.t)
	sel := ms.Lookup(nil, "Error")
	if sel == nil {
		return ""
	}
	fn := in.prog.MethodValue(sel)
	if fn == nil {
		return ""
	}
	r := in.dispatch(fn, []Value{iv.v}, nil)
	if s, ok := r.(Str); ok && s.sym == nil {
		return s.s
	}
	return "<symbolic error text>"
}

// bestEffortFormat renders a Printf-style format with the concrete parts of the operands.
func (in *Interp) bestEffortFormat(format string, args []Value) string {
	var sb strings.Builder
	ai := 0
	for i := 0; i < len(format); i++ {
		ch := format[i]
		if ch != '%' {
			sb.WriteByte(ch)
			continue
		}
		i++
		for i < len(format) && strings.ContainsRune("+-# 0123456789.", rune(format[i])) {
			i++
		}
		if i >= len(format) {
			break
		}
		if format[i] == '%' {
			sb.WriteByte('%')
			continue
		}
		if ai < len(args) {
			sb.WriteString(in.renderArg(args[ai], format[i]))
			ai++
		} else {
			sb.WriteString("%!" + string(format[i]) + "(MISSING)")
		}
	}
	return sb.String()
}

func (in *Interp) renderArg(v Value, verb byte) (out string) {
	defer func() {
		if r := recover(); r != nil {
			if _, ok := r.(pathEnd); ok {
				out = "?"
				return
			}
			if _, ok := r.(*GoPanic); ok {
				out = "?"
				return
			}
			panic(r)
		}
	}()
	iv, ok := v.(Iface)
	if !ok {
		return "?"
	}
	if iv.t == nil {
		return "<nil>"
	}
	switch x := iv.v.(type) {
	case Str:
		if x.sym == nil {
			if verb == 'q' {
				return strconv.Quote(x.s)
			}
			return x.s
		}
		return "?"
	case *Term:
		if isFeltType(iv.t) {
			if x.IsConst() {
				return "0x" + x.Big().Text(16)
			}
			return "?"
		}
		if x.IsConst() && x.w > 0 && x.w <= 64 {
			if verb == 'x' {
				return strconv.FormatUint(x.c, 16)
			}
			if isSigned(iv.t) {
				return strconv.FormatInt(toSigned(x.c, x.w), 10)
			}
			return strconv.FormatUint(x.c, 10)
		}
		if x.IsConst() && x.w == 0 {
			return strconv.FormatBool(x.c == 1)
		}
		return "?"
	}
	// error / Stringer
	ms := in.prog.MethodSets.MethodSet(iv.t)
	if sel := ms.Lookup(nil, "Error"); sel != nil {
		return in.errorString(iv)
	}
	return "?"
}

func sortedKeys(m map[string]bool) []string {
	ks := make([]string, 0, len(m))
	for k := range m {
		ks = append(ks, k)
	}
	sort.Strings(ks)
	return ks
}

var feltP, _ = new(big.Int).SetString("800000000000011000000000000000000000000000000000000000000000001", 16)

func (in *Interp) sliceBytesSafe(sl Slice) (out []*Term) {
	defer func() {
		if r := recover(); r != nil {
			out = nil
		}
	}()
	return in.sliceBytes(sl)
}
