package main

import (
	"fmt"
	"go/ast"
	"os"
	"runtime/debug"
	"sort"
	"strings"
	"sync"
	"sync/atomic"
	"time"

	"golang.org/x/tools/go/ssa"
)

type HarnessCfg struct {
	Unwind        int
	MaxSteps      int
	MaxPaths      int
	ConcretizeCap int
	SymIndexCap   int
	MergePathCap  int
	MapOrders     bool
	SolverTimeout int // ms
	Solver        string
	MaxSeconds    int
	Tier          string
	Verbose       bool
	MaxViolations int
	Workers       int
}

func defaultCfg() *HarnessCfg {
	return &HarnessCfg{Unwind: 20000, MaxSteps: 20_000_000, MaxPaths: 200000, ConcretizeCap: 300, SymIndexCap: 64,
		MergePathCap: 128, SolverTimeout: 60000, Solver: "z3", MaxSeconds: 1500, MaxViolations: 8}
}

type HarnessResult struct {
	Name            string              `json:"name"`
	Pkg             string              `json:"pkg"`
	Paths           int                 `json:"paths"`
	PathsDone       int                 `json:"paths_done"`
	PathsAssumeCut  int                 `json:"paths_assume_cut"`
	Steps           int                 `json:"steps"`
	Violations      []Violation         `json:"violations"`
	Inconclusive    []string            `json:"inconclusive"`
	AssertsReached  map[string]int      `json:"asserts_reached"`
	Covers          map[string]int      `json:"covers"`
	AssertLabels    []string            `json:"assert_labels"`
	UnknownBranches int                 `json:"unknown_branches"`
	UnknownAsserts  int                 `json:"unknown_asserts"`
	AssertQueries   int                 `json:"assert_queries"`
	MergeSites      int                 `json:"merge_sites"`
	MergeAbandoned  int                 `json:"merge_abandoned"`
	Queries         SolverStatsJSON     `json:"queries"`
	WallS           float64             `json:"wall_s"`
	Functions       []string            `json:"functions"`
	Samples         []PathSample        `json:"samples"`
	Bounds          []string            `json:"bounds"`
	Stubs           []string            `json:"stubs"`
	Observes        []map[string]string `json:"observes,omitempty"`
	Panics          map[string]int      `json:"panics,omitempty"`
	Witnesses       []Witness           `json:"witnesses,omitempty"`
	Solver          string              `json:"solver"`
	witSigs         map[string]bool
	violCount       map[string]int
	newViolations   int // violations that are not split out as known findings (count toward the stop limit)
}

type SolverStatsJSON struct {
	Total   int     `json:"total"`
	Sat     int     `json:"sat"`
	Unsat   int     `json:"unsat"`
	Unknown int     `json:"unknown"`
	Errors  int     `json:"errors"`
	SolverS float64 `json:"solver_s"`
}

type Witness struct {
	Model    map[string]string `json:"model"`
	Covers   []string          `json:"covers"`
	Violated bool              `json:"violated"`
	UFDep    bool              `json:"uf_dependent,omitempty"`
}

type PathSample struct {
	Covers    []string          `json:"covers"`
	Decisions int               `json:"decisions"`
	Steps     int               `json:"steps"`
	End       string            `json:"end"`
	Witness   map[string]string `json:"witness,omitempty"`
}

func (r *HarnessResult) addViolation(v Violation) {
	if r.violCount == nil {
		r.violCount = map[string]int{}
	}
	r.violCount[v.Label]++
	if r.violCount[v.Label] > 3 {
		return // keep at most three counterexamples per assertion label
	}
	r.Violations = append(r.Violations, v)
	if !strings.Contains(v.Label, "#KF-") {
		r.newViolations++
	}
}

func (r *HarnessResult) markAssertReached(label string) {
	r.AssertsReached[label]++
}

func (r *HarnessResult) noteInconclusive(msg string) {
	for _, m := range r.Inconclusive {
		if m == msg {
			return
		}
	}
	if len(r.Inconclusive) < 50 {
		r.Inconclusive = append(r.Inconclusive, msg)
	}
}

// cpuTokens bounds the number of paths executing at any time across all harnesses.
var cpuTokens chan struct{}

type workQueue struct {
	mu      sync.Mutex
	cond    *sync.Cond
	items   [][]decision
	active  int
	stopped bool
	paths   int
}

func (q *workQueue) pop() ([]decision, bool) {
	q.mu.Lock()
	defer q.mu.Unlock()
	for len(q.items) == 0 && q.active > 0 && !q.stopped {
		q.cond.Wait()
	}
	if q.stopped || len(q.items) == 0 {
		q.cond.Broadcast()
		return nil, false
	}
	it := q.items[len(q.items)-1]
	q.items = q.items[:len(q.items)-1]
	q.active++
	q.paths++
	return it, true
}

func (q *workQueue) done(alts [][]decision) {
	q.mu.Lock()
	q.items = append(q.items, alts...)
	q.active--
	q.cond.Broadcast()
	q.mu.Unlock()
}

func (q *workQueue) stop() {
	q.mu.Lock()
	q.stopped = true
	q.cond.Broadcast()
	q.mu.Unlock()
}

func newPartial(fn *ssa.Function) *HarnessResult {
	return &HarnessResult{Name: fn.Name(), Pkg: strings.TrimPrefix(fn.Pkg.Pkg.Path(), "github.com/NethermindEth/juno/"),
		AssertsReached: map[string]int{}, Covers: map[string]int{}, Panics: map[string]int{}, witSigs: map[string]bool{}}
}

// runHarness explores all paths of one harness function (several workers share the prefix queue;
// every worker has its own interpreter state, term store and solver process).
func runHarness(prog *ssa.Program, fn *ssa.Function, cfg *HarnessCfg) *HarnessResult {
	t0 := time.Now()
	res := newPartial(fn)
	// per-harness directives in the doc comment: //vx:solver <kind>, //vx:solver-timeout <ms>
	if fd, ok := fn.Syntax().(*ast.FuncDecl); ok && fd.Doc != nil {
		for _, c := range fd.Doc.List {
			f := strings.Fields(strings.TrimPrefix(c.Text, "//"))
			if len(f) == 2 && f[0] == "vx:solver" {
				cfg.Solver = f[1]
			}
			if len(f) == 2 && f[0] == "vx:solver-timeout" {
				fmt.Sscan(f[1], &cfg.SolverTimeout)
			}
			if len(f) == 2 && f[0] == "vx:max-seconds" {
				fmt.Sscan(f[1], &cfg.MaxSeconds)
			}
		}
	}
	res.Solver = cfg.Solver
	q := &workQueue{items: [][]decision{nil}}
	q.cond = sync.NewCond(&q.mu)
	nw := cfg.Workers
	if nw < 1 {
		nw = 1
	}
	parts := make([]*HarnessResult, nw)
	statsAll := make([]*SolverStats, nw)
	funcs := make([]map[string]bool, nw)
	stubSeen := make([]map[string]bool, nw)
	boundSeen := make([]map[string]bool, nw)
	var wg sync.WaitGroup
	var violCount int64
	var lastPrint = time.Now()
	var printMu sync.Mutex
	for w := 0; w < nw; w++ {
		wg.Add(1)
		go func(w int) {
			defer wg.Done()
			part := newPartial(fn)
			parts[w] = part
			defer func() {
				if r := recover(); r != nil {
					part.noteInconclusive(fmt.Sprintf("engine crash: %v\n%s", r, debug.Stack()))
					q.stop()
				}
			}()
			stats := &SolverStats{}
			statsAll[w] = stats
			stubSeen[w] = map[string]bool{}
			boundSeen[w] = map[string]bool{}
			var in *Interp
			var sol *Solver
			wcfg := *cfg
			baseCfg := *cfg
			for {
				prefix, ok := q.pop()
				if !ok {
					break
				}
				if in == nil {
					// lazily: a worker that never gets work does not start a solver
					st := NewTermStore()
					var err error
					sol, err = NewSolver(cfg.Solver, st, cfg.SolverTimeout, stats)
					if err != nil {
						part.noteInconclusive("solver start: " + err.Error())
						q.done(nil)
						q.stop()
						break
					}
					defer sol.Close()
					if lf := os.Getenv("GOSYM_SMTLOG"); lf != "" && w == 0 {
						f, _ := os.Create(lf + "." + fn.Name() + ".smt2")
						sol.log = f
						defer f.Close()
					}
					in = &Interp{prog: prog, st: st, sol: sol, cfg: &wcfg, globals: map[*ssa.Global]*Object{}, initDone: map[*ssa.Package]bool{},
						finfo: map[*ssa.Function]*fnInfo{}, feasCache: map[string]Result{}, stats: stats, res: part,
						funcsSeen: map[string]bool{}, extra: map[string]interface{}{}}
					funcs[w] = in.funcsSeen
					in.nextObj = 1 << 20 // ids below are reserved for globals/init-time objects: always journaled
				}
				if q.paths > cfg.MaxPaths {
					part.noteInconclusive(fmt.Sprintf("path budget (%d) exhausted", cfg.MaxPaths))
					q.done(nil)
					q.stop()
					break
				}
				if time.Since(t0) > time.Duration(cfg.MaxSeconds)*time.Second {
					part.noteInconclusive(fmt.Sprintf("time budget (%ds) exhausted with prefixes pending", cfg.MaxSeconds))
					q.done(nil)
					q.stop()
					break
				}
				if atomic.LoadInt64(&violCount) >= int64(cfg.MaxViolations) {
					part.noteInconclusive("stopped after max violations")
					q.done(nil)
					q.stop()
					break
				}
				cpuTokens <- struct{}{}
				part.Paths++
				nviol := part.newViolations
				alts := in.runPath(fn, prefix, &baseCfg, stubSeen[w], boundSeen[w])
				<-cpuTokens
				atomic.AddInt64(&violCount, int64(part.newViolations-nviol))
				q.done(alts)
				if cfg.Verbose {
					printMu.Lock()
					if time.Since(lastPrint) > 10*time.Second {
						lastPrint = time.Now()
						q.mu.Lock()
						fmt.Fprintf(os.Stderr, "[%s] paths=%d pending=%d active=%d t=%.0fs\n", fn.Name(), q.paths, len(q.items), q.active, time.Since(t0).Seconds())
						q.mu.Unlock()
					}
					printMu.Unlock()
				}
			}
		}(w)
	}
	wg.Wait()
	// merge partial results
	stats := &SolverStats{}
	fset := map[string]bool{}
	sset := map[string]bool{}
	bset := map[string]bool{}
	for w, p := range parts {
		if p == nil {
			continue
		}
		res.Paths += p.Paths
		res.PathsDone += p.PathsDone
		res.PathsAssumeCut += p.PathsAssumeCut
		res.Steps += p.Steps
		res.UnknownBranches += p.UnknownBranches
		res.UnknownAsserts += p.UnknownAsserts
		res.AssertQueries += p.AssertQueries
		res.MergeSites += p.MergeSites
		res.MergeAbandoned += p.MergeAbandoned
		res.Violations = append(res.Violations, p.Violations...)
		for _, m := range p.Inconclusive {
			res.noteInconclusive(m)
		}
		for k, v := range p.AssertsReached {
			res.AssertsReached[k] += v
		}
		for k, v := range p.Covers {
			res.Covers[k] += v
		}
		for k, v := range p.Panics {
			res.Panics[k] += v
		}
		for _, smp := range p.Samples {
			if len(res.Samples) < 6 {
				res.Samples = append(res.Samples, smp)
			}
		}
		for _, wt := range p.Witnesses {
			sig := strings.Join(wt.Covers, ",")
			if !res.witSigs[sig] && len(res.Witnesses) < 12 {
				res.witSigs[sig] = true
				res.Witnesses = append(res.Witnesses, wt)
			}
		}
		if len(res.Observes) < 8 {
			res.Observes = append(res.Observes, p.Observes...)
		}
		if s := statsAll[w]; s != nil {
			stats.Queries += s.Queries
			stats.Sat += s.Sat
			stats.Unsat += s.Unsat
			stats.Unknown += s.Unknown
			stats.Errors += s.Errors
			stats.Time += s.Time
		}
		for f := range funcs[w] {
			fset[f] = true
		}
		for k := range stubSeen[w] {
			sset[k] = true
		}
		for k := range boundSeen[w] {
			bset[k] = true
		}
	}
	res.Queries = SolverStatsJSON{Total: stats.Queries, Sat: stats.Sat, Unsat: stats.Unsat, Unknown: stats.Unknown, Errors: stats.Errors, SolverS: stats.Time.Seconds()}
	if stats.Errors > 0 {
		res.noteInconclusive(fmt.Sprintf("%d solver (error ...) responses", stats.Errors))
	}
	for f := range fset {
		if strings.Contains(f, "NethermindEth/juno") || strings.HasPrefix(f, "[model]") {
			res.Functions = append(res.Functions, f)
		}
	}
	sort.Strings(res.Functions)
	res.Stubs = sortedKeys(sset)
	res.Bounds = sortedKeys(bset)
	for l := range res.AssertsReached {
		res.AssertLabels = append(res.AssertLabels, l)
	}
	sort.Strings(res.AssertLabels)
	res.WallS = time.Since(t0).Seconds()
	return res
}

// runPath executes one path (decision prefix) and returns the alternative prefixes it discovered.
func (in *Interp) runPath(fn *ssa.Function, prefix []decision, baseCfg *HarnessCfg, stubSeen, boundSeen map[string]bool) [][]decision {
	res := in.res
	sol := in.sol
	*in.cfg = *baseCfg
	in.pc = nil
	in.pcKey = [32]byte{}
	in.ctx = &decisionCtx{prefix: prefix}
	in.hasUnknown = false
	in.pathUF = false
	in.steps = 0
	in.callDepth = 0
	in.nameCount = map[string]int{}
	in.inputs = nil
	in.pathCovers = nil
	in.observes = map[string]string{}
	in.stubs = nil
	in.opaque = map[string]*opaqueBlob{}
	in.failAt = map[string]int{}
	in.freezeOn = false
	in.mergeDepth = 0
	in.noMerge = false
	in.pathViolations = 0
	in.sch, in.mus, in.wgs, in.syncMaps, in.pools = nil, nil, nil, nil, nil
	in.st.idealHash, in.st.nodeSep = false, false
	in.timers, in.now, in.timerFires, in.selectAny, in.realPools = nil, 0, 0, false, false
	in.preempt, in.preemptions = 0, 0
	in.mergeSet = append(in.mergeSet[:0], defaultMergeSet...)
	in.journal = in.journal[:0]
	in.journalOn = true
	in.journalWater = 1 << 20
	in.initMode = 0
	for k := range in.extra {
		delete(in.extra, k)
	}
	sol.Reset()
	end := "done"
	func() {
		defer func() {
			if r := recover(); r != nil {
				switch e := r.(type) {
				case pathEnd:
					end = e.kind
					switch e.kind {
					case "assume", "stop":
					default:
						res.noteInconclusive(e.kind + ": " + e.msg)
					}
				case *GoPanic:
					end = "panic"
					res.Panics[e.msg]++
					// an escaping panic is a violation (harnesses that expect panics recover them)
					in.reportViolation("panic", "uncaught panic: "+e.msg, nil)
				case mergeFail:
					end = "unsupported"
					res.noteInconclusive("merge failure escaped: " + e.why)
				default:
					panic(r)
				}
			}
		}()
		in.callFunction(fn, nil, nil)
	}()
	in.killCoros()
	if end == "done" && len(res.Witnesses) < 12 && !in.hasUnknown {
		sig := strings.Join(in.pathCovers, ",")
		if !res.witSigs[sig] {
			res.witSigs[sig] = true
			if sol.Check() == Sat {
				if m, ok := in.modelStrings(); ok {
					res.Witnesses = append(res.Witnesses, Witness{Model: m, Covers: append([]string{}, in.pathCovers...), Violated: in.pathViolations > 0, UFDep: in.pathUF})
				}
			}
		}
	}
	in.rollback(0)
	res.Steps += in.steps
	switch end {
	case "done", "panic", "stop":
		res.PathsDone++
	case "assume":
		res.PathsAssumeCut++
	}
	if end == "done" || end == "panic" || end == "assume" || end == "stop" {
		for _, c := range in.pathCovers {
			res.Covers[c]++
		}
	}
	if len(res.Samples) < 6 && (end == "done" || end == "panic") {
		res.Samples = append(res.Samples, PathSample{Covers: append([]string{}, in.pathCovers...), Decisions: len(in.ctx.trace), Steps: in.steps, End: end})
	}
	if len(in.observes) > 0 && len(res.Observes) < 8 {
		res.Observes = append(res.Observes, in.observes)
	}
	for k := range in.stubs {
		stubSeen[k] = true
	}
	if bs, ok := in.extra["bounds"].([]string); ok {
		for _, b := range bs {
			boundSeen[b] = true
		}
	}
	return in.ctx.alts
}

var defaultMergeSet = []string{"core/trie2/trieutils.BitArray).", "core/trie.BitArray).", "trieutils.findFirstSetBit", "core/trie.findFirstSetBit"}
