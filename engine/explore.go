package main

import (
	"fmt"
	"go/ast"
	"os"
	"sort"
	"strings"
	"time"

	"golang.org/x/tools/go/ssa"
)

type HarnessCfg struct {
	Unwind        int
	MaxSteps      int
	MaxPaths      int
	ConcretizeCap int
	SymIndexCap   int
	MergePathCap  int
	MapOrders     bool
	SolverTimeout int // ms
	Solver        string
	MaxSeconds    int
	Tier          string
	Verbose       bool
	MaxViolations int
}

func defaultCfg() *HarnessCfg {
	return &HarnessCfg{Unwind: 4096, MaxSteps: 20_000_000, MaxPaths: 200000, ConcretizeCap: 64, SymIndexCap: 64,
		MergePathCap: 128, SolverTimeout: 60000, Solver: "z3", MaxSeconds: 1500, MaxViolations: 8}
}

type HarnessResult struct {
	Name            string              `json:"name"`
	Pkg             string              `json:"pkg"`
	Paths           int                 `json:"paths"`
	PathsDone       int                 `json:"paths_done"`
	PathsAssumeCut  int                 `json:"paths_assume_cut"`
	Steps           int                 `json:"steps"`
	Violations      []Violation         `json:"violations"`
	Inconclusive    []string            `json:"inconclusive"`
	AssertsReached  map[string]int      `json:"asserts_reached"`
	Covers          map[string]int      `json:"covers"`
	AssertLabels    []string            `json:"assert_labels"`
	UnknownBranches int                 `json:"unknown_branches"`
	UnknownAsserts  int                 `json:"unknown_asserts"`
	AssertQueries   int                 `json:"assert_queries"`
	MergeSites      int                 `json:"merge_sites"`
	MergeAbandoned  int                 `json:"merge_abandoned"`
	Queries         SolverStatsJSON     `json:"queries"`
	WallS           float64             `json:"wall_s"`
	Functions       []string            `json:"functions"`
	Samples         []PathSample        `json:"samples"`
	Bounds          []string            `json:"bounds"`
	Stubs           []string            `json:"stubs"`
	Observes        []map[string]string `json:"observes,omitempty"`
	Panics          map[string]int      `json:"panics,omitempty"`
	Witnesses       []Witness           `json:"witnesses,omitempty"`
	Solver          string              `json:"solver"`
	witSigs         map[string]bool
	violKeys        map[string]bool
}

type SolverStatsJSON struct {
	Total   int     `json:"total"`
	Sat     int     `json:"sat"`
	Unsat   int     `json:"unsat"`
	Unknown int     `json:"unknown"`
	Errors  int     `json:"errors"`
	SolverS float64 `json:"solver_s"`
}

type Witness struct {
	Model    map[string]string `json:"model"`
	Covers   []string          `json:"covers"`
	Violated bool              `json:"violated"`
}

type PathSample struct {
	Covers    []string          `json:"covers"`
	Decisions int               `json:"decisions"`
	Steps     int               `json:"steps"`
	End       string            `json:"end"`
	Witness   map[string]string `json:"witness,omitempty"`
}

func (r *HarnessResult) addViolation(v Violation) {
	if r.violKeys == nil {
		r.violKeys = map[string]bool{}
	}
	r.Violations = append(r.Violations, v)
}

func (r *HarnessResult) markAssertReached(label string) {
	r.AssertsReached[label]++
}

func (r *HarnessResult) noteInconclusive(msg string) {
	for _, m := range r.Inconclusive {
		if m == msg {
			return
		}
	}
	if len(r.Inconclusive) < 50 {
		r.Inconclusive = append(r.Inconclusive, msg)
	}
}

// runHarness explores all paths of one harness function.
func runHarness(prog *ssa.Program, fn *ssa.Function, cfg *HarnessCfg) *HarnessResult {
	t0 := time.Now()
	res := &HarnessResult{Name: fn.Name(), Pkg: strings.TrimPrefix(fn.Pkg.Pkg.Path(), "github.com/NethermindEth/juno/"), AssertsReached: map[string]int{}, Covers: map[string]int{}, Panics: map[string]int{}}
	stats := &SolverStats{}
	st := NewTermStore()
	// per-harness directives in the doc comment: //vx:solver <kind>, //vx:solver-timeout <ms>
	if fd, ok := fn.Syntax().(*ast.FuncDecl); ok && fd.Doc != nil {
		for _, c := range fd.Doc.List {
			f := strings.Fields(strings.TrimPrefix(c.Text, "//"))
			if len(f) == 2 && f[0] == "vx:solver" {
				cfg.Solver = f[1]
			}
			if len(f) == 2 && f[0] == "vx:solver-timeout" {
				fmt.Sscan(f[1], &cfg.SolverTimeout)
			}
			if len(f) == 2 && f[0] == "vx:max-seconds" {
				fmt.Sscan(f[1], &cfg.MaxSeconds)
			}
		}
	}
	res.Solver = cfg.Solver
	sol, err := NewSolver(cfg.Solver, st, cfg.SolverTimeout, stats)
	if err != nil {
		res.Inconclusive = append(res.Inconclusive, "solver start: "+err.Error())
		return res
	}
	defer sol.Close()
	if lf := os.Getenv("GOSYM_SMTLOG"); lf != "" {
		f, _ := os.Create(lf + "." + fn.Name() + ".smt2")
		sol.log = f
		defer f.Close()
	}
	in := &Interp{prog: prog, st: st, sol: sol, cfg: cfg, globals: map[*ssa.Global]*Object{}, initDone: map[*ssa.Package]bool{},
		finfo: map[*ssa.Function]*fnInfo{}, feasCache: map[string]Result{}, stats: stats, res: res,
		funcsSeen: map[string]bool{}, extra: map[string]interface{}{}}
	in.mergeSet = append([]string{}, defaultMergeSet...)
	in.nextObj = 1 << 20 // ids below are reserved for globals/init-time objects: always journaled
	baseCfg := *cfg
	work := [][]decision{nil}
	lastPrint := time.Now()
	stubSeen := map[string]bool{}
	boundSeen := map[string]bool{}
	for len(work) > 0 {
		if res.Paths >= cfg.MaxPaths {
			res.noteInconclusive(fmt.Sprintf("path budget (%d) exhausted with %d prefixes pending", cfg.MaxPaths, len(work)))
			break
		}
		if time.Since(t0) > time.Duration(cfg.MaxSeconds)*time.Second {
			res.noteInconclusive(fmt.Sprintf("time budget (%ds) exhausted with %d prefixes pending", cfg.MaxSeconds, len(work)))
			break
		}
		if len(res.Violations) >= cfg.MaxViolations {
			res.noteInconclusive("stopped after max violations")
			break
		}
		prefix := work[len(work)-1]
		work = work[:len(work)-1]
		res.Paths++
		// reset path state
		*in.cfg = baseCfg
		in.pc = nil
		in.pcKey = [32]byte{}
		in.ctx = &decisionCtx{prefix: prefix}
		in.hasUnknown = false
		in.steps = 0
		in.callDepth = 0
		in.nameCount = map[string]int{}
		in.inputs = nil
		in.pathCovers = nil
		in.observes = map[string]string{}
		in.stubs = nil
		in.opaque = map[string]*opaqueBlob{}
		in.failAt = map[string]int{}
		in.freezeOn = false
		in.mergeDepth = 0
		in.noMerge = false
		in.pathViolations = 0
		in.mergeSet = append(in.mergeSet[:0], defaultMergeSet...)
		in.journal = in.journal[:0]
		in.journalOn = true
		in.journalWater = 1 << 20
		in.initMode = 0
		for k := range in.extra {
			delete(in.extra, k)
		}
		sol.Reset()
		end := "done"
		func() {
			defer func() {
				if r := recover(); r != nil {
					switch e := r.(type) {
					case pathEnd:
						end = e.kind
						switch e.kind {
						case "assume", "stop":
						default:
							res.noteInconclusive(e.kind + ": " + e.msg)
						}
					case *GoPanic:
						end = "panic"
						key := e.msg
						res.Panics[key]++
						// an escaping panic is a violation (harnesses that expect panics recover them)
						in.reportViolation("panic", "uncaught panic: "+e.msg, nil)
					case mergeFail:
						end = "unsupported"
						res.noteInconclusive("merge failure escaped: " + e.why)
					default:
						panic(r)
					}
				}
			}()
			in.callFunction(fn, nil, nil)
		}()
		if end == "done" && len(res.Witnesses) < 12 && !in.hasUnknown {
			sig := strings.Join(in.pathCovers, ",")
			if res.witSigs == nil {
				res.witSigs = map[string]bool{}
			}
			if !res.witSigs[sig] {
				res.witSigs[sig] = true
				if sol.Check() == Sat {
					if m, ok := in.modelStrings(); ok {
						res.Witnesses = append(res.Witnesses, Witness{Model: m, Covers: append([]string{}, in.pathCovers...), Violated: in.pathViolations > 0})
					}
				}
			}
		}
		in.rollback(0)
		res.Steps += in.steps
		switch end {
		case "done", "panic":
			res.PathsDone++
		case "assume":
			res.PathsAssumeCut++
		}
		if end == "done" || end == "panic" || end == "assume" {
			for _, c := range in.pathCovers {
				res.Covers[c]++
			}
		}
		if len(res.Samples) < 6 && (end == "done" || end == "panic") {
			res.Samples = append(res.Samples, PathSample{Covers: append([]string{}, in.pathCovers...), Decisions: len(in.ctx.trace), Steps: in.steps, End: end})
		}
		if len(in.observes) > 0 && len(res.Observes) < 8 {
			res.Observes = append(res.Observes, in.observes)
		}
		for k := range in.stubs {
			stubSeen[k] = true
		}
		if bs, ok := in.extra["bounds"].([]string); ok {
			for _, b := range bs {
				boundSeen[b] = true
			}
		}
		work = append(work, in.ctx.alts...)
		if cfg.Verbose && (res.Paths%50 == 0 || time.Since(lastPrint) > 10*time.Second) {
			lastPrint = time.Now()
			fmt.Fprintf(os.Stderr, "[%s] paths=%d pending=%d queries=%d solver=%.1fs\n", fn.Name(), res.Paths, len(work), stats.Queries, stats.Time.Seconds())
		}
	}
	res.Queries = SolverStatsJSON{Total: stats.Queries, Sat: stats.Sat, Unsat: stats.Unsat, Unknown: stats.Unknown, Errors: stats.Errors, SolverS: stats.Time.Seconds()}
	if stats.Errors > 0 {
		res.noteInconclusive(fmt.Sprintf("%d solver (error ...) responses", stats.Errors))
	}
	for f := range in.funcsSeen {
		if strings.Contains(f, "NethermindEth/juno") || strings.HasPrefix(f, "[model]") {
			res.Functions = append(res.Functions, f)
		}
	}
	sort.Strings(res.Functions)
	for k := range stubSeen {
		res.Stubs = append(res.Stubs, k)
	}
	sort.Strings(res.Stubs)
	for k := range boundSeen {
		res.Bounds = append(res.Bounds, k)
	}
	sort.Strings(res.Bounds)
	for l := range res.AssertsReached {
		res.AssertLabels = append(res.AssertLabels, l)
	}
	sort.Strings(res.AssertLabels)
	res.WallS = time.Since(t0).Seconds()
	return res
}

var defaultMergeSet = []string{}
