#!/bin/bash
# usage: seedtest.sh <seed-id> <property> [tier]   — applies /verif/seeded/<seed-id>/patch.diff to /repo, runs the check, reverts
set -u
SID=$1; PID=$2; TIER=${3:-quick}
R=${SEED_REPO:-/repo}   # the tree the seed is applied to (registered runs: /repo itself)
cd $R && git apply /verif/seeded/$SID/patch.diff || { echo "patch does not apply"; exit 3; }
cd /verif && VERIF_SCRATCH_EVIDENCE=1 VERIF_REPO=$R timeout 3000 ./check $PID --tier $TIER > /tmp/seedtest-$SID-$(basename $R).log 2>&1; RC=$?
cd $R && git checkout -- . && git status --short | head -3
echo "check exit=$RC"; grep -E "^(VIOLATION|INCONCLUSIVE|check )" /tmp/seedtest-$SID-$(basename $R).log | cut -c1-220 | head -6
