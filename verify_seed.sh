#!/bin/bash
# usage: verify_seed.sh <worktree> <seed-id>  — re-confirms a seeded change in its scratch worktree
WT=$1; SID=$2; SD=/verif/seeded/$SID
export GOFLAGS=-mod=mod GOPROXY=off CGO_LDFLAGS=-L/verif/.work/stublib
cd $WT || exit 3
git checkout -q -- . ; git apply $SD/patch.diff || { echo "$SID: patch does not apply"; exit 3; }
PKG=$(head -5 $SD/demo_test.go.txt | grep -o "package-dir: *[^ ]*" | head -1 | sed 's/package-dir: *//')
TESTS=$(grep -o "^func Test[A-Za-z0-9_]*" $SD/demo_test.go.txt | sed 's/func //' | paste -sd'|')
echo "seed=$SID pkg=$PKG tests=$TESTS"
go build ./$PKG/ > /tmp/vs-$SID-build.log 2>&1; B=$?
go test -count=1 ./$PKG/ > /tmp/vs-$SID-existing.log 2>&1; E=$?
cp $SD/demo_test.go.txt $PKG/zz_seed_demo_test.go
go test -count=1 -run "^($TESTS)\$" ./$PKG/ > /tmp/vs-$SID-demo-with.log 2>&1; W=$?
git apply -R $SD/patch.diff
go test -count=1 -run "^($TESTS)\$" ./$PKG/ > /tmp/vs-$SID-demo-without.log 2>&1; O=$?
rm -f $PKG/zz_seed_demo_test.go; git apply $SD/patch.diff
echo "RESULT seed=$SID build=$B existing_tests_with_change=$E demo_with_change=$W demo_without_change=$O"
