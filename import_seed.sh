#!/bin/bash
# usage: import_seed.sh <worktree-id> <seed-name> <property> — copy a sub-agent's deliverables, re-verify in its worktree, run the check on /repo with the patch applied, remove the worktree
WT=/tmp/seed-$1; NAME=$2; PROP=$3
mkdir -p /verif/seeded/$NAME && cp -r $WT/_seed/* /verif/seeded/$NAME/ || exit 3
V=$(timeout 1500 /verif/verify_seed.sh $WT $NAME 2>&1 | tail -1); echo "$V"
T=$(timeout 3000 /verif/seedtest.sh $NAME $PROP 2>&1 | tail -4 | cut -c1-260); echo "$T"
HEADC=$(git -C $WT rev-parse --short HEAD)
python3 - "$NAME" "$PROP" "$V" "$T" "$HEADC" <<'PY'
import json,sys,os
name,prop,v,t,head=sys.argv[1:6]
p='/verif/seeded/%s/meta.json'%name
m=json.load(open(p)) if os.path.exists(p) else {}
m.update({'id':name,'property':prop})
m['verified_in_scratch_worktree']={'commit':head,'result_line':v}
det=[l for l in t.split('\n') if l.startswith('VIOLATION')]
m['check_run']={'how':'git -C /repo apply patch.diff; /verif/check %s --tier quick; git -C /repo checkout -- .  (seedtest.sh)'%prop,
  'exit':[l for l in t.split('\n') if l.startswith('check exit')][:1],'detected_by':det[:1]}
json.dump(m,open(p,'w'),indent=1)
PY
git -C /repo worktree remove --force $WT; git -C /repo worktree prune
