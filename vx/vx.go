// Package vx is the harness API of the gosym checker.
//
// In the symbolic engine every function here is intercepted (inputs become solver variables,
// Assume/Assert become path constraints / proof obligations). Natively (go test -overlay) the
// same functions read the solver's model from the file named by VX_REPLAY, so that a harness is
// an ordinary Go function that can be replayed against the real build.
package vx

import (
	"encoding/json"
	"fmt"
	"math/big"
	"os"
	"strconv"
	"strings"
	"context"
	"time"
)

type replayFile struct {
	Model map[string]string `json:"model"`
}

var (
	model     map[string]*big.Int
	nameCount = map[string]int{}
	failAtCnt = map[string]int{}
	failAtK   = map[string]uint64{}
	loaded    bool
	Covered   []string
)

func load() {
	if loaded {
		return
	}
	loaded = true
	model = map[string]*big.Int{}
	p := os.Getenv("VX_REPLAY")
	if p == "" {
		return
	}
	raw, err := os.ReadFile(p)
	if err != nil {
		panic("vx: cannot read VX_REPLAY: " + err.Error())
	}
	var rf replayFile
	if err := json.Unmarshal(raw, &rf); err != nil {
		panic("vx: bad VX_REPLAY: " + err.Error())
	}
	for k, v := range rf.Model {
		b, ok := new(big.Int).SetString(strings.TrimPrefix(v, "0x"), 16)
		if !ok {
			panic("vx: bad value for " + k)
		}
		model[k] = b
	}
}

func fresh(base string) string {
	k := nameCount[base]
	nameCount[base] = k + 1
	if k == 0 {
		return base
	}
	return base + "#" + strconv.Itoa(k)
}

func val(name string) *big.Int {
	load()
	n := fresh(name)
	if v, ok := model[n]; ok {
		return v
	}
	return new(big.Int)
}

func U8(name string) uint8   { return uint8(val(name).Uint64()) }
func U16(name string) uint16 { return uint16(val(name).Uint64()) }
func U32(name string) uint32 { return uint32(val(name).Uint64()) }
func U64(name string) uint64 { return val(name).Uint64() }
func Int(name string) int    { return int(val(name).Uint64()) }
func I64(name string) int64  { return int64(val(name).Uint64()) }
func I32(name string) int32  { return int32(uint32(val(name).Uint64())) }
func Bool(name string) bool  { return val(name).Sign() != 0 }

// Bytes returns n arbitrary bytes.
func Bytes(name string, n int) []byte {
	b := make([]byte, n)
	for i := range b {
		b[i] = uint8(val(fmt.Sprintf("%s[%d]", name, i)).Uint64())
	}
	return b
}

// String returns a string of n arbitrary bytes.
func String(name string, n int) string { return string(Bytes(name, n)) }

// CollisionFree assumes (engine) that the uninterpreted hash functions do not collide on the
// ground terms built so far: equal outputs of the same hash imply equal inputs. Natively the real
// hash functions are used and this is a no-op.
func CollisionFree() {}

// B2U converts a condition to 0/1 without a branch (the engine builds an ite term instead of
// forking the path); used to write specifications that do not multiply paths.
func B2U(b bool) uint64 {
	if b {
		return 1
	}
	return 0
}

// FeltBytes returns the 32-byte big-endian encoding of an arbitrary canonical field element (< P).
func FeltBytes(name string) [32]byte {
	var out [32]byte
	val(name).FillBytes(out[:])
	return out
}

// Choice returns an arbitrary value in [0,n); the engine forks over all of them.
func Choice(name string, n int) int {
	v := int(val(name).Uint64())
	if v >= n {
		v = 0
	}
	return v
}

type AssumeFailed struct{}
type AssertFailed struct{ Label string }

func Assume(c bool) {
	if !c {
		panic(AssumeFailed{})
	}
}

func Assert(c bool, label string) {
	if !c {
		panic(AssertFailed{label})
	}
}

func Cover(label string)      { Covered = append(Covered, label) }
func Unwind(n int)            {}
func MapOrders(on bool)       {}
func Bound(desc string)       {}
func InEngine() bool          { return false }
func Merge(pattern string)    {}
func NoMerge(on bool)         {}
func Observe(name string, v any) {}
func Stub(target string, replacement any) {}
func Freeze(p any)            {}
func Thaw()                   {}

// Thorough reports whether the thorough tier was requested.
func Thorough() bool { return os.Getenv("VX_TIER") == "thorough" }

// FailAt reports whether this is the k-th call with this name, k being the arbitrary input <name>.
func FailAt(name string) bool {
	load()
	if _, ok := failAtK[name]; !ok {
		failAtK[name] = val(name).Uint64()
	}
	c := failAtCnt[name]
	failAtCnt[name] = c + 1
	return uint64(c) == failAtK[name]
}

type TB interface {
	Fatalf(format string, args ...any)
	Logf(format string, args ...any)
}

// Replay runs a harness natively under the model in VX_REPLAY and reports the outcome on stdout
// as a line "VX-RESULT: <outcome>"; the test fails iff an assertion failed or the harness panicked.
func Replay(t TB, h func()) {
	outcome := "pass"
	func() {
		defer func() {
			if r := recover(); r != nil {
				switch e := r.(type) {
				case AssumeFailed:
					outcome = "assume-failed"
				case AssertFailed:
					outcome = "assert-failed:" + e.Label
				default:
					outcome = fmt.Sprintf("panic:%v", r)
				}
			}
		}()
		h()
	}()
	fmt.Printf("VX-RESULT: %s\n", outcome)
	fmt.Printf("VX-COVERED: %s\n", strings.Join(Covered, ","))
	if strings.HasPrefix(outcome, "assert-failed") || strings.HasPrefix(outcome, "panic") {
		t.Fatalf("VX replay: %s", outcome)
	}
}

// ---- 256-bit words for specifications (independent of the code under test) ----

// W256 is a 256-bit unsigned integer, little-endian 64-bit words. In the engine its operations
// are single SMT bit-vector operations; natively they are computed with math/big.
type W256 [4]uint64

func (a W256) big() *big.Int {
	r := new(big.Int)
	for i := 3; i >= 0; i-- {
		r.Lsh(r, 64)
		r.Or(r, new(big.Int).SetUint64(a[i]))
	}
	return r
}

func w256FromBig(v *big.Int) W256 {
	var r W256
	m := new(big.Int).SetUint64(^uint64(0))
	for i := 0; i < 4; i++ {
		r[i] = new(big.Int).And(new(big.Int).Rsh(v, uint(64*i)), m).Uint64()
	}
	return r
}

// W256Input is an arbitrary 256-bit value.
func W256Input(name string) W256 { return w256FromBig(val(name)) }

func W256From64(v uint64) W256 { return W256{v, 0, 0, 0} }

// W256FromBytes interprets 32 big-endian bytes.
func W256FromBytes(b [32]byte) W256 { return w256FromBig(new(big.Int).SetBytes(b[:])) }

func (a W256) Bytes() [32]byte {
	var out [32]byte
	a.big().FillBytes(out[:])
	return out
}
func (a W256) Shr(n uint) W256 { return w256FromBig(new(big.Int).Rsh(a.big(), n)) }
func (a W256) Shl(n uint) W256 { return w256FromBig(new(big.Int).Lsh(a.big(), n)) }
func (a W256) And(b W256) W256 { return W256{a[0] & b[0], a[1] & b[1], a[2] & b[2], a[3] & b[3]} }
func (a W256) Or(b W256) W256  { return W256{a[0] | b[0], a[1] | b[1], a[2] | b[2], a[3] | b[3]} }
func (a W256) Xor(b W256) W256 { return W256{a[0] ^ b[0], a[1] ^ b[1], a[2] ^ b[2], a[3] ^ b[3]} }
func (a W256) Eq(b W256) bool  { return a == b }
func (a W256) Lt(b W256) bool  { return a.big().Cmp(b.big()) < 0 }
func (a W256) IsZero() bool    { return a == W256{} }

// Bit returns bit i (0 = least significant); 0 for i >= 256.
func (a W256) Bit(i uint) uint8 {
	if i >= 256 {
		return 0
	}
	return uint8(a[i/64] >> (i % 64) & 1)
}

// W256Mask returns 2^n - 1 (all ones for n >= 256).
func W256Mask(n uint) W256 {
	if n >= 256 {
		return W256{^uint64(0), ^uint64(0), ^uint64(0), ^uint64(0)}
	}
	m := new(big.Int).Lsh(big.NewInt(1), n)
	return w256FromBig(m.Sub(m, big.NewInt(1)))
}

// BlobLens sets the range of encoded lengths the engine's opaque codec model uses for every
// Marshal/Encode (the engine forks over min..max). Natively a no-op (real CBOR decides).
func BlobLens(min, max int) {}

// BitLen returns the minimum number of bits needed to represent a (0 for zero).
func (a W256) BitLen() uint { return uint(a.big().BitLen()) }

// Concrete returns v; the engine forks the path over every feasible value of v (case split), so
// that code depending on it afterwards sees a constant. Natively the identity.
func Concrete(v uint64) uint64 { return v }

// NodeHashesSeparated is CollisionFree plus the Starknet node-hash domain separation: two different
// Pedersen/Poseidon outputs are never within 251 of each other, so H(a,b)+len (edge) cannot coincide
// with another node's hash. Engine only (ideal-hash assumption); natively a no-op.
func NodeHashesSeparated() {}

// Unhashed: part of the ideal-hash model. The free value *f (a pointer to a felt.Felt) is independent of
// every hash output computed on the path, before or after the call: it is neither such an output nor within
// 251 above one (node hashes are H or H+len). Natively a no-op: a value read from the replay file is what it is.
func Unhashed(f any) {}

// ---- engine model of context.WithCancel (natively the real context package is used) ----

type modelCtx struct {
	parent context.Context
	done   chan struct{}
	err    error
	kids   []*modelCtx
}

func (c *modelCtx) Deadline() (time.Time, bool) { return time.Time{}, false }
func (c *modelCtx) Done() <-chan struct{}        { return c.done }
func (c *modelCtx) Value(k any) any              { return c.parent.Value(k) }
func (c *modelCtx) Err() error {
	if c.err != nil {
		return c.err
	}
	return c.parent.Err()
}

func (c *modelCtx) cancel(err error) {
	if c.err != nil {
		return
	}
	if err == nil {
		err = context.Canceled
	}
	c.err = err
	close(c.done)
	for _, k := range c.kids {
		k.cancel(err)
	}
}

// ModelWithCancel is what the engine executes in place of context.WithCancel: a context with its own
// Done channel, cancelled by its cancel function or when its parent is cancelled.
func ModelWithCancel(parent context.Context) (context.Context, context.CancelFunc) {
	c := &modelCtx{parent: parent, done: make(chan struct{})}
	if p, ok := parent.(*modelCtx); ok {
		if p.err != nil {
			c.cancel(p.err)
		} else {
			p.kids = append(p.kids, c)
		}
	} else if pd := parent.Done(); pd != nil {
		go func() {
			<-pd
			c.cancel(parent.Err())
		}()
	}
	return c, func() { c.cancel(context.Canceled) }
}

// ---- engine models of timers (natively the real time package is used; these are never called) ----

// ArmTimer registers ch with the engine's logical clock: it receives a tick after d (periodically if
// periodic). Logical time only advances when every goroutine is blocked.
func ArmTimer(ch chan time.Time, d int64, periodic bool) {}

// SelectAny makes the engine explore every ready case of a select statement (Go picks one at random).
func SelectAny() {}

// Preemptions (engine only): from here on the running goroutine may be preempted, at most k times on a
// path, before a lock acquisition or an atomic operation and after a lock release, in favour of any other
// runnable goroutine; the engine explores every such schedule. Natively a no-op: the Go scheduler decides,
// so harnesses that depend on it are engine-only (//vx:noreplay).
func Preemptions(k int) {}

func ModelNewTimer(d time.Duration) *time.Timer {
	ch := make(chan time.Time, 1)
	ArmTimer(ch, int64(d), false)
	return &time.Timer{C: ch}
}

func ModelNewTicker(d time.Duration) *time.Ticker {
	ch := make(chan time.Time, 1)
	ArmTimer(ch, int64(d), true)
	return &time.Ticker{C: ch}
}

func ModelAfter(d time.Duration) <-chan time.Time { return ModelNewTimer(d).C }
func ModelTick(d time.Duration) <-chan time.Time  { return ModelNewTicker(d).C }

// RealPools makes the engine execute sourcegraph/conc worker pools from their source on the scheduler
// (by default a pool task runs to completion where it is submitted).
func RealPools() {}

// GoroutineID: in the engine, the id of the coroutine executing the call (0 = the harness itself). Used by
// engine-only harnesses to assert confinement ("this state is only ever touched from one goroutine"), the
// discipline that makes the single explored schedule representative. Natively 0.
func GoroutineID() int { return 0 }
