#!/usr/bin/env python3
"""Regenerates MANIFEST.json from claims.json (claimed properties) and properties.jsonl (the rest become not_applicable)."""
import json
props=[json.loads(l) for l in open('/verif/properties.jsonl')]
claims=json.load(open('/verif/claims.json'))
m={
 "version":1,
 "setup_cmd":"cd /verif/engine && GOFLAGS=-mod=mod GOPROXY=off go build -o /verif/bin/gosym .",
 "hooks":{"guard":"verif","enable":"none needed: harnesses are injected with go/packages overlays (engine) and go test -overlay (native replay); no file under /repo is modified by the checks","baseline_off_cmd":"cd /repo && GOFLAGS=-mod=mod go test -vet=off -count=1 -timeout 25m ./...","source_commits":[],"add_only":True},
 "engines":[{"name":"gosym","path":"/verif/engine","serves_properties":sorted(claims["claimed"]),"kind_free_text":"bounded symbolic interpreter for go/ssa over the real juno packages (loaded from /repo's working tree on every run); SMT (z3 5.1, z3 4.8.12, cvc5 1.0 incl. int-blasting) decides branch feasibility and every assertion; counterexamples and path witnesses are replayed natively with go test -overlay"}],
 "checks":[],
 "not_applicable":[],
 "notes":claims.get("notes","")
}
for pid in sorted(claims["claimed"]):
    c=claims["claimed"][pid]
    m["checks"].append({"property_id":pid,"quick_cmd":"./check %s --tier quick"%pid,"thorough_cmd":"./check %s --tier thorough"%pid,
      "evidence_file":"/verif/evidence/%s.json"%pid,"replay_cmd_template":"./check %s --replay {path}"%pid,"engine":"gosym",
      "level_claimed":{"category":"model_checking","text":"bounded symbolic execution of the real Go code (go/ssa) with SMT-decided assertions. "+c["text"],"design_ref":"DESIGN.md §5 "+pid},
      "level_note":c.get("note","bounded claim: bounds, stubs and assumptions are listed in the evidence file; trusted base: go/ssa, the gosym interpreter (validated per run by native replay of path witnesses), the SMT solvers"),
      "technique":"SMT-based bounded symbolic execution of go/ssa (gosym; z3 / cvc5), counterexamples replayed natively"})
for p in props:
    if p["id"] not in claims["claimed"]:
        m["not_applicable"].append({"property_id":p["id"],"reason":claims["not_applicable"].get(p["id"],"check not built yet (work in progress; DESIGN.md §8 build order)")})
json.dump(m,open('/verif/MANIFEST.json','w'),indent=1)
print("claimed:",sorted(claims["claimed"]))
