#!/bin/bash
# usage: run_thorough.sh <ids...> — runs the thorough tier of the given properties one after the other (scratch evidence), summary on stdout
cd "$(dirname "$0")"
(cd engine && GOFLAGS=-mod=mod GOPROXY=off go build -o ../bin/gosym .) || exit 2
for p in "$@"; do
  s=$(date +%s)
  VERIF_SCRATCH_EVIDENCE=1 ./check $p --tier thorough > thorough-$p.log 2>&1; rc=$?
  e=$(date +%s)
  echo "$p exit=$rc wall=$((e-s))s $(grep -E '^(check |INCONCLUSIVE|VIOLATION)' thorough-$p.log | tail -3 | cut -c1-200 | tr '\n' '|')"
done
echo THOROUGH-DONE
