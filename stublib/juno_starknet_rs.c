#include <stdlib.h>
void cairoVMCall(void){abort();}
void cairoVMExecute(void){abort();}
char* setVersionedConstants(char* s){(void)s; return 0;}
void freeString(char* s){(void)s;}
