#include <stdlib.h>
char compileSierraToCasm(char* a, char** b){(void)a;(void)b; abort(); return 0;}
void freeCstr(char* p){(void)p;}
